#!/usr/bin/env python3
"""seedstore.py <seed-out-dir> <NAME e.g. C22-2> <ID[:tier]>... : confirm a seeded change (seedverify), run the named checks
against it (mutate --patch) and, when confirmed and caught by at least one, store it under /verif/seeded/<NAME>/.
Prints STORED / NOT-STORED. Never touches /repo."""
import json, os, re, shutil, subprocess, sys, glob
src, name, ids = sys.argv[1], sys.argv[2], sys.argv[3:]
here = os.path.dirname(os.path.abspath(__file__))
vj = os.path.join(src, 'verify.json')
if not os.path.exists(vj) or '--reverify' in ids:
    ids = [i for i in ids if i != '--reverify']
    p = subprocess.run([os.path.join(here, 'seedverify.py'), src], stdout=subprocess.PIPE, stderr=subprocess.STDOUT, text=True)
    print(p.stdout[-600:])
ver = json.load(open(vj)) if os.path.exists(vj) else dict(confirmed=False)
p = subprocess.run([os.path.join(here, 'mutate.py'), '--patch', os.path.join(src, 'patch.diff')] + ids, stdout=subprocess.PIPE, stderr=subprocess.STDOUT, text=True)
caught, lines = {}, []
for l in p.stdout.splitlines():
    m = re.match(r'(C\d+) (CAUGHT|MISSED|INCONCLUSIVE) ?(.*)', l)
    if m:
        lines.append('%s %s' % (m.group(1), m.group(2)))
        print(l)
        if m.group(2) == 'CAUGHT':
            sig = re.search(r'signature: ([^;]+)', m.group(3))
            caught[m.group(1)] = sig.group(1).strip() if sig else ''
if not ver.get('confirmed') or not caught:
    print('NOT-STORED %s confirmed=%s caught=%s' % (name, ver.get('confirmed'), caught)); sys.exit(1)
dst = os.path.join('/verif/seeded', name)
os.makedirs(dst, exist_ok=True)
meta = json.load(open(os.path.join(src, 'meta.json')))
shutil.copy(os.path.join(src, 'patch.diff'), dst)
for f in glob.glob(os.path.join(src, '*.go')):
    shutil.copy(f, dst)
meta['demo_cmd'] = re.sub(r'cd /tmp/seed-C\d+\S*\s*&&\s*', '', meta.get('demo_cmd', ''))
meta['lead_verification'] = dict(confirmed_in_scratch_worktree=ver,
                                 checks_run='driver/mutate.py --patch patch.diff %s (quick unless :tier): %s' % (' '.join(ids), '; '.join(lines)),
                                 caught_by=caught, note='')
json.dump(meta, open(os.path.join(dst, 'meta.json'), 'w'), indent=1)
print('STORED', name, caught)
