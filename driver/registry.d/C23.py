CHECKS = [
    entry("C23", "router", level="fault_enumeration",
          technique="property-based testing (rapid) with enumerated injected faults: generated request sequences against a live Router + real InMemCollector, response/sink consistency oracle with a deterministic queue-full stall and sentinel flush",
          quick=dict(checks=500, budget_s=60),
          thorough=dict(checks=1200, shards=16, budget_s=450),
          level_text="Every ingestion endpoint (single event, batch, OTLP traces/logs over HTTP proto+JSON and gRPC) with enumerated faults (environment lookup 401/500/garbage/hang-up, missing key, truncated/garbled/empty/short-read bodies, bad gzip/zstd, wrong content type, non-array batch, invalid events, deterministic and burst queue-full) crossed with generated event mixes; one response per request, error => nothing forwarded or buffered, success => every valid event processed or individually reported, batch statuses consistent with what left the collector. Fault enumeration over the listed fault kinds; event mixes are explored, not exhausted.",
          level_note="Observation at the transmissions' enqueue calls behind the real collector (one worker); OTLP queue-full drops and span events/links are not judged; lateness of the sentinel flush makes a case inconclusive, never a violation."),
]
