CHECKS = [
    entry("C01", "collector", crashcap=True,
          technique="property-based testing (rapid): generated span/tick/reload/eject schedules on the real collector in a testing/synctest bubble; all-or-none oracle per trace with rename-and-retry",
          quick=dict(checks=700, budget_s=70),
          thorough=dict(checks=8000, shards=16, budget_s=540),
          level_text="Generated interleavings of span arrivals (root/child/event/link, late), send ticks, sampler reloads and memory ejections, for 1-5 workers and six sampler kinds, executed on the real InMemCollector under virtual time; per trace the forwarded set must be all-or-none. A third of the cases run with a tiny kept-decision capacity; a reference model of the per-worker kept LRU (recency bumped by decisions and late-span lookups, order preserved by the resize a reload performs) decides which decisions are still remembered, traces whose decision legitimately aged out are not judged. Exploration of schedules, not a proof.",
          level_note="Virtual time (testing/synctest) replaces the wall clock; upstream transmission replaced by a recording double; MockConfig supplies settings; premises of the statement (stable membership, no stress toggling, decision still remembered) hold by construction."),
]
