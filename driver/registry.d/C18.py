CHECKS = [
    entry("C18", "ledger",
          technique="property-based testing (rapid): model-based cluster histories on a controllable pubsub bus in a synctest bubble (bounded convergence oracle) + wire-format round trip vs reference map",
          quick=dict(checks=12000, budget_s=45),
          thorough=dict(checks=40000, shards=16, budget_s=450),
          level_text="Generated histories of node start / graceful stop / crash with delayed and reordered message delivery over 2-4 real RedisPubsubPeers on one harness bus and one virtual clock; after the stated bound and for a further TTL every running node's peer list must equal the running nodes. A quarter of the cases exercise the R/U wire format with generated addresses and ids against a reference map. Exploration: bounded liveness only, does not prove absence.",
          level_note="Redis itself and pubsub_goredis are replaced by the harness bus; no message loss for live nodes; refresh jitter (global math/rand) uncontrolled; list order not checked."),
]
