CHECKS = [
    entry("C14", "factory",
          technique="property-based testing (rapid): differential against an independent key-shape classifier and destination-name oracle written from the documents, plus reference evaluation of recognisable per-destination samplers on traces run through the real ingestion extraction and a real InMemCollector (synctest bubble)",
          quick=dict(checks=500, budget_s=45),
          thorough=dict(checks=6000, shards=16, budget_s=420),
          level_text="Generated (API key shape x environment/dataset names x DatasetPrefix x rules file) cases; checks key classification, the sampler key, the lookup with __default__ fallback, the ingestion-time field list, payload field access after each ingestion path, and end-to-end which sampler decided and whether it saw the fields it reads. Exploration over the generated key shapes and name alphabets (incl. unicode, spaces, names with leading/trailing dots, `.` and `..`, a name and its dotted twin both configured); does not prove absence.",
          level_note="The harness stands in for route.Router (environment lookup result is part of the case; spans are built like processEvent builds them) and hands spans to a real collector; HTTP/gRPC decoding is covered by the wire/router engines. Every non-empty key is judged (classic iff exactly one of the two published classic shapes; cross-checked against libhoney-go IsClassicKey); only the empty key is counted, not judged. Uses collect/verif_hooks.go VerifCheckTrace to read decisions of dropped traces."),
]
