CHECKS = [
    entry("C10", "samplers",
          technique="property-based testing (rapid): purity across calls / fresh instances / a separately started process, nesting in the rate, statistical kept fraction",
          quick=dict(checks=4000, budget_s=45),
          thorough=dict(checks=10000, shards=16, budget_s=300),
          level_text="Generated (trace-id list, rate list) for sample.DeterministicSampler and collect.StressRelief.GetSampleRate: every decision is repeated, re-made by a fresh instance and by a separately started process; nesting is checked over all drawn rate pairs; the kept fraction is measured on 40000 ids per rate in {2,3,10,100,10^4}. Exploration: finds impurity, non-nested thresholds, wrong reported rates and wrong kept fractions on the ids/rates the generator reaches; does not prove absence.",
          level_note="Hash and salt constants are not pinned. 'Every node' is approximated by two processes of the same binary on one machine (no cross-architecture or cross-version comparison)."),
]
