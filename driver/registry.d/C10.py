CHECKS = [
    entry("C10", "samplers",
          technique="property-based testing (rapid): purity across calls / fresh instances / a separately started process, nesting in the rate, statistical kept fraction",
          quick=dict(checks=4000, budget_s=45),
          thorough=dict(checks=10000, shards=16, budget_s=300),
          level_text="Generated (trace-id list, rate list) for sample.DeterministicSampler and collect.StressRelief.GetSampleRate: every decision is repeated, re-made by a fresh instance and by a separately started process; nesting is checked over all drawn rate pairs; the kept fraction is measured on 40000 ids per rate in {2,3,10,100,10^4}. Exploration: finds impurity, non-nested thresholds, wrong reported rates and wrong kept fractions on the ids/rates the generator reaches; does not prove absence. Also: stress-relief reload histories on one instance vs a fresh node; kept fraction on id families with long common prefixes/suffixes; single-byte sensitivity at positions up to 1024; an overlap step (real goroutines, parking logger) in which decisions taken during a rate-changing hot reload must be consistent with the rate reported with them.",
          level_note="Hash and salt constants are not pinned. 'Every node' is approximated by two processes of the same binary on one machine (no cross-architecture or cross-version comparison). The overlap step observes only the interleavings the parking logger opens (log calls inside UpdateFromConfig); how many reader calls return during a parked log call is reported as a class, never used for the verdict."),
]
