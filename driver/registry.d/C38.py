CHECKS = [
    entry("C38", "convertx",
          technique="property-based testing (rapid): generated v1 config/rules documents in TOML, YAML and JSON through the built convert binary, judged by the v2 loader and a per-setting expectation",
          quick=dict(checks=300, budget_s=40),
          thorough=dict(checks=1500, shards=16, budget_s=420),
          level_text="Generated v1 configs (1-40 settings of the converter's domain) and v1 rules files (five sampler types, rules, conditions, downstream samplers, seconds) in three input formats; each converted by the real binary, loaded by config.NewConfig and compared setting by setting. Exploration: finds settings that break, vanish or change for the value classes the generator reaches; does not prove absence.",
          level_note="Domain limited to v1 keys documented in config_complete.1.x.toml; helm conversion not covered; zero values and ${VAR} strings not generated; semantics of v1 values taken as identity apart from the documented unit changes."),
]
