CHECKS = [
    entry("C11", "samplers",
          technique="property-based testing (rapid): metamorphic relations on the sample key (permutation, duplication, distinct-value-sets normal form, unconfigured fields, separation of different value sets) + statistical keep frequency in a synctest bubble",
          quick=dict(checks=3000, budget_s=45),
          thorough=dict(checks=15000, shards=16, budget_s=300),
          level_text="Generated field lists and typed traces for the five dynsampler-backed samplers (created through sample.SamplerFactory): keys of related traces are compared with each other (equal under permutation / duplication / normal form / removal of unconfigured fields, different for separable value sets and for different lengths under UseTraceLength); rate >= 1; keep frequency 1/rate on 8000 decisions per trace after one virtual adjustment interval. Exploration: finds order-, co-occurrence- or noise-dependence of the key, collisions and wrong keep rates on the traces the generator reaches; does not prove absence. Trace members include span events / links; a trace keyed while it is being assembled (key, AddSpan, key) must get the key of the freshly assembled trace; float64 / int64 values around 2^24, 2^53 and beyond float32 range must separate.",
          level_note="Key strings are never re-computed. Look-alike values of different Go types (\"1\"/1/1.0) are not required to separate. wyhash collisions inside distinctValue are not searched for."),
]
