CHECKS = [
    entry("C29", "configx",
          technique="property-based testing (rapid): precedence/expansion reference model + metamorphic 'literal twin' differential through the real NewCmdEnvOptions/NewConfig startup path",
          quick=dict(checks=1600, budget_s=50),
          thorough=dict(checks=6000, shards=16, budget_s=300),
          level_text="Generated source combinations {flag, env (struct-tag and documented names), shared fallback, file1, file2, default} for every main-config setting with a cmdenv tag or a string/list/map type, with ${VAR} references (set/unset) in scalars, list elements and map values; effective getter values compared with a precedence/expansion model and with a literal single-file twin (same verdict, same getters). Exploration: does not prove absence.",
          level_note="Settings without an exported getter, deprecated settings, zero-valued flags/env vars and references inside flag/env values are out of scope; the relation 'specific env var vs shared flag' is treated as undecided by the statement."),
]
