CHECKS = [
    entry("C34", "ledger",
          technique="property-based testing (rapid): model-based histories with injected send outcomes vs a per-signal ledger; payloads decoded with pdata's JSON unmarshaler",
          quick=dict(checks=20000, budget_s=40),
          thorough=dict(checks=50000, shards=16, budget_s=400),
          level_text="Generated histories of counter growth, health-loop samplings and usage-report attempts with scripted send outcomes (accepted, pending then accepted, pending then rejected, rejected; growth while a send is in flight) run through the agent's real sendUsageReport and usageTracker; after every accepted report the ledger of delivered usage must equal the sampled growth. Exploration: does not prove absence.",
          level_note="Agent tickers and the real OpAMP websocket client are not driven (hook file agent/verif_hooks_c34.go builds the Agent literal the way agent_test.go does); acceptance by SendCustomMessage is taken as delivery."),
]
