CHECKS = [
    entry("C31", "timing",
          technique="property-based testing (rapid): model-based stateful histories against the real cuckoo sent cache on virtual time (testing/synctest); reference LRU + conservative two-generation filter reference; rename-and-retry for filter false positives",
          quick=dict(checks=2500, budget_s=60),
          thorough=dict(checks=20000, shards=16, budget_s=480),
          level_text="Generated record/lookup/resize/advance histories with small kept capacities (evictions, recency bumps by lookups, shrinking resizes), ids recorded both kept and dropped, bulk drops aimed at the filter's 0.5 / 0.85 / 0.99 load thresholds so that generations are created and rotated. Exploration: finds wrong answers on the histories reached; does not prove absence.",
          level_note="Trusts testing/synctest virtual time. Dropped-side claims are deliberately conservative (only below 0.85 modelled load; rotation instants taken from the cache's own load-factor gauge); add-queue overflow is excluded by construction; false positives are handled by re-salting ids; concurrent callers are not explored."),
]
