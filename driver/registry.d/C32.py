CHECKS = [
    entry("C32", "small",
          technique="property-based testing (rapid): model-based stateful histories vs reference TTL model under a fake clock",
          quick=dict(checks=30000, budget_s=30),
          thorough=dict(checks=50000, shards=16, budget_s=300),
          level_text="Generated add/remove/advance/query histories aimed at exact expiry instants, every query kind compared with a reference model after every step. Exploration: finds disagreement between query kinds at any instant the generator reaches; does not prove absence.",
          level_note="Trusts clockwork.FakeClock; containers are driven through their exported API only; concurrency of the containers is not explored here."),
]
