CHECKS = [
    entry("C13", "factory",
          technique="property-based testing (rapid): model-based stateful histories (peer-count changes via MockPeers callbacks, lazy sampler creation by several workers, real config reloads) against the closed-form oracle max(1, floor(goal/peers)) / goal, checked on every live throughput dynsampler after every step",
          quick=dict(checks=1500, budget_s=40),
          thorough=dict(checks=15000, shards=16, budget_s=400),
          level_text="Generated rules files x histories of SetPeers/Create/Reload/overlapping notifications; after every step the goal in force on every live throughput dynsampler (all three throughput sampler types, top-level and rule-downstream, with and without UseClusterSize) is compared with the statement's formula. Exploration: finds wrong goals for the histories and goal/peer combinations the generator reaches (goals 1..1000, peers 1..200, aimed at goal<peers and non-divisible pairs); does not prove absence.",
          level_note="GoalThroughputPerSec is read through sample/verif_hooks_c12.go (build tag verif). Definitions colliding under the known C12 finding (registry key ignores UseClusterSize) are excluded by construction. Peer lists are never empty; peer-count changes arrive through callbacks only. Besides sequential steps, overlap steps hold one notification/creation right after it has read the membership (Peers test double) while the membership changes again and the next notification runs; only that interleaving is forced, verdicts come from the goals after all calls have finished."),
]
