CHECKS = [
    entry("C36", "collector", level="fault_enumeration", crashcap=True,
          technique="property-based testing (rapid): generated ingestion histories with Stop injected at generated crash points, real collector in a testing/synctest bubble (goroutine-leak detector)",
          quick=dict(checks=700, budget_s=70),
          thorough=dict(checks=8000, shards=16, budget_s=540),
          level_text="Shutdown is injected after every kind of generated history prefix; after Stop returns every buffered trace must have been decided, kept ones forwarded, no panic and no goroutine left blocked (the synctest bubble refuses to end otherwise). The upstream double can be slow (virtual per-span delay), so decided traces may still be queued for sending and accepted spans may still wait in a worker queue when Stop is called; buffer and queue contents are read while every goroutine is durably blocked. Fault/crash-point enumeration over generated histories.",
          level_note="Collector-level: transmission is a recording double (real transmission flush is C26); the agent/OpAMP and router shutdown order of cmd/refinery/main.go is not driven here."),
]
