CHECKS = [
    entry("C06", "collector", crashcap=True,
          technique="property-based testing (rapid): generated span/reload histories on the real collector under virtual time; reference model of decoration and root counts per forwarded span",
          quick=dict(checks=700, budget_s=70),
          thorough=dict(checks=8000, shards=16, budget_s=540),
          level_text="Generated histories of spans (all annotation kinds, late roots, stress path) and reloads of the five decoration options; each forwarded span is compared with the settings in force when it was forwarded and with reference span counts. Exploration.",
          level_note="Virtual time via testing/synctest; MockConfig mutated + Reload() stands for a config reload; hostname compared with os.Hostname()."),
]
