CHECKS = [
    entry("C20", "wire",
          technique="property-based testing (rapid): round trip of generated JSON/msgpack payloads through a real Router, a collector stand-in using the exported Payload API, and a real DirectTransmission; forwarded batches decoded by an independent msgpack decoder and compared as typed values",
          quick=dict(checks=10000, budget_s=45),
          thorough=dict(checks=30000, shards=16, budget_s=420),
          level_text="Generated payload maps (nested values, every msgpack scalar wire form, binary keys, sampling-key / ID / reserved look-alike key names) through JSON event, msgpack event, JSON batch, msgpack batch, with and without memoization, with and without a peer hop, posted by a real DirectTransmission to a fake Honeycomb; every non-reserved client field compared by type and value, additions limited to reserved meta.* names and configured attributes. A concurrent sub-mode (2/4/8 client goroutines x 40 rounds of same-shaped requests, matched by unique id) reaches state shared between requests. Exploration: finds deviations for generated shapes; does not prove absence.",
          level_note="The real InMemCollector is replaced by a stand-in that performs the same exported Payload calls; OTLP ingestion is not covered here (husky owns that translation). Bulk payloads are limited to 2100 fields (thorough)."),
]
