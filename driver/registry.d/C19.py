CHECKS = [
    entry("C19", "router",
          technique="property-based testing (rapid): generated event batches through a live Router with recording sinks; partition oracle (each uniquely tagged event in exactly the one sink its class prescribes) plus attribute preservation on forwarded copies",
          quick=dict(checks=1500, budget_s=50),
          thorough=dict(checks=5000, shards=16, budget_s=420),
          level_text="Generated requests on /1/events and /1/batch (JSON/msgpack, gzip/zstd, both listeners, stressed or not, own/foreign/absent/empty trace ids, probes, dataset names with '+', encoded and reserved characters) against a fresh Router per case with recording transmissions, collector and stub sharder; exactly-one-route partition and attribute equality (key, dataset, rate, timestamp, fields) at every sink, for a third of the cases also across a real DirectTransmission hop into a second node's peer listener. Exploration: does not prove absence.",
          level_note="Collector and sharder are recording doubles; transmissions are recording doubles except the peer hop cases (real DirectTransmission -> second Router); OTLP endpoints are not driven here; probe-to-owner under stress is tolerated (C16); lateness makes the case inconclusive."),
]
