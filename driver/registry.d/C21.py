CHECKS = [
    entry("C21", "wire",
          technique="property-based testing (rapid): generated ID-field constellations through a real Router on loopback in every Honeycomb ingestion encoding (+ peer hop), judged by a reference function written from the statement",
          quick=dict(checks=2500, budget_s=45),
          thorough=dict(checks=30000, shards=16, budget_s=400),
          level_text="Generated events with any subset/order/typing of meta.trace_id, configured and look-alike trace-ID/parent-ID fields and meta.signal_type, sent as JSON event, msgpack event, JSON batch, msgpack batch (optionally compressed, optionally via a peer hop through a real DirectTransmission); collector TraceID/IsRoot and routing compared with a reference function. Exploration: finds deviations for the constellations the generator reaches; does not prove absence.",
          level_note="MockConfig supplies TraceNames/ParentNames (plain getters in the file config). OTLP ingestion is not driven here (husky fixes the ID field names). Events with >=2 ID fields are repeated 40x on the map-decoding paths; a deviation rarer than ~1/8 per send may still be missed in one execution."),
]
