CHECKS = [
    entry("C28", "auth",
          technique="fuzzing driven by rapid: structure-aware generation of config/rules files from refinery's metadata + mutational request fuzzing, SUT in a child process, validity oracle (no panic, no termination, answers, still healthy)",
          quick=dict(checks=1500, budget_s=50),
          thorough=dict(checks=4000, shards=16, budget_s=480),
          level_text="Config mode: files generated from configMeta.yaml/rulesMeta.yaml (valid, near-valid, junk); every file config.NewConfig accepts is used as refinery uses it (all Config getters, lookups, Reload, /query marshalling, every sampler built by SamplerFactory and run on traces). Request mode: mutated bodies/headers/compression on every HTTP route of the incoming and peer listeners and on the gRPC services of a live Router. The refinery side runs in a child process so fatal crashes are observed; every verdict is reproduced on a fresh child before it is reported. Exploration: finds crashes the generators reach; does not prove absence.",
          level_note="Collector start-up under fuzzed Collection/Traces values, redis/peer traffic beyond the peer HTTP listener, and HTTP framing errors handled by net/http are not exercised. A reply missing within the deadline is inconclusive (a true hang is not told apart from a slow machine). Panics inside validation itself are counted (validator_panics) but lie outside the statement."),
]
