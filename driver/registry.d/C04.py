CHECKS = [
    entry("C04", "collector", crashcap=True,
          technique="property-based testing (rapid): generated schedules on the real collector under virtual time; reference rate/marker model over forwarded spans",
          quick=dict(checks=700, budget_s=70),
          thorough=dict(checks=8000, shards=16, budget_s=540),
          level_text="Generated client rates x sampler kinds x paths (on-time, late, stress relief) on the real collector; every forwarded span's SampleRate and meta rate fields are checked against the composition rule. Exploration.",
          level_note="Virtual time via testing/synctest; recording transmission double; MockConfig settings."),
]
