CHECKS = [
    entry("C08", "samplers",
          technique="property-based testing (rapid): differential against an independent three-valued interpreter of rules.md / rules_conditions.md; exhaustive one-span operator x datatype x value grid in the replay tier",
          quick=dict(checks=8000, budget_s=45),
          thorough=dict(checks=40000, shards=16, budget_s=300),
          level_text="Generated rules files (validated like refinery validates them) and typed traces; the rule RulesBasedSampler applies, its rate and its keep decision are compared with an interpreter written from the documents; disagreements are attributed to single conditions and signed (operator, datatype, presence). The finite grid 15 operators x 5 datatypes x 22 Value forms x 2 scopes x 19 span values on one-span traces is enumerated exhaustively on every run (exhaustive for that sub-domain only). Exploration otherwise: does not prove absence. Sub-generators aim at Fields lists mixing span-level and root. names, numeric thresholds (fractional Value vs integer span values, untyped), and ?.NUM_DESCENDANTS on traces containing span events / links; multi-span traces are also evaluated once while being assembled (evaluate, AddSpan, evaluate).",
          level_note="Corners the documents leave open or contradict evaluate to don't-care and are counted, not asserted (listed in the evidence assumptions). CheckNestedFields and meta.* fields are out of scope. Untyped integer-vs-fractional-float comparisons are asserted as numeric comparisons (7 < 7.5)."),
]
