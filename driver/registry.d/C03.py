CHECKS = [
    entry("C03", "collector", crashcap=True,
          technique="property-based testing (rapid): generated arrival/tick schedules under virtual time (testing/synctest) vs a reference deadline/tick model",
          quick=dict(checks=500, budget_s=70),
          thorough=dict(checks=8000, shards=16, budget_s=540),
          level_text="Generated arrival times aimed at deadline/tick ties with generated timing settings; the observed decision instants and send reasons are validated against a reference model of deadlines and the per-tick cap. Exploration of schedules and configurations.",
          level_note="Virtual time via testing/synctest; keep-all sampler so every decision is visible at the recording transmission; worker ownership read through a verif-tagged accessor."),
]
