CHECKS = [
    entry("C27", "configx",
          technique="property-based testing (rapid): stateful file/trigger histories against the real fileConfig + ConfigWatcher + LocalPubSub in a synctest bubble; differential oracle = fresh NewConfig on the same files; barrier-released concurrent triggers",
          quick=dict(checks=150, budget_s=50),
          thorough=dict(checks=1500, shards=16, budget_s=300),
          level_text="Generated histories of config/rules file states (unchanged, valid, comment-only, warning-only, invalid, unparsable, missing) and reload triggers (real ticker on virtual time, direct Reload, pubsub message, storms of 2-8 barrier-released concurrent triggers x20 iterations, forced overlap of two reloads that read different contents); after every trigger getters, hashes and listener call counts are compared with a fresh startup on the same files. Exploration; the storm part is schedule-dependent and only reports what it observes.",
          level_note="One config file and one rules file on local disk (no URLs, no OpAMP remote config); the ticker path is exercised on virtual time; a no-op ReloadedConfigDataOption is used as scheduling point inside Reload."),
]
