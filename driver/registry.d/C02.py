CHECKS = [
    entry("C02", "collector", crashcap=True,
          technique="property-based testing (rapid): generated schedules on the real collector in a synctest bubble; exactly-once / never ledger over span uids and bounded eventual decision",
          quick=dict(checks=700, budget_s=70),
          thorough=dict(checks=8000, shards=16, budget_s=540),
          level_text="Same generated schedules as C01 judged as a ledger: every accepted span uid is forwarded exactly once iff its trace was kept, never otherwise, nothing invented, and every trace is decided exactly once by a bounded horizon. Exploration.",
          level_note="'Eventually' is checked in bounded form (drain horizon). Decisions are read from the worker's decision cache through a verif-tagged accessor; transmission is a recording double."),
]
