CHECKS = [
    entry("C09", "wire",
          technique="property-based testing (rapid), metamorphic: the same logical trace built through a real Router in two ways (canonical JSON batch vs permuted spans in mixed ingestion encodings and numeric wire types) must get the same sampler outcome from real samplers created by SamplerFactory from a validated rules file; differences are attributed by single-deviation rebuilds",
          quick=dict(checks=6000, budget_s=45),
          thorough=dict(checks=40000, shards=16, budget_s=420),
          level_text="Generated traces and sampler configurations (rules with all comparison/string/list operators and datatypes, downstream and top-level DynamicSampler keys incl. root.-prefixed fields) with per-span ingestion path (JSON event/batch, msgpack event/batch, peer hop) and per-number wire form (JSON literal variants, msgpack fixint/int8..64/uint8..64/float32/64), any span order; (rate, reason, key, deterministic keep) compared with the canonical all-JSON build. Exploration: finds encoding/order dependence for generated combinations; does not prove absence.",
          level_note="OTLP ingestion is not driven (husky adds its own fields, so field names differ by construction). The trace is assembled like the collector worker does, not by the InMemCollector itself. Keep is compared only when no coin rule (SampleRate>1) exists."),
]
