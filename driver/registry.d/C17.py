CHECKS = [
    entry("C17", "cluster",
          technique="property-based testing (rapid): metamorphic relation over peer-list permutations (exhaustive for n<=5) on the real DeterministicSharder; in-process multi-node cluster of real refinery apps",
          quick=dict(checks=1500, budget_s=45),
          thorough=dict(checks=6000, shards=16, budget_s=420),
          level_text="Generated peer lists (1..12 URLs) x all permutations (n<=5; sampled above) x every member as own address x generated trace ids: owner identical and a member. Exploration; the permutation dimension is exhaustive for n<=5 per generated list.",
          level_note="Function level uses MockPeers as membership source."),
]
