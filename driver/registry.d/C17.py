CHECKS = [
    entry("C17", "cluster",
          technique="property-based testing (rapid): metamorphic relation over peer-list permutations (exhaustive for n<=5) on the real DeterministicSharder; in-process 2-3 node cluster of real refinery apps judged against a harness-owned reference sharder",
          quick=dict(checks=1500, budget_s=45),
          thorough=dict(checks=6000, shards=16, budget_s=420),
          level_text="Generated peer lists (1..12 URLs) x all permutations (n<=5; sampled above) x every member as own address x generated trace ids, plus the FilePeers shape list+[self] and the start-then-UpdatePeers path: owner identical and a member, MyShard().Equals(owner) exactly on the owner. About 1 case in 60 (quick) / 1 in 13 (thorough) is a 2-3 node in-process cluster (FilePeers on loopback, per-node file orders, real routers/collectors/peer transmissions): every accepted span comes out upstream exactly once, on the reference owner, after <=1 peer hand-over, never addressed to the forwarding node. Exploration; the permutation dimension is exhaustive for n<=5 per generated list.",
          level_note="Function level uses MockPeers as membership source. Cluster part is wall-clock based: spans not seen by the deadline, port collisions between parallel shards (detected through a per-case version tag) and peer send retries make a case inconclusive, never a violation. Lists that differ in the multiplicity of an address (list vs list+[self]) are counted as don't-care: the partition count follows the list length."),
]
