CHECKS = [
    entry("C24", "auth",
          technique="property-based testing (rapid) + exhaustively enumerated decision table: differential against an oracle table written from config.md, observed end-to-end at a fake Honeycomb",
          quick=dict(checks=500, budget_s=45),
          thorough=dict(checks=4000, shards=16, budget_s=420),
          level_text="Real incoming Router (HTTP and gRPC listeners) with real config.NewConfig semantics, real DirectTransmission, fake Honeycomb recording X-Honeycomb-Team and serving /1/auth key ids. The 756-row table SendKeyMode x AcceptOnlyListedKeys x SendKey{set,unset} x key class x 7 endpoints is enumerated exhaustively on every run (replay tier, coverage key exhaustive_table_rows); on top, rapid-generated key strings, overlapping lists, near-miss keys/ids, header and encoding variants. Exploration beyond the table: does not prove absence.",
          level_note="The lookup service is scripted per request (401, 4xx with JSON body, 5xx, hang-up, garbage); requests served while it fails are not judged, requests served while it is healthy must follow the tables whatever failed before (24 hand-kept histories + generated ones). The collector is a pass-through double (spans are forwarded to the real upstream transmission with the key the router assigned); peers, stress relief and environment-lookup failures are out of scope here. 'Listed' is read as ReceiveKeys or ReceiveKeyIDs; unlisted-mode with a blank key is treated as undocumented."),
]
