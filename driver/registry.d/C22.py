CHECKS = [
    entry("C22", "wire",
          technique="property-based testing (rapid): generated instants in every timestamp format the statement lists, through a real Router and a real DirectTransmission, read back from the batch a fake Honeycomb receives (independent msgpack decoder); nanosecond equality",
          quick=dict(checks=9000, budget_s=50),
          thorough=dict(checks=40000, shards=16, budget_s=420),
          level_text="Generated instants 2001..2286 at s/ms/us/ns resolution as RFC 3339 (0-9 fraction digits, offsets), 10/13/16/19-digit epoch (event-time header, JSON batch time) and msgpack timestamp 32/64/96 (msgpack batch time), via single JSON/msgpack events and JSON/msgpack batches, direct or through the collector stand-in, optionally a peer hop; forwarded time compared to the nanosecond. A concurrent sub-mode (2/4/8 client goroutines x 60 rounds of same-shaped requests, matched by unique id) reaches state shared between requests. Exploration: finds deviations for generated instants; does not prove absence.",
          level_note="Float epochs and OTLP timestamps are outside the statement and not generated. The real InMemCollector is replaced by a stand-in (it does not touch Event.Timestamp)."),
]
