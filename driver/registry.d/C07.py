CHECKS = [
    entry("C07", "collector", crashcap=True,
          technique="property-based testing (rapid): generated buffer contents and ejection points on the real collector under virtual time; dominance/sufficiency/minimality oracle",
          quick=dict(checks=700, budget_s=70),
          thorough=dict(checks=8000, shards=16, budget_s=540),
          level_text="Generated buffer contents (sizes, ages, counts) and overage amounts, ejection at arbitrary lifecycle points; the ejected set is judged by a formula-agnostic dominance order plus sufficiency and minimality, and every ejected trace must be decided, forwarded/dropped and removed. Exploration.",
          level_note="Ejection is injected through a verif-tagged hook sending the same sendEarly message as checkAlloc; heap readings are not simulated. Virtual time via testing/synctest."),
]
