CHECKS = [
    entry("C30", "timing",
          technique="property-based testing (rapid): model-based stateful histories against the real health.Health on virtual time (testing/synctest), one-directional oracle with one-tick slack",
          quick=dict(checks=20000, budget_s=40),
          thorough=dict(checks=150000, shards=16, budget_s=400),
          level_text="Generated Register/Unregister/Ready/advance histories with advances aimed at timeout-tick, timeout, timeout+tick (+-1 ns) and at tick boundaries; IsAlive/IsReady after every step are compared with a reference model of report instants. Exploration: finds liveness/readiness answers outside the stated one-tick slack on any history the generator reaches; does not prove absence.",
          level_note="Trusts testing/synctest virtual time; /alive and /ready HTTP handlers are not exercised here (router engine); concurrent callers are not explored."),
]
