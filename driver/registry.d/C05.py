CHECKS = [
    entry("C05", "collector", crashcap=True,
          technique="property-based testing (rapid): generated schedules on the real collector under virtual time; reference rate/marker model over forwarded spans",
          quick=dict(checks=700, budget_s=70),
          thorough=dict(checks=8000, shards=16, budget_s=540),
          level_text="Generated schedules with DryRun on from the start or switched by reloads (it is a reloadable option); each span is judged by the setting in force when it was forwarded: every accepted span must be forwarded once with the client's rate and a consistent would-be decision marker that matches the recorded and (where predictable) the sampler's decision. Exploration.",
          level_note="Virtual time via testing/synctest; recording transmission double; MockConfig settings."),
]
