CHECKS = [
    entry("C25", "router",
          technique="property-based testing (rapid): generated token/endpoint/format matrices against a live Router on loopback, judged by a reference authorisation predicate plus planted leak markers",
          quick=dict(checks=2000, budget_s=45),
          thorough=dict(checks=6000, shards=16, budget_s=400),
          level_text="Generated request sets (all /query/ endpoints and formats, both listeners, header-name spellings, tokens derived from the configured one: absent/empty/blank/prefix/extension/case/whitespace/exact) against a fresh Router per case; 200+data iff configured non-empty token equals the presented field value, else error status and no planted marker in the raw response. Exploration: does not prove absence.",
          level_note="MockConfig supplies the token, sampler rules and metadata; leaks are detected via marker strings only; wall-clock lateness makes a request inconclusive, never a violation."),
]
