CHECKS = [
    entry("C37", "router",
          technique="property-based testing (rapid): round trip through the live proxy handler between a raw HTTP client and a scripted fake Honeycomb API, compared on both sides",
          quick=dict(checks=1200, budget_s=50),
          thorough=dict(checks=5000, shards=16, budget_s=420),
          level_text="Generated requests (7 methods, 20 unhandled path templates with encoded segments, raw queries, multi-valued headers, client X-Forwarded-For lines, bodies up to 64 KiB and rarely ~5 MB, chunked, gzip/zstd-encoded or merely labelled so) and scripted upstream answers (status incl. 3xx, multi-valued headers, binary and gzip bodies) through a fresh Router per case; both sides compared value by value. Exploration: does not prove absence.",
          level_note="Header equality uses HTTP list semantics; transport artefacts (default User-Agent, Accept-Encoding, Date, CORS header) are allowed additions; hop-by-hop headers, Set-Cookie and unclean paths are outside the generator; lateness is inconclusive."),
]
