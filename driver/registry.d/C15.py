CHECKS = [
    entry("C15", "timing",
          technique="property-based testing (rapid): model-based stateful histories against the real StressRelief with harness-owned clock and recalculation, reference hysteresis automaton + exact integer rms",
          quick=dict(checks=15000, budget_s=45),
          thorough=dict(checks=150000, shards=16, budget_s=400),
          level_text="Generated histories of queue/memory readings, peer reports (incl. expiry at the exact instant +-1 ns), clock advances aimed at the hold deadline, and mode/threshold/duration reloads; after every recalculation stress_level and Stressed() are compared with the automaton of the statement. Exploration: finds deviations on the histories reached; does not prove absence.",
          level_note="Trusts clockwork.FakeClock; Recalc is driven by the harness, not by the 100 ms ticker; the own level is taken from Recalc() (formula from readings to own level is not asserted); hold deadline after a mid-episode reload is treated as don't-care; redis pubsub transport is replaced by a synchronous double."),
]
