CHECKS = [
    entry("C12", "factory",
          technique="property-based testing (rapid): generated rules files loaded through the real config loader, histories of lazy sampler creation by several workers and real reloads; pairwise identity of the dynsampler instances behind every sampler vs an oracle built from full-definition equality",
          quick=dict(checks=1500, budget_s=40),
          thorough=dict(checks=15000, shards=16, budget_s=400),
          level_text="Generated rules files x creation/reload histories; after every step every pair of live rate-tracking instances is compared with the oracle (same destination+position => shared by all workers; other destination or different definition => not shared), plus the unique_dynsampler_count gauge as a hook-free cross-check. Exploration: finds sharing/isolation errors for the definition pairs and histories the generator reaches; does not prove absence.",
          level_note="Instance identity is read through sample/verif_hooks_c12.go (build tag verif). Worker caches and the reload sequence are re-implemented in the harness from collect/collector_worker.go and collect.reloadConfigs and run sequentially; concurrent creation is left to C35."),
]
