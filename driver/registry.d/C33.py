CHECKS = [
    entry("C33", "ledger",
          technique="property-based testing (rapid): model-based stateful histories vs plain-map reference; concurrent scripts with commutative-sum and monotonicity oracle",
          quick=dict(checks=15000, budget_s=45),
          thorough=dict(checks=30000, shards=16, budget_s=400),
          race="thorough",
          level_text="Generated Register/Increment/Count/Gauge/Up/Down/Store histories (incl. re-registration through a real DeterministicSampler.Start) on a real MultiMetrics with and without a real PromMetrics child, Get() of every name compared with a reference after every step; a quarter of the cases add a concurrent phase (2-8 goroutines, barrier, poller). Exploration: does not prove absence.",
          level_note="Concurrent sub-check depends on the scheduler reaching an interleaving; OTelMetrics child not attached; one kind per metric name."),
]
