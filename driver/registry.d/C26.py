CHECKS = [
    entry("C26", "transmitx",
          technique="property-based testing (rapid): generated event streams and scripted server fault sequences against the real DirectTransmission in a synctest bubble (virtual time, in-memory net.Pipe network); oracle = independent msgpack decoding of what the servers received + reference accounting",
          quick=dict(checks=2000, budget_s=45),
          thorough=dict(checks=6000, shards=16, budget_s=420),
          level_text="Generated enqueue schedules (aimed at the stale-dispatch ticker grid), destinations, event sizes around the 1 MB and 5 MB limits and per-batch scripted answers (per-event errors, short/undecodable bodies, 4xx/5xx, 429/503 with many Retry-After forms, time-outs, slow answers, hang-ups, dead hosts). Every request the fake servers received is decoded independently and each event is accounted for: one batch, own host/key/dataset, limits, at most two attempts, dispatch within 1.25 x BatchTimeout in exact virtual time, flush on Stop, queued_items back to zero. Exploration: does not prove absence.",
          level_note="Trusts testing/synctest virtual time and net.Pipe in place of the wall clock and TCP; events are enqueued from one goroutine (concurrent enqueue is C35's subject); the 5 MB bound is judged on the uncompressed body; requests to a destination that received a delaying answer are excused from the timing bound."),
]
