CHECKS = [
    entry("C35", "racex", race=True,
          technique="property-based testing (rapid) of concurrent scenarios under the Go race detector: generated actor scripts against the full injected app in a -race child process, reports normalised to frame-pair signatures",
          quick=dict(checks=12, budget_s=80, timeout_s=900),
          thorough=dict(checks=40, shards=16, budget_s=540, timeout_s=1800),
          level_text="Generated scenarios of 6-10 concurrent looping actors (ingest on all HTTP endpoints for own/foreign traces, peer ingest, queries, health, config/rules reloads, stress-mode flips, membership churn, metrics reads, forced eviction, Stop) against the real app; half of the scenarios are drop-heavy with tiny SampleCache.DroppedSize/KeptSize and producers of distinct short traces so that the cuckoo/LRU maintenance paths (future filter at 50% load, cycling, eviction, SetNextCapacity/Resize on reload) run under traffic (class histogram counts how often); oracle = no race-detector report with a refinery frame. Exploration: the detector only sees interleavings that occur.",
          level_note="Child process per scenario; schedules are not reproducible, --replay re-runs the stored scenario up to 8 times. gRPC and Redis peers are not driven."),
]
