#!/usr/bin/env python3
"""seedverify.py <seed-out-dir> : confirm a seeded change in a fresh scratch worktree of /repo HEAD:
 demo passes without the patch, fails with it; the existing tests of the touched packages pass with it."""
import json, os, subprocess, sys, shutil, tempfile, glob
src = sys.argv[1]
meta = json.load(open(os.path.join(src, 'meta.json')))
env = dict(os.environ, GOFLAGS='-mod=mod', GOPROXY='off', GOSUMDB='off', GOTOOLCHAIN='local')
env['PATH'] = '/root/go/pkg/mod/golang.org/toolchain@v0.0.1-go1.25.0.linux-amd64/bin:' + env['PATH']
wt = tempfile.mkdtemp(prefix='sv-', dir='/tmp'); os.rmdir(wt)
subprocess.check_call(['git', '-C', '/repo', 'worktree', 'add', '-q', wt, 'HEAD'])
def sh(cmd, timeout=1500):
    p = subprocess.run(cmd, shell=True, cwd=wt, env=env, stdout=subprocess.PIPE, stderr=subprocess.STDOUT, text=True, timeout=timeout)
    return p.returncode, p.stdout
try:
    demo_rel = meta['demo_file']
    demo_src = None
    for c in [os.path.join(src, os.path.basename(demo_rel))] + glob.glob(os.path.join(src, '*_test.go')) + glob.glob(os.path.join(src, '*.go')):
        if os.path.isfile(c):
            demo_src = c; break
    os.makedirs(os.path.dirname(os.path.join(wt, demo_rel)), exist_ok=True)
    shutil.copy(demo_src, os.path.join(wt, demo_rel))
    import re
    cmd = re.sub(r'/tmp/seed-C\d+(?![-\w])', wt, meta['demo_cmd'])
    rc0, out0 = sh(cmd)
    print('demo without patch: rc=%d' % rc0)
    rc, o = sh('git apply %s' % os.path.join(os.path.abspath(src), 'patch.diff'))
    if rc != 0:
        print('PATCH DOES NOT APPLY', o); sys.exit(2)
    rc1, out1 = sh(cmd)
    print('demo with patch:    rc=%d' % rc1)
    os.remove(os.path.join(wt, demo_rel))
    pkgs = sorted({'./' + os.path.dirname(f) + '/' for f in meta.get('files_touched', [])})
    # TestOriginalSampleRateIsNotedInMetaField is listed as flaky in /root/.vp/BASELINE.json
    rc2, out2 = sh("go build ./... && go test -count=1 -skip 'TestOriginalSampleRateIsNotedInMetaField' " + ' '.join(pkgs))
    print('existing tests of %s with patch: rc=%d' % (pkgs, rc2))
    if rc2 != 0:
        print(out2[-1500:])
    ok = rc0 == 0 and rc1 != 0 and rc2 == 0
    print('SEED', 'CONFIRMED' if ok else 'NOT CONFIRMED')
    if rc0 != 0: print(out0[-1500:])
    json.dump(dict(demo_without_patch_rc=rc0, demo_with_patch_rc=rc1, existing_tests_rc=rc2, packages=pkgs, confirmed=ok), open(os.path.join(src, 'verify.json'), 'w'), indent=1)
finally:
    subprocess.call(['git', '-C', '/repo', 'worktree', 'remove', '--force', wt])
