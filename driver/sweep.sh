#!/bin/bash
# usage: driver/sweep.sh [tier] [ids...]   runs the registered checks one after another and prints one line each
cd "$(dirname "$0")/.."
tier=${1:-quick}; shift
ids="$@"
[ -z "$ids" ] && ids=$(python3 -c "
import sys; sys.path.insert(0,'driver'); import registry
print(' '.join(c['id'] for c in registry.CHECKS))")
mkdir -p /tmp/verif-sweep
for id in $ids; do
  s=$(date +%s); ./check $id --tier $tier > /tmp/verif-sweep/$id.$tier.log 2>&1; rc=$?; e=$(date +%s)
  echo "$id exit=$rc wall=$((e-s))s known=$(grep -c KNOWN-FINDING /tmp/verif-sweep/$id.$tier.log) viol=$(grep -c '^VIOLATION' /tmp/verif-sweep/$id.$tier.log) $(grep -m1 evaluations= /tmp/verif-sweep/$id.$tier.log | sed 's/.*evaluations=/evaluations=/')"
done
