#!/usr/bin/env python3
"""seedregress.py [-j N] [names...] : run every stored seed (seeded/<name>/patch.diff) against the checks recorded in its
meta.json (lead_verification.caught_by) on a scratch copy of /repo's current tree. Prints one line per seed:
CAUGHT / MISSED / NOAPPLY (patch no longer applies: the code it changed was changed by a later fix) / INCONCLUSIVE.
Writes /verif/seeded/REGRESSION.json."""
import json, os, subprocess, sys, glob, concurrent.futures as cf
args = sys.argv[1:]
j = 4
if args and args[0] == '-j':
    j = int(args[1]); args = args[2:]
names = args or sorted(os.path.basename(d) for d in glob.glob('/verif/seeded/C*'))
here = os.path.dirname(os.path.abspath(__file__))
def one(name):
    d = os.path.join('/verif/seeded', name)
    meta = json.load(open(os.path.join(d, 'meta.json')))
    ids = sorted((meta.get('lead_verification') or {}).get('caught_by') or {}) or [name.split('-')[0]]
    p = subprocess.run([os.path.join(here, 'mutate.py'), '--patch', os.path.join(d, 'patch.diff')] + ids,
                       stdout=subprocess.PIPE, stderr=subprocess.STDOUT, text=True)
    out = p.stdout
    if 'FAILED' in out or 'CalledProcessError' in out:
        return name, 'NOAPPLY', {}
    res = {}
    for l in out.splitlines():
        w = l.split()
        if len(w) >= 2 and w[0] in ids and w[1] in ('CAUGHT', 'MISSED', 'INCONCLUSIVE'):
            res[w[0]] = w[1]
    v = 'CAUGHT' if 'CAUGHT' in res.values() else ('INCONCLUSIVE' if 'INCONCLUSIVE' in res.values() else 'MISSED')
    return name, v, res
results = {}
with cf.ThreadPoolExecutor(j) as ex:
    for name, v, res in ex.map(one, names):
        results[name] = dict(verdict=v, checks=res)
        print(name, v, res, flush=True)
head = subprocess.run(['git', '-C', '/repo', 'log', '--format=%h', '-1'], stdout=subprocess.PIPE, text=True).stdout.strip()
if not args:
    json.dump(dict(repo_head=head, results=results), open('/verif/seeded/REGRESSION.json', 'w'), indent=1)
