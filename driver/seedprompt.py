import json,sys
pid=sys.argv[1]
for l in open('/verif/properties.jsonl'):
    p=json.loads(l)
    if p['id']==pid:
        break
wt='/tmp/seed-%s'%pid
out='/tmp/seed-%s-out'%pid
print(f"""You are a senior Go engineer acting as an adversarial reviewer ("mutation seeder"). You work ONLY inside the scratch git worktree {wt} (a checkout of honeycombio/refinery, a tail-based trace sampling proxy, Go 1.25) and write your deliverables to {out}/ . Do not read or write /verif or /repo at all.

Environment for every shell call (no network; env does not persist between calls):
  export GOFLAGS=-mod=mod GOPROXY=off GOSUMDB=off GOTOOLCHAIN=local PATH=/root/go/pkg/mod/golang.org/toolchain@v0.0.1-go1.25.0.linux-amd64/bin:$PATH
Files named verif_hooks*.go (build tag verif) are test accessors; ignore them and do not change them.

The property under attack (id {pid}: {p['title']}):
  STATEMENT: {p['statement']}
  QUANTIFIED OVER: {p['quantifier']['text']}
  WHY THE EXISTING TESTS CANNOT SETTLE IT: {p['why_tests_cant']}
  ANCHOR FILES: {', '.join(p['anchors']['files'])}

Your task: make ONE realistic change to refinery's non-test source (a plausible refactoring slip, off-by-one, wrong operator, dropped or misplaced call, stale cache, lost synchronisation, two cooperating sites that each look fine alone...) that BREAKS this property while the code still compiles and the EXISTING test suite of every package you touched (and its dependants: run at least `go test -count=1 ./<pkg>/...` for each touched package plus ./collect/ ./route/ ./sample/ ./config/ ./transmit/ ./types/ as relevant) still passes unedited. Prefer a change that needs something specific to manifest - a particular interleaving or timing, a fault at a particular point, a multi-step sequence of operations, an unusual but legal input, a boundary value - rather than one that ordinary use would expose at once. Do not edit or delete existing tests. Keep the diff small (typically 1-15 lines).

Deliverables in {out}/ :
  1. patch.diff  - `git -C {wt} diff` of your change to non-test files only (it must apply with `git apply` to the worktree's HEAD).
  2. a demonstration: a NEW Go test file (say where it must be placed, e.g. collect/seed_demo_test.go; it may be an internal or external test) or a small program, that FAILS with your change applied and PASSES without it, deterministically (run it 5 times each way; no reliance on wall-clock luck). State the exact command to run it.
  3. meta.json - {{"property":"{pid}","summary":"what the change does","needs_to_manifest":"what specific input/schedule/sequence exposes it","files_touched":[...],"demo_file":"path relative to repo root","demo_cmd":"...","existing_tests_run":["cmds you ran and that passed with the change"]}}
Before finishing: prove both directions with `git -C {wt} diff > {out}/patch.diff; git -C {wt} apply -R {out}/patch.diff` and `git -C {wt} apply {out}/patch.diff` (NEVER use git stash: the stash is shared with other worktrees), leave the worktree with your change APPLIED and the demo file in place, and report concisely what you did. If your first idea is caught by existing tests, try another; report honestly if you could not find one.""")

# optional: list ideas already tried for this property so a new seeder does something different
import glob, os
tried = []
for d in sorted(glob.glob('/verif/seeded/%s-*' % pid)):
    try:
        m = json.load(open(os.path.join(d, 'meta.json')))
        tried.append('- ' + (m.get('summary') or '')[:400].replace('\n', ' '))
    except Exception:
        pass
if tried and len(sys.argv) > 2 and sys.argv[2] == '--avoid':
    print("\nIdeas that were ALREADY used by earlier seeders for this property (do something genuinely different: another code path, another kind of slip, another way to manifest):\n" + "\n".join(tried))
