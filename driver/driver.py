import argparse, json, os, shutil, subprocess, sys, tempfile, time, glob, signal, zlib

import registry

ROOT = os.path.dirname(os.path.dirname(os.path.abspath(__file__)))
HARNESS = os.path.join(ROOT, "harness")
BIN = os.path.join(ROOT, ".bin")
EVID = os.path.join(ROOT, "evidence")
KNOWN = os.path.join(ROOT, "known_findings.json")
REPLAYS = os.path.join(ROOT, "replays")
FAILS = os.path.join(ROOT, "failures")
TAG = "verif"


def go_bin():
    modcache = os.environ.get("GOMODCACHE") or os.path.expanduser("~/go/pkg/mod")
    cands = [
        os.path.join(modcache, "golang.org/toolchain@v0.0.1-go1.25.0.linux-amd64/bin/go"),
        "/root/go/pkg/mod/golang.org/toolchain@v0.0.1-go1.25.0.linux-amd64/bin/go",
        "/opt/veriftools/go1.26.8/bin/go",
    ]
    for c in cands:
        if os.path.isfile(c) and os.access(c, os.X_OK):
            return c
    w = shutil.which("go1.26.8")
    return w or "go"


def go_env():
    env = dict(os.environ)
    env.update(GOFLAGS="-mod=mod", GOPROXY="off", GOSUMDB="off", GOTOOLCHAIN="local", GONOSUMDB="*", GONOSUMCHECK="1")
    env.pop("GOROOT", None)
    gb = go_bin()
    env["PATH"] = os.path.dirname(gb) + os.pathsep + env.get("PATH", "")
    return env


def modfile_args():
    """When VERIF_REPO is set, build against that tree instead of /repo."""
    repo = os.environ.get("VERIF_REPO")
    if not repo:
        return [], ""
    repo = os.path.abspath(repo)
    tag = "mut-%08x" % (zlib.crc32(repo.encode()) & 0xffffffff)
    mf = os.path.join(HARNESS, "." + tag + ".mod")
    src = open(os.path.join(HARNESS, "go.mod")).read()
    src = src.replace("=> /repo", "=> " + repo)
    open(mf, "w").write(src)
    shutil.copy(os.path.join(HARNESS, "go.sum"), mf[:-4] + ".sum")
    return ["-modfile=" + mf], "." + tag


def build(engine, race=False, log=None):
    os.makedirs(BIN, exist_ok=True)
    mfargs, suffix = modfile_args()
    out = os.path.join(BIN, engine + suffix + (".race" if race else "") + ".test")
    cmd = [go_bin(), "test", "-c", "-tags", TAG] + mfargs + (["-race"] if race else []) + ["-o", out, "./" + engine]
    t0 = time.time()
    p = subprocess.run(cmd, cwd=HARNESS, env=go_env(), stdout=subprocess.PIPE, stderr=subprocess.STDOUT, text=True)
    if p.returncode != 0:
        sys.stdout.write(p.stdout[-8000:])
        return None
    if log:
        log("built %s in %.1fs" % (os.path.basename(out), time.time() - t0))
    return out


def rapid_seed(seed, shard):
    s = ((int(seed) * 0x9E3779B97F4A7C15) + shard * 0xD1B54A32D192ED03) & 0xFFFFFFFFFFFFFFFF
    return s | 1


def merged_known(tmp):
    """known_findings.json is canonical; known/<ID>.json fragments (work in progress) are merged in."""
    doc = {"findings": []}
    if os.path.isfile(KNOWN):
        doc = json.load(open(KNOWN))
    for f in sorted(glob.glob(os.path.join(ROOT, "known", "*.json"))):
        try:
            d = json.load(open(f))
            doc["findings"] += d.get("findings", []) if isinstance(d, dict) else d
        except Exception as e:
            print("warning: cannot read %s: %s" % (f, e))
    out = os.path.join(tmp, "known.json")
    json.dump(doc, open(out, "w"))
    return out


def run_shards(binary, chk, tier, seed, replay=None):
    cfg = chk[tier]
    nshards = 1 if replay else cfg["shards"]
    tmp = tempfile.mkdtemp(prefix="verif-%s-" % chk["id"])
    faildir = os.path.join(FAILS, chk["id"])
    if os.environ.get("VERIF_REPO"):
        # runs against a modified scratch copy (sensitivity runs) keep their shrunk cases out of /verif
        faildir = os.path.join("/tmp/verif-mutant-failures", chk["id"])
    os.makedirs(faildir, exist_ok=True)
    known = merged_known(tmp)
    procs = []
    for i in range(nshards):
        wd = os.path.join(tmp, "w%d" % i)
        os.makedirs(wd)
        env = go_env()
        env.update(chk.get("env") or {})
        env.update(VERIF_OUT=os.path.join(wd, "out.json"), VERIF_TIER=tier, VERIF_KNOWN=known,
                   VERIF_FAILDIR=faildir, VERIF_BUDGET_S=str(cfg["budget_s"]), VERIF_SHARD=str(i),
                   VERIF_NSHARDS=str(nshards), VERIF_ROOT=ROOT, VERIF_GO=go_bin(), VERIF_SEED=str(seed))
        env["TMPDIR"] = wd
        if chk.get("crashcap"):
            env["VERIF_CRASHCAP"] = chk["id"]
            env["VERIF_CRASHCAP_FILE"] = os.path.join(wd, "current-case.json")
        if replay:
            env["VERIF_REPLAY"] = os.path.abspath(replay)
        elif i == 0:
            env["VERIF_REPLAY_DIR"] = os.path.join(REPLAYS, chk["id"])
        cmd = [binary, "-test.run", "^" + chk["test"] + "$", "-test.v", "-test.count=1",
               "-test.timeout=%ds" % cfg["timeout_s"],
               "-rapid.checks=%d" % cfg["checks"], "-rapid.seed=%d" % rapid_seed(seed, i), "-rapid.nofailfile"]
        logf = open(os.path.join(wd, "log.txt"), "w")
        p = subprocess.Popen(cmd, cwd=wd, env=env, stdout=logf, stderr=subprocess.STDOUT, start_new_session=True)
        procs.append((p, wd, logf))
    deadline = time.time() + cfg["timeout_s"] + 30
    outs, problems = [], []
    for p, wd, logf in procs:
        try:
            p.wait(timeout=max(1, deadline - time.time()))
        except subprocess.TimeoutExpired:
            try:
                os.killpg(p.pid, signal.SIGKILL)
            except Exception:
                pass
            p.wait()
            problems.append("shard in %s hit the hard time ceiling" % wd)
        logf.close()
        of = os.path.join(wd, "out.json")
        if os.path.isfile(of):
            try:
                outs.append(json.load(open(of)))
            except Exception as e:
                problems.append("unreadable result file %s: %s" % (of, e))
        else:
            logtxt = open(os.path.join(wd, "log.txt")).read()
            crash = crash_violation(chk, wd, logtxt, faildir) if chk.get("crashcap") else None
            if crash:
                outs.append(crash)
            else:
                problems.append("no result file from shard %s (exit %s); log tail:\n%s" % (wd, p.returncode, logtxt[-3000:]))
    return outs, problems, tmp


def crash_violation(chk, wd, logtxt, faildir):
    """The test binary died. If the panicking goroutine's innermost non-runtime frame is refinery code (not the
    harness) and the case in flight was captured, this is a violation of the property by that case: the process
    crashed. Returns a synthetic shard result, or None when the crash cannot be attributed to refinery."""
    import re, hashlib
    m = re.search(r"^(panic: .*|fatal error: .*)$", logtxt, re.M)
    cur = os.path.join(wd, "current-case.json")
    if not m or not os.path.isfile(cur):
        return None
    after = logtxt[m.start():]
    g = re.search(r"^goroutine \d+ .*\[running\]:\n((?:.+\n)+)", after, re.M)
    frames = re.findall(r"^([\w./\-]+(?:\(\*?[\w\[\]., ]+\))?[\w.\[\]\-]*)\(", g.group(1) if g else after, re.M)
    first = next((f for f in frames if f.startswith("github.com/honeycombio/refinery/")), None)
    if not first or "verifharness" in first:
        return None
    fn = first.replace("github.com/honeycombio/refinery/", "")
    kind = "panic" if m.group(1).startswith("panic") else "fatal"
    sig = "%s/process-crash/%s@%s" % (chk["id"], kind, fn)
    detail = "the test binary (= the refinery process) died: %s in %s\n%s" % (m.group(1)[:300], first, after[:1500])
    try:
        case = json.load(open(cur))
    except Exception:
        return None
    body = dict(property=chk["id"], signature=sig, detail=detail, case=case.get("case"))
    h = hashlib.sha1(json.dumps(body["case"], sort_keys=True).encode()).hexdigest()[:16]
    rp = os.path.join(faildir, "%s-crash-%s.json" % (chk["id"], h))
    if not os.environ.get("VERIF_REPO"):
        json.dump(body, open(rp, "w"), indent=1)
    known = []
    try:
        known = json.load(open(merged_known(wd)))["findings"]
    except Exception:
        pass
    for k in known:
        ks = k.get("signature", "")
        if k.get("property") == chk["id"] and k.get("status") == "known" and (ks == sig or (ks.endswith("*") and sig.startswith(ks[:-1]))):
            return dict(id=chk["id"], evaluations=1, known_hits={ks: 1}, known_what={ks: k.get("what", "")})
    return dict(id=chk["id"], evaluations=1, violations=[dict(signature=sig, detail=detail, replay=rp)])


def merge(outs):
    m = dict(evaluations=0, replayed=0, nontrivial=0, classes={}, samples=[], violations=[], known_hits={}, known_what={},
             nt=set(), budget_exhausted=False, rule="", assumptions=[], extra={})
    for o in outs:
        m["evaluations"] += o.get("evaluations", 0)
        m["replayed"] += o.get("replayed", 0)
        m["nontrivial"] += o.get("nontrivial", 0)
        for k, v in (o.get("classes") or {}).items():
            m["classes"][k] = m["classes"].get(k, 0) + v
        for s in o.get("samples") or []:
            if len(m["samples"]) < 3:
                m["samples"].append(s)
        m["violations"] += o.get("violations") or []
        for k, v in (o.get("known_hits") or {}).items():
            m["known_hits"][k] = m["known_hits"].get(k, 0) + v
        m["known_what"].update(o.get("known_what") or {})
        m["nt"].update(o.get("nt_hashes") or [])
        m["budget_exhausted"] = m["budget_exhausted"] or o.get("budget_exhausted", False)
        m["rule"] = o.get("rule") or m["rule"]
        m["assumptions"] = o.get("assumptions") or m["assumptions"]
        for k, v in (o.get("extra") or {}).items():
            if isinstance(v, (int, float)) and not isinstance(v, bool) and isinstance(m["extra"].get(k, 0), (int, float)):
                m["extra"][k] = m["extra"].get(k, 0) + v
            else:
                m["extra"][k] = v
    return m


def write_evidence(chk, tier, seed, m, wall, problems, nshards):
    global EVID
    if os.environ.get("VERIF_REPO"):
        # runs against a scratch copy (mutants, seeds) must never overwrite the evidence of /repo itself
        EVID = os.path.join(tempfile.gettempdir(), "verif-mutant-evidence")
    os.makedirs(EVID, exist_ok=True)
    cov = dict(evaluations=m["evaluations"], distinct_nontrivial=len(m["nt"]), rule=m["rule"],
               samples=m["samples"], classes=m["classes"], nontrivial_total=m["nontrivial"],
               replayed_regression_cases=m["replayed"], excluded_known=m["known_hits"], shards=nshards,
               budget_exhausted=m["budget_exhausted"], exhaustive=False)
    cov.update(m["extra"])
    if problems:
        cov["problems"] = problems
    ev = dict(property_id=chk["id"], tier=tier, seed=int(seed), level=chk["level"], coverage=cov,
              assumptions=m["assumptions"], wall_s=round(wall, 2), violations=len(m["violations"]))
    p = os.path.join(EVID, chk["id"] + ".json")
    tmpf = "%s.tmp.%d" % (p, os.getpid())
    with open(tmpf, "w") as f:
        json.dump(ev, f, indent=1)
    os.replace(tmpf, p)


def run_check(pid, tier, replay=None):
    chk = registry.BY_ID.get(pid)
    if not chk:
        print("unknown property id", pid)
        return 2
    seed = os.environ.get("VERIF_SEED", "1")
    try:
        seed = int(seed)
    except ValueError:
        seed = 1
    t0 = time.time()
    log = lambda s: print("[%s %s] %s" % (pid, tier, s), flush=True)
    race = chk["race"] if not isinstance(chk["race"], str) else (chk["race"] == tier)
    binary = build(chk["engine"], race=race, log=log)
    if not binary:
        print("INCONCLUSIVE property=%s build failed" % pid)
        return 2
    for pre in chk.get("prebuild") or []:
        p = subprocess.run(pre, shell=True, cwd=ROOT, env=go_env(), stdout=subprocess.PIPE, stderr=subprocess.STDOUT, text=True)
        if p.returncode != 0:
            sys.stdout.write(p.stdout[-4000:])
            print("INCONCLUSIVE property=%s prebuild failed" % pid)
            return 2
    outs, problems, tmp = run_shards(binary, chk, tier, seed, replay)
    m = merge(outs)
    wall = time.time() - t0
    nshards = 1 if replay else chk[tier]["shards"]
    if not replay:
        write_evidence(chk, tier, seed, m, wall, problems, nshards)
    shutil.rmtree(tmp, ignore_errors=True)
    log("evaluations=%d distinct_nontrivial=%d replayed=%d wall=%.1fs%s" % (
        m["evaluations"], len(m["nt"]), m["replayed"], wall, " (budget reached)" if m["budget_exhausted"] else ""))
    for sig, n in sorted(m["known_hits"].items()):
        print("KNOWN-FINDING: property=%s %s [signature %s, observed %d times]" % (pid, m["known_what"].get(sig, ""), sig, n))
    if m["violations"]:
        seen = set()
        for v in m["violations"]:
            if v["signature"] in seen:
                continue
            seen.add(v["signature"])
            print("VIOLATION property=%s replay=%s" % (pid, v.get("replay") or "-"))
            print("  signature: %s" % v["signature"])
            print("  detail: %s" % (v.get("detail") or "")[:1500])
        return 1
    if problems:
        for p in problems:
            print("INCONCLUSIVE property=%s %s" % (pid, p))
        return 2
    if not replay and len(m["nt"]) < chk["min_nt"]:
        print("INCONCLUSIVE property=%s only %d distinct non-trivial cases (minimum %d)" % (pid, len(m["nt"]), chk["min_nt"]))
        return 2
    return 0


def setup():
    engines = sorted({(c["engine"], bool(c["race"]) and not isinstance(c["race"], str)) for c in registry.CHECKS})
    rc = 0
    for e, race in engines:
        t0 = time.time()
        b = build(e, race=race)
        print("setup: %s%s %s (%.1fs)" % (e, " -race" if race else "", "ok" if b else "FAILED", time.time() - t0), flush=True)
        if not b:
            rc = 1
    return rc


def manifest():
    checks = []
    for c in registry.CHECKS:
        checks.append(dict(
            property_id=c["id"],
            quick_cmd="./check %s --tier quick" % c["id"],
            thorough_cmd="./check %s --tier thorough" % c["id"],
            evidence_file="evidence/%s.json" % c["id"],
            replay_cmd_template="./check %s --replay {path}" % c["id"],
            engine=c["engine"],
            level_claimed=dict(category=c["level"], text=c["level_text"], design_ref=c["design_ref"]),
            level_note=c["level_note"],
            technique=c["technique"],
        ))
    engines = {}
    for c in registry.CHECKS:
        engines.setdefault(c["engine"], []).append(c["id"])
    hooks = json.load(open(os.path.join(ROOT, "driver", "hooks.json")))
    na = json.load(open(os.path.join(ROOT, "driver", "not_applicable.json")))
    claimed = {c["id"] for c in registry.CHECKS}
    na = [x for x in na if x["property_id"] not in claimed]
    man = dict(
        version=1,
        setup_cmd="./check --setup",
        hooks=hooks,
        engines=[dict(name=e, path="harness/" + e, serves_properties=ids,
                      kind_free_text="Go test package driven by pgregory.net/rapid (generate -> execute -> judge), built against /repo via replace")
                 for e, ids in sorted(engines.items())],
        checks=checks,
        notes="All checks are property-based tests / fuzzers (pgregory.net/rapid v1.3.0, native go fuzz in thorough where stated). Driver: ./check. Known findings: known_findings.json.",
        not_applicable=na,
    )
    with open(os.path.join(ROOT, "MANIFEST.json"), "w") as f:
        json.dump(man, f, indent=1)
        f.write("\n")
    print("MANIFEST.json: %d checks, %d not_applicable" % (len(checks), len(na)))
    return 0


def main(argv):
    if argv and argv[0] == "--setup":
        return setup()
    if argv and argv[0] == "--manifest":
        return manifest()
    ap = argparse.ArgumentParser()
    ap.add_argument("id")
    ap.add_argument("--tier", default=os.environ.get("VERIF_TIER", "quick"), choices=["quick", "thorough"])
    ap.add_argument("--replay")
    a = ap.parse_args(argv)
    return run_check(a.id, a.tier, a.replay)
