#!/usr/bin/env python3
"""knownctl.py fixed <ID> <commit> [sigprefix]  : move entries of known/<ID>.json (matching prefix) into known_findings.json as fixed
   knownctl.py adopt <ID>                        : move entries of known/<ID>.json into known_findings.json unchanged (status known)"""
import json, os, sys
R = '/verif'
def load(p, d):
    return json.load(open(p)) if os.path.isfile(p) else d
def load(p, d):
    return json.load(open(p)) if os.path.isfile(p) else d
cmd, pid = sys.argv[1], sys.argv[2]
if cmd == 'markfixed':
    # knownctl.py markfixed <ID> <commit> <sigprefix> : flip matching 'known' entries of known_findings.json to fixed
    commit, pref = sys.argv[3], sys.argv[4]
    kf = load(R + '/known_findings.json', {"findings": []}); n = 0
    for e in kf['findings']:
        if e['property'] == pid and e['status'] == 'known' and e['signature'].startswith(pref):
            e['status'] = 'fixed'; e['commit'] = commit; e['line'] = 'fixed: property=%s %s %s' % (pid, commit, e['what'][:160]); n += 1
    json.dump(kf, open(R + '/known_findings.json', 'w'), indent=1)
    print('marked fixed:', n); sys.exit(0)
kf = load(R + '/known_findings.json', {"findings": []})
frag_p = R + '/known/%s.json' % pid
frag = load(frag_p, {"findings": []})
keep = []
for e in frag['findings']:
    if cmd == 'fixed':
        commit = sys.argv[3]
        pref = sys.argv[4] if len(sys.argv) > 4 else ''
        if e['signature'].startswith(pref):
            e = dict(e, status='fixed', commit=commit, line='fixed: property=%s %s %s' % (pid, commit, e['what'][:160]))
            kf['findings'].append(e)
        else:
            keep.append(e)
    elif cmd == 'adopt':
        kf['findings'].append(e)
json.dump(kf, open(R + '/known_findings.json', 'w'), indent=1)
if keep:
    json.dump({"findings": keep}, open(frag_p, 'w'), indent=1)
elif os.path.isfile(frag_p):
    os.remove(frag_p)
print('known_findings.json now has', len(kf['findings']), 'entries; fragment keeps', len(keep))
