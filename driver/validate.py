#!/usr/bin/env python3
# validates MANIFEST.json and every evidence file against the schemas (needs python3-vt's jsonschema)
import json, sys, glob, jsonschema
root = '/verif'
jsonschema.validate(json.load(open(root + '/MANIFEST.json')), json.load(open('/root/.vp/MANIFEST.schema.json')))
es = json.load(open('/root/.vp/EVIDENCE.schema.json'))
bad = 0
for f in sorted(glob.glob(root + '/evidence/*.json')):
    try:
        jsonschema.validate(json.load(open(f)), es)
    except Exception as e:
        bad += 1
        print('INVALID', f, str(e)[:300])
print('manifest ok; evidence files invalid:', bad)
sys.exit(1 if bad else 0)
