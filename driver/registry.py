# Registry of checks: one entry per property.
# quick/thorough: checks = rapid case quota per shard, shards = parallel processes,
# budget_s = soft per-shard time budget inside the test (cases stop being generated,
# run ends normally), timeout_s = hard ceiling (-> inconclusive).

DEFAULT_QUICK = dict(checks=1000, shards=1, budget_s=60, timeout_s=600)
DEFAULT_THOROUGH = dict(checks=20000, shards=16, budget_s=600, timeout_s=1800)


def entry(pid, engine, test=None, level="exploration", technique="", quick=None, thorough=None,
          race=False, min_nt=2, design_ref="", level_text="", level_note="", env=None, title="", crashcap=True):
    q = dict(DEFAULT_QUICK)
    q.update(quick or {})
    t = dict(DEFAULT_THOROUGH)
    t.update(thorough or {})
    return dict(id=pid, engine=engine, test=test or ("Test" + pid), level=level, technique=technique,
                quick=q, thorough=t, race=race, min_nt=min_nt, design_ref=design_ref or ("DESIGN.md §4 " + pid),
                level_text=level_text, level_note=level_note, env=env or {}, title=title, crashcap=crashcap)



import glob, os

CHECKS = []
for _f in sorted(glob.glob(os.path.join(os.path.dirname(os.path.abspath(__file__)), "registry.d", "*.py"))):
    _ns = {"entry": entry}
    exec(compile(open(_f).read(), _f, "exec"), _ns)
    CHECKS += _ns.get("CHECKS", [])

CHECKS.sort(key=lambda c: c["id"])
BY_ID = {c["id"]: c for c in CHECKS}
