#!/usr/bin/env python3
"""Sensitivity helper: apply one textual mutation to a scratch copy of /repo and run checks against it.
usage: mutate.py FILE OLD NEW ID [ID...]     (OLD must occur exactly once in FILE unless --all)
       mutate.py --patch PATCHFILE ID [ID...]
Prints one line per check: CAUGHT / MISSED / INCONCLUSIVE. The scratch copy is removed afterwards."""
import os, subprocess, sys, shutil, tempfile

def main():
    a = sys.argv[1:]
    keep_all = False
    if a and a[0] == '--all':
        keep_all = True; a = a[1:]
    d = tempfile.mkdtemp(prefix='mut-', dir='/tmp')
    try:
        subprocess.check_call(['rsync', '-a', '--exclude', '.git', '/repo/', d + '/'])
        if a[0] == '--patch':
            patch = os.path.abspath(a[1]); ids = a[2:]
            subprocess.check_call(['git', 'apply', '--unsafe-paths', '--directory=' + d, patch]) if False else subprocess.check_call(['patch', '-p1', '-d', d, '-i', patch])
        else:
            f, old, new = a[0], a[1], a[2]; ids = a[3:]
            p = os.path.join(d, f)
            s = open(p).read()
            n = s.count(old)
            if n == 0 or (n > 1 and not keep_all):
                print('mutation site occurs %d times in %s' % (n, f)); return 2
            open(p, 'w').write(s.replace(old, new))
        env = dict(os.environ, VERIF_REPO=d)
        rc = 0
        for i in ids:
            tier = 'quick'
            if ':' in i:
                i, tier = i.split(':')
            p = subprocess.run(['/verif/check', i, '--tier', tier], env=env, stdout=subprocess.PIPE, stderr=subprocess.STDOUT, text=True)
            sig = [l.strip() for l in p.stdout.splitlines() if 'signature:' in l]
            verdict = {0: 'MISSED', 1: 'CAUGHT'}.get(p.returncode, 'INCONCLUSIVE')
            print('%s %s %s' % (i, verdict, '; '.join(sig[:3])), flush=True)
            if p.returncode not in (0, 1):
                print(p.stdout[-1500:])
    finally:
        shutil.rmtree(d, ignore_errors=True)
        import glob, zlib
        tag = 'mut-%08x' % (zlib.crc32(os.path.abspath(d).encode()) & 0xffffffff)
        for g in glob.glob('/verif/harness/.' + tag + '*') + glob.glob('/verif/.bin/*.' + tag + '*'):
            os.remove(g)

sys.exit(main() or 0)
