module github.com/honeycombio/refinery/verifharness

go 1.25.0

require (
	github.com/honeycombio/refinery v0.0.0
	github.com/jonboulle/clockwork v0.5.0
	pgregory.net/rapid v1.3.0
)

require golang.org/x/exp v0.0.0-20250531010427-b6e5de432a8b // indirect

replace github.com/honeycombio/refinery => /repo
