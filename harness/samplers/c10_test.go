package samplers

import (
	"bufio"
	"encoding/hex"
	"encoding/json"
	"fmt"
	"io"
	"math"
	"os"
	"os/exec"
	"runtime"
	"sort"
	"strings"
	"sync"
	"sync/atomic"
	"testing"
	"time"

	"github.com/honeycombio/refinery/collect"
	"github.com/honeycombio/refinery/config"
	"github.com/honeycombio/refinery/logger"
	"github.com/honeycombio/refinery/sample"
	"github.com/honeycombio/refinery/types"
	"github.com/honeycombio/refinery/verifharness/vkit"
	"pgregory.net/rapid"
)

// C10: deterministic sampling (DeterministicSampler, StressRelief.GetSampleRate)
// is a pure, nested function of the trace ID.
//
// Nothing here recomputes refinery's hash: the oracle is purity (same answer
// from repeated calls, from fresh instances and from a separately started
// process), nesting in the rate, "rate <= 1 keeps everything", the reported
// rate, and a statistical kept fraction.

type c10Case struct {
	Kind  string   `json:"kind"` // det | stress
	IDs   []string `json:"ids"`
	Rates []uint64 `json:"rates"`
	// History (stress relief only): SamplingRate values a long-lived node was configured with, in order
	// (start, then hot reloads: every one is an UpdateFromConfig on the same instance), before it is
	// reloaded to each of Rates in case order. Its decisions must equal those of a freshly started node.
	History []uint64 `json:"history,omitempty"`
	// Stat: additionally run the kept-fraction check on c10StatN ids derived
	// from StatSeed by a harness-owned generator (splitmix64).
	Stat     bool   `json:"stat,omitempty"`
	StatSeed uint64 `json:"stat_seed,omitempty"`
	// Family of the kept-fraction ids: "" = 32 hex chars; "prefix" = one common prefix of FamLen bytes +
	// 16 unique hex chars; "suffix" = 16 unique hex chars + one common suffix of FamLen bytes.
	Family string `json:"family,omitempty"`
	FamLen int    `json:"fam_len,omitempty"`
	// Sens: single-byte sensitivity. c10SensPairs pairs of ids of SensLen bytes that differ in exactly one byte
	// at a position in [SensLo, SensLen) are decided at every rate 2..65.
	// Overlap (stress relief only): a node configured at OverlapFrom is hot-reloaded to OverlapTo while another
	// goroutine keeps asking it for decisions on c10OverlapIDs ids derived from OverlapSeed; the logger the node
	// writes to parks every log call made during that reload until the readers are done or have had their chance.
	Overlap     bool   `json:"overlap,omitempty"`
	OverlapFrom uint64 `json:"overlap_from,omitempty"`
	OverlapTo   uint64 `json:"overlap_to,omitempty"`
	OverlapSeed uint64 `json:"overlap_seed,omitempty"`
	Sens        bool   `json:"sens,omitempty"`
	SensLo      int    `json:"sens_lo,omitempty"`
	SensLen     int    `json:"sens_len,omitempty"`
	SensSeed    uint64 `json:"sens_seed,omitempty"`
}

const c10StatN = 40000

var c10StatRates = []uint64{2, 3, 10, 100, 10000}

const c10SensPairs = 32

var c10FamLens = []int{32, 48, 64, 100, 256, 1024}

// position classes [lo, len) for the byte that differs
var c10SensClasses = [][2]int{{0, 16}, {16, 32}, {32, 48}, {48, 64}, {64, 65}, {64, 128}, {128, 256}, {256, 1024}}

// c10SensEqualProb: for two independent uniform hash values and a threshold rule keep <=> h <= max/N, the
// probability that the two decision vectors over N = 2..65 coincide: both values fall between the same two
// consecutive thresholds. = (1/2)^2 + sum_{N=2..64} (1/N - 1/(N+1))^2 + (1/65)^2  ~ 0.288.
func c10SensEqualProb() float64 {
	p := 0.25 + 1.0/(65*65)
	for n := 2.0; n <= 64; n++ {
		p += math.Pow(1/n-1/(n+1), 2)
	}
	return p
}

func c10RandASCII(x *uint64, n int) []byte {
	const alphabet = "abcdefghijklmnopqrstuvwxyz0123456789-_"
	b := make([]byte, n)
	for i := range b {
		b[i] = alphabet[c10Splitmix(x)%uint64(len(alphabet))]
	}
	return b
}

// ---------------------------------------------------------------- SUT access

// c10Decider is one fresh instance of the code under test at one rate.
type c10Decider func(id string) (rate uint, keep bool)

func c10New(kind string, rate uint64) c10Decider {
	switch kind {
	case "det":
		d := &sample.DeterministicSampler{
			Config: &config.DeterministicSamplerConfig{SampleRate: int(rate)},
			Logger: &logger.NullLogger{},
		}
		if err := d.Start(); err != nil {
			panic(err)
		}
		return func(id string) (uint, bool) {
			r, k, _, _ := d.GetSampleRate(&types.Trace{TraceID: id})
			return r, k
		}
	case "stress":
		s := &collect.StressRelief{
			Config: &config.MockConfig{StressRelief: config.StressReliefConfig{Mode: "always", SamplingRate: rate,
				ActivationLevel: 90, DeactivationLevel: 75}},
			Logger: &logger.NullLogger{},
		}
		s.UpdateFromConfig()
		return func(id string) (uint, bool) {
			r, k, _ := s.GetSampleRate(id)
			return r, k
		}
	}
	panic("c10: unknown kind " + kind)
}

// c10Node is a long-lived stress-relief node whose configuration is hot-reloaded in place.
type c10Node struct {
	cfg *config.MockConfig
	s   *collect.StressRelief
}

func c10NewNode() *c10Node {
	cfg := &config.MockConfig{StressRelief: config.StressReliefConfig{Mode: "always", SamplingRate: 1, ActivationLevel: 90, DeactivationLevel: 75}}
	return &c10Node{cfg: cfg, s: &collect.StressRelief{Config: cfg, Logger: &logger.NullLogger{}}}
}

// reload is what InMemCollector.reloadConfigs does: the config changed, UpdateFromConfig is called again.
func (n *c10Node) reload(rate uint64) {
	n.cfg.Mux.Lock()
	n.cfg.StressRelief.SamplingRate = rate
	n.cfg.Mux.Unlock()
	n.s.UpdateFromConfig()
}

func (n *c10Node) decide(id string) (uint, bool) {
	r, k, _ := n.s.GetSampleRate(id)
	return r, k
}

// c10ParkLogger is a logger.Logger whose entries, while armed, park inside Logf: they announce themselves on
// parked and wait for a token on release. No message text is looked at: every log call the node makes during the
// armed reload is a parking point.
type c10ParkLogger struct {
	armed   atomic.Bool
	parked  chan struct{}
	release chan struct{}
}

type c10ParkEntry struct{ l *c10ParkLogger }

func (l *c10ParkLogger) Debug() logger.Entry                          { return c10ParkEntry{l} }
func (l *c10ParkLogger) Info() logger.Entry                           { return c10ParkEntry{l} }
func (l *c10ParkLogger) Warn() logger.Entry                           { return c10ParkEntry{l} }
func (l *c10ParkLogger) Error() logger.Entry                          { return c10ParkEntry{l} }
func (l *c10ParkLogger) SetLevel(string) error                        { return nil }
func (e c10ParkEntry) WithField(string, interface{}) logger.Entry     { return e }
func (e c10ParkEntry) WithString(string, string) logger.Entry         { return e }
func (e c10ParkEntry) WithFields(map[string]interface{}) logger.Entry { return e }
func (e c10ParkEntry) Logf(string, ...interface{}) {
	if e.l.armed.Load() {
		e.l.parked <- struct{}{}
		<-e.l.release
	}
}

const (
	c10OverlapIDs    = 300
	c10OverlapYields = 30 // chances given to the readers per parked log call before the logger is released
)

type c10Triple struct {
	id   string
	rate uint
	keep bool
}

// c10RunOverlap executes the overlap step with real goroutines and returns every (id, rate, keep) the readers
// got, how many of them returned while a log call of the reload was parked, and how often the logger parked.
// Nothing here depends on timing for its verdict: the triples are judged afterwards, each on its own.
func c10RunOverlap(from, to, seed uint64) (triples []c10Triple, duringPark int, parks int) {
	lg := &c10ParkLogger{parked: make(chan struct{}), release: make(chan struct{})}
	cfg := &config.MockConfig{StressRelief: config.StressReliefConfig{Mode: "always", SamplingRate: from, ActivationLevel: 90, DeactivationLevel: 75}}
	node := &c10Node{cfg: cfg, s: &collect.StressRelief{Config: cfg, Logger: lg}}
	node.s.UpdateFromConfig() // start: not armed

	ids := make([]string, c10OverlapIDs)
	x := seed
	for i := range ids {
		ids[i] = fmt.Sprintf("%016x%016x", c10Splitmix(&x), c10Splitmix(&x))
	}

	lg.armed.Store(true)
	reloadDone := make(chan struct{})
	go func() {
		defer close(reloadDone)
		node.reload(to)
	}()

	var mu sync.Mutex
	var inPark atomic.Bool
	readersDone := make(chan struct{})
	startReaders := func() {
		go func() {
			defer close(readersDone)
			for _, id := range ids {
				r, k := node.decide(id)
				mu.Lock()
				triples = append(triples, c10Triple{id, r, k})
				if inPark.Load() {
					duringPark++
				}
				mu.Unlock()
			}
		}()
	}
	started := false
	for {
		select {
		case <-lg.parked:
			parks++
			inPark.Store(true)
			if !started {
				started = true
				startReaders()
			}
			// give the readers their chance: on an intact node they are blocked on the node's lock until the
			// reload returns, so this loop simply runs out; it never decides anything.
		wait:
			for i := 0; i < c10OverlapYields; i++ {
				select {
				case <-readersDone:
					break wait
				default:
				}
				runtime.Gosched()
				time.Sleep(20 * time.Microsecond)
			}
			inPark.Store(false)
			lg.release <- struct{}{}
		case <-reloadDone:
			lg.armed.Store(false)
			if !started {
				startReaders()
			}
			<-readersDone
			return triples, duringPark, parks
		}
	}
}

// ---------------------------------------------------------------- second process

type c10ChildReq struct {
	Kind string   `json:"kind"`
	Rate uint64   `json:"rate"`
	IDs  []string `json:"ids"`
}

type c10ChildResp struct {
	Rates []uint `json:"rates"`
	Keeps []bool `json:"keeps"`
}

// TestC10Child is the body of the second process: it answers decision queries
// (one JSON document per line on stdin) with fresh instances of the real code.
func TestC10Child(t *testing.T) {
	if os.Getenv("VERIF_C10_CHILD") != "1" {
		t.Skip("helper process for TestC10")
	}
	in := bufio.NewReaderSize(os.Stdin, 1<<20)
	out := bufio.NewWriter(os.Stdout)
	for {
		line, err := in.ReadBytes('\n')
		if len(line) > 0 {
			var req c10ChildReq
			if jerr := json.Unmarshal(line, &req); jerr != nil {
				fmt.Fprintf(out, "{\"error\":%q}\n", jerr.Error())
				out.Flush()
				continue
			}
			d := c10New(req.Kind, req.Rate)
			resp := c10ChildResp{Rates: make([]uint, len(req.IDs)), Keeps: make([]bool, len(req.IDs))}
			for i, id := range req.IDs {
				resp.Rates[i], resp.Keeps[i] = d(id)
			}
			b, _ := json.Marshal(resp)
			out.Write(b)
			out.WriteByte('\n')
			out.Flush()
		}
		if err != nil {
			return
		}
	}
}

type c10ChildProc struct {
	mu    sync.Mutex
	cmd   *exec.Cmd
	stdin io.WriteCloser
	out   *bufio.Reader
	err   error
}

var (
	c10ChildOnce sync.Once
	c10ChildP    *c10ChildProc
)

// c10Child starts (once per test process) a second, separately started process
// running the same test binary in child mode.
func c10Child() *c10ChildProc {
	c10ChildOnce.Do(func() {
		p := &c10ChildProc{}
		c10ChildP = p
		exe, err := os.Executable()
		if err != nil {
			p.err = err
			return
		}
		cmd := exec.Command(exe, "-test.run", "^TestC10Child$", "-test.count=1", "-test.timeout=0")
		cmd.Env = append(os.Environ(), "VERIF_C10_CHILD=1", "VERIF_OUT=", "VERIF_REPLAY=", "VERIF_REPLAY_DIR=")
		cmd.Stderr = os.Stderr
		if p.stdin, err = cmd.StdinPipe(); err != nil {
			p.err = err
			return
		}
		so, err := cmd.StdoutPipe()
		if err != nil {
			p.err = err
			return
		}
		p.out = bufio.NewReaderSize(so, 1<<20)
		if err := cmd.Start(); err != nil {
			p.err = err
			return
		}
		p.cmd = cmd
	})
	return c10ChildP
}

func (p *c10ChildProc) ask(req c10ChildReq) (c10ChildResp, error) {
	p.mu.Lock()
	defer p.mu.Unlock()
	var resp c10ChildResp
	if p.err != nil {
		return resp, p.err
	}
	b, _ := json.Marshal(req)
	b = append(b, '\n')
	if _, err := p.stdin.Write(b); err != nil {
		p.err = fmt.Errorf("write to child: %w", err)
		return resp, p.err
	}
	line, err := p.out.ReadBytes('\n')
	if err != nil {
		p.err = fmt.Errorf("read from child: %w", err)
		return resp, p.err
	}
	if err := json.Unmarshal(line, &resp); err != nil || len(resp.Keeps) != len(req.IDs) {
		p.err = fmt.Errorf("bad child answer %q: %v", line, err)
		return resp, p.err
	}
	return resp, nil
}

func (p *c10ChildProc) stop() {
	if p == nil || p.cmd == nil {
		return
	}
	p.mu.Lock()
	defer p.mu.Unlock()
	p.stdin.Close()
	_ = p.cmd.Wait()
	p.cmd = nil
	if p.err == nil {
		p.err = fmt.Errorf("child stopped")
	}
}

// ---------------------------------------------------------------- generator

func c10MaxRate(kind string) uint64 {
	if kind == "det" {
		return 1 << 31
	}
	return math.MaxUint64
}

func genC10Rate(t *rapid.T, kind string) uint64 {
	max := c10MaxRate(kind)
	var r uint64
	switch rapid.IntRange(0, 9).Draw(t, "rateshape") {
	case 0:
		r = 1
	case 1, 2, 3:
		r = uint64(rapid.IntRange(1, 20).Draw(t, "small"))
	case 4, 5, 6:
		bits := 63
		if kind == "det" {
			bits = 31
		}
		p := uint64(1) << uint(rapid.IntRange(1, bits).Draw(t, "pow"))
		switch rapid.IntRange(0, 2).Draw(t, "pm") {
		case 0:
			r = p - 1
		case 1:
			r = p
		default:
			r = p + 1
		}
	case 7:
		r = max - uint64(rapid.IntRange(0, 2).Draw(t, "frommax"))
	default:
		r = rapid.Uint64Range(1, max).Draw(t, "any")
	}
	if r < 1 {
		r = 1
	}
	if r > max {
		r = max
	}
	return r
}

func genC10ID(t *rapid.T) string {
	switch rapid.IntRange(0, 10).Draw(t, "idshape") {
	case 0, 1, 2:
		return hex.EncodeToString(rapid.SliceOfN(rapid.Byte(), 16, 16).Draw(t, "hex32"))
	case 3, 4, 5:
		return hex.EncodeToString(rapid.SliceOfN(rapid.Byte(), 8, 8).Draw(t, "hex16"))
	case 6:
		return ""
	case 7:
		return rapid.StringN(0, 40, 120).Draw(t, "utf8")
	case 8:
		// ids are valid UTF-8 throughout: the case (and the query to the second
		// process) must survive a JSON round trip unchanged.
		return rapid.StringN(1, 4, 16).Draw(t, "short")
	case 9:
		// long ids that share a long prefix (and, within a case, often the whole prefix) and differ at the end
		l := rapid.SampledFrom([]int{40, 48, 49, 63, 64, 65, 100, 256, 1024}).Draw(t, "longlen")
		return strings.Repeat("t", l) + rapid.StringMatching(`[0-9a-f]{1,4}`).Draw(t, "longtail")
	default:
		return rapid.StringMatching(`[a-z0-9\-]{1,24}`).Draw(t, "ascii")
	}
}

func genC10(t *rapid.T) c10Case {
	c := c10Case{Kind: rapid.SampledFrom([]string{"det", "stress"}).Draw(t, "kind")}
	c.IDs = rapid.SliceOfN(rapid.Custom(genC10ID), 1, 48).Draw(t, "ids")
	kind := c.Kind
	c.Rates = rapid.SliceOfN(rapid.Custom(func(t *rapid.T) uint64 { return genC10Rate(t, kind) }), 1, 6).Draw(t, "rates")
	if c.Kind == "stress" {
		c.History = rapid.SliceOfN(rapid.Custom(func(t *rapid.T) uint64 { return genC10Rate(t, kind) }), 0, 3).Draw(t, "history")
	}
	if rapid.IntRange(0, 19).Draw(t, "stat") == 17 { // not the shrink target: minimal cases skip the expensive sub-run
		c.Stat = true
		c.StatSeed = rapid.Uint64().Draw(t, "statseed")
		c.Family = rapid.SampledFrom([]string{"", "prefix", "prefix", "suffix"}).Draw(t, "family")
		if c.Family != "" {
			c.FamLen = rapid.SampledFrom(c10FamLens).Draw(t, "famlen")
		}
	}
	if c.Kind == "stress" && rapid.IntRange(0, 7).Draw(t, "overlap") == 6 {
		c.Overlap = true
		small := rapid.SampledFrom([]uint64{1, 2, 3, 4}).Draw(t, "ovsmall")
		big := rapid.SampledFrom([]uint64{2, 3, 10, 1000, 1 << 40}).Draw(t, "ovbig")
		c.OverlapFrom, c.OverlapTo = small, big
		if rapid.Bool().Draw(t, "ovswap") {
			c.OverlapFrom, c.OverlapTo = big, small
		}
		c.OverlapSeed = rapid.Uint64().Draw(t, "ovseed")
	}
	if rapid.IntRange(0, 5).Draw(t, "sens") == 4 {
		cl := rapid.SampledFrom(c10SensClasses).Draw(t, "sensclass")
		c.Sens, c.SensLo, c.SensLen, c.SensSeed = true, cl[0], cl[1], rapid.Uint64().Draw(t, "sensseed")
	}
	return c
}

// ---------------------------------------------------------------- judge

func c10Splitmix(x *uint64) uint64 {
	*x += 0x9E3779B97F4A7C15
	z := *x
	z = (z ^ (z >> 30)) * 0xBF58476D1CE4E5B9
	z = (z ^ (z >> 27)) * 0x94D049BB133111EB
	return z ^ (z >> 31)
}

// c10Band is the accepted deviation of a Binomial(n,p) count from n*p: the
// larger of 6 sigma and the Bernstein bound for a two-sided tail of 1e-10 (the
// normal approximation alone is too optimistic when n*p is small).
func c10Band(n int, p float64) float64 {
	v := float64(n) * p * (1 - p)
	b := math.Log(2 / 1e-10)
	bern := b/3 + math.Sqrt(b*b/9+2*b*v)
	return math.Max(6*math.Sqrt(v), bern)
}

func execC10(c c10Case) vkit.Result {
	var res vkit.Result
	res.Class("kind=" + c.Kind)
	max := c10MaxRate(c.Kind)
	rates := make([]uint64, 0, len(c.Rates))
	for _, r := range c.Rates { // replay files are hand-editable: stay inside the quantifier
		if r >= 1 && r <= max {
			rates = append(rates, r)
		}
	}
	sort.Slice(rates, func(i, j int) bool { return rates[i] < rates[j] })
	child := c10Child()

	keptAt := make([][]bool, len(rates)) // [rate index][id index]
	for ri, rate := range rates {
		a, b := c10New(c.Kind, rate), c10New(c.Kind, rate)
		resp, err := child.ask(c10ChildReq{Kind: c.Kind, Rate: rate, IDs: c.IDs})
		if err != nil {
			panic(fmt.Sprintf("c10: second process unavailable: %v", err))
		}
		keptAt[ri] = make([]bool, len(c.IDs))
		for ii, id := range c.IDs {
			r1, k1 := a(id)
			r2, k2 := a(id)
			r3, k3 := b(id)
			keptAt[ri][ii] = k1
			if k1 != k2 || r1 != r2 {
				res.Violate("C10/"+c.Kind+"/purity/repeated-call", "id %q rate %d: first call (rate %d keep %v), second call (rate %d keep %v)", id, rate, r1, k1, r2, k2)
			}
			if k1 != k3 || r1 != r3 {
				res.Violate("C10/"+c.Kind+"/purity/fresh-instance", "id %q rate %d: instance A (rate %d keep %v), instance B (rate %d keep %v)", id, rate, r1, k1, r3, k3)
			}
			if k1 != resp.Keeps[ii] || r1 != resp.Rates[ii] {
				res.Violate("C10/"+c.Kind+"/purity/cross-process", "id %q rate %d: this process (rate %d keep %v), separately started process (rate %d keep %v)", id, rate, r1, k1, resp.Rates[ii], resp.Keeps[ii])
			}
			if rate <= 1 {
				if !k1 || r1 != 1 {
					res.Violate("C10/"+c.Kind+"/rate-le-1-keeps-all", "id %q configured rate %d: got rate %d keep %v", id, rate, r1, k1)
				}
			} else if uint64(r1) != rate {
				res.Violate("C10/"+c.Kind+"/reported-rate", "id %q configured rate %d: reported rate %d", id, rate, r1)
			}
		}
	}
	// a long-lived node that went through History and is then hot-reloaded to each rate (case order)
	// must decide like a freshly started node at that rate
	if c.Kind == "stress" {
		node := c10NewNode()
		reloads := 0
		for _, h := range c.History {
			if h >= 1 {
				node.reload(h)
				reloads++
			}
		}
		for _, rate := range c.Rates {
			if rate < 1 || rate > max {
				continue
			}
			node.reload(rate)
			reloads++
			fresh := c10New(c.Kind, rate)
			for _, id := range c.IDs {
				r1, k1 := fresh(id)
				r2, k2 := node.decide(id)
				if r1 != r2 || k1 != k2 {
					res.Violate("C10/stress/purity/reloaded-instance", "id %q: node configured %v then reloaded through %v, now at rate %d, says (rate %d keep %v); a freshly started node at rate %d says (rate %d keep %v)", id, c.History, c.Rates, rate, r2, k2, rate, r1, k1)
				}
			}
		}
		if reloads >= 2 {
			res.Class("reloaded>=2")
		}
	}
	// nesting: kept at N => kept at every M <= N
	nestedPairs, keptHigh := 0, 0
	for hi := range rates {
		for lo := 0; lo < hi; lo++ {
			if rates[lo] == rates[hi] {
				continue
			}
			for ii, id := range c.IDs {
				nestedPairs++
				if keptAt[hi][ii] {
					keptHigh++
					if !keptAt[lo][ii] {
						res.Violate("C10/"+c.Kind+"/nesting", "id %q kept at rate %d but dropped at rate %d", id, rates[hi], rates[lo])
					}
				}
			}
		}
	}
	if len(rates) > 0 && rates[len(rates)-1] > 1 && len(c.IDs) > 0 {
		res.NonTrivial = true
	}
	if len(rates) > 0 && rates[0] <= 1 {
		res.Class("has-rate-1")
	}
	if keptHigh > 0 {
		res.Class("nesting-premise-met")
	}
	if len(rates) > 0 && rates[len(rates)-1] > 1<<32 {
		res.Class("rate>2^32")
	}

	if c.Stat {
		res.Class("stat")
		res.Class("stat-family=" + c.Family + fmt.Sprintf("/%d", c.FamLen))
		res.NonTrivial = true
		x := c.StatSeed
		famLen := c.FamLen
		if famLen < 0 || famLen > 4096 {
			famLen = 0
		}
		common := string(c10RandASCII(&x, famLen))
		deciders := make([]c10Decider, len(c10StatRates))
		kept := make([]int, len(c10StatRates))
		for i, n := range c10StatRates {
			deciders[i] = c10New(c.Kind, n)
		}
		var buf [16]byte
		for i := 0; i < c10StatN; i++ {
			a, b := c10Splitmix(&x), c10Splitmix(&x)
			for j := 0; j < 8; j++ {
				buf[j] = byte(a >> (8 * j))
				buf[8+j] = byte(b >> (8 * j))
			}
			var id string
			switch c.Family {
			case "prefix": // distinct by construction: the counter is part of the unique part
				id = common + fmt.Sprintf("%08x", i) + hex.EncodeToString(buf[:4])
			case "suffix":
				id = fmt.Sprintf("%08x", i) + hex.EncodeToString(buf[:4]) + common
			default:
				id = hex.EncodeToString(buf[:])
			}
			for k, d := range deciders {
				if _, keep := d(id); keep {
					kept[k]++
				}
			}
		}
		for k, n := range c10StatRates {
			p := 1 / float64(n)
			want := float64(c10StatN) * p
			band := c10Band(c10StatN, p)
			if math.Abs(float64(kept[k])-want) > band {
				fam := "random-hex"
				if c.Family != "" {
					fam = fmt.Sprintf("common-%s-%d-bytes", c.Family, famLen)
				}
				res.Violate(fmt.Sprintf("C10/%s/fraction/N=%d", c.Kind, n), "seed %d, id family %s: kept %d of %d distinct ids at rate %d, expected %.1f +- %.1f", c.StatSeed, fam, kept[k], c10StatN, n, want, band)
			}
		}
	}

	if c.Overlap && c.Kind == "stress" && c.OverlapFrom >= 1 && c.OverlapTo >= 1 {
		res.Class("overlap-step")
		res.NonTrivial = true
		triples, duringPark, parks := c10RunOverlap(c.OverlapFrom, c.OverlapTo, c.OverlapSeed)
		if parks == 0 {
			res.Class("overlap:logger-never-parked")
		}
		if duringPark > 0 {
			res.Class("overlap:reader-returned-while-logger-parked")
		} else {
			res.Class("overlap:readers-waited-for-the-reload")
		}
		// every decision must be the decision of a node that simply runs at the rate reported with it
		fresh := map[uint]c10Decider{}
		bad := 0
		for _, tr := range triples {
			want := uint64(tr.rate)
			if want != c.OverlapFrom && want != c.OverlapTo {
				res.Violate("C10/stress/overlap/unknown-rate", "reload %d -> %d: a decision reported rate %d", c.OverlapFrom, c.OverlapTo, tr.rate)
				continue
			}
			d := fresh[tr.rate]
			if d == nil {
				d = c10New("stress", uint64(tr.rate))
				fresh[tr.rate] = d
			}
			if r, k := d(tr.id); r != tr.rate || k != tr.keep {
				bad++
				if bad == 1 {
					res.Violate("C10/stress/overlap/decision-inconsistent-with-reported-rate", "during a hot reload %d -> %d a reader got (rate %d, keep %v) for id %q; a node running at rate %d says keep %v (%d of %d decisions returned while a log call of the reload was parked)", c.OverlapFrom, c.OverlapTo, tr.rate, tr.keep, tr.id, tr.rate, k, duringPark, len(triples))
				}
			}
		}
	}

	if c.Sens && c.SensLen > 0 && c.SensLen <= 4096 && c.SensLo >= 0 && c.SensLo < c.SensLen {
		res.Class(fmt.Sprintf("sens-pos=[%d,%d)", c.SensLo, c.SensLen))
		res.NonTrivial = true
		x := c.SensSeed
		deciders := make([]c10Decider, 0, 64)
		for n := uint64(2); n <= 65; n++ {
			deciders = append(deciders, c10New(c.Kind, n))
		}
		differing := 0
		var example string
		for pair := 0; pair < c10SensPairs; pair++ {
			base := c10RandASCII(&x, c.SensLen)
			pos := c.SensLo + int(c10Splitmix(&x)%uint64(c.SensLen-c.SensLo))
			other := append([]byte(nil), base...)
			other[pos] = 'A' + byte(c10Splitmix(&x)%26) // base is lower case / digits / -_ : always a different byte
			differs := false
			for _, d := range deciders {
				_, k1 := d(string(base))
				_, k2 := d(string(other))
				if k1 != k2 {
					differs = true
					break
				}
			}
			if differs {
				differing++
			} else if example == "" {
				example = fmt.Sprintf("byte %d of a %d-byte id", pos, c.SensLen)
			}
		}
		if differing == 0 {
			res.Violate(fmt.Sprintf("C10/%s/id-byte-ignored/pos=[%d,%d)", c.Kind, c.SensLo, c.SensLen),
				"seed %d: %d pairs of %d-byte ids differing in one byte at a position in [%d,%d) all got identical decisions at every rate 2..65 (e.g. %s); for a hash of the whole id this has probability %.3f^%d = %.1e",
				c.SensSeed, c10SensPairs, c.SensLen, c.SensLo, c.SensLen, example, c10SensEqualProb(), c10SensPairs, math.Pow(c10SensEqualProb(), c10SensPairs))
		}
	}
	return res
}

func TestC10(t *testing.T) {
	defer func() { c10Child().stop() }()
	vkit.Run(t, vkit.Spec[c10Case]{
		ID:   "C10",
		Rule: "rapid-generated (kind, trace-id list, rate list): ids are hex-16/32, arbitrary UTF-8, empty; rates 1..2^31 (DeterministicSampler) / 1..2^64-1 (StressRelief.GetSampleRate) biased to small values and powers of two +-1. Every (id, rate) is decided twice by one instance, by a second fresh instance and by a separately started process (the test binary re-executed in child mode); for stress relief a long-lived node is additionally configured with a generated history of rates and hot-reloaded (UpdateFromConfig on the same instance) to every drawn rate, and must agree with a fresh node at that rate; about 1 stress case in 8 adds an overlap step with real goroutines: the node's logger parks every log call made during a rate-changing reload while a second goroutine asks for 300 decisions, and every returned (rate, keep) must be what a node running at that reported rate decides; nesting is checked for every id and every pair of drawn rates; about 1 in 20 cases additionally measure the kept fraction over 40000 distinct generated ids at N in {2,3,10,100,10000} against max(6 sigma, Bernstein 1e-10), the ids being random hex or a family sharing one common prefix or suffix of 32/48/64/100/256/1024 bytes plus a short unique part; about 1 in 6 cases check single-byte sensitivity: 32 pairs of ids (16..1024 bytes) differing in one byte at a drawn position class (incl. positions >= 64) are decided at all rates 2..65 and must not all have identical decision vectors (probability 0.288^32 = 5e-18 for a hash of the whole id). Non-trivial: some rate > 1 (or a statistical sub-run). Distinct = distinct case JSON.",
		Assumptions: []string{
			"the concrete hash function, salt and seed are not pinned: only purity, nesting, reported rate and kept fraction are asserted",
			"'every node and every run' is observed as: two instances in one process plus one separately started process of the same binary on the same machine",
			"rates stay inside the property's quantifier (deterministic: 1..2^31, stress relief: 1..2^64-1); SampleRate 0 is rejected by config validation and not generated",
			"StressRelief is configured through config.MockConfig + UpdateFromConfig (no Start: the sampling decision does not depend on the monitor goroutine)",
			"overlap step: the parked logger is released after the readers finished or after 30 scheduler yields + 20us sleeps per log call; this only decides how much overlap is observed (class overlap:reader-returned-while-logger-parked), never the verdict, which is taken from the returned triples alone",
			"kept-fraction ids come from a harness-owned splitmix64 stream seeded by the case, so a case's verdict is reproducible",
			"'a fixed hash of its trace ID' is read as a hash of the whole id (any length, trace ids are arbitrary strings): the 1/N fraction is also required of families of distinct ids with a long common prefix/suffix, and no byte position may be ignored",
		},
		Gen:  genC10,
		Exec: execC10,
	})
}
