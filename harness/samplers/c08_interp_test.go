package samplers

import (
	"math"
	"regexp"
	"strconv"
	"strings"
)

// C08 reference interpreter: rules.md / rules_conditions.md read literally and
// written without looking at how sample/rules.go and config/sampler_config.go
// compute things. Every evaluation is three-valued: true, false or don't-care
// (the documents leave the corner open, or contradict each other).

type c08Tri int

const (
	c08F  c08Tri = 0
	c08T  c08Tri = 1
	c08DC c08Tri = 2
)

func (t c08Tri) String() string { return [...]string{"false", "true", "dont-care"}[t] }

func c08Bool(b bool) c08Tri {
	if b {
		return c08T
	}
	return c08F
}

func c08Or(a, b c08Tri) c08Tri {
	switch {
	case a == c08T || b == c08T:
		return c08T
	case a == c08DC || b == c08DC:
		return c08DC
	}
	return c08F
}

func c08And(a, b c08Tri) c08Tri {
	switch {
	case a == c08F || b == c08F:
		return c08F
	case a == c08DC || b == c08DC:
		return c08DC
	}
	return c08T
}

func c08Not(a c08Tri) c08Tri {
	switch a {
	case c08T:
		return c08F
	case c08F:
		return c08T
	}
	return c08DC
}

// ---- condition values (the `Value` parameter as the operator wrote it in YAML)

type c08CV struct {
	K string  `json:"k"` // i int | f float | b bool | s string | l list
	I int64   `json:"i,omitempty"`
	F float64 `json:"f,omitempty"`
	B bool    `json:"b,omitempty"`
	S string  `json:"s,omitempty"`
	L []c08CV `json:"l,omitempty"`
}

func (v c08CV) asVal() (c811Val, bool) {
	switch v.K {
	case "i":
		return c811I(v.I), true
	case "f":
		return c811F(v.F), true
	case "b":
		return c811B(v.B), true
	case "s":
		return c811S(v.S), true
	}
	return c811Val{}, false
}

func (v c08CV) String() string {
	if v.K == "l" {
		parts := make([]string, len(v.L))
		for i, e := range v.L {
			parts[i] = e.String()
		}
		return "[" + strings.Join(parts, ",") + "]"
	}
	x, _ := v.asVal()
	return x.String()
}

func (v c08CV) kind() string {
	switch v.K {
	case "i":
		return "int"
	case "f":
		return "float"
	case "b":
		return "bool"
	case "s":
		if _, err := strconv.ParseFloat(v.S, 64); err == nil {
			return "numstring"
		}
		return "string"
	case "l":
		if len(v.L) == 0 {
			return "list-empty"
		}
		return "list-" + v.L[0].kind()
	}
	return "none"
}

type c08Cond struct {
	Field    string   `json:"field,omitempty"`
	Fields   []string `json:"fields,omitempty"`
	Op       string   `json:"op"`
	Value    *c08CV   `json:"value,omitempty"`
	Datatype string   `json:"datatype,omitempty"`
}

func (c c08Cond) names() []string {
	if c.Field != "" {
		return []string{c.Field}
	}
	return c.Fields
}

type c08Rule struct {
	Scope string    `json:"scope,omitempty"` // "" | trace | span
	Conds []c08Cond `json:"conds"`
	// outcome
	Downstream bool `json:"downstream,omitempty"` // DynamicSampler{SampleRate: Rate, FieldList: [a]}
	Drop       bool `json:"drop,omitempty"`
	Rate       int  `json:"rate,omitempty"`
}

const c08NumDescendants = "?.NUM_DESCENDANTS"

// ---- coercions as the documents describe them; ok=false: conversion error; dc: undocumented corner

type c08Conv struct {
	ok bool
	dc bool
}

// simple float: non-integral, finite, and rendered the same by every common formatter
func c08SimpleFrac(f float64) bool {
	if math.IsNaN(f) || math.IsInf(f, 0) || f == math.Trunc(f) {
		return false
	}
	return strconv.FormatFloat(f, 'f', -1, 64) == strconv.FormatFloat(f, 'g', -1, 64)
}

// "coerced to strings": text as is, integers in decimal, booleans true/false,
// simple fractions as written. Integral floats (200 or 200.0?), nil, exotic floats: open.
func c08ToStr(v c811Val) (string, c08Conv) {
	switch v.T {
	case "s":
		return v.S, c08Conv{ok: true}
	case "i":
		return strconv.FormatInt(v.I, 10), c08Conv{ok: true}
	case "b":
		return strconv.FormatBool(v.B), c08Conv{ok: true}
	case "f":
		if c08SimpleFrac(v.F) {
			return strconv.FormatFloat(v.F, 'f', -1, 64), c08Conv{ok: true}
		}
	}
	return "", c08Conv{dc: true}
}

var c08IntRe = regexp.MustCompile(`^[+-]?[0-9]+$`)
var c08FloatRe = regexp.MustCompile(`^[+-]?([0-9]+\.?[0-9]*|\.[0-9]+)([eE][+-]?[0-9]+)?$`)

// Datatype int: "1.5 == 1 because 1.5 gets converted to 1". Negative fractions
// (floor or truncate?), booleans, strings that look like non-integers: open.
func c08ToInt(v c811Val) (int64, c08Conv) {
	switch v.T {
	case "i":
		return v.I, c08Conv{ok: true}
	case "f":
		if math.IsNaN(v.F) || math.IsInf(v.F, 0) || math.Abs(v.F) >= 1<<53 {
			return 0, c08Conv{dc: true}
		}
		if v.F < 0 && v.F != math.Trunc(v.F) {
			return 0, c08Conv{dc: true}
		}
		return int64(math.Trunc(v.F)), c08Conv{ok: true}
	case "s":
		if c08IntRe.MatchString(v.S) {
			n, err := strconv.ParseInt(v.S, 10, 64)
			if err != nil {
				return 0, c08Conv{dc: true}
			}
			return n, c08Conv{ok: true}
		}
		if _, err := strconv.ParseFloat(strings.TrimSpace(v.S), 64); err == nil {
			return 0, c08Conv{dc: true} // "1.5", " 7", "1e3", "inf": convertible to a number somehow; open
		}
		return 0, c08Conv{} // conversion error
	}
	return 0, c08Conv{dc: true} // bool, nil
}

func c08ToFloat(v c811Val) (float64, c08Conv) {
	switch v.T {
	case "f":
		if math.IsNaN(v.F) || math.IsInf(v.F, 0) {
			return 0, c08Conv{dc: true}
		}
		return v.F, c08Conv{ok: true}
	case "i":
		if v.I >= 1<<53 || v.I <= -(1<<53) {
			return 0, c08Conv{dc: true}
		}
		return float64(v.I), c08Conv{ok: true}
	case "s":
		if c08FloatRe.MatchString(v.S) {
			f, err := strconv.ParseFloat(v.S, 64)
			if err != nil || math.IsInf(f, 0) {
				return 0, c08Conv{dc: true}
			}
			return f, c08Conv{ok: true}
		}
		if _, err := strconv.ParseFloat(strings.TrimSpace(v.S), 64); err == nil {
			return 0, c08Conv{dc: true}
		}
		return 0, c08Conv{}
	}
	return 0, c08Conv{dc: true}
}

// Datatype bool, span side: "interpret true/false and 1/0 as boolean, and all
// other values are considered to be false". Spellings strconv.ParseBool would
// also take (t, T, TRUE, True, ...) and floats 1.0/0.0: open.
func c08SpanToBool(v c811Val) (bool, c08Conv) {
	switch v.T {
	case "b":
		return v.B, c08Conv{ok: true}
	case "i":
		return v.I == 1, c08Conv{ok: true}
	case "s":
		switch v.S {
		case "true", "1":
			return true, c08Conv{ok: true}
		case "false", "0":
			return false, c08Conv{ok: true}
		}
		if _, err := strconv.ParseBool(strings.TrimSpace(v.S)); err == nil {
			return false, c08Conv{dc: true}
		}
		switch strings.ToLower(strings.TrimSpace(v.S)) {
		case "yes", "no", "on", "off", "y", "n":
			return false, c08Conv{dc: true}
		}
		return false, c08Conv{ok: true}
	case "f":
		if v.F == 1 || v.F == 0 {
			return false, c08Conv{dc: true}
		}
		return false, c08Conv{ok: true}
	}
	return false, c08Conv{dc: true}
}

func c08CmpOp(op string, c int) bool {
	switch op {
	case "=":
		return c == 0
	case "!=":
		return c != 0
	case "<":
		return c < 0
	case "<=":
		return c <= 0
	case ">":
		return c > 0
	case ">=":
		return c >= 0
	}
	panic("c08: not a comparison operator: " + op)
}

func c08Cmp[T int64 | float64 | string](a, b T) int {
	switch {
	case a < b:
		return -1
	case a > b:
		return 1
	}
	return 0
}

func c08IsCompare(op string) bool {
	switch op {
	case "=", "!=", "<", "<=", ">", ">=":
		return true
	}
	return false
}

func c08IsStringOp(op string) bool {
	switch op {
	case "starts-with", "contains", "does-not-contain", "matches":
		return true
	}
	return false
}

// c08EvalValue: the condition's operator applied to a value that exists.
func c08EvalValue(c c08Cond, v c811Val) c08Tri {
	v = v.norm()
	switch c.Op {
	case "exists":
		return c08T
	case "not-exists":
		return c08F
	}
	if v.T == "n" {
		return c08DC // a field that is present with a null value: nothing is said about comparing it
	}
	if c.Value == nil {
		return c08DC
	}
	switch {
	case c08IsCompare(c.Op):
		cv, scalar := c.Value.asVal()
		if !scalar {
			return c08DC
		}
		switch c.Datatype {
		case "string":
			a, ca := c08ToStr(v)
			b, cb := c08ToStr(cv)
			if !ca.ok || !cb.ok {
				return c08DC
			}
			return c08Bool(c08CmpOp(c.Op, c08Cmp(a, b)))
		case "int":
			b, cb := c08ToInt(cv)
			if !cb.ok {
				return c08DC // the configured Value itself is not an int
			}
			a, ca := c08ToInt(v)
			if ca.dc {
				return c08DC
			}
			if !ca.ok {
				return c08F // "Errors in conversion will result in the comparison evaluating to false"
			}
			return c08Bool(c08CmpOp(c.Op, c08Cmp(a, b)))
		case "float":
			b, cb := c08ToFloat(cv)
			if !cb.ok {
				return c08DC
			}
			a, ca := c08ToFloat(v)
			if ca.dc {
				return c08DC
			}
			if !ca.ok {
				return c08F
			}
			return c08Bool(c08CmpOp(c.Op, c08Cmp(a, b)))
		case "bool":
			if c.Op != "=" && c.Op != "!=" {
				return c08DC
			}
			if cv.T != "b" {
				return c08DC
			}
			a, ca := c08SpanToBool(v)
			if !ca.ok {
				return c08DC
			}
			return c08Bool((a == cv.B) == (c.Op == "="))
		case "":
			// "Refinery determines the type of the incoming span value. If the value is numeric or boolean, it attempts
			// to convert the Value parameter to the same type. If the span value is a string, the Value parameter must
			// also be a string or the comparison will fail."
			switch v.T {
			case "s":
				if cv.T != "s" {
					return c08F
				}
				return c08Bool(c08CmpOp(c.Op, c08Cmp(v.S, cv.S)))
			case "i":
				switch cv.T {
				case "i":
					return c08Bool(c08CmpOp(c.Op, c08Cmp(v.I, cv.I)))
				case "f":
					// numeric span value, numeric Value: compared as numbers (7 < 7.5). "Convert the Value to the same
					// type" is read as "to a number", not as truncation: truncating is documented for Datatype int only,
					// and the same number must not compare differently depending on whether it arrived as an integer
					// or as a float (C09). Beyond 2^53 the two readings cannot be told apart exactly: open.
					if math.IsNaN(cv.F) || math.IsInf(cv.F, 0) || math.Abs(cv.F) >= 1<<53 || v.I >= 1<<53 || v.I <= -(1<<53) {
						return c08DC
					}
					return c08Bool(c08CmpOp(c.Op, c08Cmp(float64(v.I), cv.F)))
				}
				return c08DC // string or bool Value against a number: "attempts to convert"
			case "f":
				b, cb := c08ToFloat(cv)
				if cv.T == "s" || cv.T == "b" || !cb.ok {
					return c08DC
				}
				a, ca := c08ToFloat(v)
				if !ca.ok {
					return c08DC
				}
				return c08Bool(c08CmpOp(c.Op, c08Cmp(a, b)))
			case "b":
				if cv.T != "b" || (c.Op != "=" && c.Op != "!=") {
					return c08DC
				}
				return c08Bool((v.B == cv.B) == (c.Op == "="))
			}
			return c08DC
		}
		return c08DC
	case c08IsStringOp(c.Op):
		cv, scalar := c.Value.asVal()
		if !scalar {
			return c08DC
		}
		a, ca := c08ToStr(v)
		b, cb := c08ToStr(cv)
		if !ca.ok || !cb.ok {
			return c08DC
		}
		switch c.Op {
		case "starts-with":
			return c08Bool(strings.HasPrefix(a, b))
		case "contains":
			return c08Bool(strings.Contains(a, b))
		case "does-not-contain":
			return c08Bool(!strings.Contains(a, b))
		default: // matches: "The regular expression grammar used is the syntax used by the Go programming language"
			re, err := regexp.Compile(b)
			if err != nil {
				return c08DC
			}
			return c08Bool(re.MatchString(a))
		}
	case c.Op == "in" || c.Op == "not-in":
		if c.Value.K != "l" {
			return c08DC // "The Value parameter should be a list of items"
		}
		elems := make([]c811Val, 0, len(c.Value.L))
		for _, e := range c.Value.L {
			ev, ok := e.asVal()
			if !ok {
				return c08DC
			}
			if len(elems) > 0 && ev.T != elems[0].T {
				return c08DC // "should all be of the same datatype"
			}
			elems = append(elems, ev)
		}
		in := c08F
		switch c.Datatype {
		case "":
			// "occurs exactly within the list"
			for _, e := range elems {
				if e.T != v.T {
					return c08DC // "200" in [200]? exact, so probably not, but nothing says so
				}
				if e == v {
					in = c08T
				}
			}
		case "string":
			a, ca := c08ToStr(v)
			if !ca.ok {
				return c08DC
			}
			for _, e := range elems {
				b, cb := c08ToStr(e)
				if !cb.ok {
					return c08DC
				}
				if a == b {
					in = c08T
				}
			}
		case "int":
			a, ca := c08ToInt(v)
			if ca.dc {
				return c08DC
			}
			for _, e := range elems {
				b, cb := c08ToInt(e)
				if !cb.ok {
					return c08DC
				}
				if ca.ok && a == b {
					in = c08T
				}
			}
			if !ca.ok {
				if c.Op == "in" {
					return c08F
				}
				return c08DC // not-in with a value that cannot be converted: "comparison false" or "not in the list"?
			}
		case "float":
			a, ca := c08ToFloat(v)
			if ca.dc {
				return c08DC
			}
			for _, e := range elems {
				b, cb := c08ToFloat(e)
				if !cb.ok {
					return c08DC
				}
				if ca.ok && a == b {
					in = c08T
				}
			}
			if !ca.ok {
				if c.Op == "in" {
					return c08F
				}
				return c08DC
			}
		default:
			return c08DC // bool
		}
		if c.Op == "in" {
			return in
		}
		return c08Not(in)
	}
	return c08DC
}

// c08Resolve: the value the condition reads when evaluated on span i.
// "The fields are checked in order; the first field that exists on any given span is used";
// "root." reads the root span; "If a root. prefix is present on a field, but the root span is
// not on the trace, that field will be skipped".
func c08Resolve(c c08Cond, tr c811Trace, i int) (v c811Val, exists bool, virtual bool) {
	if c.Field == c08NumDescendants {
		return c811I(int64(len(tr.Spans))), true, true
	}
	root := tr.rootIdx()
	for _, name := range c.names() {
		span := i
		if strings.HasPrefix(name, "root.") {
			if root < 0 {
				continue
			}
			span = root
			name = strings.TrimPrefix(name, "root.")
		}
		if val, ok := tr.Spans[span][name]; ok {
			return val, true, false
		}
	}
	return c811Val{}, false, false
}

func c08AnyRootName(c c08Cond) bool {
	for _, n := range c.names() {
		if strings.HasPrefix(n, "root.") {
			return true
		}
	}
	return false
}

// c08CondOnSpan: does the condition hold when evaluated on span i.
func c08CondOnSpan(c c08Cond, tr c811Trace, i int) c08Tri {
	for _, n := range c.names() {
		if strings.HasPrefix(n, "?.") && !(c.Field == c08NumDescendants) {
			return c08DC // unknown virtual field, or a virtual field inside Fields
		}
		if strings.HasPrefix(n, "meta.") {
			return c08DC
		}
	}
	if len(c.names()) == 0 {
		return c08DC
	}
	v, exists, _ := c08Resolve(c, tr, i)
	if !exists {
		if c.Op == "not-exists" {
			if tr.rootIdx() < 0 && c08AnyRootName(c) {
				// rules.md: "The not-exists condition on a root.-prefixed field will evaluate to false if ... the root span
				// does not exist" -- the property statement (and the existing suite) say it matches. Contradiction: open.
				return c08DC
			}
			return c08T
		}
		// "If the field is not present, then the condition will not match."
		return c08F
	}
	return c08EvalValue(c, v)
}

// c08HasRootSpan: trace-level operator. Value true/false.
func c08HasRootSpan(c c08Cond, tr c811Trace) c08Tri {
	if c.Value == nil || c.Value.K != "b" {
		return c08DC
	}
	return c08Bool((tr.rootIdx() >= 0) == c.Value.B)
}

// c08CondOnTrace: "each condition can apply to any span in the trace independently".
func c08CondOnTrace(c c08Cond, tr c811Trace) c08Tri {
	if c.Op == "has-root-span" {
		return c08HasRootSpan(c, tr)
	}
	r := c08F
	for i := range tr.Spans {
		r = c08Or(r, c08CondOnSpan(c, tr, i))
	}
	return r
}

// c08RuleMatches: "All conditions must be met for the rule to match. If there are no conditions, then the rule will
// always match." Scope span: "the rule only succeeds if all of the conditions match on a single span together";
// has-root-span with Scope span: "will cause the rule to fail evaluation and be skipped".
func c08RuleMatches(r c08Rule, tr c811Trace) c08Tri {
	switch r.Scope {
	case "", "trace":
		m := c08T
		for _, c := range r.Conds {
			m = c08And(m, c08CondOnTrace(c, tr))
		}
		return m
	case "span":
		for _, c := range r.Conds {
			if c.Op == "has-root-span" {
				return c08F
			}
		}
		m := c08F
		for i := range tr.Spans {
			s := c08T
			for _, c := range r.Conds {
				s = c08And(s, c08CondOnSpan(c, tr, i))
			}
			m = c08Or(m, s)
		}
		return m
	}
	return c08DC
}

// c08FirstMatch: index of the first rule that matches, len(rules) if none;
// dcAt >= 0: evaluation had to stop at that rule (don't-care), idx is meaningless.
func c08FirstMatch(rules []c08Rule, tr c811Trace) (idx int, dcAt int) {
	for i, r := range rules {
		switch c08RuleMatches(r, tr) {
		case c08T:
			return i, -1
		case c08DC:
			return -1, i
		}
	}
	return len(rules), -1
}
