package samplers

import (
	"fmt"
	"sort"
	"strconv"

	"github.com/honeycombio/refinery/config"
	"github.com/honeycombio/refinery/types"
)

// Shared by C08 and C11: a JSON-able typed field value, spans as field maps and
// the construction of types.Trace the way sample/*_test.go does it
// (types.NewPayload over a map, Trace.AddSpan, Trace.RootSpan).

// c811Val is one field value of a Go type the ingestion paths produce.
type c811Val struct {
	T string  `json:"t"` // s string | i int64 | f float64 | b bool | n nil
	S string  `json:"s,omitempty"`
	I int64   `json:"i,omitempty"`
	F float64 `json:"f,omitempty"`
	B bool    `json:"b,omitempty"`
}

func c811S(s string) c811Val  { return c811Val{T: "s", S: s} }
func c811I(i int64) c811Val   { return c811Val{T: "i", I: i} }
func c811F(f float64) c811Val { return c811Val{T: "f", F: f} }
func c811B(b bool) c811Val    { return c811Val{T: "b", B: b} }
func c811N() c811Val          { return c811Val{T: "n"} }

func (v c811Val) any() any {
	switch v.T {
	case "s":
		return v.S
	case "i":
		return v.I
	case "f":
		return v.F
	case "b":
		return v.B
	}
	return nil
}

// norm drops payload members that do not belong to the type tag (hand-edited replays).
func (v c811Val) norm() c811Val {
	switch v.T {
	case "s":
		return c811S(v.S)
	case "i":
		return c811I(v.I)
	case "f":
		return c811F(v.F)
	case "b":
		return c811B(v.B)
	}
	return c811N()
}

func (v c811Val) String() string {
	switch v.T {
	case "s":
		return strconv.Quote(v.S)
	case "i":
		return "int64(" + strconv.FormatInt(v.I, 10) + ")"
	case "f":
		return "float64(" + strconv.FormatFloat(v.F, 'g', -1, 64) + ")"
	case "b":
		return "bool(" + strconv.FormatBool(v.B) + ")"
	}
	return "nil"
}

// c811Span is a span as a map field name -> value.
type c811Span map[string]c811Val

func (s c811Span) clone() c811Span {
	o := make(c811Span, len(s))
	for k, v := range s {
		o[k] = v
	}
	return o
}

func (s c811Span) sortedFields() []string {
	ks := make([]string, 0, len(s))
	for k := range s {
		ks = append(ks, k)
	}
	sort.Strings(ks)
	return ks
}

// c811Trace: spans in arrival order; Root is the index of the root span or -1.
type c811Trace struct {
	Spans []c811Span `json:"spans"`
	Root  int        `json:"root"`
}

func (t c811Trace) rootIdx() int {
	if t.Root < 0 || t.Root >= len(t.Spans) {
		return -1
	}
	return t.Root
}

func (t c811Trace) clone() c811Trace {
	o := c811Trace{Root: t.Root, Spans: make([]c811Span, len(t.Spans))}
	for i, s := range t.Spans {
		o.Spans[i] = s.clone()
	}
	return o
}

func (t c811Trace) String() string {
	out := ""
	for i, s := range t.Spans {
		if i > 0 {
			out += " "
		}
		if i == t.rootIdx() {
			out += "ROOT"
		}
		out += "{"
		for j, k := range s.sortedFields() {
			if j > 0 {
				out += ","
			}
			out += k + ":" + s[k].String()
		}
		out += "}"
	}
	return out
}

var c811MockCfg = &config.MockConfig{}

// c811Annotation is the reserved key by which a span of a case says that it is a span event or a span link
// (value "span_event" / "link"): it becomes the payload's meta.annotation_type, as on the ingest path.
const c811Annotation = "meta.annotation_type"

func c811BuildSpan(traceID string, s c811Span, isRoot bool) *types.Span {
	data := make(map[string]any, len(s))
	kind := ""
	for k, v := range s {
		if k == c811Annotation {
			if v.T == "s" {
				kind = v.S
			}
			continue
		}
		data[k] = v.any()
	}
	sp := &types.Span{
		TraceID: traceID,
		Event:   &types.Event{Data: types.NewPayload(c811MockCfg, data)},
	}
	if kind != "" {
		sp.Data.Set(c811Annotation, kind)
	}
	sp.IsRoot = isRoot
	return sp
}

func c811Build(traceID string, t c811Trace) *types.Trace {
	tr := &types.Trace{TraceID: traceID}
	c811Extend(tr, t, 0, len(t.Spans))
	return tr
}

// c811Extend adds spans [from, to) of t to an existing trace object (arrival of further spans).
func c811Extend(tr *types.Trace, t c811Trace, from, to int) {
	root := t.rootIdx()
	for i := from; i < to && i < len(t.Spans); i++ {
		sp := c811BuildSpan(tr.TraceID, t.Spans[i], i == root)
		if i == root {
			tr.RootSpan = sp
		}
		tr.AddSpan(sp)
	}
}

func (t c811Trace) annotations() int {
	n := 0
	for _, s := range t.Spans {
		if _, ok := s[c811Annotation]; ok {
			n++
		}
	}
	return n
}

// c811Shuffle returns a permutation of 0..n-1 determined by seed (harness-owned splitmix64).
func c811Shuffle(n int, seed uint64) []int {
	p := make([]int, n)
	for i := range p {
		p[i] = i
	}
	x := seed
	for i := n - 1; i > 0; i-- {
		j := int(c10Splitmix(&x) % uint64(i+1))
		p[i], p[j] = p[j], p[i]
	}
	return p
}

func c811Permute(t c811Trace, seed uint64) c811Trace {
	p := c811Shuffle(len(t.Spans), seed)
	o := c811Trace{Root: -1, Spans: make([]c811Span, len(t.Spans))}
	for newIdx, oldIdx := range p {
		o.Spans[newIdx] = t.Spans[oldIdx].clone()
		if oldIdx == t.rootIdx() {
			o.Root = newIdx
		}
	}
	return o
}

func c811Recover(f func()) (panicked string) {
	defer func() {
		if p := recover(); p != nil {
			panicked = fmt.Sprint(p)
		}
	}()
	f()
	return ""
}
