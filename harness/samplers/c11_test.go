package samplers

import (
	"fmt"
	"math"
	"sort"
	"strconv"
	"strings"
	"testing"
	"testing/synctest"
	"time"

	"github.com/honeycombio/refinery/config"
	"github.com/honeycombio/refinery/logger"
	"github.com/honeycombio/refinery/metrics"
	"github.com/honeycombio/refinery/sample"
	"github.com/honeycombio/refinery/types"
	"github.com/honeycombio/refinery/verifharness/vkit"
	"pgregory.net/rapid"
)

// C11: the sample key of the dynsampler-backed samplers depends only on the
// distinct values each configured field takes (root.-fields: on the root span),
// plus the span count under UseTraceLength; rate >= 1; keep with probability 1/rate.
//
// The oracle never re-computes a key string: it compares keys returned by the
// real samplers for traces related by transformations that must (not) matter.

type c11Case struct {
	Sampler        string    `json:"sampler"` // dynamic | emadynamic | emathroughput | windowedthroughput | totalthroughput
	Fields         []string  `json:"fields"`
	UseTraceLength bool      `json:"use_trace_length"`
	Rate           int       `json:"rate"` // goal sample rate / initial sample rate / goal throughput
	A              c811Trace `json:"a"`
	B              c811Trace `json:"b"` // second trace (an edit of A, or independent) for the separation part
	PermSeed       uint64    `json:"perm_seed"`
	Dups           []int     `json:"dups,omitempty"` // indices (mod len) of spans of A to duplicate
	// GrowAt k (0 < k < len(A.spans)): the same trace object is keyed when it holds the first k spans of A,
	// then the remaining spans arrive and it is keyed again; that key must be the key of a freshly assembled A.
	GrowAt int `json:"grow_at,omitempty"`
	// Freq: run the keep-frequency sub-check: feed A x FeedA and B x FeedB, let one
	// adjustment interval pass (virtual time), then decide A and B c11FreqN times each.
	Freq  bool `json:"freq,omitempty"`
	FeedA int  `json:"feed_a,omitempty"`
	FeedB int  `json:"feed_b,omitempty"`
}

const c11FreqN = 8000

var c11Samplers = []string{"dynamic", "emadynamic", "emathroughput", "windowedthroughput", "totalthroughput"}

// field alphabet of spans: three keyable fields, one root-only candidate, one never configured
var c11SpanFields = []string{"f1", "f2", "f3", "r", "zz"}
var c11ConfigFields = []string{"f1", "f2", "f3", "root.f1", "root.r", "root.f2"}

// ---------------------------------------------------------------- SUT

func c11NewSampler(c c11Case) (sample.Sampler, func()) {
	rate := c.Rate
	if rate < 1 {
		rate = 1
	}
	fields := append([]string(nil), c.Fields...)
	var cfg any
	switch c.Sampler {
	case "dynamic":
		cfg = &config.DynamicSamplerConfig{SampleRate: int64(rate), ClearFrequency: config.Duration(30 * time.Second), FieldList: fields, UseTraceLength: c.UseTraceLength}
	case "emadynamic":
		cfg = &config.EMADynamicSamplerConfig{GoalSampleRate: rate, AdjustmentInterval: config.Duration(15 * time.Second), Weight: 0.5, AgeOutValue: 0.5,
			BurstMultiple: 2, BurstDetectionDelay: 3, FieldList: fields, UseTraceLength: c.UseTraceLength}
	case "emathroughput":
		cfg = &config.EMAThroughputSamplerConfig{GoalThroughputPerSec: rate, InitialSampleRate: rate, AdjustmentInterval: config.Duration(15 * time.Second), Weight: 0.5,
			AgeOutValue: 0.5, BurstMultiple: 2, BurstDetectionDelay: 3, FieldList: fields, UseTraceLength: c.UseTraceLength}
	case "windowedthroughput":
		cfg = &config.WindowedThroughputSamplerConfig{UpdateFrequency: config.Duration(time.Second), LookbackFrequency: config.Duration(30 * time.Second),
			GoalThroughputPerSec: rate, FieldList: fields, UseTraceLength: c.UseTraceLength}
	case "totalthroughput":
		cfg = &config.TotalThroughputSamplerConfig{GoalThroughputPerSec: rate, ClearFrequency: config.Duration(30 * time.Second), FieldList: fields, UseTraceLength: c.UseTraceLength}
	default:
		panic("c11: unknown sampler " + c.Sampler)
	}
	f := &sample.SamplerFactory{Config: &config.MockConfig{GetSamplerTypeVal: cfg}, Logger: &logger.NullLogger{}, Metrics: &metrics.NullMetrics{}}
	if err := f.Start(); err != nil {
		panic(err)
	}
	s := f.GetSamplerImplementationForKey("c11env")
	if s == nil {
		panic("c11: factory returned no sampler")
	}
	return s, f.Stop
}

func c11Interval(sampler string) time.Duration {
	switch sampler {
	case "dynamic", "totalthroughput":
		return 30 * time.Second
	case "windowedthroughput":
		return 2 * time.Second
	}
	return 15 * time.Second
}

// ---------------------------------------------------------------- generator

func genC11Val(t *rapid.T) c811Val {
	switch rapid.IntRange(0, 19).Draw(t, "valshape") {
	case 0, 1, 2, 3:
		return c811S(rapid.SampledFrom([]string{"a", "b", "c", "ab", "a b", "A"}).Draw(t, "str"))
	case 4:
		return c811S(rapid.SampledFrom([]string{"", "1", "2", "1.5", "true", "<nil>", "nil", "-1", "01", "1e3"}).Draw(t, "lookalike"))
	case 5:
		return c811S(rapid.SampledFrom([]string{",", "a,b", "•", "a•b", "a•,b", "•,"}).Draw(t, "delim"))
	case 6, 7, 8, 9:
		return c811I(rapid.SampledFrom([]int64{0, 1, 2, 3, -1, 200, 404, 1 << 53, math.MaxInt64, math.MinInt64}).Draw(t, "int"))
	case 10, 11, 12:
		return c811F(rapid.SampledFrom([]float64{0, 1, 2, 1.5, -1, 0.1, 200, 1e21, 1e-7, 2.5}).Draw(t, "float"))
	case 13, 14:
		return c811B(rapid.Bool().Draw(t, "bool"))
	case 15:
		return c811N()
	case 16:
		return c811S(rapid.StringN(0, 6, 24).Draw(t, "anystr"))
	case 17:
		// numbers whose neighbours differ only beyond float32 / float64 precision or range
		if rapid.Bool().Draw(t, "precint") {
			return c811I(rapid.SampledFrom(c11PrecisionInts).Draw(t, "pint"))
		}
		return c811F(rapid.SampledFrom(c11PrecisionFloats).Draw(t, "pfloat"))
	default:
		return c811I(int64(rapid.IntRange(0, 9).Draw(t, "digit")))
	}
}

// values around 2^24 (float32 integer precision), 2^53 (float64 integer precision), close decimal
// fractions, and magnitudes beyond the float32 range: distinct float64 values every one of them
var c11PrecisionFloats = []float64{
	16777216, 16777217, 16777218, 9007199254740992, 9007199254740994,
	0.1234567891, 0.12345679, 0.123456789, 1234567.891, 1234567.9, 1234567.89,
	1e300, 1e200, 3.5e38, 3.6e38, 1e-300, 1e-200, 1.0000001, 1.00000001,
}
var c11PrecisionInts = []int64{16777216, 16777217, 9007199254740992, 9007199254740993, 1 << 62, 1<<62 + 1}

// c11NeighbourPairs: two different float64 values that a lossy rendering would merge
var c11NeighbourPairs = [][2]float64{
	{16777216, 16777217}, {0.1234567891, 0.12345679}, {1234567.891, 1234567.9}, {1e300, 1e200}, {3.5e38, 3.6e38},
	{9007199254740992, 9007199254740994}, {1.0000001, 1.00000001}, {1e-300, 1e-200}, {0.1, math.Nextafter(0.1, 1)}, {2.5, math.Nextafter(2.5, 3)},
}

func genC11Span(t *rapid.T) c811Span {
	s := c811Span{}
	for _, f := range c11SpanFields {
		if rapid.IntRange(0, 2).Draw(t, "has-"+f) > 0 {
			s[f] = genC11Val(t)
		}
	}
	// span events and span links are members of the trace like any other span
	switch rapid.IntRange(0, 9).Draw(t, "annotation") {
	case 8:
		s[c811Annotation] = c811S("span_event")
	case 9:
		s[c811Annotation] = c811S("link")
	}
	return s
}

func genC11Trace(t *rapid.T) c811Trace {
	var tr c811Trace
	if rapid.IntRange(0, 24).Draw(t, "wide") == 21 { // not the shrink target
		// wide: up to 99 distinct values (the statement's "fewer than 100") on f1
		n := rapid.IntRange(75, 89).Draw(t, "widen")
		for i := 0; i < n; i++ {
			s := c811Span{"f1": c811I(int64(1000 + i))}
			if i%7 == 0 {
				s["f2"] = c811S("w")
			}
			tr.Spans = append(tr.Spans, s)
		}
		extra := rapid.SliceOfN(rapid.Custom(genC11Span), 0, 2).Draw(t, "wideextra")
		tr.Spans = append(tr.Spans, extra...)
	} else {
		tr.Spans = rapid.SliceOfN(rapid.Custom(genC11Span), 1, 8).Draw(t, "spans")
	}
	tr.Root = rapid.IntRange(-1, len(tr.Spans)-1).Draw(t, "root")
	if tr.Root >= 0 && rapid.Bool().Draw(t, "rootfull") {
		// make root.-fields present more often
		for _, f := range []string{"f1", "f2", "r"} {
			if _, ok := tr.Spans[tr.Root][f]; !ok {
				tr.Spans[tr.Root][f] = genC11Val(t)
			}
		}
	}
	return tr
}

func genC11(t *rapid.T) c11Case {
	c := c11Case{Sampler: rapid.SampledFrom(c11Samplers).Draw(t, "sampler")}
	nf := rapid.IntRange(1, 4).Draw(t, "nfields")
	perm := rapid.Permutation(c11ConfigFields).Draw(t, "fieldperm")
	c.Fields = append([]string(nil), perm[:nf]...)
	c.UseTraceLength = rapid.Bool().Draw(t, "utl")
	c.Rate = rapid.SampledFrom([]int{1, 2, 3, 5, 10, 50}).Draw(t, "rate")
	c.A = genC11Trace(t)
	if rapid.IntRange(0, 3).Draw(t, "bkind") == 0 {
		c.B = genC11Trace(t)
	} else {
		// B = A after a few edits (so that the two differ in little)
		c.B = c.A.clone()
		if nr, _ := c11SplitFields(c.Fields); len(nr) > 0 && rapid.IntRange(0, 4).Draw(t, "split") == 4 {
			// aimed at the value separator: A has "ab" where B has "a" and "b" (in two spans)
			i := rapid.IntRange(0, len(c.A.Spans)-1).Draw(t, "splitspan")
			f := rapid.SampledFrom(nr).Draw(t, "splitfield")
			c.A.Spans[i][f] = c811S("ab")
			c.B.Spans[i][f] = c811S("a")
			c.B.Spans = append(c.B.Spans, c811Span{f: c811S("b")})
		}
		if nr, _ := c11SplitFields(c.Fields); len(nr) > 0 && rapid.IntRange(0, 5).Draw(t, "neighbour") == 5 {
			// aimed at the rendering of numbers: A and B differ in one float64 value and its close neighbour
			i := rapid.IntRange(0, len(c.A.Spans)-1).Draw(t, "nbspan")
			f := rapid.SampledFrom(nr).Draw(t, "nbfield")
			pair := rapid.SampledFrom(c11NeighbourPairs).Draw(t, "nbpair")
			if rapid.Bool().Draw(t, "nbswap") {
				pair[0], pair[1] = pair[1], pair[0]
			}
			c.A.Spans[i][f] = c811F(pair[0])
			c.B.Spans[i][f] = c811F(pair[1])
		}
		ne := rapid.IntRange(0, 3).Draw(t, "nedits")
		for e := 0; e < ne; e++ {
			i := rapid.IntRange(0, len(c.B.Spans)-1).Draw(t, "editspan")
			f := rapid.SampledFrom(c11SpanFields[:4]).Draw(t, "editfield")
			if rapid.IntRange(0, 2).Draw(t, "editconfigured") > 0 { // mostly edit a field the key reads
				f = strings.TrimPrefix(rapid.SampledFrom(c.Fields).Draw(t, "editcfgfield"), "root.")
			}
			switch rapid.IntRange(0, 4).Draw(t, "editkind") {
			case 0:
				delete(c.B.Spans[i], f)
			case 1:
				c.B.Spans = append(c.B.Spans, c.B.Spans[i].clone())
			default:
				c.B.Spans[i][f] = genC11Val(t)
			}
		}
	}
	c.PermSeed = rapid.Uint64().Draw(t, "permseed")
	if len(c.A.Spans) >= 2 && rapid.Bool().Draw(t, "grow") {
		c.GrowAt = rapid.IntRange(1, len(c.A.Spans)-1).Draw(t, "growat")
	}
	c.Dups = rapid.SliceOfN(rapid.IntRange(0, 7), 0, 3).Draw(t, "dups")
	if rapid.IntRange(0, 15).Draw(t, "freq") == 13 { // not the shrink target: minimal cases skip the expensive sub-run
		c.Freq = true
		c.FeedA = rapid.SampledFrom([]int{1, 10, 100, 1000}).Draw(t, "feeda")
		c.FeedB = rapid.SampledFrom([]int{0, 1, 10, 1000}).Draw(t, "feedb")
	}
	return c
}

// ---------------------------------------------------------------- value-set view (harness side)

func c11SplitFields(fields []string) (nonRoot, rootOnly []string) {
	seenN, seenR := map[string]bool{}, map[string]bool{}
	for _, f := range fields {
		if strings.HasPrefix(f, "root.") {
			x := strings.TrimPrefix(f, "root.")
			if !seenR[x] {
				seenR[x] = true
				rootOnly = append(rootOnly, x)
			}
		} else if !seenN[f] {
			seenN[f] = true
			nonRoot = append(nonRoot, f)
		}
	}
	sort.Strings(nonRoot)
	sort.Strings(rootOnly)
	return
}

func c11ValLess(a, b c811Val) bool {
	if a.T != b.T {
		return a.T < b.T
	}
	switch a.T {
	case "s":
		return a.S < b.S
	case "i":
		return a.I < b.I
	case "f":
		return a.F < b.F
	case "b":
		return !a.B && b.B
	}
	return false
}

// c11DistinctTyped: distinct values (Go type + value) field f takes over the spans, in a canonical order.
func c11DistinctTyped(tr c811Trace, f string, skipSpan int) []c811Val {
	var out []c811Val
	for i, s := range tr.Spans {
		if i == skipSpan {
			continue
		}
		v, ok := s[f]
		if !ok {
			continue
		}
		v = v.norm()
		dup := false
		for _, o := range out {
			if o == v {
				dup = true
				break
			}
		}
		if !dup {
			out = append(out, v)
		}
	}
	sort.Slice(out, func(i, j int) bool { return c11ValLess(out[i], out[j]) })
	return out
}

// c11NormalForm builds the "distinct value sets" representative of tr: the root
// span keeps only the configured fields; every other distinct value of a
// configured non-root field appears exactly once, values packed into as few
// spans as possible; all unconfigured fields dropped. keepLen pads with empty
// spans to the original span count (for UseTraceLength).
func c11NormalForm(tr c811Trace, fields []string, keepLen bool) c811Trace {
	nonRoot, rootOnly := c11SplitFields(fields)
	nf := c811Trace{Root: -1}
	root := tr.rootIdx()
	if root >= 0 {
		rs := c811Span{}
		for _, f := range append(append([]string{}, nonRoot...), rootOnly...) {
			if v, ok := tr.Spans[root][f]; ok {
				rs[f] = v.norm()
			}
		}
		nf.Spans = append(nf.Spans, rs)
		nf.Root = 0
	}
	cols := map[string][]c811Val{}
	k := 0
	for _, f := range nonRoot {
		vals := c11DistinctTyped(tr, f, root)
		if root >= 0 {
			if rv, ok := tr.Spans[root][f]; ok {
				rv = rv.norm()
				kept := vals[:0:0]
				for _, v := range vals {
					if v != rv {
						kept = append(kept, v)
					}
				}
				vals = kept
			}
		}
		cols[f] = vals
		if len(vals) > k {
			k = len(vals)
		}
	}
	for j := 0; j < k; j++ {
		s := c811Span{}
		for _, f := range nonRoot {
			if j < len(cols[f]) {
				s[f] = cols[f][j]
			}
		}
		nf.Spans = append(nf.Spans, s)
	}
	for len(nf.Spans) == 0 || (keepLen && len(nf.Spans) < len(tr.Spans)) {
		nf.Spans = append(nf.Spans, c811Span{})
	}
	return nf
}

func c11HasDelim(v c811Val) bool {
	return v.T == "s" && (strings.Contains(v.S, ",") || strings.Contains(v.S, "•"))
}

// c11DefDiff: a and b are different under any reasonable rendering of values as
// text (conservative: look-alikes of different Go types are "maybe equal").
func c11DefDiff(a, b c811Val) bool {
	a, b = a.norm(), b.norm()
	if a.T == b.T {
		return a != b
	}
	if a.T > b.T {
		a, b = b, a
	}
	num := func(v c811Val) (float64, bool) {
		if v.T == "i" {
			return float64(v.I), true
		}
		return v.F, v.T == "f"
	}
	switch {
	case a.T == "f" && b.T == "i":
		x, _ := num(a)
		y, _ := num(b)
		return x != y
	case b.T == "s":
		switch a.T {
		case "i", "f":
			_, err := strconv.ParseFloat(strings.TrimSpace(b.S), 64)
			return err != nil
		case "b":
			l := strings.ToLower(strings.TrimSpace(b.S))
			return l != "true" && l != "false"
		case "n":
			return !strings.Contains(strings.ToLower(b.S), "nil") && !strings.Contains(strings.ToLower(b.S), "null") && b.S != ""
		}
	}
	return true // bool vs number, nil vs number/bool
}

func c11SetsDefDiff(x, y []c811Val) bool {
	oneSided := func(p, q []c811Val) bool {
		for _, v := range p {
			all := true
			for _, w := range q {
				if !c11DefDiff(v, w) {
					all = false
					break
				}
			}
			if all {
				return true
			}
		}
		return false
	}
	return oneSided(x, y) || oneSided(y, x)
}

type c11View struct {
	allPresent bool
	delims     bool
	distinct   int // number of distinct (field, typed value) pairs over non-root fields
	sets       map[string][]c811Val
	rootVals   map[string]c811Val
	spans      int
}

func c11ViewOf(tr c811Trace, fields []string) c11View {
	nonRoot, rootOnly := c11SplitFields(fields)
	v := c11View{allPresent: true, sets: map[string][]c811Val{}, rootVals: map[string]c811Val{}, spans: len(tr.Spans)}
	for _, f := range nonRoot {
		vals := c11DistinctTyped(tr, f, -1)
		v.sets[f] = vals
		v.distinct += len(vals)
		if len(vals) == 0 {
			v.allPresent = false
		}
		for _, x := range vals {
			if c11HasDelim(x) {
				v.delims = true
			}
		}
	}
	root := tr.rootIdx()
	for _, f := range rootOnly {
		if root < 0 {
			v.allPresent = false
			continue
		}
		x, ok := tr.Spans[root][f]
		if !ok {
			v.allPresent = false
			continue
		}
		v.rootVals[f] = x.norm()
		if c11HasDelim(x) {
			v.delims = true
		}
	}
	return v
}

func c11SameSets(a, b c11View, fields []string) bool {
	nonRoot, rootOnly := c11SplitFields(fields)
	for _, f := range nonRoot {
		if len(a.sets[f]) != len(b.sets[f]) {
			return false
		}
		for i := range a.sets[f] {
			if a.sets[f][i] != b.sets[f][i] {
				return false
			}
		}
	}
	for _, f := range rootOnly {
		x, okx := a.rootVals[f]
		y, oky := b.rootVals[f]
		if okx != oky || x != y {
			return false
		}
	}
	return true
}

// ---------------------------------------------------------------- execute + judge

type c11Decision struct {
	rate   uint
	keep   bool
	key    string
	reason string
	panic  string
}

func c11Decide(s sample.Sampler, tr *types.Trace) (d c11Decision) {
	d.panic = c811Recover(func() { d.rate, d.keep, d.reason, d.key = s.GetSampleRate(tr) })
	return d
}

func execC11(c c11Case) vkit.Result {
	var res vkit.Result
	res.Class("sampler=" + c.Sampler)
	if len(c.A.Spans) == 0 || len(c.B.Spans) == 0 || len(c.Fields) == 0 {
		res.Class("degenerate-replay")
		return res
	}
	va, vb := c11ViewOf(c.A, c.Fields), c11ViewOf(c.B, c.Fields)
	if va.distinct >= 100 || vb.distinct >= 100 {
		res.Class("outside-premise:>=100-distinct-values")
		return res
	}
	sig := func(s string) string { return "C11/" + s }

	// derived traces
	perm := c811Permute(c.A, c.PermSeed)
	dup := c.A.clone()
	for _, d := range c.Dups {
		dup.Spans = append(dup.Spans, c.A.Spans[d%len(c.A.Spans)].clone())
	}
	dupPerm := c811Permute(dup, c.PermSeed^0x5bd1e995)
	nf := c11NormalForm(c.A, c.Fields, c.UseTraceLength)
	stripped := c.A.clone() // unconfigured fields removed, everything else as is
	nonRoot, rootOnly := c11SplitFields(c.Fields)
	configured := map[string]bool{}
	for _, f := range nonRoot {
		configured[f] = true
	}
	for i, s := range stripped.Spans {
		for f := range s {
			if configured[f] {
				continue
			}
			isRootOnly := false
			for _, x := range rootOnly {
				if x == f && i == stripped.rootIdx() {
					isRootOnly = true
				}
			}
			if !isRootOnly {
				delete(s, f)
			}
		}
	}

	s, stop := c11NewSampler(c)
	var decisions []c11Decision
	get := func(name string, tr c811Trace) c11Decision {
		d := c11Decide(s, c811Build("c11-"+name, tr))
		decisions = append(decisions, d)
		return d
	}
	var dA, dPerm, dDup, dNF, dStrip, dB, dA2, dGrown c11Decision
	grow := c.GrowAt > 0 && c.GrowAt < len(c.A.Spans)
	// all inside one bubble so that no dynsampler tick (real time) can interfere and
	// the dynsampler goroutines are gone when the case ends
	synctest.Test(c11T, func(t *testing.T) {
		_ = t
		dA = get("a", c.A)
		dPerm = get("perm", perm)
		dDup = get("dup", dupPerm)
		dNF = get("nf", nf)
		dStrip = get("strip", stripped)
		dB = get("b", c.B)
		dA2 = get("a", c.A)
		if grow {
			// one trace object: keyed with its first GrowAt spans, then the rest arrive, keyed again
			tr := &types.Trace{TraceID: "c11-grown"}
			c811Extend(tr, c.A, 0, c.GrowAt)
			decisions = append(decisions, c11Decide(s, tr))
			c811Extend(tr, c.A, c.GrowAt, len(c.A.Spans))
			dGrown = c11Decide(s, tr)
			decisions = append(decisions, dGrown)
		}
		stop()
		synctest.Wait()
	})

	for _, d := range decisions {
		if d.panic != "" {
			res.Violate(sig(c.Sampler+"/panic"), "GetSampleRate panicked: %s (fields %v, A=%s)", d.panic, c.Fields, c.A)
			return res
		}
		if d.rate < 1 {
			res.Violate(sig(c.Sampler+"/rate-below-1"), "rate %d returned for key %q", d.rate, d.key)
		}
		if d.rate == 1 && !d.keep {
			res.Violate(sig(c.Sampler+"/rate-1-not-kept"), "rate 1 but keep=false for key %q", d.key)
		}
	}
	ctx := func() string {
		return fmt.Sprintf("fields=%v useTraceLength=%v A=%s", c.Fields, c.UseTraceLength, c.A)
	}
	if dA.key != dA2.key {
		res.Violate(sig("key/not-repeatable"), "same trace, same sampler: %q then %q; %s", dA.key, dA2.key, ctx())
	}
	if grow {
		res.Class("grown")
		if dGrown.panic == "" && dGrown.key != dA.key {
			res.Violate(sig("key/depends-on-earlier-look"), "trace keyed with its first %d spans, then completed and keyed again: %q; the same spans assembled freshly: %q; %s", c.GrowAt, dGrown.key, dA.key, ctx())
		}
	}
	if c.A.annotations() > 0 {
		res.Class("has-span-event-or-link")
	}
	if dPerm.key != dA.key {
		res.Violate(sig("key/permutation"), "key %q, after permuting spans %q; %s permuted=%s", dA.key, dPerm.key, ctx(), perm)
	}
	if len(c.Dups) > 0 {
		res.Class("dup")
		if !c.UseTraceLength && dDup.key != dA.key {
			res.Violate(sig("key/duplication"), "key %q, after duplicating spans (and permuting) %q; %s dup=%s", dA.key, dDup.key, ctx(), dupPerm)
		}
		if c.UseTraceLength && dDup.key == dA.key {
			res.Violate(sig("key/trace-length-not-in-key"), "UseTraceLength: %d and %d spans give the same key %q; %s", len(c.A.Spans), len(dupPerm.Spans), dA.key, ctx())
		}
	}
	if dNF.key != dA.key {
		res.Violate(sig("key/normal-form"), "key %q, key of the distinct-value-sets normal form %q; %s normalform=%s", dA.key, dNF.key, ctx(), nf)
	}
	if dStrip.key != dA.key {
		res.Violate(sig("key/unconfigured-field-matters"), "key %q, after removing fields that are not configured %q; %s stripped=%s", dA.key, dStrip.key, ctx(), stripped)
	}

	// A vs B
	same := c11SameSets(va, vb, c.Fields)
	switch {
	case same && (!c.UseTraceLength || va.spans == vb.spans):
		res.Class("ab:same-sets")
		if dA.key != dB.key {
			res.Violate(sig("key/same-sets-different-key"), "A and B have the same value sets but keys %q vs %q; %s B=%s", dA.key, dB.key, ctx(), c.B)
		}
	case same && c.UseTraceLength:
		res.Class("ab:same-sets-different-length")
		if dA.key == dB.key {
			res.Violate(sig("key/trace-length-not-in-key"), "UseTraceLength: same value sets, %d vs %d spans, same key %q; %s B=%s", va.spans, vb.spans, dA.key, ctx(), c.B)
		}
	case !va.allPresent || !vb.allPresent:
		res.Class("ab:some-field-absent")
	case va.delims || vb.delims:
		res.Class("ab:delimiter-in-value")
	default:
		defDiff := false
		for _, f := range nonRoot {
			if c11SetsDefDiff(va.sets[f], vb.sets[f]) {
				defDiff = true
			}
		}
		for _, f := range rootOnly {
			if c11DefDiff(va.rootVals[f], vb.rootVals[f]) {
				defDiff = true
			}
		}
		if !defDiff {
			res.Class("ab:look-alike-values-only")
		} else {
			res.Class("ab:separable")
			if dA.key == dB.key {
				// classify: does the difference vanish when empty-string values are ignored?
				kind := "key/collision"
				noEmpty := func(vs []c811Val) []c811Val {
					var o []c811Val
					for _, v := range vs {
						if !(v.T == "s" && v.S == "") {
							o = append(o, v)
						}
					}
					return o
				}
				still := false
				for _, f := range nonRoot {
					if c11SetsDefDiff(noEmpty(va.sets[f]), noEmpty(vb.sets[f])) {
						still = true
					}
				}
				for _, f := range rootOnly {
					if c11DefDiff(va.rootVals[f], vb.rootVals[f]) {
						still = true
					}
				}
				if !still {
					kind = "key/collision/empty-string-value"
				}
				res.Violate(sig(kind), "all fields present, delimiter-free, value sets differ, same key %q; %s B=%s", dA.key, ctx(), c.B)
			}
		}
	}

	// classes / non-triviality
	if va.distinct >= 90 {
		res.Class("near-100-distinct")
	}
	if len(rootOnly) > 0 {
		res.Class("root-field")
	}
	distinctVals := 0
	for _, f := range nonRoot {
		distinctVals += len(va.sets[f])
	}
	distinctVals += len(va.rootVals)
	if len(c.Fields) >= 2 && len(c.A.Spans) >= 3 && distinctVals >= 2 {
		res.NonTrivial = true
	}

	if c.Freq {
		c11Freq(c, &res)
	}
	return res
}

// c11T is the *testing.T of the running TestC11 (synctest.Test needs one).
var c11T *testing.T

// c11Freq: keep frequency. A fresh sampler is fed, one adjustment interval of
// virtual time passes (so rates are real computed rates, not only the initial
// one), then A and B are decided c11FreqN times each with no time passing. The
// decisions are grouped by the rate returned with them; every group of >= 2000
// decisions must have kept a fraction 1/rate within the C10 band.
func c11Freq(c c11Case, res *vkit.Result) {
	type grp struct{ n, kept int }
	groups := map[uint]*grp{}
	var rateBelow1 bool
	var panicked string
	ta, tb := c811Build("c11-fa", c.A), c811Build("c11-fb", c.B)
	synctest.Test(c11T, func(t *testing.T) {
		s, stop := c11NewSampler(c)
		defer func() {
			stop()
			synctest.Wait()
		}()
		panicked = c811Recover(func() {
			for i := 0; i < c.FeedA; i++ {
				s.GetSampleRate(ta)
			}
			for i := 0; i < c.FeedB; i++ {
				s.GetSampleRate(tb)
			}
			time.Sleep(c11Interval(c.Sampler) + 500*time.Millisecond)
			synctest.Wait()
			for _, tr := range []*types.Trace{ta, tb} {
				for i := 0; i < c11FreqN; i++ {
					rate, keep, _, _ := s.GetSampleRate(tr)
					if rate < 1 {
						rateBelow1 = true
						continue
					}
					g := groups[rate]
					if g == nil {
						g = &grp{}
						groups[rate] = g
					}
					g.n++
					if keep {
						g.kept++
					}
				}
			}
		})
	})
	res.Class("freq")
	if panicked != "" {
		res.Violate("C11/"+c.Sampler+"/panic", "GetSampleRate panicked in the frequency run: %s", panicked)
		return
	}
	if rateBelow1 {
		res.Violate("C11/"+c.Sampler+"/rate-below-1", "rate 0 returned in the frequency run")
	}
	rates := make([]int, 0, len(groups))
	for r := range groups {
		rates = append(rates, int(r))
	}
	sort.Ints(rates)
	for _, ri := range rates {
		r := uint(ri)
		g := groups[r]
		if g.n < 2000 {
			continue
		}
		if r > 1 {
			res.Class("freq-rate>1")
		}
		p := 1 / float64(r)
		want := float64(g.n) * p
		band := c10Band(g.n, p)
		if math.Abs(float64(g.kept)-want) > band {
			res.Violate("C11/"+c.Sampler+"/keep-frequency", "rate %d: kept %d of %d decisions, expected %.1f +- %.1f (fields %v)", r, g.kept, g.n, want, band, c.Fields)
		}
	}
}

func TestC11(t *testing.T) {
	c11T = t
	vkit.Run(t, vkit.Spec[c11Case]{
		ID:   "C11",
		Rule: "rapid-generated (sampler kind of the five dynsampler-backed samplers, FieldList over {f1,f2,f3,root.f1,root.r,root.f2}, UseTraceLength, trace A of 1-8 spans (1 in 25: 75-99 distinct values) with typed values string/int64/float64/bool/nil incl. look-alikes and delimiter-bearing strings, trace B = edited A or independent, permutation seed, duplication list, growth point); 1 span in 5 is a span event or span link (meta.annotation_type). The real sampler (built by sample.SamplerFactory) returns the key for A, permuted A, duplicated+permuted A, the distinct-value-sets normal form of A, A without unconfigured fields (which also turns span events/links into plain spans), B, A again, and for A assembled incrementally on one trace object with a key call in between; keys are compared with each other, never with a re-computed string. about 1 in 16 cases additionally run the keep-frequency sub-check (8000 decisions per trace after one adjustment interval of virtual time). Non-trivial: >=2 configured fields, >=3 spans, >=2 distinct values. Distinct = distinct case JSON.",
		Assumptions: []string{
			"'distinct values' are compared as Go type + value for the equal-key direction (a weaker, therefore sound, premise than equality of rendered text)",
			"for the different-key direction two values count as different only if they differ under any reasonable text rendering (same type and unequal, or different types that are not look-alikes such as \"1\"/1/1.0, \"true\"/true, \"<nil>\"/nil)",
			"UseTraceLength: different span counts with equal value sets must give different keys (rulesMeta: 'include the trace length ... as part of the key. The number of spans is exact')",
			"the samplers run inside a testing/synctest bubble: dynsampler-go tickers use virtual time, no adjustment happens during the key comparisons",
			"keep decisions use refinery's global math/rand: the frequency verdict is statistical (max(6 sigma, Bernstein 1e-10) per rate group)",
		},
		Gen:  genC11,
		Exec: execC11,
	})
}
