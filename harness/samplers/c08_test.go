package samplers

import (
	"encoding/json"
	"fmt"
	"math"
	"os"
	"path/filepath"
	"sort"
	"strconv"
	"strings"
	"sync"
	"testing"

	"github.com/honeycombio/refinery/config"
	"github.com/honeycombio/refinery/logger"
	"github.com/honeycombio/refinery/metrics"
	"github.com/honeycombio/refinery/sample"
	"github.com/honeycombio/refinery/types"
	"github.com/honeycombio/refinery/verifharness/vkit"
	"gopkg.in/yaml.v3"
	"pgregory.net/rapid"
)

// C08: sample.RulesBasedSampler against an independent interpreter of
// rules.md / rules_conditions.md (c08_interp_test.go).
//
// The rules are written as a rules *file* (JSON flow syntax, which is YAML),
// parsed with yaml.v3 the way config.load does, checked with
// config.LoadRulesMetadata().ValidateRules and then unmarshalled into
// config.V2SamplerConfig; the sampler is created by sample.SamplerFactory.

type c08Case struct {
	// Grid != "": the exhaustive operator x datatype x value kind x span value grid on
	// one-span traces ("all"), everything else in the case is ignored.
	Grid  string    `json:"grid,omitempty"`
	Rules []c08Rule `json:"rules,omitempty"`
	Trace c811Trace `json:"trace"`
	// Coin: when the matched rule has SampleRate N > 1, decide c08CoinN more times and check the kept fraction.
	Coin bool `json:"coin,omitempty"`
	// GrowAt k (0 < k < spans): the same trace object is first evaluated holding its first k spans, then the
	// remaining spans arrive and it is evaluated again; the rule applied must be the one a freshly assembled
	// trace with the same spans gets.
	GrowAt int `json:"grow_at,omitempty"`
}

const c08CoinN = 3000

func c08RuleName(i int) string { return fmt.Sprintf("rule_%d_", i) }

// ---------------------------------------------------------------- rules file

func c08JSONStr(s string) string {
	b, _ := json.Marshal(s)
	return string(b)
}

func c08EmitValue(v c08CV) string {
	switch v.K {
	case "i":
		return strconv.FormatInt(v.I, 10)
	case "f":
		s := strconv.FormatFloat(v.F, 'f', -1, 64)
		if !strings.Contains(s, ".") {
			s += ".0"
		}
		return s
	case "b":
		return strconv.FormatBool(v.B)
	case "s":
		return c08JSONStr(v.S)
	case "l":
		parts := make([]string, len(v.L))
		for i, e := range v.L {
			parts[i] = c08EmitValue(e)
		}
		return "[" + strings.Join(parts, ",") + "]"
	}
	panic("c08: bad value kind " + v.K)
}

func c08EmitRule(name string, r c08Rule) string {
	var sb strings.Builder
	sb.WriteString(`{"Name":` + c08JSONStr(name))
	if r.Scope != "" {
		sb.WriteString(`,"Scope":` + c08JSONStr(r.Scope))
	}
	if r.Downstream {
		rate := r.Rate
		if rate < 1 {
			rate = 1
		}
		sb.WriteString(fmt.Sprintf(`,"Sampler":{"DynamicSampler":{"SampleRate":%d,"FieldList":["a","b"]}}`, rate))
	}
	if r.Drop {
		sb.WriteString(`,"Drop":true`)
	}
	if !r.Downstream && r.Rate != 0 {
		sb.WriteString(fmt.Sprintf(`,"SampleRate":%d`, r.Rate))
	}
	if len(r.Conds) > 0 {
		sb.WriteString(`,"Conditions":[`)
		for i, c := range r.Conds {
			if i > 0 {
				sb.WriteString(",")
			}
			sb.WriteString("{")
			if c.Field != "" {
				sb.WriteString(`"Field":` + c08JSONStr(c.Field) + ",")
			} else if len(c.Fields) > 0 {
				fs := make([]string, len(c.Fields))
				for j, f := range c.Fields {
					fs[j] = c08JSONStr(f)
				}
				sb.WriteString(`"Fields":[` + strings.Join(fs, ",") + "],")
			}
			sb.WriteString(`"Operator":` + c08JSONStr(c.Op))
			if c.Value != nil {
				sb.WriteString(`,"Value":` + c08EmitValue(*c.Value))
			}
			if c.Datatype != "" {
				sb.WriteString(`,"Datatype":` + c08JSONStr(c.Datatype))
			}
			sb.WriteString("}")
		}
		sb.WriteString("]")
	}
	sb.WriteString("}")
	return sb.String()
}

func c08EmitFile(rules []c08Rule, names []string) string {
	parts := make([]string, len(rules))
	for i, r := range rules {
		parts[i] = c08EmitRule(names[i], r)
	}
	return `{"RulesVersion":2,"Samplers":{"__default__":{"RulesBasedSampler":{"Rules":[` + strings.Join(parts, ",") + `]}}}}`
}

var (
	c08MetaOnce sync.Once
	c08Meta     *config.Metadata
)

// c08Load: rules file text -> validated config, the way refinery's loader does it.
func c08Load(text string) (*config.RulesBasedSamplerConfig, string) {
	c08MetaOnce.Do(func() {
		m, err := config.LoadRulesMetadata()
		if err != nil {
			panic(err)
		}
		c08Meta = m
	})
	asMap := map[string]any{}
	if err := yaml.Unmarshal([]byte(text), &asMap); err != nil {
		return nil, "yaml: " + err.Error()
	}
	for _, r := range c08Meta.ValidateRules(asMap) {
		if r.IsError() {
			return nil, "validation: " + r.Message
		}
	}
	var v2 config.V2SamplerConfig
	if err := yaml.Unmarshal([]byte(text), &v2); err != nil {
		return nil, "yaml(struct): " + err.Error()
	}
	ch := v2.Samplers["__default__"]
	if ch == nil || ch.RulesBasedSampler == nil {
		return nil, "no rules based sampler after load"
	}
	return ch.RulesBasedSampler, ""
}

type c08SUT struct {
	s    sample.Sampler
	stop func()
}

func c08NewSUT(rules []c08Rule, names []string) (*c08SUT, string) {
	cfg, rejected := c08Load(c08EmitFile(rules, names))
	if rejected != "" {
		return nil, rejected
	}
	f := &sample.SamplerFactory{Config: &config.MockConfig{GetSamplerTypeVal: cfg}, Logger: &logger.NullLogger{}, Metrics: &metrics.NullMetrics{}}
	if err := f.Start(); err != nil {
		panic(err)
	}
	s := f.GetSamplerImplementationForKey("c08env")
	if s == nil {
		f.Stop()
		return nil, "factory returned no sampler"
	}
	return &c08SUT{s: s, stop: f.Stop}, ""
}

type c08Obs struct {
	rate   uint
	keep   bool
	reason string
	key    string
	panic  string
}

func (u *c08SUT) decide(tr c811Trace) (o c08Obs) {
	t := c811Build("c08-trace", tr)
	o.panic = c811Recover(func() { o.rate, o.keep, o.reason, o.key = u.s.GetSampleRate(t) })
	return o
}

// decideGrown: one trace object, evaluated with its first k spans, completed, evaluated again.
func (u *c08SUT) decideGrown(tr c811Trace, k int) (o c08Obs) {
	t := &types.Trace{TraceID: "c08-trace"}
	c811Extend(t, tr, 0, k)
	o.panic = c811Recover(func() {
		u.s.GetSampleRate(t)
		c811Extend(t, tr, k, len(tr.Spans))
		o.rate, o.keep, o.reason, o.key = u.s.GetSampleRate(t)
	})
	return o
}

// matchedIdx: which rule the SUT applied, from the unique rule name in the reason; len(names) = none.
func c08MatchedIdx(reason string, names []string) int {
	for i, n := range names {
		if strings.Contains(reason, n) {
			return i
		}
	}
	return len(names)
}

// ---------------------------------------------------------------- attribution (signatures)

func c08Presence(c c08Cond, tr c811Trace) (presence string, types string) {
	if c.Op == "has-root-span" {
		if tr.rootIdx() >= 0 {
			return "root", ""
		}
		return "no-root", ""
	}
	if c.Field == c08NumDescendants {
		return "virtual", ""
	}
	n := 0
	ts := map[string]bool{}
	for i := range tr.Spans {
		if v, ok, _ := c08Resolve(c, tr, i); ok {
			n++
			ts[map[string]string{"s": "string", "i": "int", "f": "float", "b": "bool", "n": "nil"}[v.norm().T]] = true
		}
	}
	var tl []string
	for t := range ts {
		tl = append(tl, t)
	}
	sort.Strings(tl)
	switch {
	case n == 0:
		return "absent", ""
	case n == len(tr.Spans):
		return "present", strings.Join(tl, "+")
	}
	return "partly-absent", strings.Join(tl, "+")
}

func c08DtLabel(c c08Cond) string {
	if c08IsStringOp(c.Op) || c.Op == "exists" || c.Op == "not-exists" || c.Op == "has-root-span" {
		return "-" // Datatype is documented as ignored
	}
	if c.Datatype == "" {
		return "none"
	}
	return c.Datatype
}

// c08CondSig: signature of a single-condition deviation, keyed by (operator, datatype, presence).
// absent / partly-absent carry no further detail (one root cause: how a missing field is treated);
// a deviation on a field that is present is further split by span value type and Value kind.
// A partly-absent deviation that persists when the spans lacking the field are removed is a
// "present" deviation.
func c08CondSig(c c08Cond, scope string, tr c811Trace) string {
	pres, types := c08Presence(c, tr)
	if pres == "partly-absent" && !c08AnyRootName(c) {
		sub := c811Trace{Root: -1}
		for i := range tr.Spans {
			if _, ok, _ := c08Resolve(c, tr, i); ok {
				if i == tr.rootIdx() {
					sub.Root = len(sub.Spans)
				}
				sub.Spans = append(sub.Spans, tr.Spans[i])
			}
		}
		single := c08Rule{Scope: scope, Conds: []c08Cond{c}}
		if exp := c08RuleMatches(single, sub); exp != c08DC {
			if got, rej := c08Probe(single, sub); rej == "" && got != (exp == c08T) {
				pres, types = c08Presence(c, sub)
			}
		}
	}
	sig := fmt.Sprintf("C08/cond/op=%s/dt=%s/%s", c.Op, c08DtLabel(c), pres)
	if pres == "present" {
		vk := "none"
		if c.Value != nil {
			vk = c.Value.kind()
		}
		sig += "/span=" + types + "/value=" + vk
		if c08AnyRootName(c) {
			sig += "/root-prefix"
		}
		if len(c.Fields) > 1 {
			sig += "/fields"
		}
	}
	return sig
}

// c08Localize rewrites condition c as seen from span i into a condition on a one-span trace.
func c08Localize(c c08Cond, tr c811Trace, i int) (c08Cond, c811Trace) {
	span := tr.Spans[i].clone()
	lc := c08Cond{Op: c.Op, Value: c.Value, Datatype: c.Datatype}
	root := tr.rootIdx()
	var names []string
	if c.Field == c08NumDescendants {
		span["nd__"] = c811I(int64(len(tr.Spans)))
		names = []string{"nd__"}
	} else {
		for _, n := range c.names() {
			if strings.HasPrefix(n, "root.") {
				x := strings.TrimPrefix(n, "root.")
				ln := "rootval__" + x
				if root >= 0 {
					if v, ok := tr.Spans[root][x]; ok {
						span[ln] = v
					}
				}
				names = append(names, ln)
			} else {
				names = append(names, n)
			}
		}
	}
	if c.Field != "" {
		lc.Field = names[0]
	} else {
		lc.Fields = names
	}
	sub := c811Trace{Spans: []c811Span{span}, Root: -1}
	if i == root {
		sub.Root = 0
	}
	return lc, sub
}

// c08Probe: does the SUT say that a sampler with this single rule matches the trace?
func c08Probe(r c08Rule, tr c811Trace) (matched bool, rejected string) {
	r.Downstream, r.Drop, r.Rate = false, false, 1
	names := []string{"probe_rule_"}
	u, rej := c08NewSUT([]c08Rule{r}, names)
	if rej != "" {
		return false, rej
	}
	defer u.stop()
	o := u.decide(tr)
	return c08MatchedIdx(o.reason, names) == 0, ""
}

// c08Attribute explains a disagreement on rule r (SUT says sutMatch, the interpreter the opposite).
func c08Attribute(r c08Rule, tr c811Trace, sutMatch bool, res *vkit.Result, ctx string) {
	// the rule on its own
	alone, rej := c08Probe(r, tr)
	if rej == "" && alone != sutMatch {
		res.Violate("C08/rule-order/first-match-not-applied", "rule %s alone: SUT match=%v, in the list match=%v; %s", c08EmitRule("x", r), alone, sutMatch, ctx)
		return
	}
	found := false
	// A condition holds on a trace (trace scope) or takes part in a span-scope match iff it holds on some
	// span; per the documents a root.-prefixed field "is treated as if it were part of the span being processed"
	// and ?.NUM_DESCENDANTS is the same for every span. So each (condition, span) pair is localised into a
	// one-span trace in which those context values are ordinary fields, and the two sides are compared there:
	// "absent" then means absent on the very span where they disagree.
	for i := range tr.Spans {
		for _, c := range r.Conds {
			if c.Op == "has-root-span" {
				continue
			}
			lc, sub := c08Localize(c, tr, i)
			single := c08Rule{Scope: r.Scope, Conds: []c08Cond{lc}}
			exp := c08RuleMatches(single, sub)
			if exp == c08DC {
				continue
			}
			got, rej := c08Probe(single, sub)
			if rej == "" && got != (exp == c08T) {
				found = true
				res.Violate(c08CondSig(lc, r.Scope, sub), "condition %s (scope %q) evaluated on span %d of %s, i.e. on %s: documented result %v, RulesBasedSampler says %v", c08EmitRule("x", c08Rule{Scope: r.Scope, Conds: []c08Cond{c}}), r.Scope, i, tr, sub, exp, got)
			}
		}
	}
	if found {
		return
	}
	for _, c := range r.Conds {
		single := c08Rule{Scope: r.Scope, Conds: []c08Cond{c}}
		exp := c08RuleMatches(single, tr)
		if exp == c08DC {
			continue
		}
		got, rej := c08Probe(single, tr)
		if rej != "" {
			continue
		}
		if got != (exp == c08T) {
			found = true
			res.Violate(c08CondSig(c, r.Scope, tr), "condition %s (scope %q): documented result %v, RulesBasedSampler says %v; trace %s", c08EmitRule("x", single), r.Scope, exp, got, tr)
		}
	}
	if !found {
		scope := r.Scope
		if scope == "" {
			scope = "trace"
		}
		res.Violate("C08/rule/scope="+scope+"/conditions-agree-individually", "every condition alone agrees with the documents but the rule does not: documented %v, SUT %v; rule %s; %s", !sutMatch, sutMatch, c08EmitRule("x", r), ctx)
	}
}

// ---------------------------------------------------------------- execute + judge

var c08Stats = struct {
	sync.Mutex
	dontCare, rejected, gridCells, gridDC, gridRejected, gridCompared int
}{}

// c08HasFallbackShape: some condition lists a span-level name before a root.-prefixed one, the root carries
// that root field, and at least one span lacks the span-level field while a later span has it.
func c08HasFallbackShape(rules []c08Rule, tr c811Trace) bool {
	root := tr.rootIdx()
	if root < 0 {
		return false
	}
	for _, r := range rules {
		for _, c := range r.Conds {
			for i, n := range c.Fields {
				if !strings.HasPrefix(n, "root.") {
					continue
				}
				if _, ok := tr.Spans[root][strings.TrimPrefix(n, "root.")]; !ok {
					continue
				}
				for _, pn := range c.Fields[:i] {
					if strings.HasPrefix(pn, "root.") {
						continue
					}
					lacking := false
					for _, sp := range tr.Spans {
						if _, ok := sp[pn]; !ok {
							lacking = true
						} else if lacking {
							return true
						}
					}
				}
			}
		}
	}
	return false
}

func c08IsNT(rules []c08Rule, tr c811Trace, expIdx int) bool {
	if len(rules) >= 2 && expIdx >= 1 && expIdx < len(rules) {
		return true
	}
	for _, r := range rules {
		if r.Scope == "span" && len(r.Conds) >= 2 {
			return true
		}
		for _, c := range r.Conds {
			if p, _ := c08Presence(c, tr); p == "absent" || p == "partly-absent" {
				return true
			}
		}
	}
	return false
}

func execC08(c c08Case) vkit.Result {
	var res vkit.Result
	if c.Grid != "" {
		c08Grid(&res)
		res.NonTrivial = true
		return res
	}
	if len(c.Trace.Spans) == 0 {
		res.Class("degenerate-replay")
		return res
	}
	names := make([]string, len(c.Rules))
	for i := range c.Rules {
		names[i] = c08RuleName(i)
	}
	u, rejected := c08NewSUT(c.Rules, names)
	if rejected != "" {
		c08Stats.Lock()
		c08Stats.rejected++
		c08Stats.Unlock()
		res.Class("config-rejected-by-validation")
		res.Obs = rejected
		return res
	}
	defer u.stop()
	o := u.decide(c.Trace)
	ctx := fmt.Sprintf("rules file %s trace %s -> rate=%d keep=%v reason=%q", c08EmitFile(c.Rules, names), c.Trace, o.rate, o.keep, o.reason)
	if o.panic != "" {
		res.Violate("C08/panic", "GetSampleRate panicked: %s; %s", o.panic, ctx)
		return res
	}
	sutIdx := c08MatchedIdx(o.reason, names)
	if c.Trace.annotations() > 0 {
		res.Class("has-span-event-or-link")
	}
	if c.GrowAt > 0 && c.GrowAt < len(c.Trace.Spans) {
		res.Class("grown")
		og := u.decideGrown(c.Trace, c.GrowAt)
		if og.panic != "" {
			res.Violate("C08/panic", "GetSampleRate panicked on the incrementally assembled trace: %s; %s", og.panic, ctx)
		} else if gi := c08MatchedIdx(og.reason, names); gi != sutIdx {
			res.Violate("C08/rule/depends-on-earlier-evaluation", "trace evaluated with its first %d spans, completed and evaluated again: reason %q; the same spans assembled freshly: reason %q; %s", c.GrowAt, og.reason, o.reason, ctx)
		}
	}
	expIdx, dcAt := c08FirstMatch(c.Rules, c.Trace)
	res.NonTrivial = c08IsNT(c.Rules, c.Trace, expIdx)
	if c08HasFallbackShape(c.Rules, c.Trace) {
		res.Class("shape:fields-spanlevel-before-root/root-has-it/some-span-lacks-spanlevel")
	}

	if dcAt >= 0 {
		c08Stats.Lock()
		c08Stats.dontCare++
		c08Stats.Unlock()
		res.Class("dont-care-rule-reached")
		for _, dc := range c.Rules[dcAt].Conds { // which corner was it (first don't-care condition of the rule)
			if c08RuleMatches(c08Rule{Scope: c.Rules[dcAt].Scope, Conds: []c08Cond{dc}}, c.Trace) == c08DC {
				res.Class(fmt.Sprintf("dc:op=%s/dt=%s", dc.Op, c08DtLabel(dc)))
				break
			}
		}
		// all rules before dcAt are documented as not matching
		if sutIdx < dcAt {
			c08Attribute(c.Rules[sutIdx], c.Trace, true, &res, ctx)
		}
		return res
	}
	if sutIdx != expIdx {
		first := sutIdx
		if expIdx < first {
			first = expIdx
		}
		c08Attribute(c.Rules[first], c.Trace, sutIdx == first, &res, ctx)
		return res
	}
	// same rule: outcome
	if expIdx == len(c.Rules) {
		res.Class("no-rule-matches")
		if o.rate != 1 || !o.keep {
			res.Violate("C08/outcome/no-match-not-kept-at-1", "%s", ctx)
		}
		return res
	}
	r := c.Rules[expIdx]
	res.Class(fmt.Sprintf("matched-rule-%d", expIdx))
	switch {
	case r.Downstream:
		res.Class("outcome=downstream")
		// reference: the same DynamicSampler on its own
		ref, stop := c11NewSampler(c11Case{Sampler: "dynamic", Fields: []string{"a", "b"}, Rate: r.Rate})
		rr, _, _, rk := ref.GetSampleRate(c811Build("c08-trace", c.Trace))
		stop()
		if o.rate != rr || o.key != rk {
			res.Violate("C08/outcome/downstream-not-delegated", "downstream DynamicSampler alone gives rate=%d key=%q; %s", rr, rk, ctx)
		}
	case r.Drop:
		res.Class("outcome=drop")
		if o.keep {
			res.Violate("C08/outcome/drop-rule-kept", "%s", ctx)
		}
	default:
		res.Class("outcome=rate")
		if r.Rate >= 1 {
			if o.rate != uint(r.Rate) {
				res.Violate("C08/outcome/rate", "rule SampleRate %d; %s", r.Rate, ctx)
			}
			if r.Rate == 1 && !o.keep {
				res.Violate("C08/outcome/rate-1-not-kept", "%s", ctx)
			}
			if c.Coin && r.Rate > 1 {
				res.Class("coin")
				kept := 0
				for i := 0; i < c08CoinN; i++ {
					if oi := u.decide(c.Trace); oi.keep {
						kept++
					}
				}
				p := 1 / float64(r.Rate)
				want, band := float64(c08CoinN)*p, c10Band(c08CoinN, p)
				if math.Abs(float64(kept)-want) > band {
					res.Violate("C08/outcome/keep-frequency", "SampleRate %d: kept %d of %d, expected %.1f +- %.1f; %s", r.Rate, kept, c08CoinN, want, band, ctx)
				}
			}
		} else {
			res.Class("outcome=rate-0-dont-care")
		}
	}
	return res
}

// ---------------------------------------------------------------- exhaustive grid

var c08AllOps = []string{"=", "!=", ">", "<", ">=", "<=", "starts-with", "contains", "does-not-contain", "exists", "not-exists", "has-root-span", "matches", "in", "not-in"}
var c08AllDts = []string{"", "string", "int", "float", "bool"}

func c08CVi(i int64) c08CV   { return c08CV{K: "i", I: i} }
func c08CVf(f float64) c08CV { return c08CV{K: "f", F: f} }
func c08CVb(b bool) c08CV    { return c08CV{K: "b", B: b} }
func c08CVs(s string) c08CV  { return c08CV{K: "s", S: s} }
func c08CVl(e ...c08CV) c08CV {
	return c08CV{K: "l", L: e}
}

// every value kind of DESIGN (int, float, bool, string, numeric string, list) with a few representatives, plus "omitted"
func c08GridValues() []*c08CV {
	vs := []c08CV{
		c08CVi(1), c08CVi(200), c08CVi(0),
		c08CVf(1.5), c08CVf(2.0), c08CVf(7.5), c08CVf(-1.5),
		c08CVb(true), c08CVb(false),
		c08CVs("abc"), c08CVs("ab"), c08CVs(""), c08CVs("nil"), c08CVs("^a"), c08CVs("true"),
		c08CVs("200"), c08CVs("1.5"), c08CVs("1"),
		c08CVl(c08CVi(1), c08CVi(200)), c08CVl(c08CVs("abc"), c08CVs("200")), c08CVl(c08CVf(1.5)), c08CVl(c08CVb(true)), c08CVl(),
	}
	var out []*c08CV
	for i := range vs {
		out = append(out, &vs[i])
	}
	return append(out, nil) // omitted Value last, so that recorded examples carry a Value when one exists
}

// span side: absent, nil, and every Go type the ingestion paths produce
func c08GridSpanValues() []*c811Val {
	vs := []c811Val{
		c811N(),
		c811S("abc"), c811S("200"), c811S("1.5"), c811S("true"), c811S(""), c811S("1"), c811S("xyz"),
		c811I(1), c811I(200), c811I(0), c811I(2), c811I(7), c811I(8), c811I(-1), c811I(-2),
		c811F(1.5), c811F(2.0), c811F(200), c811F(0.5), c811F(7.0), c811F(7.5),
		c811B(true), c811B(false),
	}
	out := []*c811Val{nil}
	for i := range vs {
		out = append(out, &vs[i])
	}
	return out
}

func c08Grid(res *vkit.Result) {
	dumpDir := os.Getenv("VERIF_C08_DUMP")
	seen := map[string]bool{}
	cells, dc, rejected, compared := 0, 0, 0, 0
	spanVals := c08GridSpanValues()
	for _, op := range c08AllOps {
		for _, dt := range c08AllDts {
			for _, val := range c08GridValues() {
				for _, scope := range []string{"", "span"} {
					cond := c08Cond{Field: "a", Op: op, Value: val, Datatype: dt}
					if op == "has-root-span" {
						cond.Field = ""
					}
					rule := c08Rule{Scope: scope, Conds: []c08Cond{cond}, Rate: 1}
					names := []string{"grid_rule_"}
					u, rej := c08NewSUT([]c08Rule{rule}, names)
					if rej != "" {
						cells += len(spanVals)
						rejected += len(spanVals)
						continue
					}
					for _, sv := range spanVals {
						for _, isRoot := range []bool{false, true} {
							if isRoot && op != "has-root-span" {
								continue // root-ness only matters to has-root-span on a one-span trace with an unprefixed field
							}
							cells++
							span := c811Span{"other": c811S("x")}
							if sv != nil {
								span["a"] = *sv
							}
							tr := c811Trace{Spans: []c811Span{span}, Root: -1}
							if isRoot {
								tr.Root = 0
							}
							exp := c08RuleMatches(rule, tr)
							if exp == c08DC {
								dc++
								continue
							}
							compared++
							o := u.decide(tr)
							if o.panic != "" {
								res.Violate("C08/panic", "grid: %s on %s: %s", c08EmitRule("x", rule), tr, o.panic)
								continue
							}
							got := c08MatchedIdx(o.reason, names) == 0
							if got != (exp == c08T) {
								sig := c08CondSig(cond, scope, tr)
								if !seen[sig] {
									seen[sig] = true
									res.Violate(sig, "grid: condition %s (scope %q) on trace %s: documented result %v, RulesBasedSampler says %v", c08EmitRule("x", rule), scope, tr, exp, got)
									if dumpDir != "" {
										c08Dump(dumpDir, sig, c08Case{Rules: []c08Rule{rule}, Trace: tr})
									}
								}
							}
						}
					}
					u.stop()
				}
			}
		}
	}
	c08Stats.Lock()
	c08Stats.gridCells += cells
	c08Stats.gridDC += dc
	c08Stats.gridRejected += rejected
	c08Stats.gridCompared += compared
	c08Stats.Unlock()
	res.Class("grid")
}

func c08Dump(dir, sig string, c c08Case) {
	_ = os.MkdirAll(dir, 0o755)
	name := strings.NewReplacer("/", "_", "=", "-", "<", "lt", ">", "gt", "!", "not", "+", "-").Replace(strings.TrimPrefix(sig, "C08/")) + ".json"
	cj, _ := json.Marshal(c)
	doc := map[string]any{"property": "C08", "signature": sig, "case": json.RawMessage(cj)}
	b, _ := json.MarshalIndent(doc, "", " ")
	_ = os.WriteFile(filepath.Join(dir, name), b, 0o644)
}

// ---------------------------------------------------------------- generator

var c08FieldNames = []string{"a", "b", "c", "root.a", "root.b"}

func genC08Value(t *rapid.T) *c08CV {
	var v c08CV
	switch rapid.IntRange(0, 11).Draw(t, "vkind") {
	case 0, 1, 2:
		v = c08CVi(rapid.SampledFrom([]int64{0, 1, 2, 200, -1}).Draw(t, "vi"))
	case 3:
		v = c08CVf(rapid.SampledFrom([]float64{1.5, 2.0, 0.5, 200.0, -1.5}).Draw(t, "vf"))
	case 4:
		v = c08CVb(rapid.Bool().Draw(t, "vb"))
	case 5, 6, 7:
		v = c08CVs(rapid.SampledFrom([]string{"abc", "ab", "b", "x", "", "nil", "<", "^a", "b$", "a.c", "true"}).Draw(t, "vs"))
	case 8:
		v = c08CVs(rapid.SampledFrom([]string{"200", "1", "1.5", "2", "0"}).Draw(t, "vnum"))
	case 9:
		return nil
	default:
		switch rapid.IntRange(0, 3).Draw(t, "lkind") {
		case 0:
			v = c08CVl(c08CVi(1), c08CVi(200))
		case 1:
			v = c08CVl(c08CVs("abc"), c08CVs("200"), c08CVs("b"))
		case 2:
			v = c08CVl(c08CVf(1.5), c08CVf(2.0))
		default:
			v = c08CVl(c08CVi(int64(rapid.IntRange(0, 2).Draw(t, "lv"))))
		}
	}
	return &v
}

// genC08TypedValue: a Value that fits the operator and Datatype as documented (so that the
// interpreter rarely has to answer don't-care).
func genC08TypedValue(t *rapid.T, op, dt string) *c08CV {
	ints := []int64{0, 1, 2, 200, -1}
	strs := []string{"abc", "ab", "b", "x", "", "nil", "200", "1", "true"}
	var v c08CV
	switch {
	case op == "in" || op == "not-in":
		switch dt {
		case "int":
			v = c08CVl(c08CVi(1), c08CVi(200), c08CVi(rapid.SampledFrom(ints).Draw(t, "li")))
		case "float":
			v = c08CVl(c08CVf(1.5), c08CVf(rapid.SampledFrom([]float64{2.0, 0.5, 200.0}).Draw(t, "lf")))
		case "string":
			v = c08CVl(c08CVs("abc"), c08CVs("200"), c08CVs(rapid.SampledFrom(strs).Draw(t, "ls")))
		default:
			switch rapid.IntRange(0, 2).Draw(t, "lk") {
			case 0:
				v = c08CVl(c08CVi(1), c08CVi(200), c08CVi(rapid.SampledFrom(ints).Draw(t, "li")))
			case 1:
				v = c08CVl(c08CVs("abc"), c08CVs("200"), c08CVs(rapid.SampledFrom(strs).Draw(t, "ls")))
			default:
				v = c08CVl(c08CVf(1.5), c08CVf(2.5))
			}
		}
	case c08IsStringOp(op):
		if op == "matches" {
			v = c08CVs(rapid.SampledFrom([]string{"^a", "b$", "a.c", "[0-9]+", "^(abc|200)$", "b"}).Draw(t, "re"))
		} else {
			v = c08CVs(rapid.SampledFrom([]string{"a", "ab", "abc", "b", "c", "2", "20", "x", "", "1", "tr", "nil", "<"}).Draw(t, "sub"))
		}
	default:
		switch dt {
		case "int":
			if rapid.IntRange(0, 4).Draw(t, "numstr") == 0 {
				v = c08CVs(rapid.SampledFrom([]string{"200", "1", "0", "2"}).Draw(t, "vns"))
			} else {
				v = c08CVi(rapid.SampledFrom(ints).Draw(t, "vi"))
			}
		case "float":
			if rapid.Bool().Draw(t, "fint") {
				v = c08CVi(rapid.SampledFrom(ints).Draw(t, "vi"))
			} else {
				v = c08CVf(rapid.SampledFrom([]float64{1.5, 2.0, 0.5, 200.0, -1.5, 2.5}).Draw(t, "vf"))
			}
		case "string":
			if rapid.IntRange(0, 3).Draw(t, "sint") == 0 {
				v = c08CVi(rapid.SampledFrom(ints).Draw(t, "vi"))
			} else {
				v = c08CVs(rapid.SampledFrom(strs).Draw(t, "vs"))
			}
		case "bool":
			v = c08CVb(rapid.Bool().Draw(t, "vb"))
		default:
			switch rapid.IntRange(0, 5).Draw(t, "uk") {
			case 0, 1:
				v = c08CVi(rapid.SampledFrom(ints).Draw(t, "vi"))
			case 2:
				v = c08CVf(rapid.SampledFrom([]float64{2.0, 200.0, 1.5}).Draw(t, "vf"))
			case 3:
				v = c08CVb(rapid.Bool().Draw(t, "vb"))
			default:
				v = c08CVs(rapid.SampledFrom(strs).Draw(t, "vs"))
			}
		}
	}
	return &v
}

func genC08Cond(t *rapid.T) c08Cond {
	var c c08Cond
	switch rapid.IntRange(0, 19).Draw(t, "condshape") {
	case 0:
		v := c08CVb(rapid.Bool().Draw(t, "hrs"))
		return c08Cond{Op: "has-root-span", Value: &v}
	case 1, 2:
		v := c08CVi(int64(rapid.IntRange(1, 4).Draw(t, "nd")))
		return c08Cond{Field: c08NumDescendants, Op: rapid.SampledFrom([]string{"=", "!=", ">", "<", ">=", "<="}).Draw(t, "ndop"), Value: &v,
			Datatype: rapid.SampledFrom([]string{"int", "", "int", "float"}).Draw(t, "nddt")}
	}
	if rapid.IntRange(0, 3).Draw(t, "multi") == 0 {
		c.Fields = rapid.SliceOfNDistinct(rapid.SampledFrom(c08FieldNames), 1, 3, rapid.ID[string]).Draw(t, "fields")
	} else {
		c.Field = rapid.SampledFrom(c08FieldNames).Draw(t, "field")
	}
	c.Op = rapid.SampledFrom(c08AllOps).Draw(t, "op")
	if c.Op == "has-root-span" {
		c.Op = "exists"
	}
	c.Datatype = rapid.SampledFrom([]string{"", "", "string", "int", "float", "bool"}).Draw(t, "dt")
	if c.Datatype == "bool" && c.Op != "=" && c.Op != "!=" && rapid.IntRange(0, 4).Draw(t, "boolanyop") > 0 {
		// Datatype bool is only documented for = and != ; keep the other combinations rare (they are don't-care)
		if c08IsCompare(c.Op) {
			c.Op = rapid.SampledFrom([]string{"=", "!="}).Draw(t, "boolop")
		} else if c.Op == "in" || c.Op == "not-in" {
			c.Datatype = rapid.SampledFrom([]string{"", "string", "int", "float"}).Draw(t, "indt")
		}
	}
	if c.Op != "exists" && c.Op != "not-exists" || rapid.IntRange(0, 4).Draw(t, "valueanyway") == 0 {
		if rapid.IntRange(0, 3).Draw(t, "welltyped") > 0 {
			c.Value = genC08TypedValue(t, c.Op, c.Datatype) // a Value of the kind the documents describe for this operator/datatype
		} else {
			c.Value = genC08Value(t) // anything validation lets through
		}
	}
	return c
}

func genC08Rule(t *rapid.T) c08Rule {
	r := c08Rule{Scope: rapid.SampledFrom([]string{"", "trace", "span", "span"}).Draw(t, "scope")}
	minConds := 1
	if rapid.IntRange(0, 7).Draw(t, "unconditional") == 7 {
		minConds = 0 // a rule without conditions always matches and hides everything after it: keep it rare
	}
	r.Conds = rapid.SliceOfN(rapid.Custom(genC08Cond), minConds, 3).Draw(t, "conds")
	switch rapid.IntRange(0, 9).Draw(t, "outcome") {
	case 0, 1:
		r.Drop = true
	case 2:
		r.Drop = true
		r.Rate = rapid.SampledFrom([]int{1, 5}).Draw(t, "droprate") // "Drop" wins over SampleRate
	case 3:
		r.Downstream = true
		r.Rate = rapid.SampledFrom([]int{1, 3, 10}).Draw(t, "dsrate")
	case 4:
		r.Downstream = true
		r.Drop = true // the downstream sampler wins over Drop
		r.Rate = 4
	default:
		r.Rate = rapid.SampledFrom([]int{1, 1, 2, 10, 100}).Draw(t, "rate")
	}
	return r
}

func genC08SpanVal(t *rapid.T) c811Val {
	switch rapid.IntRange(0, 13).Draw(t, "svkind") {
	case 0, 1, 2:
		return c811S(rapid.SampledFrom([]string{"abc", "ab", "b", "x", "abcd"}).Draw(t, "ss"))
	case 3:
		return c811S(rapid.SampledFrom([]string{"200", "1", "1.5", "true", "", "0", "false"}).Draw(t, "snum"))
	case 4, 5, 6, 7:
		return c811I(rapid.SampledFrom([]int64{0, 1, 2, 200, -1, 3}).Draw(t, "si"))
	case 8, 9:
		return c811F(rapid.SampledFrom([]float64{1.5, 2.0, 0.5, 200, -1.5, 2.5}).Draw(t, "sf"))
	case 10, 11:
		return c811B(rapid.Bool().Draw(t, "sb"))
	case 12:
		return c811N()
	default:
		return c811S(rapid.StringMatching(`[a-c]{0,4}`).Draw(t, "srand"))
	}
}

func genC08Trace(t *rapid.T) c811Trace {
	spanGen := rapid.Custom(func(t *rapid.T) c811Span {
		s := c811Span{}
		for _, f := range []string{"a", "b", "c"} {
			if rapid.IntRange(0, 2).Draw(t, "has-"+f) > 0 {
				s[f] = genC08SpanVal(t)
			}
		}
		return s
	})
	tr := c811Trace{Spans: rapid.SliceOfN(spanGen, 1, 5).Draw(t, "spans")}
	tr.Root = rapid.IntRange(-1, len(tr.Spans)-1).Draw(t, "root")
	genC08Annotate(t, &tr)
	return tr
}

// genC08Annotate turns some non-root members of the trace into span events / span links.
func genC08Annotate(t *rapid.T, tr *c811Trace) {
	for i := range tr.Spans {
		if i == tr.Root {
			continue
		}
		switch rapid.IntRange(0, 9).Draw(t, fmt.Sprintf("annotation%d", i)) {
		case 8:
			tr.Spans[i][c811Annotation] = c811S("span_event")
		case 9:
			tr.Spans[i][c811Annotation] = c811S("link")
		}
	}
}

// genC08Descendants is aimed at ?.NUM_DESCENDANTS ("the current number of child elements contained within a
// trace"): traces of 1-6 members of which several are span events / links, and a threshold around the number
// of plain spans and the total number of members; typed int, typed float and untyped.
func genC08Descendants(t *rapid.T) c08Case {
	n := rapid.IntRange(1, 6).Draw(t, "n")
	tr := c811Trace{Root: rapid.IntRange(-1, n-1).Draw(t, "root")}
	plain := 0
	for i := 0; i < n; i++ {
		sp := c811Span{}
		if rapid.Bool().Draw(t, fmt.Sprintf("hasa%d", i)) {
			sp["a"] = genC08SpanVal(t)
		}
		if i != tr.Root && rapid.IntRange(0, 2).Draw(t, fmt.Sprintf("ann%d", i)) > 0 {
			sp[c811Annotation] = c811S(rapid.SampledFrom([]string{"span_event", "link"}).Draw(t, fmt.Sprintf("kind%d", i)))
		} else {
			plain++
		}
		tr.Spans = append(tr.Spans, sp)
	}
	th := rapid.SampledFrom([]int{plain - 1, plain, plain + 1, n - 1, n, n + 1}).Draw(t, "threshold")
	if th < 0 {
		th = 0
	}
	v := c08CVi(int64(th))
	cond := c08Cond{Field: c08NumDescendants, Value: &v,
		Op:       rapid.SampledFrom([]string{"=", "!=", "<", "<=", ">", ">="}).Draw(t, "op"),
		Datatype: rapid.SampledFrom([]string{"int", "int", "", "", "float"}).Draw(t, "dt")}
	rule := c08Rule{Scope: rapid.SampledFrom([]string{"", "trace", "span"}).Draw(t, "scope"), Conds: []c08Cond{cond}, Drop: true}
	if rapid.IntRange(0, 3).Draw(t, "second") == 0 {
		rule.Conds = append(rule.Conds, genC08Cond(t))
	}
	c := c08Case{Rules: []c08Rule{rule}, Trace: tr}
	c.Rules = append(c.Rules, rapid.SliceOfN(rapid.Custom(genC08Rule), 0, 2).Draw(t, "more")...)
	return c
}

// genC08Fallback is aimed at `Fields` lists that mix span-level and root.-prefixed names ("first field
// that exists on any given span is used"): which name a span resolves to differs from span to span, the
// root carries the root.-field, several spans lack the span-level field and the spans that satisfy the
// condition sit anywhere in arrival order. Span values are drawn from {a value equal to the condition's
// Value, another value of the same type, absent}.
func genC08Fallback(t *rapid.T) c08Case {
	names := []string{"a", "b", "c"}
	p := rapid.SampledFrom(names).Draw(t, "p")
	q := rapid.SampledFrom(names).Draw(t, "q")
	p2 := rapid.SampledFrom(names).Draw(t, "p2")
	var fields []string
	switch rapid.IntRange(0, 5).Draw(t, "fieldshape") {
	case 0, 1, 2:
		fields = []string{p, "root." + q}
	case 3:
		fields = []string{"root." + q, p}
	case 4:
		fields = []string{p, "root." + q, p2}
	default:
		fields = []string{p, p2, "root." + q}
	}
	cond := c08Cond{Fields: fields}
	cond.Op = rapid.SampledFrom([]string{"=", "=", "!=", ">", ">=", "<", "<=", "contains", "starts-with", "does-not-contain", "in", "not-in", "matches", "exists"}).Draw(t, "op")
	cond.Datatype = rapid.SampledFrom([]string{"", "", "string", "int", "float"}).Draw(t, "dt")
	if cond.Op != "exists" {
		cond.Value = genC08TypedValue(t, cond.Op, cond.Datatype)
	}
	mv, nv := c811S("abc"), c811S("q")
	if cond.Value != nil {
		v := *cond.Value
		if v.K == "l" && len(v.L) > 0 {
			v = v.L[rapid.IntRange(0, len(v.L)-1).Draw(t, "elem")]
		}
		switch v.K {
		case "i":
			mv, nv = c811I(v.I), c811I(v.I+7)
		case "f":
			mv, nv = c811F(v.F), c811F(v.F+7.25)
		case "b":
			mv, nv = c811B(v.B), c811B(!v.B)
		case "s":
			mv = c811S(v.S)
			if cond.Op == "matches" {
				mv = c811S(rapid.SampledFrom([]string{"abc", "200", "b", "ab"}).Draw(t, "mvre"))
			}
		}
	}
	pick := func(label string, absentWeight int) (c811Val, bool) {
		switch k := rapid.IntRange(0, 3+absentWeight).Draw(t, label); {
		case k == 0 || k == 1:
			return mv, true
		case k == 2 || k == 3:
			return nv, true
		}
		return c811Val{}, false
	}
	n := rapid.IntRange(2, 5).Draw(t, "nspans")
	tr := c811Trace{Root: rapid.IntRange(-1, n-1).Draw(t, "root")}
	if tr.Root < 0 && rapid.Bool().Draw(t, "rootanyway") {
		tr.Root = rapid.IntRange(0, n-1).Draw(t, "root2")
	}
	for i := 0; i < n; i++ {
		sp := c811Span{}
		for _, f := range names {
			w := 3 // span-level fields are often missing
			if i == tr.Root && f == q {
				w = 0 // the root usually carries the root.-field
			}
			if f != p && f != q && f != p2 {
				continue
			}
			if v, ok := pick(fmt.Sprintf("v%d%s", i, f), w); ok {
				sp[f] = v
			}
		}
		tr.Spans = append(tr.Spans, sp)
	}
	rule := c08Rule{Scope: rapid.SampledFrom([]string{"", "trace", "span"}).Draw(t, "scope"), Conds: []c08Cond{cond}, Drop: true}
	if rapid.IntRange(0, 3).Draw(t, "second") == 0 {
		rule.Conds = append(rule.Conds, genC08Cond(t))
	}
	c := c08Case{Rules: []c08Rule{rule}, Trace: tr}
	c.Rules = append(c.Rules, rapid.SliceOfN(rapid.Custom(genC08Rule), 0, 2).Draw(t, "more")...)
	return c
}

// genC08NumBoundary is aimed at numeric comparisons at a threshold: a comparison operator whose Value is a
// fractional float, an integral float or an int, against span values that are the integers and floats right
// at, below and above it (trunc(Value), trunc(Value)+-1, Value itself), mostly without Datatype.
func genC08NumBoundary(t *rapid.T) c08Case {
	field := rapid.SampledFrom([]string{"a", "b", "root.a"}).Draw(t, "field")
	cond := c08Cond{Field: field}
	cond.Op = rapid.SampledFrom([]string{"=", "!=", "<", "<=", ">", ">="}).Draw(t, "op")
	cond.Datatype = rapid.SampledFrom([]string{"", "", "", "", "int", "float"}).Draw(t, "dt")
	th := rapid.SampledFrom([]float64{7.5, 1.5, 0.5, 2.5, 200.5, -1.5, -0.5, 7, 2, 0, -1}).Draw(t, "threshold")
	var v c08CV
	if th == math.Trunc(th) && rapid.Bool().Draw(t, "asint") {
		v = c08CVi(int64(th))
	} else {
		v = c08CVf(th)
	}
	cond.Value = &v
	tr := math.Trunc(th)
	spanVal := rapid.Custom(func(t *rapid.T) c811Val {
		d := float64(rapid.IntRange(-1, 1).Draw(t, "delta"))
		switch rapid.IntRange(0, 5).Draw(t, "svk") {
		case 0, 1, 2:
			return c811I(int64(tr + d)) // integer-typed neighbour of the threshold
		case 3:
			return c811F(tr + d)
		case 4:
			return c811F(th)
		default:
			return c811S(strconv.FormatFloat(tr+d, 'f', -1, 64))
		}
	})
	n := rapid.IntRange(1, 3).Draw(t, "nspans")
	trace := c811Trace{Root: rapid.IntRange(-1, n-1).Draw(t, "root")}
	name := strings.TrimPrefix(field, "root.")
	for i := 0; i < n; i++ {
		sp := c811Span{}
		if rapid.IntRange(0, 5).Draw(t, fmt.Sprintf("has%d", i)) > 0 {
			sp[name] = spanVal.Draw(t, fmt.Sprintf("sv%d", i))
		}
		trace.Spans = append(trace.Spans, sp)
	}
	rule := c08Rule{Scope: rapid.SampledFrom([]string{"", "span"}).Draw(t, "scope"), Conds: []c08Cond{cond}, Drop: true}
	c := c08Case{Rules: []c08Rule{rule}, Trace: trace}
	c.Rules = append(c.Rules, rapid.SliceOfN(rapid.Custom(genC08Rule), 0, 1).Draw(t, "more")...)
	return c
}

func genC08(t *rapid.T) c08Case {
	switch rapid.IntRange(0, 9).Draw(t, "aimed") {
	case 3, 6:
		return genC08Fallback(t)
	case 8:
		return genC08NumBoundary(t)
	case 5:
		return genC08Grow(t, genC08Descendants(t))
	}
	c := c08Case{}
	c.Rules = rapid.SliceOfN(rapid.Custom(genC08Rule), 1, 5).Draw(t, "rules")
	c.Trace = genC08Trace(t)
	c.Coin = rapid.IntRange(0, 9).Draw(t, "coin") == 7
	return genC08Grow(t, c)
}

// genC08Grow: half of the multi-span cases also evaluate the trace while it is being assembled.
func genC08Grow(t *rapid.T, c c08Case) c08Case {
	if len(c.Trace.Spans) >= 2 && rapid.Bool().Draw(t, "grow") {
		c.GrowAt = rapid.IntRange(1, len(c.Trace.Spans)-1).Draw(t, "growat")
	}
	return c
}

func TestC08(t *testing.T) {
	vkit.Run(t, vkit.Spec[c08Case]{
		ID:   "C08",
		Rule: "rapid-generated rule lists (1-5 rules; scope \"\"/trace/span; 0-3 conditions over fields {a,b,c,root.a,root.b}, Field or Fields lists, ?.NUM_DESCENDANTS, has-root-span; all 15 operators x Datatype {\"\",string,int,float,bool} x Value {int,float,bool,string,numeric string,list,omitted}; outcome Drop / SampleRate N / downstream DynamicSampler and the documented precedence combinations; 1 case in 10 comes from a sub-generator aimed at ?.NUM_DESCENDANTS (traces whose members include span events / span links, threshold around the plain-span count and the member count), 1 case in 10 from a sub-generator aimed at numeric thresholds (Value fractional/integral float or int against integer/float/string span values at trunc(Value), trunc(Value)+-1 and Value itself, mostly untyped), 1 case in 5 from a sub-generator aimed at Fields lists mixing span-level and root.-prefixed names on multi-span traces with span values drawn from {equal to Value, another value, absent}) written as a rules file, loaded and validated like refinery does (yaml.v3 + ValidateRules), against traces of 1-5 spans with/without root whose fields are absent or carry string/int64/float64/bool/nil; 1 non-root member in 5 is a span event or link; half of the multi-span cases are also evaluated on one trace object that is evaluated once while it holds only its first k spans. Oracle: independent three-valued interpreter of rules.md + rules_conditions.md; first matching rule, rate, keep (when not a coin), delegation compared with the downstream sampler alone; a disagreement is attributed to single conditions by probing one-condition samplers. The replay tier runs the exhaustive grid (15 operators x 5 datatypes x 24 values x 2 scopes x 25 span values on one-span traces). Non-trivial: >=2 rules and the documented match is not the first rule, or a condition on a field absent from some/all spans, or span scope with >=2 conditions. Distinct = distinct case JSON.",
		Assumptions: []string{
			"don't-care (not asserted, counted): ordering operators with Datatype bool; bool spellings other than true/false/1/0; integral floats or nil coerced to text; negative fractions and numeric-looking strings under Datatype int; untyped comparison of a number with a string or bool Value (an integer span value against a fractional float Value is compared as numbers: 7 < 7.5); in/not-in with a scalar Value, Datatype bool, a list of another type than the span value (untyped) or an unconvertible span value under not-in; Value that does not convert to the Datatype; SampleRate 0; not-exists on a root.-prefixed field when the trace has no root span (rules.md and the property statement contradict each other)",
			"a rule whose documented match status is don't-care ends the comparison for that case; rules before it must still not match",
			"absent field: 'If the field is not present, then the condition will not match' is applied per span for every operator except not-exists",
			"CheckNestedFields is not generated; meta.* fields are not generated",
			"keep for SampleRate N>1 is a coin in refinery (global math/rand): frequency check on 3000 extra decisions for 1 in 10 cases, max(6 sigma, Bernstein 1e-10)",
		},
		Gen:  genC08,
		Exec: execC08,
		Extra: func() map[string]any {
			c08Stats.Lock()
			defer c08Stats.Unlock()
			m := map[string]any{
				"dont_care_cases":            c08Stats.dontCare,
				"configs_rejected":           c08Stats.rejected,
				"grid_cells":                 c08Stats.gridCells,
				"grid_cells_compared":        c08Stats.gridCompared,
				"grid_cells_dont_care":       c08Stats.gridDC,
				"grid_cells_config_rejected": c08Stats.gridRejected,
			}
			if c08Stats.gridCells > 0 { // only the shard that ran the replay tier says so (the driver keeps the last non-numeric value)
				m["grid_exhaustive"] = "one-span grid 15 operators x 5 datatypes x 24 Value forms x 2 scopes x 25 span values enumerated completely (exhaustive for this sub-domain only)"
			}
			return m
		},
	})
}
