package racex

import (
	"bufio"
	"bytes"
	"encoding/json"
	"fmt"
	"os"
	"os/exec"
	"path/filepath"
	"sort"
	"strings"
	"syscall"
	"testing"
	"time"

	"github.com/honeycombio/refinery/verifharness/vkit"
	"pgregory.net/rapid"
)

// C35: concurrent components never race on shared state.
//
// A *scenario* is 6-10 actor scripts run concurrently against the full
// injected refinery app (wired like cmd/refinery/main.go) on loopback ports in
// a CHILD process of this (race-instrumented) test binary. The parent parses
// the race detector's log; oracle = no report whose stacks contain refinery
// frames. Each report is normalised to the pair of top-most refinery frames.

const (
	c35EnvScenario = "VERIF_C35_CHILD_SCENARIO"
	c35EnvOut      = "VERIF_C35_CHILD_OUT"
)

// op kinds
const (
	c35BatchOwn    = "batch_own"     // POST /1/batch/<ds> on the incoming listener, traces owned by this node
	c35BatchForeig = "batch_foreign" // same, traces owned by a peer (forwarded through the peer transmission)
	c35BatchMixed  = "batch_mixed"   // own + foreign + non-trace events
	c35BatchFresh  = "batch_fresh"   // POST /1/batch/<ds>: many DISTINCT one-span (root) traces with never-seen ids, decided quickly
	c35Event       = "event"         // POST /1/events/<ds>
	c35OTLP        = "otlp"          // POST /v1/traces (protobuf or json)
	c35PeerBatch   = "peer_batch"    // POST /1/batch/<ds> on the PEER listener (msgpack, as a peer would)
	c35Query       = "query"         // GET /query/{trace,rules,allrules,configmetadata}
	c35Alive       = "alive"         // GET /alive, /ready, /version
	c35AlivePoll   = "alive_poll"    // tight loop of 20-60 GET /alive (every 8th /ready) on one connection: a liveness prober
	c35HealthFlap  = "health_flap"   // the flaky extra health subsystem reports Ready once (and then goes silent again)
	c35ReloadCfg   = "reload_cfg"    // rewrite config file (variant Arg) + Reload()
	c35ReloadRules = "reload_rules"  // rewrite rules file (variant Arg) + Reload()
	c35StressFlip  = "stress_flip"   // rewrite StressRelief.Mode (never/always/monitor by Arg) + Reload()
	c35Churn       = "churn"         // MockPeers.UpdatePeers(subset Arg of the peer list, always containing self)
	c35Metrics     = "metrics"       // Metrics.Get(...) reads and a Prometheus scrape
	c35Eject       = "eject"         // collector.VerifEject (same message checkAlloc sends under memory pressure)
	c35Stop        = "stop"          // close(done) + startstop.Stop(all objects); at most once, ends the scenario
)

var c35IngestKinds = map[string]bool{c35BatchFresh: true, c35BatchOwn: true, c35BatchForeig: true, c35BatchMixed: true, c35Event: true, c35OTLP: true, c35PeerBatch: true}
var c35DisruptKinds = []string{"reload", c35StressFlip, c35Churn, c35Eject, c35Stop}

func c35DisruptClass(kind string) string {
	switch kind {
	case c35ReloadCfg, c35ReloadRules:
		return "reload"
	case c35StressFlip, c35Churn, c35Eject, c35Stop:
		return kind
	}
	return ""
}

type c35Op struct {
	Kind    string `json:"k"`
	Arg     int    `json:"a,omitempty"` // variant / size selector
	ThinkUs int    `json:"t,omitempty"` // pause before the op
}

type c35Actor struct {
	Ops []c35Op `json:"ops"` // the script; repeated until the scenario ends
}

type c35Scenario struct {
	DurationMs int        `json:"duration_ms"`
	Workers    int        `json:"workers"`      // collector workers
	FakePeers  int        `json:"fake_peers"`   // peers besides this node
	LogLevel   string     `json:"log_level"`    // refinery logger level
	StressMode string     `json:"stress_mode"`  // initial StressRelief.Mode
	ReloadMs   int        `json:"reload_ms"`    // General.ConfigReloadInterval (the app's own watcher), 0 = off
	// DropHeavy: start on a rule set that drops ~98% of the traces; together with
	// a small DroppedPerWorker the dropped-trace cuckoo filter passes 50% load
	// (future filter creation) and fills up (filter cycling) within the scenario.
	DropHeavy bool `json:"drop_heavy,omitempty"`
	// FlakyHealthMs: if > 0 an extra subsystem is registered with the real
	// Health object with this timeout; it reports Ready at start and then only
	// when a health_flap op runs, so it repeatedly misses its timeout and is
	// found dead by whoever asks first (a /alive probe or another subsystem's
	// report) while four probers poll /alive tightly.
	FlakyHealthMs int `json:"flaky_health_ms,omitempty"`
	// InitRules: rule set the app starts on (0 keep-all; 1-4 contain
	// dynsampler-backed samplers, top level and rule downstream, whose
	// FieldLists have 2-4 entries that are NOT in lexical order, so that the
	// workers building "the same" sampler at start and after every rules
	// reload all go through the field-list normalisation).
	InitRules int `json:"init_rules,omitempty"`
	// DroppedPerWorker / KeptPerWorker: SampleCache.DroppedSize / KeptSize per
	// collector worker at start (0 = the large defaults 20000 / 1000 in total);
	// config reloads switch between 1x and 2x (dropped) / 1x and 3x (kept).
	DroppedPerWorker int        `json:"dropped_per_worker,omitempty"`
	KeptPerWorker    int        `json:"kept_per_worker,omitempty"`
	Actors           []c35Actor `json:"actors"`
	// Report is filled in when a scenario is stored as a failing case: the
	// normalised races it produced (documentation only; ignored on replay).
	Report []string `json:"report,omitempty"`
}

// ---- generator -------------------------------------------------------------

func genC35Op(t *rapid.T, profile int) c35Op {
	// profile biases the op mix: 0 ingest, 1 admin (reload/stress/churn), 2 reader, 3 mixed
	var kinds []string
	switch profile {
	case 4: // producer of distinct short traces
		kinds = []string{c35BatchFresh}
	case 5: // liveness prober
		kinds = []string{c35AlivePoll}
	case 6: // the flaky subsystem's reporter
		kinds = []string{c35HealthFlap}
	case 0:
		kinds = []string{c35BatchFresh, c35BatchOwn, c35BatchOwn, c35BatchForeig, c35BatchForeig, c35BatchMixed, c35BatchMixed, c35Event, c35OTLP, c35OTLP, c35PeerBatch, c35PeerBatch}
	case 1:
		kinds = []string{c35ReloadCfg, c35ReloadCfg, c35ReloadRules, c35ReloadRules, c35StressFlip, c35StressFlip, c35Churn, c35Churn, c35Eject}
	case 2:
		kinds = []string{c35Query, c35Query, c35Alive, c35Metrics, c35Metrics, c35Eject}
	default:
		kinds = []string{c35BatchFresh, c35BatchOwn, c35BatchForeig, c35BatchMixed, c35Event, c35OTLP, c35PeerBatch, c35Query, c35Alive,
			c35ReloadCfg, c35ReloadRules, c35StressFlip, c35Churn, c35Metrics, c35Eject}
	}
	op := c35Op{Kind: rapid.SampledFrom(kinds).Draw(t, "kind")}
	op.Arg = rapid.IntRange(0, 15).Draw(t, "arg")
	switch {
	case c35IngestKinds[op.Kind]:
		op.ThinkUs = rapid.SampledFrom([]int{0, 0, 200, 1000, 5000}).Draw(t, "think")
	case c35DisruptClass(op.Kind) != "":
		op.ThinkUs = rapid.SampledFrom([]int{0, 1000, 10000, 30000, 80000}).Draw(t, "think")
	default:
		op.ThinkUs = rapid.SampledFrom([]int{0, 500, 5000, 20000}).Draw(t, "think")
	}
	return op
}

func genC35(t *rapid.T) c35Scenario {
	var s c35Scenario
	if vkit.Thorough() {
		s.DurationMs = rapid.SampledFrom([]int{1500, 2500, 4000}).Draw(t, "dur")
	} else {
		s.DurationMs = rapid.SampledFrom([]int{800, 1200, 1800}).Draw(t, "dur")
	}
	s.Workers = rapid.IntRange(1, 4).Draw(t, "workers")
	s.FakePeers = rapid.IntRange(1, 3).Draw(t, "fakepeers")
	s.LogLevel = rapid.SampledFrom([]string{"warn", "warn", "info", "debug"}).Draw(t, "loglevel")
	s.StressMode = rapid.SampledFrom([]string{"never", "monitor", "always"}).Draw(t, "stress")
	s.ReloadMs = rapid.SampledFrom([]int{0, 150, 400}).Draw(t, "reloadms")
	// About half of the scenarios are "drop heavy": tiny dropped/kept caches,
	// a sampler that drops almost everything and producers of distinct short
	// traces, so that the sample-cache maintenance paths (future filter
	// creation at 50% load, filter cycling, LRU eviction, SetNextCapacity/Resize
	// on reload) run while decisions keep flowing. Every effective reload
	// restarts the cache's 1 s maintenance ticker, so these scenarios last
	// longer and only one actor reloads, at most every 1.2 s.
	s.DropHeavy = rapid.IntRange(0, 1).Draw(t, "dropheavy") == 0 || os.Getenv("VERIF_C35_ONLY_DROPHEAVY") != "" // (knob for tuning runs)
	if s.DropHeavy {
		// 128..1024 per worker = 256..2048 filter slots: big enough not to
		// saturate (>99%, the locked cycling path) within one maintenance tick,
		// small enough to pass 50% within the first second of traffic
		s.DroppedPerWorker = rapid.SampledFrom([]int{32, 64, 128, 256, 512}).Draw(t, "droppedpw")
		s.KeptPerWorker = rapid.SampledFrom([]int{2, 8, 32}).Draw(t, "keptpw")
		// what matters is the rate of drop decisions at the moment the
		// maintenance tick creates the future filter: no debug logging, and in
		// half of the scenarios stress relief decides every span inline in the
		// (many) HTTP handler goroutines
		s.Workers = rapid.IntRange(2, 4).Draw(t, "workersdh")
		s.LogLevel = "warn"
		s.StressMode = rapid.SampledFrom([]string{"never", "always"}).Draw(t, "stressdh")
		if vkit.Thorough() {
			s.DurationMs = rapid.SampledFrom([]int{2500, 3500, 5000}).Draw(t, "durdh")
		} else {
			s.DurationMs = rapid.SampledFrom([]int{2500, 3200}).Draw(t, "durdh")
		}
	} else if rapid.IntRange(0, 2).Draw(t, "smallcaches") == 0 {
		s.DroppedPerWorker = rapid.SampledFrom([]int{64, 512, 4096}).Draw(t, "droppedpw")
		s.KeptPerWorker = rapid.SampledFrom([]int{2, 8, 64}).Draw(t, "keptpw")
	}
	s.InitRules = rapid.SampledFrom([]int{0, 1, 2, 3, 1, 3}).Draw(t, "initrules")
	n := rapid.IntRange(6, 10).Draw(t, "nactors")
	if rapid.IntRange(0, 2).Draw(t, "flakyhealth") == 0 || os.Getenv("VERIF_C35_ONLY_FLAKY") != "" {
		s.FlakyHealthMs = rapid.SampledFrom([]int{500, 1000}).Draw(t, "flakyms")
		n = 10
		if s.DurationMs < 3000 {
			s.DurationMs = 3000 // room for 2-3 die/revive cycles
		}
	}
	// the first actors get fixed profiles so that a scenario is non-trivial by
	// construction most of the time; the rest are drawn
	for i := 0; i < n; i++ {
		var profile int
		switch {
		case s.FlakyHealthMs > 0 && (i == 3 || i == 7 || i == 8 || i == 9):
			profile = 5
		case s.FlakyHealthMs > 0 && i == 6:
			profile = 6
		case s.DropHeavy && (i == 0 || i == 1 || i == 4 || i == 5):
			profile = 4
		case i == 0 || i == 1:
			profile = 0
		case i == 2:
			profile = 1
		case i == 3:
			profile = 2
		default:
			profile = rapid.IntRange(0, 3).Draw(t, "profile")
		}
		p := profile
		maxOps := 6
		if p == 1 {
			maxOps = 4 // a Reload costs 0.1-2 s under the race detector
		}
		ops := rapid.SliceOfN(rapid.Custom(func(t *rapid.T) c35Op { return genC35Op(t, p) }), 1, maxOps).Draw(t, "ops")
		for k := range ops {
			switch ops[k].Kind {
			case c35AlivePoll:
				ops[k].ThinkUs = 0
			case c35HealthFlap:
				// stay silent for the timeout plus 0.3-0.75 s (the health ticker runs every 0.5 s)
				ops[k].ThinkUs = (s.FlakyHealthMs + 300 + 150*(ops[k].Arg%4)) * 1000
			}
		}
		if s.DropHeavy {
			for k := range ops {
				isReload := ops[k].Kind == c35ReloadCfg || ops[k].Kind == c35ReloadRules || ops[k].Kind == c35StressFlip
				switch {
				case isReload && i != 2:
					ops[k].Kind = c35Churn
				case isReload:
					ops[k].ThinkUs = 1200000 + 100000*(ops[k].Arg%4)
				case ops[k].Kind == c35BatchFresh:
					ops[k].ThinkUs = 0
				}
			}
		}
		s.Actors = append(s.Actors, c35Actor{Ops: ops})
	}
	// Stop in roughly half of the scenarios: appended to one actor's script with
	// a long think time so that it lands in the middle of the activity.
	if rapid.IntRange(0, 1).Draw(t, "withstop") == 1 {
		ai := rapid.IntRange(0, n-1).Draw(t, "stopactor")
		think := rapid.IntRange(s.DurationMs*200, s.DurationMs*800).Draw(t, "stopthink") // 20%..80% of the duration, in us
		s.Actors[ai].Ops = append(s.Actors[ai].Ops, c35Op{Kind: c35Stop, ThinkUs: think})
	}
	return s
}

// ---- race report parsing -----------------------------------------------------

const c35RefineryPrefix = "github.com/honeycombio/refinery/"
const c35HarnessPrefix = "github.com/honeycombio/refinery/verifharness/"

type c35Race struct {
	Signature string
	FrameA    string
	FrameB    string
	Text      string
	Harness   bool // no refinery frame in either access stack
	Unattributed bool // a stack could not be restored by the detector
}

// c35FuncName strips the argument list from a race-report frame line.
func c35FuncName(line string) string {
	line = strings.TrimSpace(line)
	if i := strings.LastIndex(line, "("); i > 0 && strings.HasSuffix(line, ")") {
		line = line[:i]
	}
	return line
}

// c35TopRefineryFrame returns the top-most frame of a stack that belongs to
// refinery proper (not the harness, not third-party code, not a test double),
// shortened to "pkg.Func"; also the top-most frame of any kind.
func c35TopRefineryFrame(stack []string) (refinery string, top string) {
	for _, fn := range stack {
		if top == "" {
			top = fn
		}
		if strings.HasPrefix(fn, c35HarnessPrefix) {
			continue
		}
		if strings.HasPrefix(fn, c35RefineryPrefix) {
			return strings.TrimPrefix(fn, c35RefineryPrefix), top
		}
	}
	return "", top
}

// c35ParseRaces splits a GORACE log into reports and normalises them.
func c35ParseRaces(log string) []c35Race {
	var out []c35Race
	blocks := strings.Split(log, "WARNING: DATA RACE")
	for _, b := range blocks[1:] {
		if i := strings.Index(b, "=================="); i >= 0 {
			b = b[:i]
		}
		// sections are separated by blank lines; the first two sections whose
		// header mentions "by goroutine"/"by main goroutine" are the access stacks
		var stacks [][]string
		sc := bufio.NewScanner(strings.NewReader(b))
		sc.Buffer(make([]byte, 1<<20), 1<<20)
		var cur []string
		inAccess := false
		flush := func() {
			if inAccess {
				stacks = append(stacks, cur)
			}
			cur = nil
			inAccess = false
		}
		for sc.Scan() {
			line := sc.Text()
			trim := strings.TrimSpace(line)
			if trim == "" {
				flush()
				continue
			}
			if !strings.HasPrefix(line, " ") {
				// header line
				flush()
				l := strings.ToLower(trim)
				if (strings.HasPrefix(l, "read at") || strings.HasPrefix(l, "write at") || strings.HasPrefix(l, "previous read at") ||
					strings.HasPrefix(l, "previous write at") || strings.HasPrefix(l, "atomic read at") || strings.HasPrefix(l, "atomic write at") ||
					strings.HasPrefix(l, "previous atomic read at") || strings.HasPrefix(l, "previous atomic write at")) && len(stacks) < 2 {
					inAccess = true
				}
				continue
			}
			if inAccess && strings.HasPrefix(line, "  ") && !strings.HasPrefix(line, "      ") {
				cur = append(cur, c35FuncName(trim))
			}
		}
		flush()
		r := c35Race{Text: "WARNING: DATA RACE" + b}
		var fa, fb, ta, tb string
		if len(stacks) > 0 {
			fa, ta = c35TopRefineryFrame(stacks[0])
		}
		if len(stacks) > 1 {
			fb, tb = c35TopRefineryFrame(stacks[1])
		}
		switch {
		case len(stacks) < 2 || len(stacks[0]) == 0 || len(stacks[1]) == 0:
			// the detector could not restore one of the stacks: the race cannot
			// be attributed to a frame pair
			r.Unattributed = true
			r.FrameA, r.FrameB = fa, fb
		case fa == "" && fb == "":
			r.Harness = true
			r.FrameA, r.FrameB = ta, tb
		case fa == "":
			r.FrameA, r.FrameB = "(no refinery frame: "+ta+")", fb
		case fb == "":
			r.FrameA, r.FrameB = fa, "(no refinery frame: "+tb+")"
		default:
			r.FrameA, r.FrameB = fa, fb
		}
		pair := []string{r.FrameA, r.FrameB}
		sort.Strings(pair)
		if r.Harness {
			r.Signature = "harness/race/" + pair[0] + "|" + pair[1]
		} else {
			r.Signature = "C35/race/" + pair[0] + "|" + pair[1]
		}
		out = append(out, r)
	}
	return out
}

// ---- parent side: run one scenario in a child ----------------------------------

type c35ChildSummary struct {
	SetupFailed string         `json:"setup_failed,omitempty"`
	Executed    map[string]int `json:"executed"`    // ops executed, by kind
	HTTPStatus  map[string]int `json:"http_status"` // "<kind>:<status or err>" -> count
	Stopped     bool           `json:"stopped"`
	StopErr     string         `json:"stop_err,omitempty"`
	ReloadErrs  int            `json:"reload_errs"`
	ReloadErr   string         `json:"reload_err,omitempty"`
	WallMs      int64          `json:"wall_ms"`
	BuildMs     int64          `json:"build_ms"`
	ActorsMs    int64          `json:"actors_ms"`
	Upstream    int            `json:"upstream_events"` // events that reached the fake Honeycomb
	PeerEvents  int            `json:"peer_events"`     // events that reached a fake peer
	Finished    bool           `json:"finished"`
	// highest values of the dropped-trace cuckoo filter gauges seen (sampled
	// every 50 ms and at exit; the gauges are written by Maintain once a second)
	MaxCurrentLoad float64 `json:"max_cuckoo_current_load"`
	MaxFutureLoad  float64 `json:"max_cuckoo_future_load"`
	KeptEvictable  bool    `json:"kept_evictable"`
	// per liveness prober: how often it saw /alive turn from 200 to 503
	DeathsSeen []int `json:"deaths_seen,omitempty"`
}

type c35RunResult struct {
	races    []c35Race
	summary  c35ChildSummary
	haveSum  bool
	timedOut bool
	exitErr  string
	tail     string
}

func c35RunChild(s c35Scenario) c35RunResult {
	var rr c35RunResult
	dir, err := os.MkdirTemp("", "c35-")
	if err != nil {
		rr.exitErr = "mkdtemp: " + err.Error()
		return rr
	}
	defer os.RemoveAll(dir)
	s.Report = nil
	sj, _ := json.Marshal(s)
	scPath := filepath.Join(dir, "scenario.json")
	outPath := filepath.Join(dir, "summary.json")
	logPrefix := filepath.Join(dir, "race")
	if err := os.WriteFile(scPath, sj, 0o644); err != nil {
		rr.exitErr = err.Error()
		return rr
	}
	// /proc/self/exe stays executable even if the binary file is unlinked while
	// we run (other jobs clean /verif/.bin/*.mut-* concurrently)
	exe := "/proc/self/exe"
	if _, err := os.Stat(exe); err != nil {
		exe, err = os.Executable()
		if err != nil {
			rr.exitErr = err.Error()
			return rr
		}
	}
	cmd := exec.Command(exe, "-test.run", "^TestC35Child$", "-test.count=1", "-test.timeout=120s")
	cmd.Dir = dir
	var env []string
	for _, e := range os.Environ() {
		if strings.HasPrefix(e, "GORACE=") || strings.HasPrefix(e, "VERIF_OUT=") || strings.HasPrefix(e, "VERIF_REPLAY") || strings.HasPrefix(e, "TMPDIR=") {
			continue
		}
		env = append(env, e)
	}
	env = append(env,
		"GORACE=halt_on_error=0 exitcode=0 atexit_sleep_ms=0 history_size=3 log_path="+logPrefix,
		c35EnvScenario+"="+scPath, c35EnvOut+"="+outPath, "TMPDIR="+dir)
	cmd.Env = env
	outF, _ := os.Create(filepath.Join(dir, "child.out"))
	cmd.Stdout = outF
	cmd.Stderr = outF
	if err := cmd.Start(); err != nil {
		rr.exitErr = "start child: " + err.Error()
		return rr
	}
	done := make(chan error, 1)
	go func() { done <- cmd.Wait() }()
	limit := time.Duration(s.DurationMs)*time.Millisecond + 60*time.Second
	select {
	case err := <-done:
		if err != nil {
			rr.exitErr = err.Error()
		}
	case <-time.After(limit):
		// ask the runtime for a goroutine dump first (ends up in child.out)
		_ = cmd.Process.Signal(syscall.SIGQUIT)
		select {
		case <-done:
		case <-time.After(10 * time.Second):
			_ = cmd.Process.Kill()
			<-done
		}
		rr.timedOut = true
	}
	outF.Close()
	if b, err := os.ReadFile(filepath.Join(dir, "child.out")); err == nil {
		if rr.timedOut && os.Getenv("VERIF_C35_DEBUG") != "" {
			_ = os.WriteFile(filepath.Join(os.Getenv("VERIF_C35_DEBUG"), fmt.Sprintf("timeout-%d.out", time.Now().UnixNano())), append(append([]byte{}, sj...), append([]byte("\n"), b...)...), 0o644)
		}
		if len(b) > 3000 {
			b = b[len(b)-3000:]
		}
		rr.tail = string(b)
	}
	if b, err := os.ReadFile(outPath); err == nil {
		if json.Unmarshal(b, &rr.summary) == nil {
			rr.haveSum = true
		}
	}
	files, _ := filepath.Glob(logPrefix + ".*")
	sort.Strings(files)
	var log bytes.Buffer
	for _, f := range files {
		if b, err := os.ReadFile(f); err == nil {
			log.Write(b)
			log.WriteByte('\n')
		}
	}
	rr.races = c35ParseRaces(log.String())
	return rr
}

func c35Replaying() bool { return os.Getenv("VERIF_REPLAY") != "" }

func execC35(s c35Scenario) vkit.Result {
	var res vkit.Result
	runs := 1
	if c35Replaying() {
		runs = 8 // schedules are not reproducible: a stored scenario is re-run several times
	}
	seen := map[string]bool{}
	var last c35RunResult
	for i := 0; i < runs; i++ {
		rr := c35RunChild(s)
		last = rr
		for _, r := range rr.races {
			if r.Unattributed {
				res.Class("race-unattributed(stack not restored)")
				continue
			}
			if seen[r.Signature] {
				continue
			}
			seen[r.Signature] = true
			txt := r.Text
			if len(txt) > 5000 {
				txt = txt[:5000] + "\n...[truncated]"
			}
			res.Violate(r.Signature, "race between %s and %s (run %d of %d)\n%s", r.FrameA, r.FrameB, i+1, runs, txt)
		}
		if len(seen) > 0 && c35Replaying() && i >= 2 {
			break // at least 3 runs, then stop as soon as something was reported
		}
	}
	rr := last
	switch {
	case rr.timedOut:
		res.Class("inconclusive-child-timeout")
	case !rr.haveSum:
		res.Class("inconclusive-child-no-summary")
	case rr.summary.SetupFailed != "":
		res.Class("inconclusive-child-setup-failed")
	case !rr.summary.Finished:
		res.Class("inconclusive-child-crashed")
	default:
		res.Class("child-ok")
	}
	if rr.haveSum {
		ing := 0
		disrupt := map[string]bool{}
		for k, n := range rr.summary.Executed {
			if n == 0 {
				continue
			}
			if c35IngestKinds[k] {
				ing += n
			}
			if d := c35DisruptClass(k); d != "" {
				disrupt[d] = true
			}
			res.Class("executed:" + k)
		}
		accepted := 0
		for k, n := range rr.summary.HTTPStatus {
			if strings.HasSuffix(k, ":200") || strings.HasSuffix(k, ":202") {
				parts := strings.SplitN(k, ":", 2)
				if c35IngestKinds[parts[0]] {
					accepted += n
				}
			}
		}
		if accepted == 0 {
			res.Class("no-ingest-accepted")
		}
		res.Class(fmt.Sprintf("disrupt-kinds=%d", len(disrupt)))
		if rr.summary.Upstream > 0 {
			res.Class("upstream-received")
		}
		if rr.summary.PeerEvents > 0 {
			res.Class("peer-received")
		}
		if rr.summary.ReloadErrs > 0 {
			res.Class("reload-errors")
		}
		if s.DropHeavy {
			res.Class("drop-heavy")
		}
		if s.Workers >= 2 && (rr.summary.Executed[c35ReloadRules] > 0 || s.InitRules%5 != 0 || s.DropHeavy) {
			res.Class("unsorted-fieldlists+>=2-workers")
			if rr.summary.Executed[c35ReloadRules] > 0 {
				res.Class("unsorted-fieldlists+>=2-workers+rules-reload")
			}
		}
		if s.FlakyHealthMs > 0 {
			res.Class("flaky-health-subsystem")
			seenBy := 0
			for _, d := range rr.summary.DeathsSeen {
				if d > 0 {
					seenBy++
				}
			}
			if seenBy >= 2 {
				res.Class("health-subsystem-died-under->=2-concurrent-probers")
			} else if seenBy == 1 {
				res.Class("health-subsystem-died-under-1-prober")
			}
		}
		if s.DroppedPerWorker > 0 {
			res.Class("small-sample-caches")
		}
		if rr.summary.MaxCurrentLoad > 0.5 {
			res.Class("dropped-filter-crossed-50%")
		}
		if rr.summary.MaxCurrentLoad > 0.99 {
			res.Class("dropped-filter-reached-99%")
		}
		if rr.summary.MaxFutureLoad > 0 {
			res.Class("future-filter-in-use")
		}
		res.NonTrivial = rr.summary.Finished && accepted > 0 && len(disrupt) >= 2
		res.Obs = map[string]any{"executed": rr.summary.Executed, "http": rr.summary.HTTPStatus, "wall_ms": rr.summary.WallMs,
			"upstream": rr.summary.Upstream, "peer": rr.summary.PeerEvents, "max_cuckoo_current_load": rr.summary.MaxCurrentLoad, "max_cuckoo_future_load": rr.summary.MaxFutureLoad, "reload_err": rr.summary.ReloadErr, "stop_err": rr.summary.StopErr}
	} else if os.Getenv("VERIF_C35_DEBUG") != "" {
		fmt.Fprintf(os.Stderr, "child without summary: exit=%q timeout=%v tail:\n%s\n", rr.exitErr, rr.timedOut, rr.tail)
	}
	if len(seen) > 0 {
		res.Class("race-reported")
	}
	return res
}

func TestC35(t *testing.T) {
	vkit.Run(t, vkit.Spec[c35Scenario]{
		ID:   "C35",
		Rule: "rapid-generated scenarios: 6-10 concurrently looping actor scripts over {batch/event/OTLP ingest for own and foreign traces, bursts of distinct one-span traces, peer-listener ingest, /query/*, /alive,/ready, config+rules file rewrite + Reload, stress mode flip via reload, membership churn via MockPeers.UpdatePeers, metrics reads + Prometheus scrape, VerifEject, tight /alive probing while a flaky extra health subsystem keeps missing its timeout, Stop} against the full injected app (real fileConfig, routers, collector, StressRelief, DirectTransmissions, ConfigWatcher, LocalPubSub, MultiMetrics+Prometheus) in a -race child process; half of the scenarios start drop-heavy with tiny SampleCache.DroppedSize/KeptSize so that the cuckoo filter maintenance (future filter at 50% load, cycling, SetNextCapacity/Resize) runs under traffic; every race report is normalised to its pair of top refinery frames. Non-trivial: the child finished, >=1 ingest request was accepted and >=2 of {reload, stress flip, churn, eject, stop} were executed. Distinct = distinct scenario JSON.",
		Assumptions: []string{
			"the Go race detector only reports races on interleavings that actually occur; a silent scenario proves little (DESIGN section 6)",
			"peer.MockPeers (refinery's own test double) stands in for the membership source; fake Honeycomb and fake peers are httptest servers in the child",
			"two harness actors may call Config.Reload concurrently: refinery itself does so (ConfigWatcher ticker and its pubsub SubscriptionListener)",
			"only frames inside github.com/honeycombio/refinery (not the harness, not third-party modules) name a race; a report without any refinery frame is reported as harness/race/*",
		},
		Gen:        genC35,
		Exec:       execC35,
		MaxSamples: 2,
	})
}

