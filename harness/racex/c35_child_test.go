package racex

import (
	"bytes"
	"encoding/json"
	"fmt"
	"io"
	"net"
	"net/http"
	"net/http/httptest"
	"os"
	"path/filepath"
	"strconv"
	"strings"
	"sync"
	"sync/atomic"
	"testing"
	"time"

	"github.com/facebookgo/inject"
	"github.com/facebookgo/startstop"
	"github.com/jonboulle/clockwork"
	"github.com/klauspost/compress/zstd"
	"github.com/vmihailenco/msgpack/v5"
	"go.opentelemetry.io/otel/trace"
	"go.opentelemetry.io/otel/trace/noop"
	collectortrace "go.opentelemetry.io/proto/otlp/collector/trace/v1"
	common "go.opentelemetry.io/proto/otlp/common/v1"
	resource "go.opentelemetry.io/proto/otlp/resource/v1"
	tracepb "go.opentelemetry.io/proto/otlp/trace/v1"
	"google.golang.org/protobuf/encoding/protojson"
	"google.golang.org/protobuf/proto"

	"github.com/honeycombio/refinery/app"
	"github.com/honeycombio/refinery/collect"
	"github.com/honeycombio/refinery/config"
	"github.com/honeycombio/refinery/internal/configwatcher"
	"github.com/honeycombio/refinery/internal/health"
	"github.com/honeycombio/refinery/internal/peer"
	"github.com/honeycombio/refinery/logger"
	"github.com/honeycombio/refinery/metrics"
	"github.com/honeycombio/refinery/pubsub"
	"github.com/honeycombio/refinery/sample"
	"github.com/honeycombio/refinery/sharder"
	"github.com/honeycombio/refinery/transmit"
	"github.com/honeycombio/refinery/types"
)

// The child side of C35: builds the full app and runs the actor scripts.
// Everything the actors share is either refinery's own (the SUT) or one of the
// few harness objects below, each guarded by its own mutex/atomic.

const c35FlakySubsystem = "c35_flaky_subsystem"

const (
	c35LegacyKey = "c9945edf5d245834089a1bd6cc9ad01e" // classic key: dataset selects the sampler
	c35EnvKey    = "abcdefghijklmnopqrstuv"           // environment key: /1/auth lookup, environment "env1"
	c35QueryTok  = "c35-query-token"
)

type c35Ports struct{ listen, peer, prom int }

func c35FreePorts(n int) ([]int, error) {
	var ls []net.Listener
	var ports []int
	for i := 0; i < n; i++ {
		l, err := net.Listen("tcp", "127.0.0.1:0")
		if err != nil {
			return nil, err
		}
		ls = append(ls, l)
		ports = append(ports, l.Addr().(*net.TCPAddr).Port)
	}
	for _, l := range ls {
		l.Close()
	}
	return ports, nil
}

// c35Files renders and atomically replaces the config and rules files. The
// state (which variant is current) belongs to the harness and has its own lock.
type c35Files struct {
	mu         sync.Mutex
	dir        string
	cfgPath    string
	rulesPath  string
	ports      c35Ports
	apiURL     string
	sc         c35Scenario
	cfgVariant int
	stressMode string
	rulesVar   int
	seq        int
}

func c35Bool(b bool) string { return strconv.FormatBool(b) }

func (f *c35Files) renderConfig() string {
	v := f.cfgVariant
	pick := func(bit int, a, b string) string {
		if v&bit != 0 {
			return b
		}
		return a
	}
	var sb strings.Builder
	fmt.Fprintf(&sb, "General:\n  ConfigurationVersion: 2\n  ConfigReloadInterval: %dms\n", f.sc.ReloadMs)
	fmt.Fprintf(&sb, "Network:\n  ListenAddr: 127.0.0.1:%d\n  PeerListenAddr: 127.0.0.1:%d\n  HoneycombAPI: %s\n", f.ports.listen, f.ports.peer, f.apiURL)
	fmt.Fprintf(&sb, "AccessKeys:\n  ReceiveKeys:\n    - %s\n    - %s\n  AcceptOnlyListedKeys: %s\n", c35LegacyKey, c35EnvKey, c35Bool(v&1 != 0))
	fmt.Fprintf(&sb, "RefineryTelemetry:\n  AddRuleReasonToTrace: %s\n  AddSpanCountToRoot: %s\n  AddCountsToRoot: %s\n  AddHostMetadataToTrace: %s\n",
		c35Bool(v&2 != 0), c35Bool(v&4 == 0), c35Bool(v&4 != 0), c35Bool(v&8 != 0))
	fmt.Fprintf(&sb, "Traces:\n  SendDelay: %s\n  BatchTimeout: 40ms\n  TraceTimeout: %s\n  MaxBatchSize: %s\n  SendTicker: 20ms\n  SpanLimit: %s\n",
		pick(1, "100ms", "160ms"), pick(2, "1s", "2s"), pick(4, "100", "250"), pick(8, "0", "4"))
	fmt.Fprintf(&sb, "Debugging:\n  QueryAuthToken: %s\n  DryRun: %s\n", c35QueryTok, c35Bool(v == 7 || v == 13))
	fmt.Fprintf(&sb, "Logger:\n  Type: stdout\n  Level: %s\n", f.sc.LogLevel)
	fmt.Fprintf(&sb, "PrometheusMetrics:\n  Enabled: true\n  ListenAddr: 127.0.0.1:%d\n", f.ports.prom)
	fmt.Fprintf(&sb, "PeerManagement:\n  Type: file\n  Identifier: 127.0.0.1\n  Peers:\n    - http://127.0.0.1:%d\n", f.ports.peer)
	fmt.Fprintf(&sb, "Collection:\n  WorkerCount: %d\n  IncomingQueueSize: 4000\n  PeerQueueSize: 4000\n  HealthCheckTimeout: 3s\n  ShutdownDelay: 100ms\n", f.sc.Workers)
	fmt.Fprintf(&sb, "Specialized:\n  EnvironmentCacheTTL: 15m\n  AdditionalAttributes:\n    cluster: c35\n    variant: \"v%d\"\n", v%3)
	kept, dropped := 1000, 20000
	if f.sc.KeptPerWorker > 0 {
		kept = f.sc.KeptPerWorker * f.sc.Workers
	}
	if f.sc.DroppedPerWorker > 0 {
		dropped = f.sc.DroppedPerWorker * f.sc.Workers
	}
	if v&1 != 0 {
		kept *= 3
	}
	if v&2 != 0 {
		dropped *= 2
	}
	fmt.Fprintf(&sb, "SampleCache:\n  KeptSize: %d\n  DroppedSize: %d\n  SizeCheckInterval: 1s\n", kept, dropped)
	fmt.Fprintf(&sb, "StressRelief:\n  Mode: %s\n  ActivationLevel: 90\n  DeactivationLevel: 75\n  SamplingRate: %s\n  MinimumActivationDuration: 100ms\n",
		f.stressMode, pick(4, "2", "10"))
	return sb.String()
}

var c35RulesVariants = []string{
	// 0: everything kept
	`RulesVersion: 2
Samplers:
  __default__:
    DeterministicSampler:
      SampleRate: 1
`,
	// 1: deterministic default, dynamic samplers per dataset / environment
	`RulesVersion: 2
Samplers:
  __default__:
    DeterministicSampler:
      SampleRate: 2
  ds0:
    DynamicSampler:
      SampleRate: 2
      ClearFrequency: 1s
      FieldList:
        - service.name
        - http.status_code
        - name
        - actor
      UseTraceLength: true
  env1:
    EMADynamicSampler:
      GoalSampleRate: 2
      AdjustmentInterval: 1s
      FieldList:
        - service.name
        - http.status_code
`,
	// 2: rules with a downstream sampler
	`RulesVersion: 2
Samplers:
  __default__:
    RulesBasedSampler:
      Rules:
        - Name: drop health
          Drop: true
          Conditions:
            - Field: name
              Operator: =
              Value: healthz
        - Name: keep errors
          SampleRate: 1
          Conditions:
            - Field: http.status_code
              Operator: ">="
              Value: 500
              Datatype: int
        - Name: dynamic 200
          Conditions:
            - Field: http.status_code
              Operator: =
              Value: 200
              Datatype: int
          Sampler:
            EMADynamicSampler:
              GoalSampleRate: 3
              FieldList:
                - service.name
                - name
                - http.status_code
        - Name: default
          SampleRate: 2
  ds1:
    DeterministicSampler:
      SampleRate: 1
`,
	// 3: throughput samplers
	`RulesVersion: 2
Samplers:
  __default__:
    EMAThroughputSampler:
      GoalThroughputPerSec: 50
      AdjustmentInterval: 1s
      FieldList:
        - service.name
        - http.status_code
  ds0:
    WindowedThroughputSampler:
      GoalThroughputPerSec: 50
      UpdateFrequency: 200ms
      LookbackFrequency: 1s
      FieldList:
        - name
        - http.status_code
        - actor
  env1:
    TotalThroughputSampler:
      GoalThroughputPerSec: 50
      ClearFrequency: 1s
      FieldList:
        - service.name
        - name
`,
	// 4: drop heavy
	`RulesVersion: 2
Samplers:
  __default__:
    DeterministicSampler:
      SampleRate: 50
  ds0:
    RulesBasedSampler:
      Rules:
        - Name: keep errors
          SampleRate: 1
          Conditions:
            - Field: http.status_code
              Operator: =
              Value: 500
              Datatype: int
        - Name: drop the rest
          Drop: true
  ds1:
    DynamicSampler:
      SampleRate: 50
      ClearFrequency: 1s
      FieldList:
        - service.name
        - name
        - http.status_code
  env1:
    DeterministicSampler:
      SampleRate: 100
`,
}

func (f *c35Files) writeAtomic(path, content string) error {
	f.seq++
	tmp := fmt.Sprintf("%s.tmp%d", path, f.seq)
	if err := os.WriteFile(tmp, []byte(content), 0o644); err != nil {
		return err
	}
	return os.Rename(tmp, path)
}

func (f *c35Files) setConfigVariant(v int) error {
	f.mu.Lock()
	defer f.mu.Unlock()
	f.cfgVariant = v
	return f.writeAtomic(f.cfgPath, f.renderConfig())
}

func (f *c35Files) setStress(mode string) error {
	f.mu.Lock()
	defer f.mu.Unlock()
	f.stressMode = mode
	return f.writeAtomic(f.cfgPath, f.renderConfig())
}

func (f *c35Files) setRules(v int) error {
	f.mu.Lock()
	defer f.mu.Unlock()
	f.rulesVar = v % len(c35RulesVariants)
	if f.sc.DropHeavy {
		// stay drop heavy most of the time
		f.rulesVar = []int{4, 4, 1, 4, 3}[v%5]
	}
	return f.writeAtomic(f.rulesPath, c35RulesVariants[f.rulesVar])
}

// c35Fake is the fake Honeycomb / fake peer: accepts batches, answers /1/auth.
type c35Fake struct {
	srv      *httptest.Server
	batches  atomic.Int64
	events   atomic.Int64
	zdecoder *zstd.Decoder
}

func c35NewFake() *c35Fake {
	f := &c35Fake{}
	f.zdecoder, _ = zstd.NewReader(nil, zstd.WithDecoderConcurrency(1))
	mux := http.NewServeMux()
	mux.HandleFunc("/1/auth", func(w http.ResponseWriter, r *http.Request) {
		w.Header().Set("Content-Type", "application/json")
		io.WriteString(w, `{"team":{"slug":"team"},"environment":{"name":"env1","slug":"env1"},"id":"hcxik_c35","api_key_access":{"events":true}}`)
	})
	mux.HandleFunc("/1/batch/", func(w http.ResponseWriter, r *http.Request) {
		body, _ := io.ReadAll(r.Body)
		if r.Header.Get("Content-Encoding") == "zstd" {
			if dec, err := f.zdecoder.DecodeAll(body, nil); err == nil {
				body = dec
			}
		}
		n := 0
		ct := r.Header.Get("Content-Type")
		if strings.Contains(ct, "msgpack") {
			var arr []msgpack.RawMessage
			if err := msgpack.Unmarshal(body, &arr); err == nil {
				n = len(arr)
			}
		} else {
			var arr []json.RawMessage
			if err := json.Unmarshal(body, &arr); err == nil {
				n = len(arr)
			}
		}
		f.batches.Add(1)
		f.events.Add(int64(n))
		w.Header().Set("Content-Type", "application/json")
		var sb strings.Builder
		sb.WriteByte('[')
		for i := 0; i < n; i++ {
			if i > 0 {
				sb.WriteByte(',')
			}
			sb.WriteString(`{"status":202}`)
		}
		sb.WriteByte(']')
		io.WriteString(w, sb.String())
	})
	mux.HandleFunc("/", func(w http.ResponseWriter, r *http.Request) {
		io.Copy(io.Discard, r.Body)
		w.WriteHeader(http.StatusOK)
	})
	f.srv = httptest.NewServer(mux)
	return f
}

type c35World struct {
	sc        c35Scenario
	files     *c35Files
	cfg       config.Config
	peers     *peer.MockPeers
	health    *health.Health
	collector *collect.InMemCollector
	metrics   *metrics.MultiMetrics
	shrdr     *sharder.DeterministicSharder
	objects   []*inject.Object
	done      chan struct{}
	self      string
	allPeers  []string // self first
	client    *http.Client
	ports     c35Ports

	ownIDs     []string
	foreignIDs []string

	// lifecycle: eject must not overlap Stop (checkAlloc is ordered against
	// worker shutdown inside the collector the same way)
	life      sync.RWMutex
	stopping  atomic.Bool
	stopped   atomic.Bool
	stopErr   atomic.Value
	reloadErr atomic.Value
	reloadErs atomic.Int64
}

func c35Build(sc c35Scenario, dir string) (*c35World, *c35Fake, []*c35Fake, error) {
	w := &c35World{sc: sc, done: make(chan struct{})}
	ports, err := c35FreePorts(3)
	if err != nil {
		return nil, nil, nil, err
	}
	w.ports = c35Ports{listen: ports[0], peer: ports[1], prom: ports[2]}
	upstream := c35NewFake()
	var fakePeers []*c35Fake
	w.self = fmt.Sprintf("http://127.0.0.1:%d", w.ports.peer)
	w.allPeers = []string{w.self}
	for i := 0; i < sc.FakePeers; i++ {
		fp := c35NewFake()
		fakePeers = append(fakePeers, fp)
		w.allPeers = append(w.allPeers, fp.srv.URL)
	}
	w.files = &c35Files{dir: dir, cfgPath: filepath.Join(dir, "config.yaml"), rulesPath: filepath.Join(dir, "rules.yaml"),
		ports: w.ports, apiURL: upstream.srv.URL, sc: sc, stressMode: sc.StressMode}
	if err := w.files.setConfigVariant(0); err != nil {
		return nil, nil, nil, err
	}
	// InitRules 0 selects rule set 0 (keep all), or 4 (drop heavy) in a drop-heavy scenario
	if err := w.files.setRules(sc.InitRules); err != nil {
		return nil, nil, nil, err
	}

	opts := &config.CmdEnv{ConfigLocations: []string{w.files.cfgPath}, RulesLocations: []string{w.files.rulesPath}}
	c, err := config.NewConfig(opts)
	if err != nil && c == nil {
		return nil, nil, nil, fmt.Errorf("NewConfig: %w", err)
	}
	w.cfg = c

	// --- wiring as in cmd/refinery/main.go ---
	a := &app.App{Version: "c35"}
	lgr := logger.GetLoggerImplementation(c)
	w.collector = &collect.InMemCollector{}
	w.metrics = metrics.GetMetricsImplementation(c)
	w.shrdr = &sharder.DeterministicSharder{}
	samplerFactory := &sample.SamplerFactory{}
	if err := lgr.SetLevel(c.GetLoggerLevel().String()); err != nil {
		return nil, nil, nil, err
	}
	w.peers = peer.NewMockPeers(append([]string(nil), w.allPeers...), w.self)
	pubsubber := &pubsub.LocalPubSub{}
	upstreamTransport := &http.Transport{Proxy: nil, Dial: (&net.Dialer{Timeout: 10 * time.Second}).Dial, TLSHandshakeTimeout: 15 * time.Second, ForceAttemptHTTP2: true}
	peerTransport := &http.Transport{Proxy: nil, Dial: (&net.Dialer{Timeout: 3 * time.Second}).Dial, TLSHandshakeTimeout: 1200 * time.Millisecond, ForceAttemptHTTP2: true}
	stressRelief := &collect.StressRelief{Done: w.done}
	upstreamTransmission := transmit.NewDirectTransmission(types.TransmitTypeUpstream, upstreamTransport,
		int(c.GetTracesConfig().GetMaxBatchSize()), time.Duration(c.GetTracesConfig().GetBatchTimeout()), 30*time.Second, true, c.GetAdditionalHeaders())
	peerTransmission := transmit.NewDirectTransmission(types.TransmitTypePeer, peerTransport,
		int(c.GetTracesConfig().GetMaxBatchSize()), time.Duration(c.GetTracesConfig().GetBatchTimeout()), 10*time.Second, c.GetCompressPeerCommunication(), nil)
	var promMetrics metrics.MetricsBackend = &metrics.NullMetrics{}
	var oTelMetrics metrics.MetricsBackend = &metrics.NullMetrics{}
	if c.GetPrometheusMetricsConfig().Enabled {
		promMetrics = &metrics.PromMetrics{}
	}
	tracer := trace.Tracer(noop.Tracer{})
	w.health = &health.Health{}
	w.objects = []*inject.Object{
		{Value: c},
		{Value: w.peers},
		{Value: pubsubber},
		{Value: lgr},
		{Value: upstreamTransport, Name: "upstreamTransport"},
		{Value: peerTransport, Name: "peerTransport"},
		{Value: upstreamTransmission, Name: "upstreamTransmission"},
		{Value: peerTransmission, Name: "peerTransmission"},
		{Value: w.shrdr},
		{Value: w.collector},
		{Value: promMetrics, Name: "promMetrics"},
		{Value: oTelMetrics, Name: "otelMetrics"},
		{Value: tracer, Name: "tracer"},
		{Value: clockwork.NewRealClock()},
		{Value: w.metrics, Name: "metrics"},
		{Value: "c35", Name: "version"},
		{Value: samplerFactory},
		{Value: stressRelief, Name: "stressRelief"},
		{Value: w.health},
		{Value: &configwatcher.ConfigWatcher{}},
		{Value: a},
		{Value: "c35inst", Name: "instanceID"},
	}
	var g inject.Graph
	if err := g.Provide(w.objects...); err != nil {
		return nil, nil, nil, fmt.Errorf("provide: %w", err)
	}
	if err := g.Populate(); err != nil {
		return nil, nil, nil, fmt.Errorf("populate: %w", err)
	}
	w.objects = g.Objects()
	if err := startstop.Start(w.objects, nil); err != nil {
		return nil, nil, nil, fmt.Errorf("start: %w", err)
	}
	if err := w.peers.Ready(); err != nil {
		return nil, nil, nil, err
	}
	// wait for the three listeners
	for _, p := range []int{w.ports.listen, w.ports.peer, w.ports.prom} {
		ok := false
		for i := 0; i < 300; i++ {
			conn, err := net.DialTimeout("tcp", fmt.Sprintf("127.0.0.1:%d", p), 100*time.Millisecond)
			if err == nil {
				conn.Close()
				ok = true
				break
			}
			time.Sleep(10 * time.Millisecond)
		}
		if !ok {
			return nil, nil, nil, fmt.Errorf("listener on port %d did not come up", p)
		}
	}
	w.client = &http.Client{Timeout: 5 * time.Second, Transport: &http.Transport{MaxIdleConnsPerHost: 32}}

	// trace id pools relative to the initial membership
	for i := 0; len(w.ownIDs) < 64 || len(w.foreignIDs) < 64; i++ {
		id := fmt.Sprintf("%032x", uint64(i)*0x9E3779B97F4A7C15+0xabcdef)
		if w.shrdr.WhichShard(id).Equals(w.shrdr.MyShard()) {
			if len(w.ownIDs) < 64 {
				w.ownIDs = append(w.ownIDs, id)
			}
		} else if len(w.foreignIDs) < 64 {
			w.foreignIDs = append(w.foreignIDs, id)
		}
		if i > 100000 {
			return nil, nil, nil, fmt.Errorf("cannot find own/foreign trace ids")
		}
	}
	return w, upstream, fakePeers, nil
}

// ---- actors -------------------------------------------------------------------

type c35ActorState struct {
	w        *c35World
	id       int
	n        int // op counter (makes trace/span ids unique per actor)
	fresh    int // counter behind never-seen trace ids
	deaths   int // /alive 200 -> 503 transitions seen by this prober
	lastLive bool
	executed map[string]int
	status   map[string]int
}

func (a *c35ActorState) note(kind string, code int, err error) {
	k := kind + ":"
	if err != nil {
		k += "err"
		if os.Getenv("VERIF_C35_DEBUG") != "" {
			fmt.Fprintln(os.Stderr, "http error:", kind, err)
		}
	} else {
		k += strconv.Itoa(code)
	}
	a.status[k]++
}

func (a *c35ActorState) do(kind, method, url string, hdr map[string]string, body []byte) {
	code, err := c35Request(a.w.client, method, url, hdr, body)
	a.note(kind, code, err)
}

func c35Request(client *http.Client, method, url string, hdr map[string]string, body []byte) (int, error) {
	req, err := http.NewRequest(method, url, bytes.NewReader(body))
	if err != nil {
		return 0, err
	}
	for k, v := range hdr {
		req.Header.Set(k, v)
	}
	resp, err := client.Do(req)
	if err != nil {
		return 0, err
	}
	io.Copy(io.Discard, resp.Body)
	resp.Body.Close()
	return resp.StatusCode, nil
}

// burst sends n requests concurrently (a client with several connections) and
// records the outcomes afterwards in the actor's own maps.
func (a *c35ActorState) burst(kind, url string, hdr map[string]string, bodies [][]byte) {
	type out struct {
		code int
		err  error
	}
	res := make([]out, len(bodies))
	var wg sync.WaitGroup
	for i := range bodies {
		wg.Add(1)
		go func(i int) {
			defer wg.Done()
			c, e := c35Request(a.w.client, "POST", url, hdr, bodies[i])
			res[i] = out{c, e}
		}(i)
	}
	wg.Wait()
	for _, o := range res {
		a.note(kind, o.code, o.err)
	}
}

func (a *c35ActorState) traceID(own bool, k int) string {
	if own {
		return a.w.ownIDs[(a.id*7+a.n+k)%len(a.w.ownIDs)]
	}
	return a.w.foreignIDs[(a.id*7+a.n+k)%len(a.w.foreignIDs)]
}

var c35BatchSizes = []int{1, 2, 3, 5, 8, 13, 21, 34, 55}

var c35Services = []string{"users", "cart", "checkout", "healthz"}

func (a *c35ActorState) spanData(tid string, k int, root bool) map[string]any {
	d := map[string]any{
		"trace.trace_id":   tid,
		"trace.span_id":    fmt.Sprintf("s%d-%d-%d", a.id, a.n, k),
		"service.name":     c35Services[(a.n+k)%len(c35Services)],
		"name":             c35Services[(a.n+k+1)%len(c35Services)],
		"http.status_code": []int{200, 200, 404, 500}[(a.n+k)%4],
		"duration_ms":      float64((a.n*13+k*7)%2000) / 1.5,
		"actor":            a.id,
	}
	if !root {
		d["trace.parent_id"] = fmt.Sprintf("p%d-%d", a.id, a.n)
	}
	return d
}

func (a *c35ActorState) batchBody(kind string, size int, asMsgpack bool) ([]byte, string) {
	var evs []map[string]any
	for k := 0; k < size; k++ {
		var data map[string]any
		switch kind {
		case c35BatchOwn:
			data = a.spanData(a.traceID(true, k/3), k, k%3 == 2)
		case c35BatchForeig:
			data = a.spanData(a.traceID(false, k/3), k, k%3 == 2)
		default:
			switch k % 3 {
			case 0:
				data = a.spanData(a.traceID(true, k), k, true)
			case 1:
				data = a.spanData(a.traceID(false, k), k, k%2 == 0)
			default:
				data = map[string]any{"msg": "not a span", "actor": a.id, "n": a.n} // no trace id: goes straight upstream
			}
		}
		ev := map[string]any{"samplerate": 1 + (k % 2), "data": data}
		if !asMsgpack {
			ev["time"] = time.Now().UTC().Format(time.RFC3339Nano)
		}
		evs = append(evs, ev)
	}
	if asMsgpack {
		b, _ := msgpack.Marshal(evs)
		return b, "application/msgpack"
	}
	b, _ := json.Marshal(evs)
	return b, "application/json"
}

func (a *c35ActorState) otlpBody(asJSON bool) ([]byte, string) {
	mk := func(tid string, k int, root bool) *tracepb.Span {
		tb := []byte(tid)
		if len(tb) > 16 {
			tb = tb[:16]
		}
		sp := &tracepb.Span{
			TraceId: tb, SpanId: []byte(fmt.Sprintf("%08d", (a.id*100000+a.n*10+k)%100000000)),
			Name: "otlp-span", Kind: tracepb.Span_SPAN_KIND_SERVER,
			StartTimeUnixNano: uint64(time.Now().UnixNano()), EndTimeUnixNano: uint64(time.Now().UnixNano() + 1000),
			Attributes: []*common.KeyValue{
				{Key: "http.status_code", Value: &common.AnyValue{Value: &common.AnyValue_IntValue{IntValue: int64([]int{200, 500}[k%2])}}},
				{Key: "actor", Value: &common.AnyValue{Value: &common.AnyValue_IntValue{IntValue: int64(a.id)}}},
			},
		}
		if !root {
			sp.ParentSpanId = []byte("parent01")
		}
		return sp
	}
	req := &collectortrace.ExportTraceServiceRequest{ResourceSpans: []*tracepb.ResourceSpans{{
		Resource: &resource.Resource{Attributes: []*common.KeyValue{{Key: "service.name", Value: &common.AnyValue{Value: &common.AnyValue_StringValue{StringValue: "users"}}}}},
		ScopeSpans: []*tracepb.ScopeSpans{{Spans: []*tracepb.Span{
			mk(fmt.Sprintf("otlp-%02d-%09d", a.id, a.n), 0, false),
			mk(fmt.Sprintf("otlp-%02d-%09d", a.id, a.n), 1, true),
			mk(fmt.Sprintf("otlq-%02d-%09d", a.id, a.n), 2, true),
		}}},
	}}}
	if asJSON {
		b, _ := protojson.Marshal(req)
		return b, "application/json"
	}
	b, _ := proto.Marshal(req)
	return b, "application/protobuf"
}

var c35MetricNames = []string{
	"collector_incoming_queue_length", "collector_peer_queue_length", "memory_heap_allocation", "stress_level", "stress_relief_activated",
	"span_received", "span_processed", "trace_accepted", "trace_send_kept", "trace_send_dropped", "incoming_router_span", "peer_router_batch",
	"libhoney_upstream_queued_items", "libhoney_peer_queued_items", "config_hash", "rule_config_hash", "is_ready", "is_alive", "num_file_peers",
	"collector_cache_size", "dropped_from_stress", "kept_from_stress", "INCOMING_CAP", "PEER_CAP", "MEMORY_MAX_ALLOC",
}

func (a *c35ActorState) exec(op c35Op) {
	w := a.w
	a.n++
	in := fmt.Sprintf("http://127.0.0.1:%d", w.ports.listen)
	pr := fmt.Sprintf("http://127.0.0.1:%d", w.ports.peer)
	key := c35LegacyKey
	if op.Arg%4 == 3 {
		key = c35EnvKey
	}
	ds := []string{"ds0", "ds1", "ds2"}[op.Arg%3]
	switch op.Kind {
	case c35BatchOwn, c35BatchForeig, c35BatchMixed:
		nburst := []int{1, 1, 2, 4}[(op.Arg>>2)&3]
		var bodies [][]byte
		var ct string
		for i := 0; i < nburst; i++ {
			var body []byte
			body, ct = a.batchBody(op.Kind, c35BatchSizes[op.Arg%len(c35BatchSizes)], op.Arg%2 == 1)
			bodies = append(bodies, body)
			a.n++
		}
		a.burst(op.Kind, in+"/1/batch/"+ds, map[string]string{"X-Honeycomb-Team": key, "Content-Type": ct}, bodies)
	case c35BatchFresh:
		// distinct one-span traces (root spans: decided after SendDelay), ids never
		// used before; preferably owned by this node so that the decision is made here
		size := []int{21, 34, 55}[op.Arg%3]
		var evs []map[string]any
		for k := 0; k < size; k++ {
			var tid string
			for try := 0; try < 6; try++ {
				a.fresh++
				tid = fmt.Sprintf("%08x%08x%016x", 0xf00d0000+a.id, a.fresh, uint64(a.fresh)*0x9E3779B97F4A7C15)
				if w.shrdr.WhichShard(tid).Equals(w.shrdr.MyShard()) {
					break
				}
			}
			evs = append(evs, map[string]any{"samplerate": 1, "data": a.spanData(tid, k, true)})
		}
		var body []byte
		ct := "application/json"
		if op.Arg%2 == 1 {
			body, _ = msgpack.Marshal(evs)
			ct = "application/msgpack"
		} else {
			body, _ = json.Marshal(evs)
		}
		// two connections at once
		body2 := append([]byte(nil), body...)
		a.burst(op.Kind, in+"/1/batch/"+ds, map[string]string{"X-Honeycomb-Team": key, "Content-Type": ct}, [][]byte{body, body2}[:1+op.Arg%2])
	case c35Event:
		own := op.Arg%2 == 0
		b, _ := json.Marshal(a.spanData(a.traceID(own, 0), 0, op.Arg%3 == 0))
		a.do(op.Kind, "POST", in+"/1/events/"+ds, map[string]string{"X-Honeycomb-Team": key, "Content-Type": "application/json",
			"X-Honeycomb-Event-Time": strconv.FormatInt(time.Now().Unix(), 10), "X-Honeycomb-Samplerate": "2"}, b)
	case c35OTLP:
		body, ct := a.otlpBody(op.Arg%2 == 1)
		a.do(op.Kind, "POST", in+"/v1/traces", map[string]string{"X-Honeycomb-Team": key, "X-Honeycomb-Dataset": ds, "Content-Type": ct}, body)
	case c35PeerBatch:
		// a peer forwards spans it believes are ours (mostly own ids; sometimes not, as during membership changes)
		kind := c35BatchOwn
		if op.Arg%5 == 4 {
			kind = c35BatchMixed
		}
		body, ct := a.batchBody(kind, c35BatchSizes[op.Arg%len(c35BatchSizes)], op.Arg%4 != 0)
		a.do(op.Kind, "POST", pr+"/1/batch/"+ds, map[string]string{"X-Honeycomb-Team": key, "Content-Type": ct}, body)
	case c35Query:
		hdr := map[string]string{"X-Honeycomb-Refinery-Query": c35QueryTok}
		switch op.Arg % 5 {
		case 0:
			a.do(op.Kind, "GET", in+"/query/trace/"+a.traceID(op.Arg%2 == 0, 0), hdr, nil)
		case 1:
			a.do(op.Kind, "GET", in+"/query/rules/json/"+ds, hdr, nil)
		case 2:
			a.do(op.Kind, "GET", in+"/query/allrules/yaml", hdr, nil)
		case 3:
			a.do(op.Kind, "GET", in+"/query/configmetadata", hdr, nil)
		default:
			a.do(op.Kind, "GET", pr+"/query/allrules/toml", hdr, nil)
		}
	case c35Alive:
		base := in
		if op.Arg%4 == 3 {
			base = pr
		}
		a.do(op.Kind, "GET", base+[]string{"/alive", "/ready", "/version"}[op.Arg%3], nil, nil)
	case c35AlivePoll:
		k := 20 + 10*(op.Arg%5)
		for i := 0; i < k && !w.stopped.Load(); i++ {
			if i%8 == 7 {
				a.do(op.Kind, "GET", in+"/ready", nil, nil)
				continue
			}
			code, err := c35Request(w.client, "GET", in+"/alive", nil, nil)
			a.note(op.Kind, code, err)
			if err == nil {
				if code == http.StatusOK {
					a.lastLive = true
				} else if code == http.StatusServiceUnavailable && a.lastLive {
					a.lastLive = false
					a.deaths++
				}
			}
		}
	case c35HealthFlap:
		if w.sc.FlakyHealthMs > 0 && !w.stopping.Load() {
			w.health.Ready(c35FlakySubsystem, true)
		}
	case c35ReloadCfg, c35ReloadRules, c35StressFlip:
		var err error
		switch op.Kind {
		case c35ReloadCfg:
			err = w.files.setConfigVariant(op.Arg)
		case c35ReloadRules:
			err = w.files.setRules(op.Arg)
		default:
			err = w.files.setStress([]string{"always", "never", "monitor"}[op.Arg%3])
		}
		// Arg bit 3: only rewrite the file and let the app's own ConfigWatcher pick
		// it up (both racing goroutines are then refinery's own); otherwise
		// call Reload() like the watcher's ticker / pubsub listener / OpAMP agent do.
		if err == nil && !(op.Arg&8 != 0 && w.sc.ReloadMs > 0) {
			err = w.cfg.Reload()
		}
		if err != nil {
			w.reloadErs.Add(1)
			w.reloadErr.Store(err.Error())
		}
	case c35Churn:
		// subset of the fake peers selected by the bits of Arg, self always present;
		// order rotated so that the same set arrives in different orders
		list := []string{w.self}
		for i, p := range w.allPeers[1:] {
			if op.Arg&(1<<i) != 0 {
				list = append(list, p)
			}
		}
		if op.Arg&8 != 0 && len(list) > 1 {
			list = append(list[1:], list[0])
		}
		w.peers.UpdatePeers(list)
	case c35Metrics:
		if op.Arg%3 == 0 {
			a.do(op.Kind, "GET", fmt.Sprintf("http://127.0.0.1:%d/metrics", w.ports.prom), nil, nil)
		} else {
			for i := 0; i < 8; i++ {
				w.metrics.Get(c35MetricNames[(op.Arg+i*3)%len(c35MetricNames)])
			}
		}
	case c35Eject:
		w.life.RLock()
		if !w.stopping.Load() {
			w.collector.VerifEject(1 << (10 + op.Arg%8))
		}
		w.life.RUnlock()
	case c35Stop:
		if w.stopping.CompareAndSwap(false, true) {
			w.life.Lock()
			close(w.done) // main.go: tell peers/stress relief first
			time.Sleep(2 * time.Duration(w.cfg.GetTracesConfig().GetBatchTimeout()))
			if err := startstop.Stop(w.objects, nil); err != nil {
				w.stopErr.Store(err.Error())
			}
			w.life.Unlock()
			w.stopped.Store(true)
		}
	}
	a.executed[op.Kind]++
}

func c35RunScenario(sc c35Scenario, dir string) c35ChildSummary {
	sum := c35ChildSummary{Executed: map[string]int{}, HTTPStatus: map[string]int{}}
	t0 := time.Now()
	w, upstream, fakePeers, err := c35Build(sc, dir)
	if err != nil {
		sum.SetupFailed = err.Error()
		return sum
	}
	sum.BuildMs = time.Since(t0).Milliseconds()
	if sc.FlakyHealthMs > 0 {
		// a subsystem that registers, reports once and then stalls
		w.health.Register(c35FlakySubsystem, time.Duration(sc.FlakyHealthMs)*time.Millisecond)
		w.health.Ready(c35FlakySubsystem, true)
	}
	deadline := time.Now().Add(time.Duration(sc.DurationMs) * time.Millisecond)
	hardLimit := time.Now().Add(3 * time.Duration(sc.DurationMs) * time.Millisecond)
	var wg sync.WaitGroup
	states := make([]*c35ActorState, len(sc.Actors))
	for i, act := range sc.Actors {
		st := &c35ActorState{w: w, id: i, executed: map[string]int{}, status: map[string]int{}}
		states[i] = st
		if len(act.Ops) == 0 {
			continue
		}
		wg.Add(1)
		go func(ops []c35Op) {
			defer wg.Done()
			// The script is repeated until the deadline, but every op of it is
			// executed at least once even on a slow (loaded) machine, up to a
			// hard limit of 3x the nominal duration.
			for pass := 0; ; pass++ {
				for _, op := range ops {
					if op.ThinkUs > 0 {
						time.Sleep(time.Duration(op.ThinkUs) * time.Microsecond)
					}
					now := time.Now()
					if w.stopped.Load() || now.After(hardLimit) || (pass > 0 && now.After(deadline)) {
						return
					}
					t1 := time.Now()
					st.exec(op)
					if d := time.Since(t1); d > 300*time.Millisecond && os.Getenv("VERIF_C35_DEBUG") != "" {
						fmt.Fprintf(os.Stderr, "slow op: actor %d %s took %v (at +%v)\n", st.id, op.Kind, d, time.Since(t0))
					}
				}
			}
		}(act.Ops)
	}
	// observe the dropped-trace cuckoo filter gauges (written by Maintain)
	sampDone := make(chan struct{})
	var sampWG sync.WaitGroup
	var maxCur, maxFut float64
	sampWG.Add(1)
	go func() {
		defer sampWG.Done()
		tick := time.NewTicker(50 * time.Millisecond)
		defer tick.Stop()
		for {
			if v, ok := w.metrics.Get("cuckoo_current_load_factor"); ok && v > maxCur {
				maxCur = v
			}
			if v, ok := w.metrics.Get("cuckoo_future_load_factor"); ok && v > maxFut {
				maxFut = v
			}
			select {
			case <-sampDone:
				return
			case <-tick.C:
			}
		}
	}()
	wg.Wait()
	close(sampDone)
	sampWG.Wait()
	sum.MaxCurrentLoad, sum.MaxFutureLoad = maxCur, maxFut
	sum.ActorsMs = time.Since(t0).Milliseconds()
	// orderly end: stop the app if the scenario did not
	if w.stopping.CompareAndSwap(false, true) {
		w.life.Lock()
		close(w.done)
		time.Sleep(20 * time.Millisecond)
		if err := startstop.Stop(w.objects, nil); err != nil {
			w.stopErr.Store(err.Error())
		}
		w.life.Unlock()
	} else {
		sum.Stopped = true
	}
	for _, st := range states {
		if st.executed[c35AlivePoll] > 0 {
			sum.DeathsSeen = append(sum.DeathsSeen, st.deaths)
		}
		for k, v := range st.executed {
			sum.Executed[k] += v
		}
		for k, v := range st.status {
			sum.HTTPStatus[k] += v
		}
	}
	if v, ok := w.stopErr.Load().(string); ok {
		sum.StopErr = v
	}
	if v, ok := w.reloadErr.Load().(string); ok {
		sum.ReloadErr = v
	}
	sum.ReloadErrs = int(w.reloadErs.Load())
	sum.Upstream = int(upstream.events.Load())
	upstream.srv.Close()
	for _, fp := range fakePeers {
		sum.PeerEvents += int(fp.events.Load())
		fp.srv.Close()
	}
	sum.WallMs = time.Since(t0).Milliseconds()
	sum.Finished = true
	return sum
}

// TestC35Child is the entry point of the child process (re-exec of this test
// binary by execC35). Without the environment variable it does nothing.
func TestC35Child(t *testing.T) {
	scPath := os.Getenv(c35EnvScenario)
	if scPath == "" {
		t.Skip("child entry point; run by TestC35")
	}
	b, err := os.ReadFile(scPath)
	if err != nil {
		t.Fatal(err)
	}
	var sc c35Scenario
	if err := json.Unmarshal(b, &sc); err != nil {
		t.Fatal(err)
	}
	sum := c35RunScenario(sc, filepath.Dir(scPath))
	out, _ := json.Marshal(sum)
	if err := os.WriteFile(os.Getenv(c35EnvOut), out, 0o644); err != nil {
		t.Fatal(err)
	}
}
