package collector

import (
	"fmt"
	"testing"

	"github.com/honeycombio/refinery/verifharness/vkit"
	"pgregory.net/rapid"
)

// ---------------------------------------------------------------- generators shared by C01/C02

func genSampler(t *rapid.T, label string) samplerSpec {
	kind := rapid.SampledFrom([]string{"keepall", "dropall", "det", "det", "rulesfield", "rulesfield", "rulesdown", "dynamic"}).Draw(t, label+"kind")
	s := samplerSpec{Kind: kind}
	switch kind {
	case "det", "rulesdown":
		s.Rate = rapid.SampledFrom([]int{1, 2, 2, 3, 5}).Draw(t, label+"rate")
	case "rulesfield", "dynamic":
		s.Rate = rapid.SampledFrom([]int{1, 2, 7}).Draw(t, label+"rate")
	}
	return s
}

func genLifecycleCfg(t *rapid.T) cfgSpec {
	c := cfgSpec{
		Workers:      rapid.SampledFrom([]int{1, 1, 2, 3, 5}).Draw(t, "workers"),
		SendDelay:    rapid.SampledFrom([]int64{50, 100, 300}).Draw(t, "senddelay"),
		TraceTimeout: rapid.SampledFrom([]int64{200, 500, 1000}).Draw(t, "tracetimeout"),
		SendTicker:   rapid.SampledFrom([]int64{20, 50, 100}).Draw(t, "ticker"),
		SpanLimit:    rapid.SampledFrom([]uint{0, 0, 2, 4}).Draw(t, "spanlimit"),
		MaxExpired:   rapid.SampledFrom([]uint{0, 0, 1, 2}).Draw(t, "maxexpired"),
		AddReason:    true,
		Sampler:      genSampler(t, "s"),
	}
	return c
}

const nTraces = 6

func genSpanOp(t *rapid.T, vias []string) opSpec {
	return opSpec{
		Op:         "span",
		Trace:      rapid.IntRange(1, nTraces).Draw(t, "trace"),
		Kind:       rapid.SampledFrom([]string{"root", "child", "child", "child", "event", "link"}).Draw(t, "kind"),
		Keep:       rapid.IntRange(0, 3).Draw(t, "keep") == 0,
		ClientRate: rapid.SampledFrom([]uint{0, 0, 1, 2, 7}).Draw(t, "crate"),
		Size:       rapid.SampledFrom([]int{0, 10, 100}).Draw(t, "size"),
		Via:        rapid.SampledFrom(vias).Draw(t, "via"),
		Late:       rapid.IntRange(0, 4).Draw(t, "late") == 0,
	}
}

func genAdvanceOp(t *rapid.T) opSpec {
	switch rapid.IntRange(0, 5).Draw(t, "advkind") {
	case 0:
		return opSpec{Op: "advance", Aim: "tick", Ns: int64(rapid.SampledFrom([]int{0, 0, -1, 1}).Draw(t, "delta"))}
	case 1, 2:
		return opSpec{Op: "advance", Aim: fmt.Sprintf("deadline:%d", rapid.IntRange(1, nTraces).Draw(t, "aimtrace")),
			Ns: int64(rapid.SampledFrom([]int{0, 0, -1, 1}).Draw(t, "delta")), D: rapid.SampledFrom([]int64{0, 0, 0, 20, 100}).Draw(t, "after")}
	case 3:
		return opSpec{Op: "advance", D: 0}
	default:
		return opSpec{Op: "advance", D: rapid.SampledFrom([]int64{1, 10, 50, 100, 250, 600, 1200}).Draw(t, "d")}
	}
}

func genReloadSamplerOp(t *rapid.T) opSpec {
	s := genSampler(t, "r")
	return opSpec{Op: "reload", Reload: &reloadSpec{Sampler: &s}}
}

func genLifecycleCase(t *rapid.T) colCase {
	c := colCase{Cfg: genLifecycleCfg(t)}
	opGen := rapid.Custom(func(t *rapid.T) opSpec {
		switch k := rapid.IntRange(0, 19).Draw(t, "opkind"); {
		case k <= 10:
			return genSpanOp(t, []string{"incoming", "incoming", "peer"})
		case k <= 16:
			return genAdvanceOp(t)
		case k == 17:
			return genReloadSamplerOp(t)
		default:
			return opSpec{Op: "eject", Bytes: rapid.SampledFrom([]int{0, 1, 50, 150, 100000}).Draw(t, "bytes")}
		}
	})
	c.Ops = rapid.SliceOfN(opGen, 3, 50).Draw(t, "ops")
	return c
}

// lifecycleClasses labels a case and decides the C01/C02 non-triviality inputs.
type lifecycleFacts struct {
	lateSpans       int // spans accepted after their trace's first forward / after the trace was decided
	ejectWhileBuf   bool
	reloadWhileBuf  bool
	backlog         bool
	nTracesAccepted int
}

func lifecycleFactsOf(c colCase, obs colObs, views map[string]*traceView) lifecycleFacts {
	var f lifecycleFacts
	// decision instant per trace: first forward time if kept; unknown for dropped traces, so we
	// approximate "late" for dropped traces by the decision cache: a span is late if a later
	// span of the same trace arrived after the model deadline + 1 tick. For labelling only.
	for _, id := range sortedTraceIDs(views) {
		v := views[id]
		if len(v.Accepted) == 0 {
			continue
		}
		f.nTracesAccepted++
		m := newTraceModel(id)
		for _, a := range v.Accepted {
			if m.Seen && a.At > m.Deadline+obs.Tick {
				f.lateSpans++
				continue
			}
			m.addBuffered(c.Cfg, a.At, a.Kind == "root")
		}
		for _, e := range obs.Ejects {
			if e.At >= m.First && e.At <= m.Deadline {
				f.ejectWhileBuf = true
			}
		}
		for _, r := range obs.Reloads {
			if r.At >= m.First && r.At <= m.Deadline {
				f.reloadWhileBuf = true
			}
		}
	}
	if c.Cfg.MaxExpired > 0 && f.nTracesAccepted > int(c.Cfg.MaxExpired) {
		f.backlog = true
	}
	return f
}

// ---------------------------------------------------------------- C01

// judgeC01: every trace's accepted spans are either all forwarded or none.
func judgeC01(c colCase, obs colObs) (res vkit.Result, facts lifecycleFacts) {
	if obs.Panic != "" {
		res.Violate("C01/harness-or-collector-panic", "%s", obs.Panic)
		return
	}
	views := viewByTrace(c, obs)
	facts = lifecycleFactsOf(c, obs, views)
	for _, id := range sortedTraceIDs(views) {
		v := views[id]
		if len(v.Forwarded) == 0 {
			continue
		}
		fw := map[string]int{}
		for _, f := range v.Forwarded {
			fw[f.UID]++
		}
		firstFwd := v.Forwarded[0].At
		var missingOnTime, missingLate []string
		for _, a := range v.Accepted {
			if fw[a.UID] == 0 {
				if a.At >= firstFwd {
					missingLate = append(missingLate, a.UID)
				} else {
					missingOnTime = append(missingOnTime, a.UID)
				}
			}
		}
		// which accepted spans were already there when the first span of the trace was forwarded?
		onTimeForwarded := 0
		for _, a := range v.Accepted {
			if a.At < firstFwd && fw[a.UID] > 0 {
				onTimeForwarded++
			}
		}
		switch {
		case len(missingLate) > 0 && len(missingOnTime) == 0:
			res.Violate("C01/kept-trace/late-span-not-forwarded", "trace %s kept (first forward at %v) but late spans %v were not forwarded", id, firstFwd, missingLate)
		case len(missingOnTime) > 0 && onTimeForwarded > 0:
			res.Violate("C01/kept-trace/buffered-span-not-forwarded", "trace %s: spans %v were buffered before the decision but never forwarded while others were", id, missingOnTime)
		case len(missingOnTime) > 0 && onTimeForwarded == 0:
			res.Violate("C01/dropped-trace/late-span-forwarded", "trace %s: none of the spans present at decision time were forwarded, yet later spans were (missing %v)", id, missingOnTime)
		}
	}
	return
}

func execC01(c colCase) vkit.Result {
	obs := execCase(c, execOpts{Drain: true, StopAtEnd: true})
	res, facts := judgeC01(c, obs)
	if len(res.Violations) > 0 && res.Violations[0].Signature != "C01/harness-or-collector-panic" {
		// rename-and-retry: the statement excludes false positives of the dropped-trace filter
		c2 := c
		c2.Cfg.Salt = c.Cfg.Salt + "r"
		obs2 := execCase(c2, execOpts{Drain: true, StopAtEnd: true})
		res2, _ := judgeC01(c2, obs2)
		if len(res2.Violations) == 0 {
			res = vkit.Result{}
			res.Class("suspected-filter-false-positive")
		}
	}
	labelLifecycle(&res, c, facts)
	res.NonTrivial = facts.lateSpans > 0 || facts.ejectWhileBuf || facts.reloadWhileBuf
	return res
}

func labelLifecycle(res *vkit.Result, c colCase, f lifecycleFacts) {
	if f.lateSpans > 0 {
		res.Class("late-span")
	}
	if f.ejectWhileBuf {
		res.Class("eject-while-buffered")
	}
	if f.reloadWhileBuf {
		res.Class("reload-while-buffered")
	}
	if f.backlog {
		res.Class("backlog>MaxExpired")
	}
	res.Class(fmt.Sprintf("workers=%d", c.Cfg.Workers))
	res.Class("sampler=" + c.Cfg.Sampler.Kind)
}

func TestC01(t *testing.T) {
	theT = t
	vkit.Run(t, vkit.Spec[colCase]{
		ID: "C01",
		Rule: "rapid-generated operation lists (spans of <=6 traces: root/child/span-event/link via incoming or peer queue; advances aimed at modelled deadlines and send ticks +-1ns; sampler reloads; memory ejections) executed against the real InMemCollector (1-5 workers, real samplers and decision caches) in a synctest bubble, then drained. Oracle: per trace the forwarded uid set is all accepted uids or empty. Non-trivial: >=1 span arriving after its trace was decided, or an ejection or reload while a trace was buffered. Distinct = distinct case JSON.",
		Assumptions: []string{
			"kept-decision capacity (1000) exceeds the 6 traces of a case; stress relief never toggles; membership fixed (premises of the statement, by construction)",
			"an apparent violation is re-executed with re-salted trace ids and only reported if it persists (dropped-filter false positives are excluded by the statement)",
			"virtual time of testing/synctest stands in for real time",
		},
		Gen:  genLifecycleCase,
		Exec: execC01,
	})
}
