package collector

import (
	"fmt"
	"sort"
	"testing"
	"time"

	"github.com/honeycombio/refinery/verifharness/vkit"
	"pgregory.net/rapid"
)

// ---------------------------------------------------------------- generators shared by C01/C02

func genSampler(t *rapid.T, label string) samplerSpec {
	kind := rapid.SampledFrom([]string{"keepall", "dropall", "det", "det", "rulesfield", "rulesfield", "rulesdown", "dynamic"}).Draw(t, label+"kind")
	s := samplerSpec{Kind: kind}
	switch kind {
	case "det", "rulesdown":
		s.Rate = rapid.SampledFrom([]int{1, 2, 2, 3, 5}).Draw(t, label+"rate")
	case "rulesfield", "dynamic":
		s.Rate = rapid.SampledFrom([]int{1, 2, 7}).Draw(t, label+"rate")
	}
	return s
}

func genLifecycleCfg(t *rapid.T) cfgSpec {
	c := cfgSpec{
		Workers:      rapid.SampledFrom([]int{1, 1, 2, 3, 5}).Draw(t, "workers"),
		SendDelay:    rapid.SampledFrom([]int64{50, 100, 300}).Draw(t, "senddelay"),
		TraceTimeout: rapid.SampledFrom([]int64{200, 500, 1000}).Draw(t, "tracetimeout"),
		SendTicker:   rapid.SampledFrom([]int64{20, 50, 100}).Draw(t, "ticker"),
		SpanLimit:    rapid.SampledFrom([]uint{0, 0, 2, 4}).Draw(t, "spanlimit"),
		MaxExpired:   rapid.SampledFrom([]uint{0, 0, 1, 2}).Draw(t, "maxexpired"),
		AddReason:    true,
		Sampler:      genSampler(t, "s"),
	}
	return c
}

const nTraces = 6

func genSpanOp(t *rapid.T, vias []string) opSpec {
	return opSpec{
		Op:         "span",
		Trace:      rapid.IntRange(1, nTraces).Draw(t, "trace"),
		Kind:       rapid.SampledFrom([]string{"root", "child", "child", "child", "event", "link"}).Draw(t, "kind"),
		Keep:       rapid.IntRange(0, 3).Draw(t, "keep") == 0,
		ClientRate: rapid.SampledFrom([]uint{0, 0, 1, 2, 7}).Draw(t, "crate"),
		Size:       rapid.SampledFrom([]int{0, 10, 100}).Draw(t, "size"),
		Via:        rapid.SampledFrom(vias).Draw(t, "via"),
		Late:       rapid.IntRange(0, 4).Draw(t, "late") == 0,
	}
}

func genAdvanceOp(t *rapid.T) opSpec {
	switch rapid.IntRange(0, 5).Draw(t, "advkind") {
	case 0:
		return opSpec{Op: "advance", Aim: "tick", Ns: int64(rapid.SampledFrom([]int{0, 0, -1, 1}).Draw(t, "delta"))}
	case 1, 2:
		return opSpec{Op: "advance", Aim: fmt.Sprintf("deadline:%d", rapid.IntRange(1, nTraces).Draw(t, "aimtrace")),
			Ns: int64(rapid.SampledFrom([]int{0, 0, -1, 1}).Draw(t, "delta")), D: rapid.SampledFrom([]int64{0, 0, 0, 20, 100}).Draw(t, "after")}
	case 3:
		return opSpec{Op: "advance", D: 0}
	default:
		return opSpec{Op: "advance", D: rapid.SampledFrom([]int64{1, 10, 50, 100, 250, 600, 1200}).Draw(t, "d")}
	}
}

func genReloadSamplerOp(t *rapid.T) opSpec {
	s := genSampler(t, "r")
	return opSpec{Op: "reload", Reload: &reloadSpec{Sampler: &s}}
}

func genLifecycleCase(t *rapid.T) colCase {
	c := colCase{Cfg: genLifecycleCfg(t)}
	opGen := rapid.Custom(func(t *rapid.T) opSpec {
		switch k := rapid.IntRange(0, 19).Draw(t, "opkind"); {
		case k <= 10:
			return genSpanOp(t, []string{"incoming", "incoming", "peer"})
		case k <= 16:
			return genAdvanceOp(t)
		case k == 17:
			return genReloadSamplerOp(t)
		default:
			return opSpec{Op: "eject", Bytes: rapid.SampledFrom([]int{0, 1, 50, 150, 100000}).Draw(t, "bytes")}
		}
	})
	c.Ops = rapid.SliceOfN(opGen, 3, 50).Draw(t, "ops")
	return c
}

// genC01Case: the lifecycle generator, sometimes with a tiny kept-decision capacity so that the
// recency order of the kept LRU matters (evictions, resize on reload).
func genC01Case(t *rapid.T) colCase {
	switch rapid.IntRange(0, 5).Draw(t, "profile") {
	case 0, 1:
		return genC01PressureCase(t)
	case 2:
		c := genLifecycleCase(t)
		c.Cfg.KeptSize = uint(rapid.IntRange(1, 3).Draw(t, "keptperworker") * c.Cfg.Workers)
		return c
	case 3:
		// stress relief periods: some spans arrive while the node is in stress relief (they take
		// ProcessSpanImmediately). The engine keeps the premise "relief does not switch while the
		// trace is buffered"; a trace first seen under relief is decided there and then, and its
		// later spans - under relief or after it has switched off - must follow that decision.
		c := genLifecycleCase(t)
		c.Cfg.StressRate = rapid.SampledFrom([]uint64{1, 2, 3, 5}).Draw(t, "stressrate")
		for i := range c.Ops {
			if c.Ops[i].Op == "span" && rapid.IntRange(0, 2).Draw(t, "understress") == 0 {
				c.Ops[i].Via = "stress"
			}
		}
		return c
	}
	return genLifecycleCase(t)
}

// genC01PressureCase: the same operations with weights that put the kept-decision LRU under
// pressure: tiny capacity, a sampler whose decision depends on which spans have arrived (so a
// forgotten decision shows as a different second decision), many quickly decided kept traces,
// reloads (which resize the decision cache) and late spans that do not carry the keep field.
func genC01PressureCase(t *rapid.T) colCase {
	cfg := cfgSpec{
		Workers:      rapid.SampledFrom([]int{1, 1, 2}).Draw(t, "workers"),
		SendDelay:    50,
		TraceTimeout: rapid.SampledFrom([]int64{200, 500}).Draw(t, "tracetimeout"),
		SendTicker:   rapid.SampledFrom([]int64{20, 50}).Draw(t, "ticker"),
		AddReason:    true,
		Sampler:      samplerSpec{Kind: "rulesfield", Rate: 1},
	}
	cfg.KeptSize = uint(rapid.IntRange(2, 4).Draw(t, "keptperworker") * cfg.Workers)
	c := colCase{Cfg: cfg}
	opGen := rapid.Custom(func(t *rapid.T) opSpec {
		switch k := rapid.IntRange(0, 19).Draw(t, "opkind"); {
		case k <= 7: // a root carrying the keep field: decided SendDelay later, kept
			return opSpec{Op: "span", Trace: rapid.IntRange(1, nTraces).Draw(t, "trace"), Kind: "root", Keep: true, Via: "incoming", Settle: rapid.IntRange(0, 3).Draw(t, "settle") > 0}
		case k <= 12: // a late span without the keep field
			return opSpec{Op: "span", Trace: rapid.IntRange(1, nTraces).Draw(t, "trace"), Kind: "child", Via: "incoming", Late: true}
		case k <= 16:
			return opSpec{Op: "advance", Aim: fmt.Sprintf("deadline:%d", rapid.IntRange(1, nTraces).Draw(t, "aimtrace")), D: 100}
		default:
			s := samplerSpec{Kind: "rulesfield", Rate: 1}
			return opSpec{Op: "reload", Reload: &reloadSpec{Sampler: &s}}
		}
	})
	c.Ops = rapid.SliceOfN(opGen, 6, 40).Draw(t, "ops")
	return c
}

// keptLRUDontCare replays the documented behaviour of the per-worker kept-decision LRU (capacity
// KeptSize/workers, recency bumped by a kept decision and by every late-span lookup that finds it,
// order preserved by the resize a reload performs) over the observed history and returns the traces
// whose decision had legitimately aged out when a further span arrived: the statement's premise
// ("the decision is still remembered") does not hold for them, so they are not judged.
func keptLRUDontCare(c colCase, obs colObs, views map[string]*traceView) (dontCare map[string]bool, evictions int) {
	dontCare = map[string]bool{}
	if c.Cfg.KeptSize == 0 || c.Cfg.Workers == 0 {
		return
	}
	capPerWorker := (int(c.Cfg.KeptSize) + c.Cfg.Workers - 1) / c.Cfg.Workers
	type ev struct {
		at           time.Duration
		op, sub, seq int
		trace        string
		decision     bool
	}
	var evs []ev
	for _, id := range sortedTraceIDs(views) {
		v := views[id]
		for _, a := range v.Accepted {
			evs = append(evs, ev{at: a.At, op: a.OpIndex, sub: 1, trace: id})
		}
		seen := map[int]bool{}
		for _, f := range v.Forwarded {
			if r, _ := f.Fields["meta.refinery.send_reason"].(string); r == "trace_send_late_span" {
				continue
			}
			if !seen[f.OpIndex] { // one kept decision per (trace, op)
				seen[f.OpIndex] = true
				evs = append(evs, ev{at: f.At, op: f.OpIndex, sub: 0, seq: f.Seq, trace: id, decision: true})
			}
		}
	}
	// order of events: virtual time first (a span op may advance time before (late) or after (settle)
	// handing its span over, so the op index alone does not order a decision against an arrival),
	// then op order, then - same op, same instant - the tick's decisions before the span
	sort.Slice(evs, func(i, j int) bool {
		if evs[i].at != evs[j].at {
			return evs[i].at < evs[j].at
		}
		if evs[i].op != evs[j].op {
			return evs[i].op < evs[j].op
		}
		if evs[i].sub != evs[j].sub {
			return evs[i].sub < evs[j].sub
		}
		return evs[i].seq < evs[j].seq
	})
	lru := map[int][]string{} // per worker, most recent first
	state := map[string]int{} // 0 unseen, 1 buffered, 2 decided kept
	touch := func(w int, id string) {
		l := lru[w]
		for i, x := range l {
			if x == id {
				l = append(l[:i], l[i+1:]...)
				break
			}
		}
		l = append([]string{id}, l...)
		if len(l) > capPerWorker {
			l = l[:capPerWorker]
			evictions++
		}
		lru[w] = l
	}
	for _, e := range evs {
		w := obs.WorkerOf[e.trace]
		if e.decision {
			touch(w, e.trace)
			state[e.trace] = 2
			continue
		}
		switch state[e.trace] {
		case 0:
			state[e.trace] = 1
		case 2:
			found := false
			for _, x := range lru[w] {
				if x == e.trace {
					found = true
				}
			}
			if found {
				touch(w, e.trace)
			} else {
				// aged out: refinery starts a new trace with an independent decision
				dontCare[e.trace] = true
				state[e.trace] = 1
			}
		}
	}
	return
}

// lifecycleClasses labels a case and decides the C01/C02 non-triviality inputs.
type lifecycleFacts struct {
	lateSpans       int // spans accepted after their trace's first forward / after the trace was decided
	ejectWhileBuf   bool
	reloadWhileBuf  bool
	backlog         bool
	nTracesAccepted int
}

func lifecycleFactsOf(c colCase, obs colObs, views map[string]*traceView) lifecycleFacts {
	var f lifecycleFacts
	// decision instant per trace: first forward time if kept; unknown for dropped traces, so we
	// approximate "late" for dropped traces by the decision cache: a span is late if a later
	// span of the same trace arrived after the model deadline + 1 tick. For labelling only.
	for _, id := range sortedTraceIDs(views) {
		v := views[id]
		if len(v.Accepted) == 0 {
			continue
		}
		f.nTracesAccepted++
		m := newTraceModel(id)
		for _, a := range v.Accepted {
			if m.Seen && a.At > m.Deadline+obs.Tick {
				f.lateSpans++
				continue
			}
			m.addBuffered(c.Cfg, a.At, a.Kind == "root")
		}
		for _, e := range obs.Ejects {
			if e.At >= m.First && e.At <= m.Deadline {
				f.ejectWhileBuf = true
			}
		}
		for _, r := range obs.Reloads {
			if r.At >= m.First && r.At <= m.Deadline {
				f.reloadWhileBuf = true
			}
		}
	}
	if c.Cfg.MaxExpired > 0 && f.nTracesAccepted > int(c.Cfg.MaxExpired) {
		f.backlog = true
	}
	return f
}

// ---------------------------------------------------------------- C01

// judgeC01: every trace's accepted spans are either all forwarded or none.
func judgeC01(c colCase, obs colObs) (res vkit.Result, facts lifecycleFacts) {
	if obs.Panic != "" {
		res.Violate("C01/harness-or-collector-panic", "%s", obs.Panic)
		return
	}
	views := viewByTrace(c, obs)
	facts = lifecycleFactsOf(c, obs, views)
	agedOut, evictions := keptLRUDontCare(c, obs, views)
	if evictions > 0 {
		res.Class("kept-lru-eviction")
	}
	if len(agedOut) > 0 {
		res.Class("decision-aged-out(not judged)")
	}
	for _, id := range sortedTraceIDs(views) {
		v := views[id]
		if len(v.Forwarded) == 0 || agedOut[id] {
			continue
		}
		fw := map[string]int{}
		for _, f := range v.Forwarded {
			fw[f.UID]++
		}
		firstFwd := v.Forwarded[0].At
		var missingOnTime, missingLate []string
		for _, a := range v.Accepted {
			if fw[a.UID] == 0 {
				if a.At >= firstFwd {
					missingLate = append(missingLate, a.UID)
				} else {
					missingOnTime = append(missingOnTime, a.UID)
				}
			}
		}
		// which accepted spans were already there when the first span of the trace was forwarded?
		onTimeForwarded := 0
		for _, a := range v.Accepted {
			if a.At < firstFwd && fw[a.UID] > 0 {
				onTimeForwarded++
			}
		}
		switch {
		case len(missingLate) > 0 && len(missingOnTime) == 0:
			res.Violate("C01/kept-trace/late-span-not-forwarded", "trace %s kept (first forward at %v) but late spans %v were not forwarded", id, firstFwd, missingLate)
		case len(missingOnTime) > 0 && onTimeForwarded > 0:
			res.Violate("C01/kept-trace/buffered-span-not-forwarded", "trace %s: spans %v were buffered before the decision but never forwarded while others were", id, missingOnTime)
		case len(missingOnTime) > 0 && onTimeForwarded == 0:
			res.Violate("C01/dropped-trace/late-span-forwarded", "trace %s: none of the spans present at decision time were forwarded, yet later spans were (missing %v)", id, missingOnTime)
		}
	}
	return
}

func execC01(c colCase) vkit.Result {
	obs := execCase(c, execOpts{Drain: true, StopAtEnd: true})
	res, facts := judgeC01(c, obs)
	if len(res.Violations) > 0 && res.Violations[0].Signature != "C01/harness-or-collector-panic" {
		// rename-and-retry: the statement excludes false positives of the dropped-trace filter
		c2 := c
		c2.Cfg.Salt = c.Cfg.Salt + "r"
		obs2 := execCase(c2, execOpts{Drain: true, StopAtEnd: true})
		res2, _ := judgeC01(c2, obs2)
		if len(res2.Violations) == 0 {
			res = vkit.Result{}
			res.Class("suspected-filter-false-positive")
		}
	}
	labelLifecycle(&res, c, facts)
	res.NonTrivial = facts.lateSpans > 0 || facts.ejectWhileBuf || facts.reloadWhileBuf
	return res
}

func labelLifecycle(res *vkit.Result, c colCase, f lifecycleFacts) {
	if f.lateSpans > 0 {
		res.Class("late-span")
	}
	if f.ejectWhileBuf {
		res.Class("eject-while-buffered")
	}
	if f.reloadWhileBuf {
		res.Class("reload-while-buffered")
	}
	if f.backlog {
		res.Class("backlog>MaxExpired")
	}
	res.Class(fmt.Sprintf("workers=%d", c.Cfg.Workers))
	res.Class("sampler=" + c.Cfg.Sampler.Kind)
}

func TestC01(t *testing.T) {
	theT = t
	vkit.Run(t, vkit.Spec[colCase]{
		ID: "C01",
		Rule: "rapid-generated operation lists (spans of <=6 traces: root/child/span-event/link via incoming or peer queue; advances aimed at modelled deadlines and send ticks +-1ns; sampler reloads; memory ejections) executed against the real InMemCollector (1-5 workers, real samplers and decision caches) in a synctest bubble, then drained. Oracle: per trace the forwarded uid set is all accepted uids or empty. Two extra profiles: tiny kept-decision capacity, and an LRU-pressure profile (quickly decided kept roots, reloads, late spans without the keep field). Non-trivial: >=1 span arriving after its trace was decided, or an ejection or reload while a trace was buffered. Distinct = distinct case JSON.",
		Assumptions: []string{
			"kept-decision capacity (1000) exceeds the 6 traces of a case; stress relief never toggles; membership fixed (premises of the statement, by construction)",
			"an apparent violation is re-executed with re-salted trace ids and only reported if it persists (dropped-filter false positives are excluded by the statement)",
			"virtual time of testing/synctest stands in for real time",
		},
		Gen:  genC01Case,
		Exec: execC01,
	})
}
