package collector

import (
	"fmt"
	"sort"
	"testing"
	"time"

	"github.com/honeycombio/refinery/collect"
	"github.com/honeycombio/refinery/types"
	"github.com/honeycombio/refinery/verifharness/vkit"
	"pgregory.net/rapid"
)

// C03: trace decisions happen at the documented time.

func genC03Case(t *rapid.T) colCase {
	cfg := cfgSpec{
		Workers:      rapid.SampledFrom([]int{1, 1, 2, 3}).Draw(t, "workers"),
		SendDelay:    rapid.SampledFrom([]int64{0, 50, 100, 300}).Draw(t, "senddelay"),
		TraceTimeout: rapid.SampledFrom([]int64{200, 500, 1000, 200, 500, 1000, 200, 500, 1000, 200, 500, 1000, 200, 500, 1000, 0}).Draw(t, "tracetimeout"),
		SendTicker:   rapid.SampledFrom([]int64{20, 50, 100, 37}).Draw(t, "ticker"),
		SpanLimit:    rapid.SampledFrom([]uint{0, 1, 3, 10}).Draw(t, "spanlimit"),
		MaxExpired:   rapid.SampledFrom([]uint{0, 1, 2, 5}).Draw(t, "maxexpired"),
		AddReason:    true,
		Sampler:      samplerSpec{Kind: "keepall"},
	}
	if cfg.TraceTimeout == 0 {
		cfg.Workers = 1 // the 60 s built-in default makes the virtual horizon long
	}
	c := colCase{Cfg: cfg}
	opGen := rapid.Custom(func(t *rapid.T) opSpec {
		switch k := rapid.IntRange(0, 19).Draw(t, "opkind"); {
		case k <= 10:
			o := genSpanOp(t, []string{"incoming", "incoming", "peer"})
			o.Kind = rapid.SampledFrom([]string{"root", "child", "child", "child", "event"}).Draw(t, "kind3")
			o.Late = rapid.IntRange(0, 9).Draw(t, "late3") == 0
			return o
		case k <= 18:
			return genAdvanceOp(t)
		default:
			return opSpec{Op: "eject", Bytes: rapid.SampledFrom([]int{0, 50, 100000}).Draw(t, "bytes")}
		}
	})
	c.Ops = rapid.SliceOfN(opGen, 3, 40).Draw(t, "ops")
	return c
}

type c03Trace struct {
	id       string
	worker   int
	spans    []accSpan // accepted, arrival order
	decided  bool
	at       time.Duration
	reason   string
	ejected  bool
	ejectOp  int
	onTimeFw int
}

// deadlineAt computes the documented deadline of a trace from the spans that arrived
// strictly before instant tau (ops executed at instant tau come after tau's tick), or
// for an eject at op index opIdx, the spans handed over before that op.
func c03Deadline(c cfgSpec, spans []accSpan, before func(accSpan) bool) (deadline time.Duration, n int, hasRoot bool, ok bool) {
	m := newTraceModel("")
	for _, a := range spans {
		if !before(a) {
			break
		}
		m.addBuffered(c, a.At, a.Kind == "root")
		if a.Kind == "root" {
			hasRoot = true
		}
	}
	return m.Deadline, m.Count, hasRoot, m.Seen
}

func judgeC03(c colCase, obs colObs) (res vkit.Result) {
	if obs.Panic != "" {
		res.Violate("C03/harness-or-collector-panic", "%s", obs.Panic)
		return
	}
	views := viewByTrace(c, obs)
	tick := obs.Tick
	traces := map[string]*c03Trace{}
	for _, id := range sortedTraceIDs(views) {
		v := views[id]
		if len(v.Accepted) == 0 {
			continue
		}
		tr := &c03Trace{id: id, worker: obs.WorkerOf[id], spans: v.Accepted}
		for _, f := range v.Forwarded {
			r, _ := f.Fields[types.MetaRefinerySendReason].(string)
			if r == collect.TraceSendLateSpan {
				continue
			}
			if !tr.decided {
				tr.decided, tr.at, tr.reason = true, f.At, r
			} else if f.At != tr.at || r != tr.reason {
				res.Violate("C03/decision-not-atomic", "trace %s: on-time spans forwarded at %v/%q and %v/%q", id, tr.at, tr.reason, f.At, r)
			}
			tr.onTimeFw++
		}
		if tr.decided && tr.reason == collect.TraceSendEjectedMemsize {
			tr.ejected = true
			found := false
			for _, e := range obs.Ejects {
				if e.At == tr.at {
					found = true
					tr.ejectOp = e.OpIndex
				}
			}
			if !found {
				res.Violate("C03/ejected-without-ejection", "trace %s reports %s at %v but no ejection happened then", id, tr.reason, tr.at)
			}
		}
		traces[id] = tr
	}
	ids := make([]string, 0, len(traces))
	for id := range traces {
		ids = append(ids, id)
	}
	sort.Strings(ids)

	// per-trace checks
	for _, id := range ids {
		tr := traces[id]
		if !tr.decided || tr.ejected {
			continue
		}
		if tick > 0 && tr.at%tick != 0 {
			res.Violate("C03/decided-off-tick", "trace %s decided at %v which is not a send tick (ticker %v)", id, tr.at, tick)
		}
		dl, n, hasRoot, _ := c03Deadline(c.Cfg, tr.spans, func(a accSpan) bool { return a.At < tr.at })
		if tr.at < dl {
			res.Violate("C03/decided-before-deadline", "trace %s decided at %v, deadline %v (first %v, spans %d, root %v)", id, tr.at, dl, tr.spans[0].At, n, hasRoot)
		}
		want := collect.TraceSendExpired
		if hasRoot {
			want = collect.TraceSendGotRoot
		} else if c.Cfg.SpanLimit > 0 && uint(n) > c.Cfg.SpanLimit {
			want = collect.TraceSendSpanLimit
		}
		if tr.reason != want {
			res.Violate(fmt.Sprintf("C03/reason/want-%s/got-%s", want, tr.reason), "trace %s decided at %v with %d spans, root=%v, SpanLimit=%d", id, tr.at, n, hasRoot, c.Cfg.SpanLimit)
		}
		if tr.onTimeFw != n {
			res.Violate("C03/decision-span-count", "trace %s: %d spans were buffered at the decision instant %v but %d were forwarded with the decision", id, n, tr.at, tr.onTimeFw)
		}
	}

	// per-worker, per-tick check: at most MaxExpired per tick, earliest deadline first, nothing left waiting
	if tick > 0 {
		workers := map[int][]*c03Trace{}
		for _, id := range ids {
			workers[traces[id].worker] = append(workers[traces[id].worker], traces[id])
		}
		for w, trs := range workers {
			for tau := tick; tau <= obs.End; tau += tick {
				type cand struct {
					tr *c03Trace
					dl time.Duration
				}
				var elig, observed []cand
				for _, tr := range trs {
					if tr.decided && tr.at < tau {
						continue // already decided before this tick (a trace ejected at instant tau is ejected after tau's tick)
					}
					dl, _, _, seen := c03Deadline(c.Cfg, tr.spans, func(a accSpan) bool { return a.At < tau })
					if !seen {
						continue
					}
					isObs := tr.decided && !tr.ejected && tr.at == tau
					if isObs {
						observed = append(observed, cand{tr, dl})
					}
					if dl <= tau {
						elig = append(elig, cand{tr, dl})
					} else if isObs {
						// decided early: already reported above
						continue
					}
				}
				M := int(c.Cfg.MaxExpired)
				if M > 0 && len(observed) > M {
					res.Violate("C03/more-than-MaxExpiredTraces-per-tick", "worker %d tick %v: %d traces decided, MaxExpiredTraces=%d", w, tau, len(observed), M)
				}
				capReached := M > 0 && len(observed) >= M
				obsSet := map[string]bool{}
				var maxObs time.Duration = -1
				for _, o := range observed {
					obsSet[o.tr.id] = true
					if o.dl > maxObs {
						maxObs = o.dl
					}
				}
				for _, e := range elig {
					if obsSet[e.tr.id] {
						continue
					}
					if e.dl == tau {
						continue // deadline coincides with the tick: either answer accepted
					}
					if !capReached {
						res.Violate("C03/not-decided-at-next-tick", "worker %d tick %v: trace %s (deadline %v) was left undecided although only %d traces were decided (MaxExpiredTraces=%d)", w, tau, e.tr.id, e.dl, len(observed), M)
					} else if e.dl < maxObs {
						res.Violate("C03/not-earliest-deadline-first", "worker %d tick %v: trace %s with deadline %v waited while a trace with deadline %v was decided", w, tau, e.tr.id, e.dl, maxObs)
					}
				}
			}
		}
	}
	return
}

func execC03(c colCase) vkit.Result {
	obs := execCase(c, execOpts{Drain: true, StopAtEnd: true})
	res := judgeC03(c, obs)
	// classes / non-triviality
	views := viewByTrace(c, obs)
	tie, rootAfterTimeout, rootAfterLimit, backlog := false, false, false, false
	perWorkerDeadlines := map[int]map[time.Duration]int{}
	for _, id := range sortedTraceIDs(views) {
		v := views[id]
		if len(v.Accepted) == 0 {
			continue
		}
		m := newTraceModel(id)
		for _, a := range v.Accepted {
			if m.Seen && a.Kind == "root" && m.Root < 0 {
				if a.At >= m.First+c.Cfg.traceTimeout() {
					rootAfterTimeout = true
				}
				if m.OverLimit >= 0 {
					rootAfterLimit = true
				}
			}
			m.addBuffered(c.Cfg, a.At, a.Kind == "root")
		}
		if obs.Tick > 0 && m.Deadline%obs.Tick == 0 {
			tie = true
		}
		w := obs.WorkerOf[id]
		if perWorkerDeadlines[w] == nil {
			perWorkerDeadlines[w] = map[time.Duration]int{}
		}
		bucket := nextTick(m.Deadline-1, obs.Tick)
		perWorkerDeadlines[w][bucket]++
		if c.Cfg.MaxExpired > 0 && perWorkerDeadlines[w][bucket] > int(c.Cfg.MaxExpired) {
			backlog = true
		}
	}
	for name, b := range map[string]bool{"deadline-on-tick": tie, "root-after-timeout": rootAfterTimeout, "root-after-span-limit": rootAfterLimit, "backlog>MaxExpired": backlog} {
		if b {
			res.Class(name)
			res.NonTrivial = true
		}
	}
	if c.Cfg.TraceTimeout == 0 {
		res.Class("default-TraceTimeout")
	}
	if c.Cfg.SendDelay == 0 {
		res.Class("default-SendDelay")
	}
	if len(obs.Ejects) > 0 {
		res.Class("eject")
	}
	res.Class(fmt.Sprintf("workers=%d", c.Cfg.Workers))
	return res
}

func TestC03(t *testing.T) {
	theT = t
	vkit.Run(t, vkit.Spec[colCase]{
		ID: "C03",
		Rule: "rapid-generated schedules (roots/children/span events of <=6 traces, advances aimed at modelled deadlines and ticks +-1ns, occasional ejections) with generated SendDelay/TraceTimeout (incl. 0 => built-in 2s/60s)/SendTicker/SpanLimit/MaxExpiredTraces, keep-all sampler, executed on the real collector in a synctest bubble. Oracle from the statement: decision instant (virtual time the buffered spans reach the transmission) is a send tick, never before the deadline min(first+TraceTimeout, root+SendDelay, instant count>SpanLimit) unless ejected; per worker and tick at most MaxExpiredTraces decisions, earliest deadline first, none left waiting otherwise (a deadline equal to the tick instant: either accepted); send reason by root/span-limit/expired precedence. Non-trivial: a deadline falling exactly on a tick, a root after the timeout or after the span limit, or a backlog above MaxExpiredTraces.",
		Assumptions: []string{
			"the harness lets the ticks of an instant run (synctest.Wait) before injecting that instant's spans",
			"SendTicker > 0 (a zero ticker cannot be started); zero SendDelay/TraceTimeout are supplied through MockConfig because file validation forbids them",
		},
		Gen:  genC03Case,
		Exec: execC03,
	})
}
