package collector

import (
	"fmt"
	"strings"
	"testing"

	"github.com/honeycombio/refinery/verifharness/vkit"
	"pgregory.net/rapid"
)

// C36 (collector part): graceful shutdown decides every buffered trace, forwards the kept
// ones, does not panic and leaves no goroutine behind.

func genC36Case(t *rapid.T) colCase {
	cfg := genLifecycleCfg(t)
	cfg.Sampler = genSampler(t, "s36")
	if k := cfg.Sampler.Kind; k == "rulesfield" || k == "rulesdown" {
		cfg.Sampler = samplerSpec{Kind: "keepall"}
	}
	cfg.TxDelayUs = rapid.SampledFrom([]int64{0, 0, 200, 5000, 60000}).Draw(t, "txdelay")
	// slow decisions: Stop can then arrive while a worker is in the middle of a decision round
	cfg.DecideDelayUs = rapid.SampledFrom([]int64{0, 0, 0, 300, 20000}).Draw(t, "decidedelay")
	c := colCase{Cfg: cfg}
	opGen := rapid.Custom(func(t *rapid.T) opSpec {
		switch k := rapid.IntRange(0, 19).Draw(t, "opkind"); {
		case k <= 11:
			return genSpanOp(t, []string{"incoming", "incoming", "peer"})
		case k <= 17:
			return genAdvanceOp(t)
		case k == 18:
			return genReloadSamplerOp(t)
		default:
			return opSpec{Op: "eject", Bytes: rapid.SampledFrom([]int{0, 50, 100000}).Draw(t, "bytes")}
		}
	})
	ops := rapid.SliceOfN(opGen, 1, 40).Draw(t, "ops")
	// crash point: Stop is injected after a generated prefix of the history
	at := rapid.IntRange(0, len(ops)).Draw(t, "stopat")
	c.Ops = append(append([]opSpec{}, ops[:at]...), opSpec{Op: "stop"})
	return c
}

func judgeC36(c colCase, obs colObs) (res vkit.Result, nt bool) {
	if obs.Panic != "" {
		if strings.Contains(obs.Panic, "deadlock") && strings.Contains(obs.Panic, "goroutines remain") {
			res.Violate("C36/leaked-goroutines", "goroutines were still blocked in the background after Stop returned: %s", obs.Panic)
		} else {
			res.Violate("C36/panic-during-shutdown", "%s", obs.Panic)
		}
		return
	}
	views := viewByTrace(c, obs)
	// spans that were accepted but still sat in a worker queue when Stop was called: the last
	// N accepted spans of that worker and queue kind
	queued := map[string]bool{}
	for w, q := range obs.QueuedAtStop {
		for kind, n := range map[string]int{"incoming": q[0], "peer": q[1]} {
			for i := len(obs.Spans) - 1; i >= 0 && n > 0; i-- {
				a := obs.Spans[i]
				via := a.Via
				if via == "" {
					via = "incoming"
				}
				if a.Err == "" && obs.WorkerOf[a.TraceID] == w && via == kind {
					queued[a.UID] = true
					n--
				}
			}
		}
	}
	nTraces, nProcessed, buffered := 0, 0, 0
	atStop := map[string]bool{}
	for _, id := range obs.BufferedAtStop {
		atStop[id] = true
	}
	for _, id := range sortedTraceIDs(views) {
		v := views[id]
		if len(v.Accepted) == 0 {
			continue
		}
		nTraces++
		for _, a := range v.Accepted {
			if !queued[a.UID] {
				nProcessed++
				break
			}
		}
		fw := map[string]int{}
		for _, f := range v.Forwarded {
			fw[f.UID]++
		}
		stillBuffered := atStop[id]
		if stillBuffered {
			buffered++
		}
		if len(obs.Reloads) > 0 {
			continue // sampler changed mid-history: only the count check below applies
		}
		want, known := predictedKeep(c.Cfg.Sampler, id, nil, v.Accepted)
		if known && want && !c.Cfg.DryRun {
			for _, a := range v.Accepted {
				if fw[a.UID] == 0 {
					where := "decided-before-stop"
					if stillBuffered {
						where = "buffered-at-stop"
					} else if queued[a.UID] {
						where = "queued-at-stop"
					}
					res.Violate("C36/kept-trace-not-forwarded/"+where, "trace %s must be kept (%+v) but span %s was never forwarded; Stop at op %d (%v)", id, c.Cfg.Sampler, a.UID, obs.StopOp, obs.StopAt)
					break
				}
			}
		}
		for uid, n := range fw {
			if n > 1 {
				res.Violate("C36/duplicate-forward", "span %s forwarded %d times", uid, n)
			}
		}
	}
	k, d := obs.Counters["trace_send_kept"], obs.Counters["trace_send_dropped"]
	if int(k+d) < nProcessed-len(atStop) || int(k+d) > nTraces {
		res.Violate("C36/decision-count-mismatch", "%d traces had accepted spans (%d of them had a span taken off the worker queue), %d were still buffered at Stop, but %d kept + %d dropped decisions were counted", nTraces, nProcessed, len(atStop), k, d)
	} else if int(k+d) != nTraces {
		res.Violate("C36/buffered-traces-not-decided", "%d traces had accepted spans, but only %d kept + %d dropped decisions were made by the time Stop returned", nTraces, k, d)
	}
	if len(queued) > 0 {
		res.Class("spans-queued-at-stop")
	}
	if buffered > 0 {
		nt = true
		res.Class("buffered-at-stop")
	}
	res.Class(fmt.Sprintf("stop-after-%d-ops", min(obs.StopOp, 10)/5*5))
	if c.Cfg.TxDelayUs > 0 {
		res.Class("slow-upstream")
	}
	return
}

func execC36(c colCase) vkit.Result {
	obs := execCase(c, execOpts{Drain: false, StopAtEnd: true})
	res, nt := judgeC36(c, obs)
	res.NonTrivial = nt
	res.Class("sampler=" + c.Cfg.Sampler.Kind)
	return res
}

func TestC36(t *testing.T) {
	theT = t
	vkit.Run(t, vkit.Spec[colCase]{
		ID: "C36",
		Rule: "generated ingestion histories (spans, aimed advances, reloads, ejections; 1-5 workers; keep-all/drop-all/deterministic/dynamic samplers) on the real collector in a synctest bubble with collector.Stop injected after a generated prefix (crash point). Oracle after Stop returns: no panic; the bubble ends without blocked goroutines (leak detector); kept+dropped decision counters equal the number of traces with accepted spans (every buffered trace was decided); traces the sampler must keep have every accepted span forwarded exactly once. Non-trivial: >=1 trace still buffered when Stop was called.",
		Assumptions: []string{
			"collector-level part of the property; flushing of pending outgoing batches is checked on the real transmission in C26",
			"spans are not offered after Stop (the routers stop first in production)",
		},
		Gen:  genC36Case,
		Exec: execC36,
	})
}
