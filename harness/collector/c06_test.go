package collector

import (
	"fmt"
	"os"
	"strings"
	"testing"

	"github.com/honeycombio/refinery/types"
	"github.com/honeycombio/refinery/verifharness/vkit"
	"pgregory.net/rapid"
)

// C06: forwarded spans are decorated as configured, including after reload.

var c06AttrPool = []map[string]string{
	{},
	{"deploy": "blue"},
	{"deploy": "green", "region": "eu"},
	{"region": "us"},
}

func genBoolPtr(t *rapid.T, label string) *bool {
	switch rapid.IntRange(0, 2).Draw(t, label) {
	case 0:
		return nil
	case 1:
		b := true
		return &b
	}
	b := false
	return &b
}

func genC06Case(t *rapid.T) colCase {
	cfg := genLifecycleCfg(t)
	cfg.Sampler = samplerSpec{Kind: rapid.SampledFrom([]string{"keepall", "keepall", "keepall", "det", "rulesfield"}).Draw(t, "s6")}
	if cfg.Sampler.Kind != "keepall" {
		cfg.Sampler.Rate = rapid.SampledFrom([]int{1, 2}).Draw(t, "s6rate")
	}
	cfg.AddReason = rapid.Bool().Draw(t, "addreason")
	cfg.AddSpanCount = rapid.Bool().Draw(t, "addspancount")
	cfg.AddCounts = rapid.Bool().Draw(t, "addcounts")
	cfg.AddHost = rapid.Bool().Draw(t, "addhost")
	cfg.Attrs = rapid.SampledFrom(c06AttrPool).Draw(t, "attrs")
	cfg.StressRate = rapid.SampledFrom([]uint64{1, 1, 2}).Draw(t, "stressrate")
	c := colCase{Cfg: cfg}
	opGen := rapid.Custom(func(t *rapid.T) opSpec {
		switch k := rapid.IntRange(0, 19).Draw(t, "opkind"); {
		case k <= 10:
			o := genSpanOp(t, []string{"incoming", "incoming", "incoming", "peer", "stress"})
			o.Kind = rapid.SampledFrom([]string{"root", "root", "child", "child", "event", "link"}).Draw(t, "kind6")
			return o
		case k <= 15:
			return genAdvanceOp(t)
		case k <= 18:
			r := &reloadSpec{AddReason: genBoolPtr(t, "r_reason"), AddSpanCount: genBoolPtr(t, "r_spancount"), AddCounts: genBoolPtr(t, "r_counts"), AddHost: genBoolPtr(t, "r_host")}
			if rapid.Bool().Draw(t, "r_setattrs") {
				r.SetAttrs = true
				r.Attrs = rapid.SampledFrom(c06AttrPool).Draw(t, "r_attrs")
			}
			return opSpec{Op: "reload", Reload: r}
		default:
			return opSpec{Op: "eject", Bytes: rapid.SampledFrom([]int{0, 50, 100000}).Draw(t, "bytes")}
		}
	})
	c.Ops = rapid.SliceOfN(opGen, 3, 50).Draw(t, "ops")
	return c
}

// cfgInForce returns the decoration settings in force while op index i executes.
func cfgInForce(c colCase, obs colObs, opIndex int) cfgSnapshot {
	snap := cfgSnapshot{AddReason: c.Cfg.AddReason, AddSpanCount: c.Cfg.AddSpanCount, AddCounts: c.Cfg.AddCounts, AddHost: c.Cfg.AddHost, Attrs: c.Cfg.Attrs, Sampler: c.Cfg.Sampler, DryRun: c.Cfg.DryRun}
	for _, r := range obs.Reloads {
		if r.OpIndex < opIndex {
			snap = r.Snap
		}
	}
	return snap
}

func judgeC06(c colCase, obs colObs) (res vkit.Result, nt bool) {
	if obs.Panic != "" {
		res.Violate("C06/harness-or-collector-panic", "%s", obs.Panic)
		return
	}
	host, _ := os.Hostname()
	byUID := map[string]accSpan{}
	for _, a := range obs.Spans {
		byUID[a.UID] = a
	}
	views := viewByTrace(c, obs)
	for _, id := range sortedTraceIDs(views) {
		v := views[id]
		if len(v.Forwarded) == 0 {
			continue
		}
		// decision op index: the op during which the first buffered span of the trace was forwarded
		decisionOp := -1
		for _, f := range v.Forwarded {
			a := byUID[f.UID]
			if a.Via != "stress" && !a.StressTrace && f.OpIndex != a.OpIndex {
				decisionOp = f.OpIndex
				break
			}
		}
		lastCfgGen := -1
		for _, f := range v.Forwarded {
			a, ok := byUID[f.UID]
			if !ok {
				continue
			}
			snap := cfgInForce(c, obs, f.OpIndex)
			path := "on-time"
			switch {
			case a.Via == "stress":
				path = "stress"
			case f.OpIndex == a.OpIndex:
				path = "late"
			}
			for k, want := range snap.Attrs {
				if got, _ := f.Fields[k].(string); got != want {
					res.Violate("C06/"+path+"/additional-attribute-missing", "span %s forwarded during op %d lacks attribute %s=%q (has %v); attributes in force %v", f.UID, f.OpIndex, k, want, f.Fields[k], snap.Attrs)
				}
			}
			if snap.AddHost && host != "" {
				if got, _ := f.Fields[types.MetaRefineryLocalHostname].(string); got != host {
					startedWith := "off"
					if c.Cfg.AddHost {
						startedWith = "on"
					}
					res.Violate("C06/"+path+"/hostname-missing/started-"+startedWith, "span %s forwarded during op %d while AddHostMetadataToTrace is on carries hostname %q, want %q", f.UID, f.OpIndex, got, host)
				}
			}
			if snap.AddReason {
				if got, _ := f.Fields[types.MetaRefineryReason].(string); got == "" {
					res.Violate("C06/"+path+"/reason-missing", "span %s forwarded during op %d while AddRuleReasonToTrace is on carries no meta.refinery.reason", f.UID, f.OpIndex)
				} else if path == "late" && !strings.Contains(got, "late") {
					res.Violate("C06/late/reason-not-late", "late span %s carries reason %q", f.UID, got)
				}
			}
			if lastCfgGen >= 0 && snap.Gen != lastCfgGen {
				nt = true
				res.Class("reload-between-forwarded-spans")
			}
			lastCfgGen = snap.Gen

			// root span counts
			if a.Kind == "root" && path != "stress" && !a.StressTrace && (snap.AddCounts || snap.AddSpanCount) {
				var total, spans, events, links int64
				count := func(x accSpan) {
					total++
					switch x.Kind {
					case "event":
						events++
					case "link":
						links++
					default:
						spans++
					}
				}
				if path == "late" {
					nt = true
					res.Class("late-root")
					// everything received up to and including the root itself
					for _, x := range v.Accepted {
						if x.OpIndex <= a.OpIndex {
							count(x)
						}
					}
				} else {
					// everything buffered when the trace was decided
					for _, x := range v.Accepted {
						if x.OpIndex < decisionOp || (decisionOp == f.OpIndex && x.OpIndex < f.OpIndex) {
							count(x)
						}
					}
				}
				get := func(k string) any {
					if v, ok := int64Field(f.Fields, k); ok {
						return v
					}
					return nil
				}
				if snap.AddCounts {
					got := fmt.Sprint(get(types.MetaSpanCount), get(types.MetaSpanEventCount), get(types.MetaSpanLinkCount), get(types.MetaEventCount))
					want := fmt.Sprint(nz(spans), nz(events), nz(links), nz(total))
					if got != want {
						res.Violate("C06/"+path+"/root-counts", "root %s of %s forwarded during op %d: span/span_event/span_link/event counts %s, want %s", f.UID, id, f.OpIndex, got, want)
					}
				} else if got := get(types.MetaSpanCount); fmt.Sprint(got) != fmt.Sprint(nz(total)) {
					res.Violate("C06/"+path+"/root-span-count", "root %s of %s forwarded during op %d: meta.span_count %v, want %d", f.UID, id, f.OpIndex, got, total)
				}
			}
		}
	}
	return
}

// nz: the payload does not carry zero-valued meta counters
func nz(v int64) any {
	if v == 0 {
		return nil
	}
	return v
}

func execC06(c colCase) vkit.Result {
	obs := execCase(c, execOpts{Drain: true, StopAtEnd: true})
	res, nt := judgeC06(c, obs)
	res.NonTrivial = nt
	return res
}

func TestC06(t *testing.T) {
	theT = t
	vkit.Run(t, vkit.Spec[colCase]{
		ID: "C06",
		Rule: "generated schedules (roots/children/span events/links, late roots, stress-path spans, ejections) interleaved with reloads toggling AddHostMetadataToTrace, AddRuleReasonToTrace, AddSpanCountToRoot, AddCountsToRoot and AdditionalAttributes, on the real collector in a synctest bubble. Oracle per forwarded span, using the settings in force during the op in which it was forwarded: configured attributes present with their values; hostname present when host metadata is on; reason present when rule reasons are on; root span counts equal the reference count of spans received at decision time (or up to the root itself for a late root), split span/event/link/total as configured. Non-trivial: a reload between two forwarded spans of one trace, or a late root.",
		Assumptions: []string{
			"dry run off; settings come from MockConfig mutated under its lock followed by Reload() (the file-reload path itself is C27)",
			"one-directional: absence of decoration when an option is off is not asserted",
		},
		Gen:  genC06Case,
		Exec: execC06,
	})
}
