package collector

import (
	"encoding/json"
	"fmt"
	"os"
	"testing"
)

func TestDbgReplay(t *testing.T) {
	p := os.Getenv("DBG_CASE")
	if p == "" {
		t.Skip()
	}
	theT = t
	b, _ := os.ReadFile(p)
	var doc struct{ Case colCase }
	json.Unmarshal(b, &doc)
	obs := execCase(doc.Case, execOpts{Drain: true, StopAtEnd: true})
	for _, f := range obs.Forwarded {
		fmt.Printf("FWD %+v\n", f)
	}
	for _, a := range obs.Spans {
		fmt.Printf("SPAN %+v\n", a)
	}
	fmt.Println("panic:", obs.Panic, "decisions:", obs.Decisions, "counters:", obs.Counters)
}
