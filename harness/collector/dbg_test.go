package collector

import (
	"encoding/json"
	"os"
	"testing"
	"testing/synctest"
)

func TestDbgReplay(t *testing.T) {
	p := os.Getenv("DBG_CASE")
	if p == "" {
		t.Skip()
	}
	b, _ := os.ReadFile(p)
	var doc struct{ Case colCase }
	json.Unmarshal(b, &doc)
	var obs colObs
	synctest.Test(t, func(t *testing.T) {
		runInBubble(doc.Case, execOpts{Drain: true, StopAtEnd: true}, &obs)
	})
}
