package collector

import (
	"testing"

	"github.com/honeycombio/refinery/verifharness/vkit"
	"pgregory.net/rapid"
)

// C02: kept spans are forwarded exactly once, dropped spans never; every accepted
// span's trace is eventually decided (bounded form: by the drain horizon).

func judgeC02(c colCase, obs colObs) (res vkit.Result, facts lifecycleFacts) {
	if obs.Panic != "" {
		res.Violate("C02/harness-or-collector-panic", "%s", obs.Panic)
		return
	}
	views := viewByTrace(c, obs)
	facts = lifecycleFactsOf(c, obs, views)
	accepted := map[string]bool{}
	for _, a := range obs.Spans {
		if a.Err == "" {
			accepted[a.UID] = true
		}
	}
	seen := map[string]int{}
	for _, f := range obs.Forwarded {
		seen[f.UID]++
		if f.ViaEvent {
			res.Violate("C02/forwarded-as-event", "span %s of trace %s left through EnqueueEvent", f.UID, f.Trace)
		}
		if !accepted[f.UID] {
			res.Violate("C02/invented-span", "forwarded span uid %q (trace %s) was never accepted", f.UID, f.Trace)
		}
	}
	for uid, n := range seen {
		if n > 1 {
			res.Violate("C02/duplicate-forward", "span %s forwarded %d times", uid, n)
			break
		}
	}
	for _, w := range obs.EndBuffered {
		if len(w) > 0 {
			res.Violate("C02/undecided-at-horizon/still-buffered", "after the drain horizon traces %v are still buffered", w)
			break
		}
	}
	// DryRun may be switched on by a reload (it never is switched off again in these cases):
	// dryFrom = index of the reload op from which it is on until the end, -1 if none
	dryEver, dryFrom := c.Cfg.DryRun, -1
	for _, r := range obs.Reloads {
		if r.Snap.DryRun && dryFrom < 0 {
			dryFrom = r.OpIndex
		} else if !r.Snap.DryRun {
			dryFrom = -1
		}
		dryEver = dryEver || r.Snap.DryRun
	}
	for _, id := range sortedTraceIDs(views) {
		v := views[id]
		if len(v.Accepted) == 0 {
			continue
		}
		d, ok := obs.Decisions[id]
		if !ok || !d.Found {
			res.Violate("C02/undecided-at-horizon/no-decision-recorded", "trace %s has %d accepted spans but no decision is remembered after the drain horizon", id, len(v.Accepted))
			continue
		}
		fw := map[string]bool{}
		for _, f := range v.Forwarded {
			fw[f.UID] = true
		}
		// dry run in force for the whole life of the trace: every span arrived after the
		// reload that switched it on for good (or it was on from the start)
		dryAll := c.Cfg.DryRun
		if !dryAll && dryFrom >= 0 {
			dryAll = true
			for _, a := range v.Accepted {
				if a.OpIndex <= dryFrom {
					dryAll = false
				}
			}
		}
		if d.Kept || dryAll {
			for _, a := range v.Accepted {
				if !fw[a.UID] {
					res.Violate("C02/lost-span-of-kept-trace", "trace %s was kept but span %s (arrived %v via %s) was never forwarded", id, a.UID, a.At, a.Via)
					break
				}
			}
		} else if len(v.Forwarded) > 0 && !dryEver {
			res.Violate("C02/forwarded-span-of-dropped-trace", "trace %s was dropped but %d spans were forwarded", id, len(v.Forwarded))
		}
	}
	// each trace decided exactly once
	if k, d := obs.Counters["trace_send_kept"], obs.Counters["trace_send_dropped"]; int(k+d) != facts.nTracesAccepted && !dryEver {
		res.Violate("C02/decision-count", "%d traces had accepted spans but %d kept + %d dropped decisions were sent", facts.nTracesAccepted, k, d)
	}
	return
}

// genC02Case: the lifecycle generator, in a fifth of the cases with dry run on (the statement:
// "exactly once if its trace is kept (or dry run is on)").
func genC02Case(t *rapid.T) colCase {
	c := genLifecycleCase(t)
	switch rapid.IntRange(0, 7).Draw(t, "dryrun") {
	case 0, 1:
		c.Cfg.DryRun = true
	case 2:
		// dry run switched on by a reload somewhere in the history
		on := true
		at := rapid.IntRange(0, len(c.Ops)).Draw(t, "dryreloadat")
		ops := append([]opSpec{}, c.Ops[:at]...)
		ops = append(ops, opSpec{Op: "reload", Reload: &reloadSpec{DryRun: &on}})
		c.Ops = append(ops, c.Ops[at:]...)
	}
	return c
}

func execC02(c colCase) vkit.Result {
	obs := execCase(c, execOpts{Drain: true, StopAtEnd: true})
	res, facts := judgeC02(c, obs)
	if len(res.Violations) > 0 && res.Violations[0].Signature != "C02/harness-or-collector-panic" {
		c2 := c
		c2.Cfg.Salt = c.Cfg.Salt + "r"
		obs2 := execCase(c2, execOpts{Drain: true, StopAtEnd: true})
		res2, _ := judgeC02(c2, obs2)
		if len(res2.Violations) == 0 {
			res = vkit.Result{}
			res.Class("suspected-filter-false-positive")
		}
	}
	labelLifecycle(&res, c, facts)
	n := 0
	for _, b := range []bool{facts.lateSpans > 0, facts.ejectWhileBuf, facts.reloadWhileBuf, facts.backlog} {
		if b {
			n++
		}
	}
	res.NonTrivial = n >= 2
	if c.Cfg.DryRun {
		res.Class("dry-run")
	}
	for _, o := range c.Ops {
		if o.Op == "reload" && o.Reload != nil && o.Reload.DryRun != nil && *o.Reload.DryRun {
			res.Class("dry-run-enabled-by-reload")
			break
		}
	}
	return res
}

func TestC02(t *testing.T) {
	theT = t
	vkit.Run(t, vkit.Spec[colCase]{
		ID: "C02",
		Rule: "same generated operation lists as C01 (spans, aimed advances, reloads, ejections; 1-5 workers) against the real InMemCollector in a synctest bubble, drained past every deadline. Oracle: forwarded uids have no duplicates, are all accepted uids, equal the accepted uids of kept traces (decision read from the owning worker's decision cache), none for dropped traces; nothing buffered and every trace decided exactly once after the horizon TraceTimeout + ceil(traces/MaxExpired)+3 ticks. Non-trivial: >=2 of {late span, ejection while buffered, reload while buffered, backlog > MaxExpiredTraces}.",
		Assumptions: []string{
			"'eventually decided' is checked in bounded form at the drain horizon",
			"kept-decision capacity exceeds the traces of a case; re-salted retry for dropped-filter false positives",
		},
		Gen:  genC02Case,
		Exec: execC02,
	})
}
