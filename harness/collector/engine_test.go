package collector

// Shared engine for the collector-lifecycle properties (C01-C07, C36): the real
// collect.InMemCollector with real workers, caches and samplers runs inside a
// testing/synctest bubble, so every timer (collector ticks, cuckoo drain ticker,
// decision-cache TTLs, span arrival stamps) is virtual and exact.
//
// A case is generated up front (no rapid calls in the bubble), executed here, and
// judged outside against reference models.

import (
	"fmt"
	"runtime/debug"
	"sort"
	"strings"
	"sync"
	"testing"
	"testing/synctest"
	"time"

	"github.com/jonboulle/clockwork"
	"go.opentelemetry.io/otel/trace/noop"

	"github.com/honeycombio/refinery/collect"
	"github.com/honeycombio/refinery/config"
	"github.com/honeycombio/refinery/internal/peer"
	"github.com/honeycombio/refinery/logger"
	"github.com/honeycombio/refinery/metrics"
	"github.com/honeycombio/refinery/pubsub"
	"github.com/honeycombio/refinery/sample"
	"github.com/honeycombio/refinery/sharder"
	"github.com/honeycombio/refinery/types"
)

// ---------------------------------------------------------------- case types

type samplerSpec struct {
	// keepall | dropall | det | rulesfield | rulesdown | dynamic | ruleszero (C04 only)
	Kind string `json:"kind"`
	// det: the rate; rulesfield: rate of the keep rule; rulesdown: downstream deterministic rate
	Rate int `json:"rate,omitempty"`
}

type cfgSpec struct {
	Salt         string            `json:"salt,omitempty"` // trace-id salt (rename-and-retry)
	Workers      int               `json:"workers"`
	SendDelay    int64             `json:"send_delay_ms"`    // 0 => built-in default 2s
	TraceTimeout int64             `json:"trace_timeout_ms"` // 0 => built-in default 60s
	SendTicker   int64             `json:"send_ticker_ms"`
	SpanLimit    uint              `json:"span_limit,omitempty"`
	MaxExpired   uint              `json:"max_expired,omitempty"`
	DryRun       bool              `json:"dry_run,omitempty"`
	AddReason    bool              `json:"add_reason,omitempty"`
	AddSpanCount bool              `json:"add_span_count,omitempty"`
	AddCounts    bool              `json:"add_counts,omitempty"`
	AddHost      bool              `json:"add_host,omitempty"`
	Attrs        map[string]string `json:"attrs,omitempty"`
	Sampler      samplerSpec       `json:"sampler"`
	StressRate   uint64            `json:"stress_rate,omitempty"`
	KeptSize     uint              `json:"kept_size,omitempty"` // total kept-decision capacity (default 1000)
	TxDelayUs    int64             `json:"tx_delay_us,omitempty"` // the upstream transmission takes this long (virtual) per span: a slow Honeycomb
	// every trace decision takes this long (virtual): a worker can then be found in the middle of a
	// decision round by the next operation (a Stop, a reload) instead of only between rounds
	DecideDelayUs int64 `json:"decide_delay_us,omitempty"`
}

// slowDecisionMetrics parks the calling collector worker (virtual time) at the start of every trace
// decision: makeDecision reports the trace_span_count histogram first.
type slowDecisionMetrics struct {
	*metrics.MockMetrics
	delay time.Duration
}

func (m slowDecisionMetrics) Histogram(name string, val float64) {
	if name == "trace_span_count" {
		time.Sleep(m.delay)
	}
	m.MockMetrics.Histogram(name, val)
}

type reloadSpec struct {
	AddReason    *bool             `json:"add_reason,omitempty"`
	AddSpanCount *bool             `json:"add_span_count,omitempty"`
	AddCounts    *bool             `json:"add_counts,omitempty"`
	AddHost      *bool             `json:"add_host,omitempty"`
	Attrs        map[string]string `json:"attrs,omitempty"`
	SetAttrs     bool              `json:"set_attrs,omitempty"`
	Sampler      *samplerSpec      `json:"sampler,omitempty"`
	DryRun       *bool             `json:"dry_run,omitempty"`
}

type opSpec struct {
	Op string `json:"op"` // span | advance | reload | eject | stop

	// span
	Trace      int    `json:"trace,omitempty"`
	Kind       string `json:"kind,omitempty"` // root | child | event | link
	Keep       bool   `json:"keep,omitempty"` // carries field keep=1 (rulesfield sampler keeps traces having it)
	ClientRate uint   `json:"client_rate,omitempty"`
	Size       int    `json:"size,omitempty"` // bytes of padding
	Via        string `json:"via,omitempty"`  // incoming | peer | stress
	Late       bool   `json:"late,omitempty"` // first advance to two ticks past the trace's modelled deadline (if the trace was seen)
	Settle     bool   `json:"settle,omitempty"` // afterwards advance to two ticks past the trace's modelled deadline (the trace gets decided)

	// advance: D ms (plus Ns nanoseconds). With Aim set, the advance goes to the aimed
	// instant plus (D ms + Ns ns) if that is in the future, else 0:
	//   "deadline:<k>" = modelled deadline of trace k, "tick" = next send tick.
	D   int64  `json:"d_ms,omitempty"`
	Ns  int64  `json:"ns,omitempty"`
	Aim string `json:"aim,omitempty"`

	Reload *reloadSpec `json:"reload,omitempty"`

	// eject: per-worker bytes to release; with Pct set, Bytes is resolved at execution
	// time to Pct percent of the largest per-worker buffered data size
	Bytes int `json:"bytes,omitempty"`
	Pct   int `json:"pct,omitempty"`
}

type colCase struct {
	Cfg cfgSpec  `json:"cfg"`
	Ops []opSpec `json:"ops"`
}

// ---------------------------------------------------------------- observation

type fwdSpan struct {
	UID      string
	Trace    string
	At       time.Duration // virtual time since start
	Rate     uint
	APIKey   string
	Dataset  string
	APIHost  string
	IsRoot   bool
	Fields   map[string]any
	Seq      int
	ViaEvent bool // came through EnqueueEvent instead of EnqueueSpan
	OpIndex  int  // index of the op during which the span was forwarded (len(ops) = drain/stop phase)
}

type accSpan struct {
	UID        string
	Trace      int
	TraceID    string
	At         time.Duration
	Kind       string
	Via        string
	ClientRate uint
	Keep       bool
	Size       int
	DataSize   int
	OpIndex    int
	StressTrace bool  // the trace was first seen on the stress-relief path
	Err        string // non-empty when AddSpan refused the span
	// configuration in force when the span was handed over
	CfgAt cfgSnapshot
}

type cfgSnapshot struct {
	AddReason, AddSpanCount, AddCounts, AddHost bool
	Attrs                                      map[string]string
	Sampler                                    samplerSpec
	DryRun                                     bool
	Gen                                        int // reload generation
}

type ejectObs struct {
	OpIndex int
	At      time.Duration
	Bytes   int
	Before  [][]string // per worker trace ids buffered before
	After   [][]string
	FullPath bool // driven through MaxAlloc and the monitor instead of the hook
}

type decisionObs struct {
	Found  bool
	Kept   bool
	Rate   uint
	Reason string
}

type colObs struct {
	Forwarded   []fwdSpan
	Spans       []accSpan
	Ejects      []ejectObs
	Reloads     []struct{ OpIndex int; At time.Duration; Snap cfgSnapshot }
	Counters    map[string]int64
	EndBuffered [][]string
	Decisions   map[string]decisionObs // by trace id, read at the end (before Stop)
	WorkerOf    map[string]int
	Stopped     bool
	StopAt      time.Duration
	StopOp      int
	BufferedAtStop []string // exact buffer contents read just before Stop was called
	QueuedAtStop   [][2]int // per worker: spans still waiting in the incoming / peer queue when Stop was called
	Panic       string // panic in the harness root goroutine (incl. bubble deadlock = leaked goroutines)
	Hostname    string
	Tick        time.Duration
	End         time.Duration
	SnapshotAtEnd cfgSnapshot
}

// ---------------------------------------------------------------- doubles

type recTransmission struct {
	mu    sync.Mutex
	start time.Time
	spans []fwdSpan
	curOp int
	delay time.Duration
}

func (r *recTransmission) snapshot(ev *types.Event, traceID string, isRoot bool, viaEvent bool) {
	if r.delay > 0 {
		time.Sleep(r.delay)
	}
	f := fwdSpan{Trace: traceID, At: time.Since(r.start), Rate: ev.SampleRate, APIKey: ev.APIKey, Dataset: ev.Dataset,
		APIHost: ev.APIHost, IsRoot: isRoot, Fields: map[string]any{}, ViaEvent: viaEvent}
	for k, v := range ev.Data.All() {
		f.Fields[k] = v
	}
	if u, ok := f.Fields["uid"].(string); ok {
		f.UID = u
	}
	r.mu.Lock()
	f.OpIndex = r.curOp
	f.Seq = len(r.spans)
	r.spans = append(r.spans, f)
	r.mu.Unlock()
}

func (r *recTransmission) EnqueueEvent(ev *types.Event) { r.snapshot(ev, "", false, true) }
func (r *recTransmission) EnqueueSpan(sp *types.Span)   { r.snapshot(sp.Event, sp.TraceID, sp.IsRoot, false) }

type nopHealth struct{}

func (nopHealth) Register(string, time.Duration) {}
func (nopHealth) Unregister(string)              {}
func (nopHealth) Ready(string, bool)             {}

// ---------------------------------------------------------------- config

const (
	envKey  = "abcdefghijklmnopqrstuv" // 22 chars: an environment (non-classic) key
	envName = "env1"
)

func samplerConfig(s samplerSpec) (any, string) {
	switch s.Kind {
	case "dropall":
		return &config.RulesBasedSamplerConfig{Rules: []*config.RulesBasedSamplerRule{{Name: "dropall", Drop: true}}}, "RulesBasedSampler"
	case "det":
		return &config.DeterministicSamplerConfig{SampleRate: max(s.Rate, 1)}, "DeterministicSampler"
	case "rulesfield":
		return &config.RulesBasedSamplerConfig{Rules: []*config.RulesBasedSamplerRule{
			{Name: "keepfield", SampleRate: max(s.Rate, 1), Conditions: []*config.RulesBasedSamplerCondition{{Field: "keep", Operator: config.Exists}}},
			{Name: "droprest", Drop: true},
		}}, "RulesBasedSampler"
	case "rulesdown":
		return &config.RulesBasedSamplerConfig{Rules: []*config.RulesBasedSamplerRule{
			{Name: "keepfield", SampleRate: 1, Conditions: []*config.RulesBasedSamplerCondition{{Field: "keep", Operator: config.Exists}}},
			{Name: "down", Sampler: &config.RulesBasedDownstreamSampler{DeterministicSampler: &config.DeterministicSamplerConfig{SampleRate: max(s.Rate, 1)}}},
		}}, "RulesBasedSampler"
	case "ruleszero":
		// a matching rule without Drop, without a downstream sampler and without a
		// positive SampleRate (validation accepts it): such traces are not kept
		return &config.RulesBasedSamplerConfig{Rules: []*config.RulesBasedSamplerRule{
			{Name: "keepfield-rate-not-positive", SampleRate: min(s.Rate, 0), Conditions: []*config.RulesBasedSamplerCondition{{Field: "keep", Operator: config.Exists}}},
			{Name: "keeprest", SampleRate: 1},
		}}, "RulesBasedSampler"
	case "dynamic":
		return &config.DynamicSamplerConfig{SampleRate: int64(max(s.Rate, 1)), ClearFrequency: config.Duration(30 * time.Second), FieldList: []string{"keep", "root.keep"}}, "DynamicSampler"
	default: // keepall
		return &config.DeterministicSamplerConfig{SampleRate: 1}, "DeterministicSampler"
	}
}

func buildMockConfig(c cfgSpec) *config.MockConfig {
	st, sn := samplerConfig(c.Sampler)
	kept := c.KeptSize
	if kept == 0 {
		kept = 1000
	}
	attrs := map[string]string{}
	for k, v := range c.Attrs {
		attrs[k] = v
	}
	return &config.MockConfig{
		GetTracesConfigVal: config.TracesConfig{
			SendTicker:       config.Duration(time.Duration(c.SendTicker) * time.Millisecond),
			SendDelay:        config.Duration(time.Duration(c.SendDelay) * time.Millisecond),
			TraceTimeout:     config.Duration(time.Duration(c.TraceTimeout) * time.Millisecond),
			MaxBatchSize:     500,
			SpanLimit:        c.SpanLimit,
			MaxExpiredTraces: c.MaxExpired,
		},
		GetSamplerTypeVal:  st,
		GetSamplerTypeName: sn,
		GetCollectionConfigVal: config.CollectionConfig{
			WorkerCount:        c.Workers,
			IncomingQueueSize:  10000,
			PeerQueueSize:      10000,
			HealthCheckTimeout: config.Duration(time.Hour),
		},
		SampleCache: config.SampleCacheConfig{
			KeptSize: kept, DroppedSize: 100000, SizeCheckInterval: config.Duration(10 * time.Second), WorkerCount: uint(c.Workers),
		},
		StressRelief:           config.StressReliefConfig{Mode: "always", SamplingRate: c.StressRate, ActivationLevel: 90, DeactivationLevel: 75},
		DryRun:                 c.DryRun,
		AddRuleReasonToTrace:   c.AddReason,
		AddSpanCountToRoot:     c.AddSpanCount,
		AddCountsToRoot:        c.AddCounts,
		AddHostMetadataToTrace: c.AddHost,
		AdditionalAttributes:   attrs,
		TraceIdFieldNames:      []string{"trace.trace_id"},
		ParentIdFieldNames:     []string{"trace.parent_id"},
		GetHoneycombAPIVal:     "http://honeycomb.test",
	}
}

// vConfig fixes one slip of the test double: MockConfig.GetAddCountsToRoot returns
// AddSpanCountToRoot, so the two options could not be set independently.
type vConfig struct{ *config.MockConfig }

func (v vConfig) GetAddCountsToRoot() bool {
	v.Mux.RLock()
	defer v.Mux.RUnlock()
	return v.AddCountsToRoot
}

func (c cfgSpec) traceID(k int) string {
	salt := c.Salt
	if salt == "" {
		salt = "s"
	}
	return fmt.Sprintf("%s-trace-%d", salt, k)
}

func (c cfgSpec) tick() time.Duration         { return time.Duration(c.SendTicker) * time.Millisecond }
func (c cfgSpec) traceTimeout() time.Duration {
	if c.TraceTimeout == 0 {
		return 60 * time.Second
	}
	return time.Duration(c.TraceTimeout) * time.Millisecond
}
func (c cfgSpec) sendDelay() time.Duration {
	if c.SendDelay == 0 {
		return 2 * time.Second
	}
	return time.Duration(c.SendDelay) * time.Millisecond
}

// ---------------------------------------------------------------- timing model
// Reference model of deadlines, used to resolve aimed advances and by the judges.

type traceModel struct {
	ID        string
	Seen      bool
	First     time.Duration // arrival of first buffered span
	Root      time.Duration // arrival of first root while buffered (-1 none)
	OverLimit time.Duration // instant the buffered count first exceeded SpanLimit (-1 none)
	Count     int           // spans buffered
	Deadline  time.Duration
	Done      bool // decided (by the model's notion: tick after deadline, or eject) - maintained by judges, not here
}

func newTraceModel(id string) *traceModel { return &traceModel{ID: id, Root: -1, OverLimit: -1} }

func (m *traceModel) addBuffered(c cfgSpec, now time.Duration, isRoot bool) {
	if !m.Seen {
		m.Seen = true
		m.First = now
		m.Deadline = now + c.traceTimeout()
	}
	m.Count++
	if isRoot && m.Root < 0 {
		m.Root = now
	}
	if isRoot {
		if d := now + c.sendDelay(); d < m.Deadline {
			m.Deadline = d
		}
	}
	if c.SpanLimit > 0 && uint(m.Count) > c.SpanLimit {
		if m.OverLimit < 0 {
			m.OverLimit = now
		}
		if now < m.Deadline {
			m.Deadline = now
		}
	}
}

// ---------------------------------------------------------------- execution

var theT *testing.T // set by each TestCxx before vkit.Run; synctest needs a *testing.T

func nextTick(now, tick time.Duration) time.Duration {
	if tick <= 0 {
		return now
	}
	k := now / tick
	return (k + 1) * tick
}

type execOpts struct {
	// horizon: after the last op, advance until every modelled deadline has passed and
	// the backlog had time to drain, then read final state. When false (C36) the case
	// ends where its ops end.
	Drain bool
	// StopAtEnd: call collector.Stop at the end if no stop op ran.
	StopAtEnd bool
}

func execCase(c colCase, opt execOpts) (obs colObs) {
	defer func() {
		if p := recover(); p != nil {
			obs.Panic = fmt.Sprintf("%v", p)
			if !strings.Contains(obs.Panic, "deadlock") {
				obs.Panic += "\n" + string(debug.Stack())
			}
		}
	}()
	synctest.Test(theT, func(t *testing.T) {
		runInBubble(c, opt, &obs)
	})
	return obs
}

func runInBubble(c colCase, opt execOpts, obs *colObs) {
	mock := buildMockConfig(c.Cfg)
	cfg := vConfig{mock}
	start := time.Now()
	tx := &recTransmission{start: start, delay: time.Duration(c.Cfg.TxDelayUs) * time.Microsecond}
	peerTx := &recTransmission{start: start}
	met := &metrics.MockMetrics{}
	met.Start()
	clock := clockwork.NewRealClock()
	ps := &pubsub.LocalPubSub{Config: cfg, Metrics: met}
	ps.Start()
	peers := peer.NewMockPeers([]string{"api1"}, "api1")
	sf := &sample.SamplerFactory{Config: cfg, Metrics: met, Logger: &logger.NullLogger{}, Peers: peers}
	if err := sf.Start(); err != nil {
		panic(err)
	}
	sr := &collect.StressRelief{RefineryMetrics: met, Config: cfg, Logger: &logger.NullLogger{}, Clock: clock, PubSub: ps, Peer: peers, Health: nopHealth{}}
	sr.UpdateFromConfig()
	coll := &collect.InMemCollector{
		Config: cfg, Clock: clock, Logger: &logger.NullLogger{}, Tracer: noop.NewTracerProvider().Tracer("verif"),
		Health: nopHealth{}, Transmission: tx, PeerTransmission: peerTx, PubSub: ps, Metrics: met,
		StressRelief: sr, SamplerFactory: sf, Peers: peers,
		Sharder: &sharder.MockSharder{Self: &sharder.TestShard{Addr: "api1"}, Other: &sharder.TestShard{Addr: "api2"}},
	}
	if c.Cfg.DecideDelayUs > 0 {
		coll.Metrics = slowDecisionMetrics{met, time.Duration(c.Cfg.DecideDelayUs) * time.Microsecond}
	}
	if err := coll.Start(); err != nil {
		panic(err)
	}
	synctest.Wait()
	stopped := false
	stop := func(opIndex int) {
		if stopped {
			return
		}
		// everything is durably blocked after Wait, so buffer and queues can be read consistently
		// without a handshake that would let a worker move on
		synctest.Wait()
		for _, w := range coll.VerifBufferedTraceIDsQuiescent() {
			obs.BufferedAtStop = append(obs.BufferedAtStop, w...)
		}
		obs.QueuedAtStop = coll.VerifQueueLens()
		stopped = true
		obs.Stopped = true
		obs.StopAt = time.Since(start)
		obs.StopOp = opIndex
		_ = coll.Stop()
		synctest.Wait()
	}
	defer func() {
		// always leave the bubble clean, even when the harness panics
		if !stopped {
			func() {
				defer func() { recover() }()
				_ = coll.Stop()
			}()
		}
		sf.Stop()
		ps.Stop()
		synctest.Wait()
	}()

	obs.Tick = c.Cfg.tick()
	obs.WorkerOf = map[string]int{}
	obs.Decisions = map[string]decisionObs{}
	models := map[int]*traceModel{}
	snap := cfgSnapshot{AddReason: c.Cfg.AddReason, AddSpanCount: c.Cfg.AddSpanCount, AddCounts: c.Cfg.AddCounts, AddHost: c.Cfg.AddHost,
		Attrs: copyAttrs(c.Cfg.Attrs), Sampler: c.Cfg.Sampler, DryRun: c.Cfg.DryRun}
	uidN := 0
	stressFirst := map[int]bool{} // traces first seen on the stress-relief path

	for i, op := range c.Ops {
		if stopped {
			break
		}
		now := time.Since(start)
		tx.mu.Lock()
		tx.curOp = i
		tx.mu.Unlock()
		switch op.Op {
		case "span":
			if m := models[op.Trace]; op.Late && m != nil {
				if target := m.Deadline + 2*c.Cfg.tick(); target > now {
					time.Sleep(target - now)
					synctest.Wait()
					now = time.Since(start)
				}
			}
			uidN++
			uid := fmt.Sprintf("u%d", uidN)
			tid := c.Cfg.traceID(op.Trace)
			data := map[string]any{"uid": uid, "trace.trace_id": tid}
			if op.Keep {
				data["keep"] = int64(1)
			}
			if op.Size > 0 {
				data["pad"] = strings.Repeat("x", op.Size)
			}
			switch op.Kind {
			case "event":
				data["meta.annotation_type"] = "span_event"
				data["trace.parent_id"] = "p"
			case "link":
				data["meta.annotation_type"] = "link"
				data["trace.parent_id"] = "p"
			case "child":
				data["trace.parent_id"] = "p"
			}
			pl := types.NewPayload(cfg, data)
			_ = pl.ExtractMetadata()
			sp := &types.Span{
				TraceID: tid,
				IsRoot:  op.Kind == "root",
				Event: &types.Event{APIHost: "http://honeycomb.test", APIKey: envKey, Dataset: "ds", Environment: envName,
					SampleRate: op.ClientRate, Timestamp: start.Add(now), Data: pl},
			}
			a := accSpan{UID: uid, Trace: op.Trace, TraceID: tid, At: now, Kind: op.Kind, Via: op.Via, ClientRate: op.ClientRate, Keep: op.Keep,
				Size: op.Size, DataSize: sp.GetDataSize(), OpIndex: i, CfgAt: snap}
			// premise of C01/C04: stress relief does not switch while a trace is buffered. A trace whose
			// first span came through the normal path therefore never takes the stress path.
			if op.Via == "stress" {
				if models[op.Trace] != nil {
					// a late span under stress for a trace that was decided normally is legal
					// (ProcessSpanImmediately must follow the recorded decision); only a trace
					// that is still buffered must not see relief switch on
					for _, w := range coll.VerifBufferedTraceIDsQuiescent() {
						for _, id := range w {
							if id == tid {
								a.Via = "incoming"
							}
						}
					}
				} else {
					stressFirst[op.Trace] = true
				}
			}
			var err error
			switch a.Via {
			case "peer":
				err = coll.AddSpanFromPeer(sp)
			case "stress":
				coll.ProcessSpanImmediately(sp)
			default:
				err = coll.AddSpan(sp)
			}
			if err != nil {
				a.Err = err.Error()
			}
			obs.WorkerOf[tid] = coll.VerifWorkerFor(tid)
			synctest.Wait()
			if a.Err == "" && a.Via != "stress" && !stressFirst[op.Trace] {
				m := models[op.Trace]
				if m == nil {
					m = newTraceModel(tid)
					models[op.Trace] = m
				}
				// the deadline model only matters while the trace is buffered; judges that
				// need exactness re-derive it from observations. Here it only steers aims.
				m.addBuffered(c.Cfg, now, op.Kind == "root")
			}
			a.StressTrace = stressFirst[op.Trace]
			obs.Spans = append(obs.Spans, a)
			if m := models[op.Trace]; op.Settle && m != nil {
				if target := m.Deadline + 2*c.Cfg.tick(); target > time.Since(start) {
					time.Sleep(target - time.Since(start))
					synctest.Wait()
				}
			}
		case "advance":
			d := time.Duration(op.D)*time.Millisecond + time.Duration(op.Ns)
			if op.Aim != "" {
				target := time.Duration(-1)
				if op.Aim == "tick" {
					target = nextTick(now, c.Cfg.tick())
				} else if strings.HasPrefix(op.Aim, "deadline:") {
					var k int
					fmt.Sscanf(op.Aim, "deadline:%d", &k)
					if m := models[k]; m != nil {
						target = m.Deadline
					}
				}
				if target >= 0 {
					d = target + d - now
				} else {
					d = 0
				}
			}
			if d > 0 {
				time.Sleep(d)
			}
			synctest.Wait()
		case "reload":
			r := op.Reload
			if r == nil {
				break
			}
			cfg.Mux.Lock()
			if r.AddReason != nil {
				cfg.AddRuleReasonToTrace = *r.AddReason
				snap.AddReason = *r.AddReason
			}
			if r.AddSpanCount != nil {
				cfg.AddSpanCountToRoot = *r.AddSpanCount
				snap.AddSpanCount = *r.AddSpanCount
			}
			if r.AddCounts != nil {
				cfg.AddCountsToRoot = *r.AddCounts
				snap.AddCounts = *r.AddCounts
			}
			if r.AddHost != nil {
				cfg.AddHostMetadataToTrace = *r.AddHost
				snap.AddHost = *r.AddHost
			}
			if r.SetAttrs {
				cfg.AdditionalAttributes = copyAttrs(r.Attrs)
				snap.Attrs = copyAttrs(r.Attrs)
			}
			if r.DryRun != nil {
				cfg.DryRun = *r.DryRun
				snap.DryRun = *r.DryRun
			}
			if r.Sampler != nil {
				cfg.GetSamplerTypeVal, cfg.GetSamplerTypeName = samplerConfig(*r.Sampler)
				snap.Sampler = *r.Sampler
			}
			cfg.Mux.Unlock()
			snap.Gen++
			_ = cfg.Reload()
			synctest.Wait()
			obs.Reloads = append(obs.Reloads, struct {
				OpIndex int
				At      time.Duration
				Snap    cfgSnapshot
			}{i, now, snap})
		case "eject":
			e := ejectObs{OpIndex: i, At: now, Bytes: op.Bytes, Before: sortedBuf(coll.VerifBufferedTraceIDs())}
			if op.Pct > 0 {
				sizeOf := map[string]int{}
				for _, a := range obs.Spans {
					if a.Err == "" && a.Via != "stress" {
						sizeOf[a.TraceID] += a.DataSize
					}
				}
				largest := 0
				for _, w := range e.Before {
					tot := 0
					for _, id := range w {
						tot += sizeOf[id]
					}
					if tot > largest {
						largest = tot
					}
				}
				e.Bytes = largest * op.Pct / 100
			}
			coll.VerifEject(e.Bytes)
			synctest.Wait()
			e.After = sortedBuf(coll.VerifBufferedTraceIDs())
			obs.Ejects = append(obs.Ejects, e)
		case "memlimit":
			// full path: a 1-byte memory limit makes the collector's own monitor (checkAlloc, heap
			// reading, overage split across workers) request an ejection larger than any buffer
			e := ejectObs{OpIndex: i, At: now, Bytes: 1 << 40, Before: sortedBuf(coll.VerifBufferedTraceIDs())}
			mock.SetMaxAlloc(1)
			time.Sleep(100 * time.Millisecond) // one monitor tick
			synctest.Wait()
			mock.SetMaxAlloc(0)
			e.After = sortedBuf(coll.VerifBufferedTraceIDs())
			e.FullPath = true
			obs.Ejects = append(obs.Ejects, e)
		case "stop":
			stop(i)
		}
	}

	tx.mu.Lock()
	tx.curOp = len(c.Ops)
	tx.mu.Unlock()
	if opt.Drain && !stopped {
		// long enough for every deadline to pass and for the per-tick cap to drain the backlog
		horizon := c.Cfg.traceTimeout()
		if sd := c.Cfg.sendDelay(); sd > horizon {
			horizon = sd
		}
		ticks := 3
		if c.Cfg.MaxExpired > 0 {
			ticks += (len(models) + int(c.Cfg.MaxExpired) - 1) / int(c.Cfg.MaxExpired)
		}
		time.Sleep(horizon + time.Duration(ticks)*c.Cfg.tick())
		synctest.Wait()
	}
	obs.End = time.Since(start)
	if !stopped {
		obs.EndBuffered = sortedBuf(coll.VerifBufferedTraceIDs())
	}
	for k := range models {
		tid := c.Cfg.traceID(k)
		if stopped {
			continue
		}
		found, kept, rate, reason := coll.VerifCheckTrace(tid)
		obs.Decisions[tid] = decisionObs{found, kept, rate, reason}
	}
	obs.SnapshotAtEnd = snap
	if opt.StopAtEnd {
		stop(len(c.Ops))
	}
	if stopped {
		// decisions can still be read after Stop: the caches are plain memory
		for k := range models {
			tid := c.Cfg.traceID(k)
			func() {
				defer func() { recover() }()
				found, kept, rate, reason := coll.VerifCheckTrace(tid)
				obs.Decisions[tid] = decisionObs{found, kept, rate, reason}
			}()
		}
	}
	met.Stop()
	tx.mu.Lock()
	obs.Forwarded = append(obs.Forwarded, tx.spans...)
	tx.mu.Unlock()
	obs.Counters = map[string]int64{}
	for _, n := range []string{"trace_send_kept", "trace_send_dropped", "trace_accepted", collect.TraceSendGotRoot, collect.TraceSendExpired,
		collect.TraceSendSpanLimit, collect.TraceSendEjectedMemsize, collect.TraceSendLateSpan, "trace_sent_cache_hit", "events_dropped",
		"kept_from_stress", "dropped_from_stress"} {
		if v, ok := met.Get(n); ok {
			obs.Counters[n] = int64(v)
		}
	}
}

func copyAttrs(m map[string]string) map[string]string {
	out := map[string]string{}
	for k, v := range m {
		out[k] = v
	}
	return out
}

func sortedBuf(b [][]string) [][]string {
	for _, w := range b {
		sort.Strings(w)
	}
	return b
}

// ---------------------------------------------------------------- shared judge helpers

type traceView struct {
	ID        string
	K         int
	Accepted  []accSpan // handed over without error, in arrival order
	Forwarded []fwdSpan // in forwarding order
}

func viewByTrace(c colCase, obs colObs) map[string]*traceView {
	out := map[string]*traceView{}
	for _, a := range obs.Spans {
		v := out[a.TraceID]
		if v == nil {
			v = &traceView{ID: a.TraceID, K: a.Trace}
			out[a.TraceID] = v
		}
		if a.Err == "" {
			v.Accepted = append(v.Accepted, a)
		}
	}
	for _, f := range obs.Forwarded {
		v := out[f.Trace]
		if v == nil {
			v = &traceView{ID: f.Trace, K: -1}
			out[f.Trace] = v
		}
		v.Forwarded = append(v.Forwarded, f)
	}
	return out
}

func sortedTraceIDs(m map[string]*traceView) []string {
	ids := make([]string, 0, len(m))
	for k := range m {
		ids = append(ids, k)
	}
	sort.Strings(ids)
	return ids
}

func int64Field(f map[string]any, k string) (int64, bool) {
	switch v := f[k].(type) {
	case int64:
		return v, true
	case int:
		return int64(v), true
	case uint64:
		return int64(v), true
	case float64:
		return int64(v), true
	}
	return 0, false
}
