package collector

import (
	"fmt"
	"testing"

	"github.com/honeycombio/refinery/types"
	"github.com/honeycombio/refinery/verifharness/vkit"
	"pgregory.net/rapid"
)

// C04: forwarded sample rates compose the client and Refinery rates.

var c04ClientRates = []uint{0, 0, 1, 2, 7, 1000, 1<<31 - 1}

func genC04Case(t *rapid.T) colCase {
	cfg := genLifecycleCfg(t)
	cfg.Sampler = genSampler(t, "s4")
	if rapid.IntRange(0, 5).Draw(t, "ruleszero") == 0 {
		cfg.Sampler = samplerSpec{Kind: "ruleszero", Rate: rapid.SampledFrom([]int{0, -3}).Draw(t, "zerorate")}
	}
	cfg.StressRate = rapid.SampledFrom([]uint64{0, 1, 2, 3, 5}).Draw(t, "stressrate")
	cfg.AddReason = rapid.Bool().Draw(t, "addreason")
	c := colCase{Cfg: cfg}
	opGen := rapid.Custom(func(t *rapid.T) opSpec {
		switch k := rapid.IntRange(0, 19).Draw(t, "opkind"); {
		case k <= 11:
			o := genSpanOp(t, []string{"incoming", "incoming", "peer", "stress", "stress"})
			o.ClientRate = rapid.SampledFrom(c04ClientRates).Draw(t, "crate4")
			return o
		case k <= 17:
			return genAdvanceOp(t)
		case k == 18:
			return genReloadSamplerOp(t)
		default:
			return opSpec{Op: "eject", Bytes: rapid.SampledFrom([]int{0, 50, 100000}).Draw(t, "bytes")}
		}
	})
	c.Ops = rapid.SliceOfN(opGen, 3, 50).Draw(t, "ops")
	return c
}

// allowedTraceRates: the set of trace sampling rates the configured samplers can report.
// ok=false means "any rate >= 1" (dynamic samplers).
func allowedTraceRates(s samplerSpec) (rates map[uint]bool, any bool) {
	r := uint(max(s.Rate, 1))
	switch s.Kind {
	case "keepall":
		return map[uint]bool{1: true}, false
	case "dropall":
		return map[uint]bool{}, false
	case "det":
		return map[uint]bool{r: true}, false
	case "rulesfield":
		return map[uint]bool{r: true}, false
	case "rulesdown":
		return map[uint]bool{1: true, r: true}, false
	case "ruleszero":
		return map[uint]bool{1: true}, false
	}
	return nil, true
}

func judgeC04(c colCase, obs colObs) (res vkit.Result, nt bool) {
	if obs.Panic != "" {
		res.Violate("C04/harness-or-collector-panic", "%s", obs.Panic)
		return
	}
	// samplers in force over the history
	specs := []samplerSpec{c.Cfg.Sampler}
	for _, r := range obs.Reloads {
		specs = append(specs, r.Snap.Sampler)
	}
	allowed := map[uint]bool{}
	anyRate := false
	for _, s := range specs {
		rs, a := allowedTraceRates(s)
		anyRate = anyRate || a
		for k := range rs {
			allowed[k] = true
		}
	}
	stressRate := uint(c.Cfg.StressRate)
	if stressRate == 0 {
		stressRate = 1
	}
	byUID := map[string]accSpan{}
	for _, a := range obs.Spans {
		byUID[a.UID] = a
	}
	traceRate := map[string]uint{}
	views := viewByTrace(c, obs)
	for _, id := range sortedTraceIDs(views) {
		v := views[id]
		for _, f := range v.Forwarded {
			a, ok := byUID[f.UID]
			if !ok {
				continue // C02's business
			}
			client := a.ClientRate
			eff := client
			if eff < 1 {
				eff = 1
			}
			path := "on-time"
			if a.Via == "stress" {
				path = "stress"
			} else if a.StressTrace {
				path = "late-after-stress"
			} else if r, _ := f.Fields[types.MetaRefinerySendReason].(string); r == "trace_send_late_span" || f.OpIndex == a.OpIndex {
				path = "late"
			}
			if f.Rate%eff != 0 || f.Rate == 0 {
				res.Violate("C04/"+path+"/rate-not-multiple-of-client-rate", "span %s of %s: SampleRate %d, client rate %d", f.UID, id, f.Rate, client)
				continue
			}
			tr := f.Rate / eff
			if tr < 1 {
				res.Violate("C04/"+path+"/trace-rate-below-1", "span %s: SampleRate %d client %d", f.UID, f.Rate, client)
			}
			if a.StressTrace {
				if tr != stressRate {
					res.Violate("C04/"+path+"/not-stress-rate", "span %s of stress trace %s: SampleRate %d = client %d x %d, stress rate is %d", f.UID, id, f.Rate, eff, tr, stressRate)
				}
			} else {
				if !anyRate && !allowed[tr] {
					res.Violate("C04/"+path+"/rate-not-from-sampler", "span %s of %s: SampleRate %d = client %d x %d; configured samplers report %v", f.UID, id, f.Rate, eff, tr, allowed)
				}
				if prev, ok := traceRate[id]; ok && prev != tr {
					res.Violate("C04/"+path+"/differs-from-trace-decision-rate", "span %s of %s uses trace rate %d, earlier spans of the trace used %d", f.UID, id, tr, prev)
				} else {
					traceRate[id] = tr
				}
			}
			if fin, ok := int64Field(f.Fields, types.MetaRefineryFinalSampleRate); !ok || uint(fin) != f.Rate {
				res.Violate("C04/"+path+"/final_sample_rate-mismatch", "span %s: SampleRate %d, meta.refinery.final_sample_rate %v (present %v)", f.UID, f.Rate, f.Fields[types.MetaRefineryFinalSampleRate], ok)
			}
			orig, has := int64Field(f.Fields, types.MetaRefineryOriginalSampleRate)
			if client != 0 && (!has || uint(orig) != client) {
				res.Violate("C04/"+path+"/original_sample_rate-missing-or-wrong", "span %s: client rate %d, meta.refinery.original_sample_rate %v", f.UID, client, f.Fields[types.MetaRefineryOriginalSampleRate])
			}
			if client == 0 && has && orig != 0 {
				res.Violate("C04/"+path+"/original_sample_rate-invented", "span %s had no client rate but carries original_sample_rate %d", f.UID, orig)
			}
			if (client > 1 && tr > 1) || path != "on-time" {
				nt = true
			}
			res.Class("path=" + path)
		}
	}
	return
}

func execC04(c colCase) vkit.Result {
	obs := execCase(c, execOpts{Drain: true, StopAtEnd: true})
	res, nt := judgeC04(c, obs)
	res.NonTrivial = nt
	res.Class("sampler=" + c.Cfg.Sampler.Kind)
	res.Class(fmt.Sprintf("workers=%d", c.Cfg.Workers))
	return res
}

func TestC04(t *testing.T) {
	theT = t
	vkit.Run(t, vkit.Spec[colCase]{
		ID: "C04",
		Rule: "generated schedules with client sample rates from {absent/0,1,2,7,1000,2^31-1}, six sampler kinds (incl. reloads that change the sampler), on-time, late and stress-relief (ProcessSpanImmediately with the real StressRelief rule) paths, on the real collector in a synctest bubble. Oracle per forwarded span: SampleRate = max(client,1) x traceRate with traceRate >= 1, taken from the configured samplers' rates (stress rate for traces first seen under stress), identical for all spans of a trace incl. late ones; meta.refinery.final_sample_rate equals it; meta.refinery.original_sample_rate equals the client rate iff non-zero. Non-trivial: a forwarded span with client rate > 1 and trace rate > 1, or a late / stress-path span.",
		Assumptions: []string{
			"dry run off (C05 covers dry run)",
			"traces first seen on the stress path never take the buffered path before being decided (premise: relief does not toggle while a trace is buffered)",
			"very large sampler rates are not exercised end-to-end because such traces are almost never kept",
		},
		Gen:  genC04Case,
		Exec: execC04,
	})
}
