package collector

import (
	"fmt"
	"sort"
	"testing"
	"time"

	"github.com/honeycombio/refinery/collect"
	"github.com/honeycombio/refinery/types"
	"github.com/honeycombio/refinery/verifharness/vkit"
	"pgregory.net/rapid"
)

// C07: memory-pressure ejection decides traces rather than discarding them.

func genC07Case(t *rapid.T) colCase {
	cfg := cfgSpec{
		Workers:      rapid.SampledFrom([]int{1, 1, 2}).Draw(t, "workers"),
		SendDelay:    rapid.SampledFrom([]int64{300, 1000}).Draw(t, "senddelay"),
		TraceTimeout: rapid.SampledFrom([]int64{1000, 2000}).Draw(t, "tracetimeout"),
		SendTicker:   rapid.SampledFrom([]int64{50, 100}).Draw(t, "ticker"),
		AddReason:    true,
		Sampler:      samplerSpec{Kind: rapid.SampledFrom([]string{"keepall", "keepall", "keepall", "dropall", "det", "rulesfield"}).Draw(t, "s7")},
	}
	if cfg.Sampler.Kind == "det" || cfg.Sampler.Kind == "rulesfield" {
		cfg.Sampler.Rate = rapid.SampledFrom([]int{1, 2}).Draw(t, "s7rate")
	}
	c := colCase{Cfg: cfg}
	opGen := rapid.Custom(func(t *rapid.T) opSpec {
		switch k := rapid.IntRange(0, 19).Draw(t, "opkind"); {
		case k <= 11:
			o := genSpanOp(t, []string{"incoming", "peer"})
			o.Kind = rapid.SampledFrom([]string{"child", "child", "child", "child", "event", "root"}).Draw(t, "kind7")
			o.Size = rapid.SampledFrom([]int{0, 10, 100, 100, 1000, 5000}).Draw(t, "size7")
			o.Late = false
			return o
		case k <= 15:
			return opSpec{Op: "advance", D: rapid.SampledFrom([]int64{0, 1, 10, 50, 100, 300, 600}).Draw(t, "d7")}
		default:
			if rapid.IntRange(0, 9).Draw(t, "memlimit") == 0 {
				return opSpec{Op: "memlimit"}
			}
			if rapid.IntRange(0, 4).Draw(t, "ejkind") == 0 {
				return opSpec{Op: "eject", Bytes: rapid.SampledFrom([]int{0, 1, 100000000}).Draw(t, "bytes7")}
			}
			return opSpec{Op: "eject", Pct: rapid.SampledFrom([]int{5, 10, 30, 50, 80, 99, 100, 150}).Draw(t, "pct7")}
		}
	})
	// a preamble of spans so that ejections usually meet a populated buffer
	spanGen := rapid.Custom(func(t *rapid.T) opSpec {
		o := genSpanOp(t, []string{"incoming", "peer"})
		o.Kind = rapid.SampledFrom([]string{"child", "child", "event"}).Draw(t, "kind7p")
		o.Size = rapid.SampledFrom([]int{0, 10, 100, 300, 1000, 5000}).Draw(t, "size7p")
		o.Late = false
		return o
	})
	pre := rapid.SliceOfN(spanGen, 0, 8).Draw(t, "preamble")
	c.Ops = append(pre, rapid.SliceOfN(opGen, 4, 45).Draw(t, "ops")...)
	return c
}

type c07span struct {
	size int
	at   time.Duration
}

// dominates: a is at least as heavy as b under ANY impact estimate that is monotone in span size and
// span age (each span of b is matched by a distinct span of a that is no smaller and no younger), and
// strictly larger in total size.
func c07dominates(a, b []c07span) bool {
	ta, tb := 0, 0
	for _, s := range a {
		ta += s.size
	}
	for _, s := range b {
		tb += s.size
	}
	if ta <= tb || len(a) < len(b) {
		return false
	}
	used := make([]bool, len(a))
	bs := append([]c07span(nil), b...)
	sort.Slice(bs, func(i, j int) bool { return bs[i].size > bs[j].size })
	for _, sb := range bs {
		best := -1
		for i, sa := range a {
			if used[i] || sa.size < sb.size || sa.at > sb.at {
				continue
			}
			if best < 0 || sa.size < a[best].size {
				best = i
			}
		}
		if best < 0 {
			return false
		}
		used[best] = true
	}
	return true
}

func judgeC07(c colCase, obs colObs) (res vkit.Result, nt bool) {
	if obs.Panic != "" {
		res.Violate("C07/harness-or-collector-panic", "%s", obs.Panic)
		return
	}
	views := viewByTrace(c, obs)
	for _, e := range obs.Ejects {
		if e.FullPath {
			// driven through MaxAlloc=1 and the collector's own monitor: everything must go, decided
			res.Class("full-path-memlimit")
			for w := range e.After {
				if len(e.After[w]) > 0 {
					res.Violate("C07/full-path/buffer-not-emptied", "worker %d: with a 1-byte memory limit the monitor left %v buffered (before: %v)", w, e.After[w], e.Before[w])
				}
			}
			for w := range e.Before {
				for _, id := range e.Before[w] {
					d, ok := obs.Decisions[id]
					if !ok || !d.Found {
						res.Violate("C07/full-path/ejected-trace-not-decided", "worker %d: trace %s left the buffer without a recorded decision", w, id)
						continue
					}
					if d.Kept {
						n := 0
						for _, f := range views[id].Forwarded {
							if f.OpIndex == e.OpIndex {
								n++
							}
						}
						if n == 0 {
							res.Violate("C07/full-path/kept-ejected-trace-not-forwarded", "worker %d: trace %s kept but nothing forwarded during the memory-limit op", w, id)
						}
					}
				}
			}
			continue
		}
		// spans buffered per trace at the time of the ejection
		buffered := func(id string) (sp []c07span, total int) {
			v := views[id]
			if v == nil {
				return
			}
			for _, a := range v.Accepted {
				if a.OpIndex < e.OpIndex {
					sp = append(sp, c07span{a.DataSize, a.At})
					total += a.DataSize
				}
			}
			return
		}
		for w := range e.Before {
			before, after := e.Before[w], []string(nil)
			if w < len(e.After) {
				after = e.After[w]
			}
			inAfter := map[string]bool{}
			for _, id := range after {
				inAfter[id] = true
			}
			inBefore := map[string]bool{}
			for _, id := range before {
				inBefore[id] = true
			}
			for _, id := range after {
				if !inBefore[id] {
					res.Violate("C07/buffer-gained-trace-during-ejection", "worker %d: trace %s appeared in the buffer during the ejection at op %d", w, id, e.OpIndex)
				}
			}
			var ejected, retained []string
			released, totalBefore := 0, 0
			sizes := map[string]int{}
			distinct := map[int]bool{}
			for _, id := range before {
				_, sz := buffered(id)
				sizes[id] = sz
				totalBefore += sz
				distinct[sz] = true
				if inAfter[id] {
					retained = append(retained, id)
				} else {
					ejected = append(ejected, id)
					released += sz
				}
			}
			if len(before) >= 3 && len(distinct) >= 3 && e.Bytes > 0 && e.Bytes < totalBefore {
				nt = true
			}
			// (2) sufficiency
			if len(retained) > 0 && released <= e.Bytes {
				res.Violate("C07/released-too-little", "worker %d op %d: asked to release more than %d bytes, released %d (ejected %v) and still buffers %v", w, e.OpIndex, e.Bytes, released, ejected, retained)
			}
			// (1) heaviest first: no retained trace may dominate an ejected one
			for _, r := range retained {
				rs, _ := buffered(r)
				for _, x := range ejected {
					xs, _ := buffered(x)
					if c07dominates(rs, xs) {
						res.Violate("C07/lighter-trace-ejected-before-heavier", "worker %d op %d: trace %s (spans %v) was ejected while %s (spans %v), which is larger and no younger in every span, stayed buffered", w, e.OpIndex, x, xs, r, rs)
					}
				}
			}
			// every ejected trace is decided; kept ones forwarded with the memory send reason, all buffered spans
			var order []string // ejection order as seen at the transmission (kept traces only)
			for _, x := range ejected {
				d, ok := obs.Decisions[x]
				if !ok || !d.Found {
					res.Violate("C07/ejected-trace-not-decided", "worker %d op %d: trace %s left the buffer without a recorded decision", w, e.OpIndex, x)
					continue
				}
				v := views[x]
				var fwdNow []fwdSpan
				for _, f := range v.Forwarded {
					if f.OpIndex == e.OpIndex {
						fwdNow = append(fwdNow, f)
					}
				}
				nBuf, _ := buffered(x)
				if d.Kept {
					if len(fwdNow) != len(nBuf) {
						res.Violate("C07/kept-ejected-trace-not-fully-forwarded", "worker %d op %d: trace %s kept, %d spans buffered, %d forwarded by the ejection", w, e.OpIndex, x, len(nBuf), len(fwdNow))
					}
					for _, f := range fwdNow {
						if r, _ := f.Fields[types.MetaRefinerySendReason].(string); r != collect.TraceSendEjectedMemsize {
							res.Violate("C07/wrong-send-reason", "worker %d op %d: span %s of ejected trace %s carries send reason %q", w, e.OpIndex, f.UID, x, r)
							break
						}
					}
					if len(fwdNow) > 0 {
						order = append(order, x)
					}
				} else if len(fwdNow) > 0 {
					res.Violate("C07/dropped-ejected-trace-forwarded", "worker %d op %d: trace %s dropped but %d spans forwarded", w, e.OpIndex, x, len(fwdNow))
				}
			}
			// (3) minimality: when every ejected trace was kept we can see the order; without the
			// last one the released size must not already have exceeded the request
			if len(order) == len(ejected) && len(ejected) > 0 {
				sort.Slice(order, func(i, j int) bool {
					return firstSeq(views[order[i]], e.OpIndex) < firstSeq(views[order[j]], e.OpIndex)
				})
				last := order[len(order)-1]
				if released-sizes[last] > e.Bytes {
					res.Violate("C07/ejected-more-than-needed", "worker %d op %d: asked for more than %d bytes; %d were already released before the last ejected trace %s (%d bytes)", w, e.OpIndex, e.Bytes, released-sizes[last], last, sizes[last])
				}
			}
			// retained traces must not have been decided by the ejection
			for _, r := range retained {
				for _, f := range views[r].Forwarded {
					if f.OpIndex == e.OpIndex {
						res.Violate("C07/retained-trace-forwarded", "worker %d op %d: trace %s stayed buffered but span %s was forwarded by the ejection", w, e.OpIndex, r, f.UID)
						break
					}
				}
			}
			res.Class(fmt.Sprintf("buffer=%d", min(len(before), 4)))
		}
	}
	if c.Cfg.Workers > 1 {
		res.Class("workers>1")
	}
	res.Class("sampler=" + c.Cfg.Sampler.Kind)
	return
}

func firstSeq(v *traceView, op int) int {
	for _, f := range v.Forwarded {
		if f.OpIndex == op {
			return f.Seq
		}
	}
	return 1 << 30
}

func execC07(c colCase) vkit.Result {
	obs := execCase(c, execOpts{Drain: true, StopAtEnd: true})
	res, nt := judgeC07(c, obs)
	res.NonTrivial = nt
	// the ejection must not break the single-decision / exactly-once properties afterwards
	if r1, _ := judgeC01(c, obs); len(r1.Violations) > 0 {
		res.Violations = append(res.Violations, r1.Violations...)
	}
	if r2, _ := judgeC02(c, obs); len(r2.Violations) > 0 {
		res.Violations = append(res.Violations, r2.Violations...)
	}
	return res
}

func TestC07(t *testing.T) {
	theT = t
	vkit.Run(t, vkit.Spec[colCase]{
		ID: "C07",
		Rule: "generated buffers (spans of <=6 traces with payload sizes 0..5000 bytes, ages produced by virtual-time advances, 1-2 workers, keep/drop/deterministic/field samplers) with ejections injected at arbitrary points through the same sendEarly message checkAlloc sends, for per-worker byte amounts aimed at 5%..150% of the buffered size. Oracle per worker: ejected set is downward closed under span-wise size/age dominance (formula-agnostic 'heaviest first'), releases more than the requested bytes unless the buffer is emptied, is minimal when the order is visible, every ejected trace is decided, kept ones are forwarded completely with send reason trace_send_ejected_memsize, none of them stays buffered, retained traces are untouched; C01/C02 judges still hold afterwards. Non-trivial: a worker buffering >=3 traces with 3 distinct sizes and 0 < bytes < total.",
		Assumptions: []string{
			"the heap-reading arithmetic of checkAlloc (overage / workers) is not reached; ejection is injected via a verif-tagged hook that sends the identical message",
			"the impact estimate is only assumed monotone in span size and age",
		},
		Gen:  genC07Case,
		Exec: execC07,
	})
}
