package collector

import (
	"fmt"
	"testing"

	"github.com/honeycombio/refinery/config"
	"github.com/honeycombio/refinery/logger"
	"github.com/honeycombio/refinery/metrics"
	"github.com/honeycombio/refinery/sample"
	"github.com/honeycombio/refinery/types"
	"github.com/honeycombio/refinery/verifharness/vkit"
	"pgregory.net/rapid"
)

// C05: dry run forwards every span with the would-be decision.

func genC05Case(t *rapid.T) colCase {
	cfg := genLifecycleCfg(t)
	cfg.DryRun = rapid.IntRange(0, 3).Draw(t, "startdry") > 0 // DryRun is reloadable: sometimes it is switched on later
	cfg.AddReason = rapid.Bool().Draw(t, "addreason")
	c := colCase{Cfg: cfg}
	opGen := rapid.Custom(func(t *rapid.T) opSpec {
		switch k := rapid.IntRange(0, 19).Draw(t, "opkind"); {
		case k <= 11:
			o := genSpanOp(t, []string{"incoming", "incoming", "peer"})
			o.ClientRate = rapid.SampledFrom(c04ClientRates).Draw(t, "crate5")
			return o
		case k <= 16:
			return genAdvanceOp(t)
		case k <= 18:
			on := rapid.IntRange(0, 3).Draw(t, "dryon") > 0
			return opSpec{Op: "reload", Reload: &reloadSpec{DryRun: &on}}
		default:
			return opSpec{Op: "eject", Bytes: rapid.SampledFrom([]int{0, 50, 100000}).Draw(t, "bytes")}
		}
	})
	c.Ops = rapid.SliceOfN(opGen, 3, 50).Draw(t, "ops")
	return c
}

// predictedKeep returns the decision a sampler must make when it does not depend on timing:
// (keep, known).
func predictedKeep(s samplerSpec, traceID string, spansAtDecision []accSpan, allSpans []accSpan) (bool, bool) {
	switch s.Kind {
	case "keepall":
		return true, true
	case "dropall":
		return false, true
	case "det":
		// independent instance of the deterministic sampler (its own property is C10)
		ds := &sample.DeterministicSampler{Config: &config.DeterministicSamplerConfig{SampleRate: max(s.Rate, 1)}, Logger: &logger.NullLogger{}, Metrics: &metrics.NullMetrics{}}
		if err := ds.Start(); err != nil {
			return false, false
		}
		_, keep, _, _ := ds.GetSampleRate(&types.Trace{TraceID: traceID})
		return keep, true
	case "rulesfield":
		anyKeep := false
		for _, a := range allSpans {
			if a.Keep {
				anyKeep = true
			}
		}
		if !anyKeep {
			return false, true // no span ever carried the field: the keep rule cannot match
		}
		if s.Rate <= 1 {
			allKeep := len(spansAtDecision) > 0
			for _, a := range spansAtDecision {
				if !a.Keep {
					allKeep = false
				}
			}
			if allKeep {
				return true, true
			}
		}
	}
	return false, false
}

func judgeC05(c colCase, obs colObs) (res vkit.Result, nt bool) {
	if obs.Panic != "" {
		res.Violate("C05/harness-or-collector-panic", "%s", obs.Panic)
		return
	}
	// dryAt(op): is DryRun on while op executes; dryFrom(op): is it on during op and every later op
	// (including the drain phase, index len(ops))
	dryAt := func(op int) bool { return cfgInForce(c, obs, op).DryRun }
	dryFrom := func(op int) bool {
		for i := op; i <= len(c.Ops); i++ {
			if !dryAt(i) {
				return false
			}
		}
		return true
	}
	samplerReloaded := false
	for _, r := range obs.Reloads {
		if r.Snap.Sampler != c.Cfg.Sampler {
			samplerReloaded = true
		}
	}
	toggled := false
	for _, r := range obs.Reloads {
		if r.Snap.DryRun != c.Cfg.DryRun {
			toggled = true
		}
	}
	views := viewByTrace(c, obs)
	for _, id := range sortedTraceIDs(views) {
		v := views[id]
		if len(v.Accepted) == 0 {
			continue
		}
		fw := map[string][]fwdSpan{}
		for _, f := range v.Forwarded {
			fw[f.UID] = append(fw[f.UID], f)
		}
		var marker *bool
		var firstFwd fwdSpan
		if len(v.Forwarded) > 0 {
			firstFwd = v.Forwarded[0]
		}
		late := false
		for _, a := range v.Accepted {
			fs := fw[a.UID]
			if len(fs) == 0 {
				if dryFrom(a.OpIndex) {
					res.Violate("C05/span-not-forwarded", "dry run on from the arrival of span %s of trace %s (op %d, %v via %s) to the end, yet it was never forwarded", a.UID, id, a.OpIndex, a.At, a.Via)
				}
				continue
			}
			if len(fs) > 1 {
				res.Violate("C05/span-forwarded-twice", "span %s forwarded %d times", a.UID, len(fs))
			}
			f := fs[0]
			if !dryAt(f.OpIndex) {
				continue // forwarded while dry run was off: C01/C04 territory
			}
			if f.OpIndex == a.OpIndex && a.At >= firstFwd.At {
				late = true
			}
			how := "started-on"
			if !c.Cfg.DryRun {
				how = "enabled-by-reload"
			}
			eff := a.ClientRate
			if eff < 1 {
				eff = 1
			}
			// "absent and zero being equivalent": for a client rate of 0 both 0 and 1 are the client's rate
			if f.Rate != eff && !(a.ClientRate == 0 && f.Rate == 0) {
				res.Violate("C05/sample-rate-not-client-rate/"+how, "dry run: span %s forwarded during op %d with SampleRate %d, client rate %d", a.UID, f.OpIndex, f.Rate, a.ClientRate)
			}
			k, ok := f.Fields["meta.refinery.dryrun.kept"].(bool)
			if !ok {
				res.Violate("C05/marker-missing/"+how, "dry run: span %s forwarded during op %d without meta.refinery.dryrun.kept", a.UID, f.OpIndex)
				continue
			}
			if marker == nil {
				marker = &k
			} else if *marker != k {
				res.Violate("C05/marker-inconsistent-within-trace", "dry run: trace %s has spans marked kept=%v and kept=%v", id, *marker, k)
			}
		}
		if marker != nil {
			d := obs.Decisions[id]
			if d.Found && d.Kept != *marker {
				res.Violate("C05/marker-differs-from-recorded-decision", "trace %s: decision cache says kept=%v, spans marked %v", id, d.Kept, *marker)
			}
			// prediction where the decision does not depend on timing and the sampler was never reloaded
			if !samplerReloaded {
				var atDecision []accSpan
				for _, a := range v.Accepted {
					if a.At < firstFwd.At {
						atDecision = append(atDecision, a)
					}
				}
				if want, known := predictedKeep(c.Cfg.Sampler, id, atDecision, v.Accepted); known && want != *marker {
					res.Violate(fmt.Sprintf("C05/marker-differs-from-sampler-decision/%s", c.Cfg.Sampler.Kind), "trace %s: sampler %+v must decide keep=%v, spans marked %v", id, c.Cfg.Sampler, want, *marker)
				}
			}
			if !*marker || late {
				nt = true
			}
			if !*marker {
				res.Class("would-be-dropped-trace")
			}
			if late {
				res.Class("late-span")
			}
		}
	}
	if toggled {
		res.Class("dryrun-toggled-by-reload")
	}
	return
}

func execC05(c colCase) vkit.Result {
	obs := execCase(c, execOpts{Drain: true, StopAtEnd: true})
	res, nt := judgeC05(c, obs)
	res.NonTrivial = nt
	res.Class("sampler=" + c.Cfg.Sampler.Kind)
	return res
}

func TestC05(t *testing.T) {
	theT = t
	vkit.Run(t, vkit.Spec[colCase]{
		ID: "C05",
		Rule: "generated schedules (spans incl. late ones, aimed advances, ejections; six sampler kinds; 1-5 workers) with DryRun on from the start or toggled by reloads, real collector in a synctest bubble. Oracle (per span, by the DryRun setting in force when it was handled): every span accepted while dry run stays on is forwarded exactly once with SampleRate = max(client,1) and meta.refinery.dryrun.kept present, identical across the trace, equal to the decision recorded in the decision cache and to the sampler's decision where that is timing-independent (keep-all, drop-all, deterministic via an independent sampler instance, field rules when no span or every span carries the field). Non-trivial: a trace whose decision is drop, or a late span.",
		Assumptions: []string{"no stress relief in these runs (stress relief is documented to ignore dry run)"},
		Gen:  genC05Case,
		Exec: execC05,
	})
}
