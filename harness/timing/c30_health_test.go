package timing

import (
	"fmt"
	"testing"
	"testing/synctest"
	"time"

	"github.com/honeycombio/refinery/internal/health"
	"github.com/honeycombio/refinery/verifharness/vkit"
	"github.com/jonboulle/clockwork"
	"pgregory.net/rapid"
)

// C30: liveness and readiness follow subsystem reports within one 500 ms tick.
//
// SUT: the real health.Health with clockwork.NewRealClock() inside a synctest
// bubble (so its 500 ms ticker runs on virtual time). The oracle is a reference
// model that knows only report instants, timeouts and flags - not the SUT's
// countdown counters - and is one-directional with exactly the slack the
// statement grants.

const c30Tick = int64(500 * time.Millisecond)

// subsystem indices 0..3 can be registered; 4 ("ghost") is only ever the target
// of ready/unregister operations (reports for never-registered names).
var c30Names = []string{"s0", "s1", "s2", "s3", "ghost"}

type c30Op struct {
	Op      string `json:"op"` // register | unregister | ready | readyall | advance
	Sub     int    `json:"sub,omitempty"`
	Timeout int64  `json:"timeout,omitempty"` // register: ns
	Ready   bool   `json:"ready,omitempty"`
	// advance: Aim "" = plain D ns; "sub" = to (last report of Sub)+timeout+K*tick+D;
	// "tick" = to the next tick boundary + D. An aim that lies in the past (or a
	// subsystem without a report) falls back to a plain advance of |D| ns.
	Aim string `json:"aim,omitempty"`
	K   int    `json:"k,omitempty"`
	D   int64  `json:"d,omitempty"`
}

type c30Case struct {
	Init []int64 `json:"init"` // timeouts of s0..s(n-1), registered before the first op (may be empty)
	Ops  []c30Op `json:"ops"`
}

var c30Timeouts = []int64{
	int64(100 * time.Millisecond), int64(499 * time.Millisecond), int64(500 * time.Millisecond), int64(501 * time.Millisecond),
	int64(750 * time.Millisecond), int64(time.Second), int64(1200 * time.Millisecond), int64(1500 * time.Millisecond),
	int64(2 * time.Second), int64(3 * time.Second), int64(5 * time.Second),
}

var c30Plain = []int64{0, 1, int64(100 * time.Millisecond), int64(250 * time.Millisecond), int64(499 * time.Millisecond),
	int64(500 * time.Millisecond), int64(501 * time.Millisecond), int64(time.Second)}

func genC30(t *rapid.T) c30Case {
	opGen := rapid.Custom(func(t *rapid.T) c30Op {
		kind := rapid.IntRange(-2, 19).Draw(t, "opkind")
		switch {
		case kind < 0:
			// every registered subsystem reports (in index order)
			return c30Op{Op: "readyall", Ready: rapid.IntRange(0, 7).Draw(t, "flag") != 0}
		case kind <= 1:
			return c30Op{Op: "register", Sub: rapid.IntRange(0, 3).Draw(t, "sub"), Timeout: rapid.SampledFrom(c30Timeouts).Draw(t, "timeout")}
		case kind == 3:
			return c30Op{Op: "unregister", Sub: rapid.IntRange(0, 4).Draw(t, "sub")}
		case kind <= 10:
			// mostly ready=true, mostly real subsystems
			sub := rapid.IntRange(0, 3).Draw(t, "sub")
			if rapid.IntRange(0, 11).Draw(t, "ghost") == 0 {
				sub = 4
			}
			return c30Op{Op: "ready", Sub: sub, Ready: rapid.IntRange(0, 4).Draw(t, "flag") != 0}
		case kind <= 14:
			return c30Op{Op: "advance", Aim: "sub", Sub: rapid.IntRange(0, 3).Draw(t, "aimsub"),
				K: rapid.SampledFrom([]int{-1, -1, 0, 1, 1}).Draw(t, "k"), D: rapid.SampledFrom([]int64{-1, 0, 0, 1}).Draw(t, "delta")}
		case kind == 15:
			return c30Op{Op: "advance", Aim: "tick", D: rapid.SampledFrom([]int64{-1, 0, 1}).Draw(t, "delta")}
		case kind <= 18:
			return c30Op{Op: "advance", D: rapid.SampledFrom(c30Plain).Draw(t, "d")}
		default:
			return c30Op{Op: "advance", D: rapid.Int64Range(0, int64(3*time.Second)).Draw(t, "d")}
		}
	})
	return c30Case{
		Init: rapid.SliceOfN(rapid.SampledFrom(c30Timeouts), 0, 4).Draw(t, "init"),
		Ops:  rapid.SliceOfN(opGen, 1, 40).Draw(t, "ops"),
	}
}

type c30Obs struct {
	T     int64 `json:"t"` // virtual ns since Start at which the step's query was made
	Alive bool  `json:"alive"`
	Ready bool  `json:"ready"`
}

var c30T *testing.T

// c30Drive executes the case against the real Health inside a bubble and
// returns one observation per operation.
func c30Drive(c c30Case) []c30Obs {
	obs := make([]c30Obs, 0, len(c.Ops))
	tmBubble(c30T, func() {
		h := &health.Health{Clock: clockwork.NewRealClock()}
		if err := h.Start(); err != nil {
			panic(err)
		}
		defer h.Stop()
		start := time.Now()
		now := func() int64 { return int64(time.Since(start)) }
		// bookkeeping needed only to resolve aimed advances
		lastReport := map[int]int64{}
		timeout := map[int]int64{}
		for i, to := range c.Init {
			if i < 4 {
				h.Register(c30Names[i], time.Duration(to))
				timeout[i] = to
			}
		}
		for _, op := range c.Ops {
			if op.Sub < 0 || op.Sub >= len(c30Names) { // not generated; keeps hand-written replays safe
				op.Sub, op.Op = 0, "noop"
			}
			name := c30Names[op.Sub]
			switch op.Op {
			case "register":
				h.Register(name, time.Duration(op.Timeout))
				timeout[op.Sub] = op.Timeout
				delete(lastReport, op.Sub)
			case "unregister":
				h.Unregister(name)
				delete(timeout, op.Sub)
				delete(lastReport, op.Sub)
			case "ready":
				h.Ready(name, op.Ready)
				if _, ok := timeout[op.Sub]; ok {
					lastReport[op.Sub] = now()
				}
			case "readyall":
				for j := 0; j < 4; j++ {
					if _, ok := timeout[j]; ok {
						h.Ready(c30Names[j], op.Ready)
						lastReport[j] = now()
					}
				}
			case "advance":
				d := op.D
				if d < 0 {
					d = -d
				}
				switch op.Aim {
				case "sub":
					if lr, ok := lastReport[op.Sub]; ok {
						if target := lr + timeout[op.Sub] + int64(op.K)*c30Tick + op.D; target >= now() {
							d = target - now()
						}
					}
				case "tick":
					next := (now()/c30Tick + 1) * c30Tick
					d = next - now() + op.D
				}
				if d > 0 {
					time.Sleep(time.Duration(d))
				}
			}
			// every tick due by now has been applied before we look
			synctest.Wait()
			obs = append(obs, c30Obs{T: now(), Alive: h.IsAlive(), Ready: h.IsReady()})
		}
	})
	return obs
}

type c30Sub struct {
	state      int // 0 never, 1 registered, 2 unregistered
	timeout    int64
	reported   bool
	lastReport int64
	longestGap int64 // longest completed gap between two consecutive reports since registration
	ready      bool
}

func execC30(c c30Case) vkit.Result {
	var res vkit.Result
	obs := c30Drive(c)
	if len(obs) != len(c.Ops) {
		res.Violate("harness/c30-short-observation", "%d observations for %d ops", len(obs), len(c.Ops))
		return res
	}
	subs := make([]c30Sub, len(c30Names))
	for i, to := range c.Init {
		if i < 4 {
			subs[i] = c30Sub{state: 1, timeout: to}
		}
	}
	report := func(s *c30Sub, t int64, ready bool) {
		if s.state != 1 { // reports of unregistered / never registered names are ignored
			return
		}
		if s.reported {
			if g := t - s.lastReport; g > s.longestGap {
				s.longestGap = g
			}
		}
		s.reported = true
		s.lastReport = t
		s.ready = ready
	}
	nearBoundary, sawUnregister := false, false
	for i, op := range c.Ops {
		o := obs[i]
		if i > 0 && o.T < obs[i-1].T {
			res.Violate("harness/c30-time-went-back", "step %d", i)
			return res
		}
		if op.Sub < 0 || op.Sub >= len(c30Names) {
			op.Sub = 0
			op.Op = "noop"
		}
		s := &subs[op.Sub]
		switch op.Op {
		case "register":
			*s = c30Sub{state: 1, timeout: op.Timeout}
		case "unregister":
			*s = c30Sub{state: 2}
			sawUnregister = true
		case "ready":
			report(s, o.T, op.Ready)
		case "readyall":
			for j := 0; j < 4; j++ {
				report(&subs[j], o.T, op.Ready)
			}
		}

		// ---- liveness ----
		mustDead := -1
		allShortEver, allShortNow := true, true
		anyUnreported, anyReported := false, false
		for j := range subs {
			sj := &subs[j]
			if sj.state != 1 {
				continue
			}
			if !sj.reported {
				anyUnreported = true
				continue
			}
			anyReported = true
			silence := o.T - sj.lastReport
			if silence > sj.timeout+c30Tick {
				mustDead = j
			}
			if !(silence < sj.timeout-c30Tick) {
				allShortNow = false
			}
			if !(silence < sj.timeout-c30Tick && sj.longestGap < sj.timeout-c30Tick) {
				allShortEver = false
			}
			if silence >= sj.timeout-c30Tick && silence <= sj.timeout+c30Tick {
				nearBoundary = true
			}
		}
		suffix := ""
		if anyUnreported {
			suffix = "+unreported-registered"
		}
		switch {
		case mustDead >= 0:
			res.Class("alive:must-be-dead")
			if o.Alive {
				sj := subs[mustDead]
				res.Violate("C30/alive/alive-though-silent-past-timeout-plus-tick",
					"step %d t=%v: IsAlive=true but %s (timeout %v) last reported at %v, silent %v > timeout+tick",
					i, time.Duration(o.T), c30Names[mustDead], time.Duration(sj.timeout), time.Duration(sj.lastReport), time.Duration(o.T-sj.lastReport))
			}
		case allShortEver:
			if anyReported {
				res.Class("alive:must-be-alive")
			} else if anyUnreported {
				res.Class("alive:must-be-alive(only-unreported)")
			} else {
				res.Class("alive:must-be-alive(nothing-registered)")
			}
			if !o.Alive {
				res.Violate("C30/alive/dead-though-every-interval-short"+suffix,
					"step %d t=%v: IsAlive=false but every registered subsystem that has reported did so at intervals < timeout-tick: %s", i, time.Duration(o.T), c30Describe(subs, o.T))
			}
		case allShortNow:
			res.Class("alive:must-be-alive(after-recovery)")
			if !o.Alive {
				res.Violate("C30/alive/dead-after-fresh-report"+suffix,
					"step %d t=%v: IsAlive=false but every registered subsystem reported less than timeout-tick ago: %s", i, time.Duration(o.T), c30Describe(subs, o.T))
			}
		default:
			res.Class("alive:either")
		}

		// ---- readiness: "ready only when ..." ----
		nReg, unreported, unready, unregistered, fresh := 0, -1, -1, -1, true
		for j := range subs {
			sj := &subs[j]
			switch sj.state {
			case 1:
				nReg++
				if !sj.reported {
					unreported = j
				} else {
					if !sj.ready {
						unready = j
					}
					if !(o.T-sj.lastReport < sj.timeout-c30Tick) {
						fresh = false
					}
				}
			case 2:
				unregistered = j
			}
		}
		if o.Ready {
			res.Class("ready:true")
			switch {
			case nReg == 0 && unregistered < 0:
				res.Violate("C30/ready/ready-with-nothing-registered", "step %d t=%v: IsReady=true, no subsystem registered", i, time.Duration(o.T))
			case unregistered >= 0:
				res.Violate("C30/ready/ready-after-unregister", "step %d t=%v: IsReady=true although %s has unregistered", i, time.Duration(o.T), c30Names[unregistered])
			case unreported >= 0:
				res.Violate("C30/ready/ready-with-unreported-subsystem", "step %d t=%v: IsReady=true although %s never reported", i, time.Duration(o.T), c30Names[unreported])
			case unready >= 0:
				res.Violate("C30/ready/ready-with-unready-subsystem", "step %d t=%v: IsReady=true although %s last said ready=false", i, time.Duration(o.T), c30Names[unready])
			}
		} else if nReg > 0 && unregistered < 0 && unreported < 0 && unready < 0 && fresh {
			// converse, with the slack of the liveness clause: health.go documents
			// "IsReady returns true if all registered subsystems are ready".
			res.Class("ready:must-be-ready")
			res.Violate("C30/ready/not-ready-though-all-ready-and-fresh",
				"step %d t=%v: IsReady=false but every registered subsystem said ready=true less than timeout-tick ago and nothing unregistered: %s", i, time.Duration(o.T), c30Describe(subs, o.T))
		} else {
			res.Class("ready:false")
		}
		if o.Ready && nReg > 0 && unregistered < 0 && unreported < 0 && unready < 0 {
			res.Class("ready:must-be-ready")
		}
	}
	if nearBoundary {
		res.Class("query-within-one-tick-of-timeout")
	}
	if sawUnregister {
		res.Class("has-unregister")
	}
	res.NonTrivial = nearBoundary || sawUnregister
	return res
}

func c30Describe(subs []c30Sub, now int64) string {
	out := ""
	for j, s := range subs {
		if s.state != 1 {
			continue
		}
		if !s.reported {
			out += fmt.Sprintf("[%s timeout=%v unreported] ", c30Names[j], time.Duration(s.timeout))
		} else {
			out += fmt.Sprintf("[%s timeout=%v silent=%v longestGap=%v ready=%v] ", c30Names[j], time.Duration(s.timeout), time.Duration(now-s.lastReport), time.Duration(s.longestGap), s.ready)
		}
	}
	return out
}

func TestC30(t *testing.T) {
	c30T = t
	vkit.Run(t, vkit.Spec[c30Case]{
		ID: "C30",
		Rule: "rapid-generated histories (1-40 ops) of Register/Unregister/Ready/advance over 4 subsystem names plus a never-registered one against the real health.Health " +
			"(real clock inside a testing/synctest bubble, 500 ms ticker on virtual time); timeouts from 100 ms to 5 s incl. below one tick and non-multiples of 500 ms; " +
			"advances aimed at last-report+timeout+{-1,0,+1} tick +-1 ns and at tick boundaries; IsAlive/IsReady queried after every op and judged against a reference model of report instants. " +
			"Non-trivial: some query made while a subsystem's silence is within one tick of its timeout, or the history contains an Unregister. Distinct = distinct case JSON.",
		Assumptions: []string{
			"testing/synctest virtual time faithfully stands in for the real clock (Health only uses Clock.NewTicker)",
			"liveness is asserted one-directionally: dead required only when some silence > timeout+tick, alive required only when all (current, resp. all past) silences < timeout-tick; in between either answer is accepted",
			"a registered subsystem that has not reported yet does not make the process dead (health.go: 'we don't return dead immediately')",
			"'no subsystem has unregistered' is read per name: Register+Ready(true) of the same name afterwards clears it",
			"the converse of 'ready only when' is asserted only with the liveness slack (all reports fresher than timeout-tick), from the IsReady doc comment",
		},
		Gen:  genC30,
		Exec: execC30,
	})
}
