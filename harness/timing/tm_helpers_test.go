package timing

import (
	"fmt"
	"runtime/debug"
	"testing"
	"testing/synctest"
)

// tmBubble runs f inside a testing/synctest bubble and waits for it. A panic
// inside the bubble would take the whole test binary down (tRunner re-panics),
// so it is captured and re-raised outside the bubble where vkit turns it into a
// harness/panic result. f must stop every goroutine it started.
func tmBubble(t *testing.T, f func()) {
	var pv any
	var stack string
	synctest.Test(t, func(*testing.T) {
		defer func() {
			if p := recover(); p != nil {
				pv = p
				stack = string(debug.Stack())
			}
		}()
		f()
	})
	if pv != nil {
		panic(fmt.Sprintf("panic inside bubble: %v\n%s", pv, stack))
	}
}
