package timing

import (
	"fmt"
	"sort"
	"strings"
	"sync"
	"testing"
	"testing/synctest"
	"time"

	"github.com/honeycombio/refinery/collect/cache"
	"github.com/honeycombio/refinery/config"
	"github.com/honeycombio/refinery/metrics"
	"github.com/honeycombio/refinery/types"
	"github.com/honeycombio/refinery/verifharness/vkit"
	"pgregory.net/rapid"
)

// C31: the decision cache remembers what it promises.
//
// SUT: cache.NewCuckooSentCache inside a synctest bubble (100 us drain ticker,
// SizeCheckInterval maintenance ticker and the 3 s recent-drop TTL run on
// virtual time). Kept side: reference LRU. Dropped side: conservative
// reference of the documented two-generation filter; rotation instants are
// taken from the load factor the cache itself reports at every maintenance
// cycle, membership claims are made only while the modelled load is <= 0.85.

const (
	c31DrainTick = 100 * time.Microsecond
	c31RecentTTL = 3 * time.Second
	c31SafeLoad  = 0.85
)

var c31Reasons = []string{"", "deterministic/always", "rules/trace/keep-errors", "dynamic", "emadynamic/late", "rules/span/slow"}

type c31Op struct {
	Op string `json:"op"` // keep | drop | dropmany | fill | rotate | span | trace | resize | advance
	ID int    `json:"id,omitempty"`
	// keep
	Rate   uint   `json:"rate,omitempty"`
	Reason int    `json:"reason,omitempty"`
	Spans  [3]int `json:"spans,omitempty"` // initial spans / span events / links of the recorded trace
	// span: annotation type 0 span, 1 span_event, 2 link
	Kind int `json:"kind,omitempty"`
	// dropmany: N fresh ids; fill: as many fresh ids as bring the modelled insert count of the current filter to Pct % of its slots
	N   int `json:"n,omitempty"`
	Pct int `json:"pct,omitempty"`
	// rotate: when the maintenance cycle near the drop of ID happens: "before" the drop (after the pre-fill), "after" it, or "none"
	Maint string `json:"maint,omitempty"`
	// rotate: if non-zero, Resize the dropped capacity (per worker) to RD after the drop of ID, before the final fill
	RD int `json:"rd,omitempty"`
	// rotate: finish with a CheckTrace of ID (judged like a "trace" op)
	Look bool `json:"look,omitempty"`
	// resize (per-worker sizes)
	K int `json:"k,omitempty"`
	D int `json:"d,omitempty"`
	// advance: "50us" | "tick" (100 us) | "1ms" | "interval" (SizeCheckInterval) | "ttl" (to recent-drop expiry of ID + Delta ns)
	Adv   string `json:"adv,omitempty"`
	Delta int64  `json:"delta,omitempty"`
}

type c31Case struct {
	K        int     `json:"k"` // kept capacity per worker
	D        int     `json:"d"` // dropped capacity per worker
	W        int     `json:"w"` // worker count (KeptSize = K*W, DroppedSize = D*W)
	Interval int64   `json:"interval"`
	Pool     int     `json:"pool"` // ids 0..Pool-1
	Profile  string  `json:"profile,omitempty"`
	Ops      []c31Op `json:"ops"`
}

func genC31(t *rapid.T) c31Case {
	c := c31Case{}
	c.K = rapid.SampledFrom([]int{1, 2, 2, 3, 3, 8}).Draw(t, "k")
	c.D = rapid.SampledFrom([]int{64, 64, 64, 256, 1024}).Draw(t, "d")
	c.W = rapid.SampledFrom([]int{1, 1, 2}).Draw(t, "w")
	c.Interval = rapid.SampledFrom([]int64{int64(time.Second), int64(time.Second), int64(2 * time.Second)}).Draw(t, "interval")
	c.Pool = c.K + rapid.IntRange(1, 2).Draw(t, "extra")
	// two profiles: "kept" histories are cheap (no long virtual-time advances) and
	// dense in record/lookup/resize; "mixed" histories add filter fills, rotations,
	// maintenance cycles and TTL expiries.
	c.Profile = rapid.SampledFrom([]string{"kept", "kept", "mixed"}).Draw(t, "profile")
	weights := map[string][]int{
		//        keep drop many fill rot span trace resize small interval ttl
		"kept":  {12, 4, 0, 0, 0, 11, 7, 3, 3, 0, 0},
		"mixed": {7, 6, 1, 3, 3, 9, 6, 2, 2, 1, 2},
	}[c.Profile]
	total := 0
	for _, w := range weights {
		total += w
	}
	opGen := rapid.Custom(func(t *rapid.T) c31Op {
		x := rapid.IntRange(0, total-1).Draw(t, "opkind")
		kind := 0
		for x >= weights[kind] {
			x -= weights[kind]
			kind++
		}
		id := rapid.IntRange(0, c.Pool-1).Draw(t, "id")
		switch kind {
		case 0:
			return c31Op{Op: "keep", ID: id, Rate: uint(rapid.SampledFrom([]int{1, 2, 10, 100, 65536}).Draw(t, "rate")),
				Reason: rapid.IntRange(0, len(c31Reasons)-1).Draw(t, "reason"),
				Spans:  [3]int{rapid.IntRange(0, 3).Draw(t, "ns"), rapid.IntRange(0, 2).Draw(t, "ne"), rapid.IntRange(0, 2).Draw(t, "nl")}}
		case 1:
			return c31Op{Op: "drop", ID: id}
		case 2:
			return c31Op{Op: "dropmany", N: rapid.SampledFrom([]int{3, 20, 40, 70, 130}).Draw(t, "n")}
		case 3:
			return c31Op{Op: "fill", Pct: rapid.SampledFrom([]int{45, 52, 52, 80, 90, 125, 125}).Draw(t, "pct")}
		case 4:
			// aimed scenario step: fill to Pct %, maintenance (future generation starts), drop ID, fill to 125 %, maintenance (rotation)
			// (Maint "none"/"after": the burst arrives between two maintenance cycles)
			// RD != 0: a config reload resizes the dropped cache to RD (per worker) right after the drop of ID, i.e. while
			// the future generation is already filling; grow, shrink and same-size all occur.
			return c31Op{Op: "rotate", ID: id, Pct: rapid.SampledFrom([]int{52, 52, 60, 82}).Draw(t, "pre"),
				Maint: rapid.SampledFrom([]string{"before", "before", "before", "before", "none", "after"}).Draw(t, "maint"),
				RD:    rapid.SampledFrom([]int{0, 0, 64, 256, 1024}).Draw(t, "rd"),
				Look:  rapid.IntRange(0, 3).Draw(t, "look") != 0}
		case 5:
			return c31Op{Op: "span", ID: id, Kind: rapid.IntRange(0, 2).Draw(t, "kind")}
		case 6:
			return c31Op{Op: "trace", ID: id}
		case 7:
			return c31Op{Op: "resize", K: rapid.SampledFrom([]int{1, 2, 3, 8}).Draw(t, "k2"), D: rapid.SampledFrom([]int{64, 256, 1024}).Draw(t, "d2")}
		case 8:
			return c31Op{Op: "advance", Adv: rapid.SampledFrom([]string{"50us", "tick", "tick", "1ms"}).Draw(t, "adv")}
		case 9:
			return c31Op{Op: "advance", Adv: "interval"}
		default:
			return c31Op{Op: "advance", Adv: "ttl", ID: id, Delta: rapid.SampledFrom([]int64{-1, 0, 1}).Draw(t, "delta")}
		}
	})
	maxOps := 40
	if vkit.Thorough() {
		maxOps = 80 // long enough for several rotations of the smaller filters
	}
	c.Ops = rapid.SliceOfN(opGen, 3, maxOps).Draw(t, "ops")
	return c
}

// ---------- doubles ----------

type c31Metrics struct {
	mu        sync.Mutex
	loads     []float64
	queueFull int
}

func (m *c31Metrics) Register(metrics.Metadata) {}
func (m *c31Metrics) Increment(string)          {}
func (m *c31Metrics) Gauge(name string, v float64) {
	if name == cache.CurrentLoadFactor {
		m.mu.Lock()
		m.loads = append(m.loads, v)
		m.mu.Unlock()
	}
}
func (m *c31Metrics) Count(string, int64)       {}
func (m *c31Metrics) Histogram(string, float64) {}
func (m *c31Metrics) Up(name string) {
	if name == cache.AddQueueFull {
		m.mu.Lock()
		m.queueFull++
		m.mu.Unlock()
	}
}
func (m *c31Metrics) Down(string)                {}
func (m *c31Metrics) Store(string, float64)      {}
func (m *c31Metrics) Get(string) (float64, bool) { return 0, false }
func (m *c31Metrics) takeLoads() []float64 {
	m.mu.Lock()
	defer m.mu.Unlock()
	l := m.loads
	m.loads = nil
	return l
}

// ---------- reference model ----------

type c31Kept struct {
	id     string
	rate   uint
	reason string
	cnt    [4]uint // descendants, span events, links, spans
}

type c31Filter struct {
	gen     int // generation number
	slots   int
	n       int // inserts attempted (upper bound of the filter's count)
	tainted bool
	members map[string]bool
	copies  map[string]int // inserts of the same id (each takes a slot; an id has only 8 candidate slots)
}

// slots of a filter created for a capacity: buckets of 4, a power-of-two
// number of buckets, doubled when the capacity would load it above 96 %.
func c31NewFilter(capacity int, gen int) *c31Filter {
	nb := 1
	for nb < capacity/4 {
		nb <<= 1
	}
	if float64(capacity)/float64(nb*4) > 0.96 {
		nb <<= 1
	}
	return &c31Filter{gen: gen, slots: nb * 4, members: map[string]bool{}, copies: map[string]int{}}
}

func (f *c31Filter) insert(id string, tracked bool) {
	f.n++
	if tracked {
		f.copies[id]++
	}
	// no claims once the generation is loaded above 0.85 or one id has been
	// inserted so often that its two buckets overflow: failed insertions evict
	// a random fingerprint.
	if f.tainted || float64(f.n) > c31SafeLoad*float64(f.slots) || f.copies[id] > 6 {
		f.tainted = true
		f.members = map[string]bool{}
		return
	}
	f.members[id] = true
}

type c31Viol struct{ sig, detail string }

type c31Run struct {
	viol       []c31Viol
	classes    map[string]int
	evictions  int
	shrinks    int
	both       int
	rotations  int
	transition int // rotations into a generation of a different size (capacity change pending)
	queueFull  int
}

func (r *c31Run) violate(sig, f string, a ...any) {
	r.viol = append(r.viol, c31Viol{sig, fmt.Sprintf(f, a...)})
}

var c31T *testing.T

func c31Span(id string, kind int) *types.Span {
	ann := ""
	switch kind {
	case 1:
		ann = "span_event"
	case 2:
		ann = "link"
	}
	return &types.Span{Event: &types.Event{Data: types.Payload{MetaAnnotationType: ann}}, TraceID: id}
}

// c31Drive executes the case (ids salted) in a bubble and judges it online
// against the reference model; no rapid call happens in here.
func c31Drive(c c31Case, salt int) *c31Run {
	run := &c31Run{classes: map[string]int{}}
	name := func(i int) string { return fmt.Sprintf("trace-%d-%04d", salt, i) }
	tmBubble(c31T, func() {
		met := &c31Metrics{}
		mkCfg := func(k, d int) config.SampleCacheConfig {
			return config.SampleCacheConfig{KeptSize: uint(k * c.W), DroppedSize: uint(d * c.W), SizeCheckInterval: config.Duration(c.Interval), WorkerCount: uint(c.W)}
		}
		sc, err := cache.NewCuckooSentCache(mkCfg(c.K, c.D), met)
		if err != nil {
			panic(err)
		}
		defer sc.Stop()
		start := time.Now()
		now := func() time.Duration { return time.Since(start) }

		// model
		K := c.K
		var lru []c31Kept // oldest first
		gens := 0
		newFilter := func(capacity int) *c31Filter { gens++; return c31NewFilter(capacity, gens) }
		cur := newFilter(c.D)
		var fut *c31Filter
		capNext := c.D
		type pend struct {
			id string
			at time.Duration
		}
		var pending []pend       // recorded, not yet known to be drained into the filter (FIFO)
		recs := map[string]int{} // drop records per pool id
		recentAt := map[string]time.Duration{}
		fresh := 0

		// drain inserts the first n pending records into the model's generations
		drain := func(n int) {
			for _, pe := range pending[:n] {
				id := pe.id
				_, tracked := recs[id]
				cur.insert(id, tracked)
				// "the future generation exists from the moment the current one is
				// more than half loaded" (cuckoo.go drain): it is created, with the
				// capacity configured at that moment, right after the insertion that
				// takes the current generation above 0.5, and receives that record
				// too. The instant is exact only while every insertion so far has
				// succeeded (generation not tainted); otherwise nothing is claimed
				// from that future generation.
				if fut == nil && float64(cur.n)/float64(cur.slots) > 0.5 {
					fut = newFilter(capNext)
					fut.tainted = cur.tainted
				}
				if fut != nil {
					fut.insert(id, tracked)
				}
			}
			pending = append([]pend(nil), pending[n:]...)
		}
		maintain := func(load float64) {
			if fut == nil && load > 0.5 { // Maintain's own fallback; normally drain has done it
				fut = newFilter(capNext)
			}
			if load > 0.99 {
				if fut.slots != cur.slots {
					run.transition++
				}
				cur = fut
				fut = newFilter(capNext)
				run.rotations++
			}
		}
		// settle: let every due tick run, then fold what happened into the model
		settle := func(slept time.Duration) {
			synctest.Wait()
			loads := met.takeLoads()
			// a maintenance cycle drains the whole queue; otherwise a record is
			// certainly drained once a full drain period has passed since it was made
			n := 0
			if len(loads) > 0 {
				n = len(pending)
			} else {
				for n < len(pending) && now()-pending[n].at >= c31DrainTick {
					n++
				}
			}
			if n > 0 {
				drain(n)
			}
			for _, l := range loads {
				maintain(l)
			}
		}
		sleep := func(d time.Duration) {
			if d > 0 {
				time.Sleep(d)
			}
			settle(d)
		}
		recordDrop := func(id string, track bool) {
			if len(pending) >= cache.AddQueueDepth-1 { // never let the add queue overflow
				sleep(c31DrainTick)
			}
			tr := &types.Trace{TraceID: id}
			sc.Record(tr, false, "")
			pending = append(pending, pend{id, now()})
			if track { // bulk ids are never looked up
				recs[id]++
				recentAt[id] = now()
			}
		}
		bulk := func(n int) {
			for j := 0; j < n && j < 4000; j++ {
				recordDrop(fmt.Sprintf("bulk-%d-%d", salt, fresh), false)
				fresh++
			}
		}
		fillTo := func(pct int) { bulk(pct*cur.slots/100 - cur.n - len(pending)) }
		// ids whose latest drop record sits in a future generation that was
		// already filling when a Resize changed the dropped capacity
		type pre struct {
			gen int
			dir string
		}
		preResize := map[string]pre{}
		curD := c.D
		doResize := func(step, k, d int) {
			if err := sc.Resize(mkCfg(k, d)); err != nil {
				run.violate("C31/resize/error", "step %d: %v", step, err)
			}
			if len(lru) > k {
				lru = lru[len(lru)-k:]
				run.shrinks++
			}
			K = k
			// the new capacity applies to generations created from now on; a
			// future generation that is already filling keeps its size and its records
			capNext = d
			if d != curD && fut != nil && !fut.tainted {
				dir := "grow"
				if d < curD {
					dir = "shrink"
				}
				for id := range recs {
					if fut.members[id] {
						preResize[id] = pre{fut.gen, dir}
					}
				}
			}
			curD = d
		}
		find := func(id string) int {
			for i := range lru {
				if lru[i].id == id {
					return i
				}
			}
			return -1
		}

		lookup := func(step int, op c31Op) {
			id := name(op.ID)
			isSpan := op.Op == "span"
			t := now()
			var rec cache.TraceSentRecord
			var reason string
			var found bool
			if isSpan {
				rec, reason, found = sc.CheckSpan(c31Span(id, op.Kind))
			} else {
				rec, reason, found = sc.CheckTrace(id)
			}
			ans := "none"
			if found && rec != nil {
				if rec.Kept() {
					ans = "kept"
				} else {
					ans = "dropped"
				}
			} else if found != (rec != nil) {
				run.violate("C31/api/found-flag-disagrees-with-record", "step %d %s(%s): found=%v record=%v", step, op.Op, id, found, rec)
			}
			kind := "trace"
			if isSpan {
				kind = "span"
			}

			// ---- what must be answered 'dropped' ----
			mustRecent, mustFilterA := false, false
			if isSpan {
				if at, ok := recentAt[id]; ok && t-at < c31RecentTTL {
					mustRecent = true
				}
			}
			if cur.members[id] && !cur.tainted {
				mustFilterA = true // inserted (a drain has passed) into the generation that is current now
			}
			// DESIGN C31 (i)+(ii) (load at insertion < 0.85, fewer than 0.45 x slots
			// drop records since) needs no claim of its own: a record made above
			// 0.5 load is in both generations and survives the rotation; one made
			// at or below 0.5 is only discarded after >= 0.49 x slots later records.
			// While a capacity change is pending the two generations differ in
			// size; each is judged against its own slots (a smaller future
			// generation that has to absorb half of a larger one goes above 0.85
			// and then carries no claim).
			_, everDropped := recs[id]
			ki := find(id)
			if ki >= 0 && everDropped {
				run.both++
			}

			switch {
			case mustRecent || mustFilterA:
				run.classes["dropped:must(recent-set or current generation)"]++
				shape := ""
				if pr, ok := preResize[id]; ok && mustFilterA && pr.gen == cur.gen {
					// recorded above 50 % load, then a capacity-changing Resize, then a rotation, now looked up
					run.classes["dropped:must(recorded before a capacity-changing resize, rotated since; "+pr.dir+")"]++
					if !mustRecent {
						run.classes["dropped:must(recorded before a capacity-changing resize, rotated since; "+pr.dir+"; filter only)"]++
						shape = "/after-capacity-change"
					}
				}
				if ans != "dropped" {
					sub := "forgotten"
					if ans == "kept" {
						sub = "answered-kept"
					}
					sub += shape
					run.violate("C31/dropped/"+kind+"/"+sub, "step %d %s(%s) at %v answered %q; recent-set=%v current-generation=%v", step, op.Op, id, t, ans, mustRecent, mustFilterA)
				}
			case ki >= 0:
				run.classes["kept:must"]++
				switch ans {
				case "none":
					run.violate("C31/kept/"+kind+"/forgotten", "step %d %s(%s): not found although it is among the %d most recently recorded/consulted kept decisions (capacity %d): %s", step, op.Op, id, len(lru), K, c31LRU(lru))
				case "dropped":
					if everDropped {
						run.classes["both:answered-dropped-beyond-guarantee"]++
					} else {
						run.violate("C31/kept/"+kind+"/answered-dropped-never-recorded-dropped", "step %d %s(%s): answered dropped, was only ever recorded kept", step, op.Op, id)
					}
				}
			default:
				run.classes["lookup:no-obligation"]++
			}

			// ---- follow the answer ----
			if ans == "dropped" && isSpan {
				recentAt[id] = t // CheckSpan refreshes the recent-drop TTL on a dropped answer
			}
			if ans == "kept" {
				if ki < 0 {
					run.classes["kept:remembered-beyond-reference"]++
					return
				}
				e := lru[ki]
				if isSpan {
					e.cnt[0]++
					switch op.Kind {
					case 1:
						e.cnt[1]++
					case 2:
						e.cnt[2]++
					default:
						e.cnt[3]++
					}
				}
				if rec.Rate() != e.rate {
					run.violate("C31/kept/"+kind+"/wrong-rate", "step %d %s(%s): rate %d, recorded %d", step, op.Op, id, rec.Rate(), e.rate)
				}
				if reason != e.reason {
					run.violate("C31/kept/"+kind+"/wrong-reason", "step %d %s(%s): reason %q, recorded %q", step, op.Op, id, reason, e.reason)
				}
				got := [4]uint{rec.DescendantCount(), rec.SpanEventCount(), rec.SpanLinkCount(), rec.SpanCount()}
				if got != e.cnt {
					run.violate("C31/kept/"+kind+"/wrong-counts", "step %d %s(%s): counts (descendants, events, links, spans) %v, reference %v", step, op.Op, id, got, e.cnt)
				}
				// recency bump
				lru = append(append(lru[:ki:ki], lru[ki+1:]...), e)
			}
		}

		for i, op := range c.Ops {
			switch op.Op {
			case "keep":
				if op.ID < 0 || op.Reason < 0 || op.Reason >= len(c31Reasons) {
					continue
				}
				id := name(op.ID)
				tr := &types.Trace{TraceID: id}
				tr.SetSampleRate(op.Rate)
				for k := 0; k < 3; k++ {
					for j := 0; j < op.Spans[k] && j < 8; j++ {
						tr.AddSpan(c31Span(id, []int{0, 1, 2}[k]))
					}
				}
				sc.Record(tr, true, c31Reasons[op.Reason])
				e := c31Kept{id: id, rate: op.Rate, reason: c31Reasons[op.Reason]}
				ns, ne, nl := uint(min(op.Spans[0], 8)), uint(min(op.Spans[1], 8)), uint(min(op.Spans[2], 8))
				e.cnt = [4]uint{ns + ne + nl, ne, nl, ns}
				if ki := find(id); ki >= 0 {
					lru = append(lru[:ki:ki], lru[ki+1:]...)
				}
				lru = append(lru, e)
				if len(lru) > K {
					lru = lru[len(lru)-K:]
					run.evictions++
				}
			case "drop":
				if op.ID >= 0 {
					recordDrop(name(op.ID), true)
				}
			case "dropmany":
				bulk(op.N)
			case "fill":
				fillTo(op.Pct)
			case "rotate":
				if op.ID < 0 {
					continue
				}
				fillTo(op.Pct)
				if op.Maint == "before" {
					sleep(time.Duration(c.Interval))
				}
				recordDrop(name(op.ID), true)
				if op.Maint == "after" {
					sleep(time.Duration(c.Interval))
				}
				if op.RD >= 4 {
					sleep(c31DrainTick) // the drop of ID reaches the filters before the reload
					doResize(i, K, op.RD)
				}
				fillTo(125)
				sleep(time.Duration(c.Interval))
				if op.Look {
					lookup(i, c31Op{Op: "trace", ID: op.ID})
					settle(0)
				}
				continue
			case "span", "trace":
				if op.ID >= 0 {
					lookup(i, op)
				}
			case "resize":
				if op.K < 1 || op.D < 4 {
					continue
				}
				doResize(i, op.K, op.D)
			case "advance":
				d := time.Millisecond
				switch op.Adv {
				case "50us":
					d = 50 * time.Microsecond
				case "tick":
					d = c31DrainTick
				case "interval":
					d = time.Duration(c.Interval)
				case "ttl":
					if at, ok := recentAt[name(op.ID)]; ok {
						if target := at + c31RecentTTL + time.Duration(op.Delta); target >= now() {
							d = target - now()
						}
					}
				}
				sleep(d)
				continue
			}
			settle(0)
		}
		run.queueFull = met.queueFull
	})
	return run
}

func c31LRU(l []c31Kept) string {
	ids := make([]string, len(l))
	for i, e := range l {
		ids[i] = e.id
	}
	return "[" + strings.Join(ids, " ") + "] (oldest first)"
}

func execC31(c c31Case) vkit.Result {
	var res vkit.Result
	if c.K < 1 || c.D < 4 || c.W < 1 || c.Interval < int64(time.Second) || c.Pool < 1 {
		res.Class("invalid-case")
		return res
	}
	run := c31Drive(c, 0)
	if len(run.viol) > 0 {
		// rename-and-retry: filter false positives and the filter's random
		// kick-outs depend on the ids; only a verdict that survives re-salting
		// all trace ids is reported.
		again := c31Drive(c, 1)
		sigs := map[string]bool{}
		for _, v := range again.viol {
			sigs[v.sig] = true
		}
		for _, v := range run.viol {
			if sigs[v.sig] {
				res.Violate(v.sig, "%s", v.detail)
			} else {
				res.Class("suspected_false_positive_of_filter")
			}
		}
	}
	if run.queueFull > 0 {
		res.Violate("harness/c31-add-queue-overflow", "the harness let the add queue overflow %d times", run.queueFull)
	}
	keys := make([]string, 0, len(run.classes))
	for k := range run.classes {
		keys = append(keys, k)
	}
	sort.Strings(keys)
	for _, k := range keys {
		res.Class(k)
	}
	if run.evictions > 0 {
		res.Class("has-eviction")
	}
	if run.shrinks > 0 {
		res.Class("has-shrinking-resize")
	}
	if run.both > 0 {
		res.Class("has-lookup-of-id-recorded-kept-and-dropped")
	}
	if run.rotations > 0 {
		res.Class("has-filter-rotation")
	}
	if run.transition > 0 {
		res.Class("has-rotation-between-generations-of-different-size")
	}
	res.NonTrivial = run.evictions > 0 || run.shrinks > 0 || run.both > 0
	return res
}

func TestC31(t *testing.T) {
	c31T = t
	vkit.Run(t, vkit.Spec[c31Case]{
		ID: "C31",
		Rule: "rapid-generated histories (3-40 ops, 3-80 in the thorough tier) of Record(kept: rate, reason, span counts) / Record(dropped) / bulk drops (incl. fills aimed at 45..125 % of the filter's slots) / CheckSpan(annotation type) / CheckTrace / Resize(K,D) (also aimed: right after a drop recorded above 50 % load, growing and shrinking, followed by a rotation and a lookup) / advance " +
			"(50 us, 100 us drain tick, 1 ms, SizeCheckInterval, recent-drop TTL +-1 ns) against cache.NewCuckooSentCache in a synctest bubble; K in {1,2,3,8} with an id pool of K+1..K+2, D in {64,256,1024}; every lookup is judged against a reference LRU (kept side) " +
			"and a conservative two-generation reference (dropped side; a generation carries claims only up to 0.85 of its own slots, so records that have to survive in a shrunken generation during a pending capacity change are don't-care). Non-trivial: an eviction from the reference LRU, a resize below the current size, or a lookup of an id recorded both kept and dropped. Distinct = distinct case JSON.",
		Assumptions: []string{
			"testing/synctest virtual time stands in for the real clock",
			"kept side: a lookup bumps recency only when it is answered 'kept'; answers 'kept' for ids the reference has already evicted are not judged (one-directional statement)",
			"dropped side: a drop record is claimed remembered (a) by CheckSpan for < 3 s after the record or the last 'dropped' CheckSpan answer, (b) while it sits in the generation that is current now and that generation's modelled insert count is <= 0.85 of its own slots and no id has been inserted into it more than 6 times",
			"generations follow the documented behaviour: the future generation exists from the moment the current one is more than half loaded (created in drain with the capacity configured at that moment) and receives every later record; rotation instants are taken from the cuckoo_current_load_factor gauge (rotation at > 0.99). DESIGN's rule (load at insertion < 0.85 and < 0.45 x slots later records) is implied by (b) for generations of equal size",
			"capacity change (Resize): the new capacity applies to generations created afterwards; a future generation that is already filling keeps its size and its records, so a drop recorded above 50 % load stays claimed across a growing or shrinking Resize and the following rotation (>= 0.5 x the old generation's slots of further records), except while the current generation is between 0.85 load and its rotation",
			"capacity change (Resize): each generation is judged against its own size; while the change is pending a smaller future generation that must absorb half of a larger current one goes above 0.85 load and then carries no claim - records made during the transition are don't-care once that generation becomes current",
			"CheckTrace is judged for a dropped id only after a drain tick (>= 100 us) has passed; the harness never lets more than 1000 adds queue up",
			"filter false positives: a violation is reported only if it reproduces with all trace ids re-salted",
			"SizeCheckInterval >= 1 s (configuration validation)",
		},
		Gen:  genC31,
		Exec: execC31,
	})
}
