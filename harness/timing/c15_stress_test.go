package timing

import (
	"context"
	"fmt"
	"sort"
	"sync"
	"testing"
	"time"

	"github.com/honeycombio/refinery/collect"
	"github.com/honeycombio/refinery/config"
	"github.com/honeycombio/refinery/internal/peer"
	"github.com/honeycombio/refinery/logger"
	"github.com/honeycombio/refinery/metrics"
	"github.com/honeycombio/refinery/pubsub"
	"github.com/honeycombio/refinery/verifharness/vkit"
	"github.com/jonboulle/clockwork"
	"pgregory.net/rapid"
)

// C15: stress relief switches with hysteresis on a bounded stress level.
//
// SUT: the real collect.StressRelief. The harness owns the clock (a
// clockwork.FakeClock whose tickers never fire, so the background goroutine
// started by Start() never recalculates), calls Recalc() itself, supplies the
// queue/memory gauges through a metrics double and delivers peer reports
// synchronously through a pubsub double. The oracle is the automaton of the
// statement, written from the statement and the configuration reference.

// ---------- doubles (observation / control only) ----------

type c15NeverTicker struct{ ch chan time.Time }

func (t c15NeverTicker) Chan() <-chan time.Time { return t.ch }
func (t c15NeverTicker) Reset(time.Duration)    {}
func (t c15NeverTicker) Stop()                  {}

// c15Clock delegates everything to a fake clock except tickers, which never tick.
type c15Clock struct{ *clockwork.FakeClock }

func (c c15Clock) NewTicker(time.Duration) clockwork.Ticker {
	return c15NeverTicker{ch: make(chan time.Time)}
}

type c15Metrics struct {
	mu   sync.Mutex
	vals map[string]float64
}

func (m *c15Metrics) set(name string, v float64) {
	m.mu.Lock()
	defer m.mu.Unlock()
	m.vals[name] = v
}
func (m *c15Metrics) Register(metrics.Metadata)    {}
func (m *c15Metrics) Increment(string)             {}
func (m *c15Metrics) Gauge(name string, v float64) { m.set(name, v) }
func (m *c15Metrics) Count(string, int64)          {}
func (m *c15Metrics) Histogram(string, float64)    {}
func (m *c15Metrics) Up(string)                    {}
func (m *c15Metrics) Down(string)                  {}
func (m *c15Metrics) Store(name string, v float64) { m.set(name, v) }
func (m *c15Metrics) Get(name string) (float64, bool) {
	m.mu.Lock()
	defer m.mu.Unlock()
	v, ok := m.vals[name]
	return v, ok
}

type c15Sub struct{}

func (c15Sub) Close() {}

// c15PubSub delivers what the harness hands it, synchronously, to the
// subscribers of the stress relief topic; Publish (the SUT's own reports) is
// only counted.
type c15PubSub struct {
	mu        sync.Mutex
	subs      map[string][]pubsub.SubscriptionCallback
	published int
}

func (p *c15PubSub) Publish(context.Context, string, string) error {
	p.mu.Lock()
	p.published++
	p.mu.Unlock()
	return nil
}
func (p *c15PubSub) Subscribe(_ context.Context, topic string, cb pubsub.SubscriptionCallback) pubsub.Subscription {
	p.mu.Lock()
	defer p.mu.Unlock()
	p.subs[topic] = append(p.subs[topic], cb)
	return c15Sub{}
}
func (p *c15PubSub) FormatTopic(topic string) string { return topic }
func (p *c15PubSub) Close()                          {}
func (p *c15PubSub) Start() error                    { return nil }
func (p *c15PubSub) Stop() error                     { return nil }
func (p *c15PubSub) deliver(msg string) int {
	p.mu.Lock()
	var cbs []pubsub.SubscriptionCallback
	for _, l := range p.subs {
		cbs = append(cbs, l...)
	}
	p.mu.Unlock()
	for _, cb := range cbs {
		cb(context.Background(), msg)
	}
	return len(cbs)
}

type c15Health struct{ unregistered chan struct{} }

func (h *c15Health) Register(string, time.Duration) {}
func (h *c15Health) Ready(string, bool)             {}
func (h *c15Health) Unregister(string) {
	select {
	case h.unregistered <- struct{}{}:
	default:
	}
}

// ---------- case ----------

type c15Cfg struct {
	Mode   string `json:"mode"` // never | monitor | always
	Act    uint   `json:"act"`
	Deact  uint   `json:"deact"` // < Act (configuration reference: "must be less than ActivationLevel")
	MinDur int64  `json:"min_dur"`
}

type c15Op struct {
	Op string `json:"op"` // own | peer | advance | reload | recalc
	// own: set one gauge source so that its contribution is about Level
	Source string `json:"source,omitempty"` // incoming | peerq | mem | all
	Level  int    `json:"level,omitempty"`  // own: target 0..120 (queues) / percent of MaxAlloc (mem); peer: reported level 0..100
	Peer   int    `json:"peer,omitempty"`   // peer / advance aim "peer"
	// advance: Aim "" = D ns; "peer" = to expiry instant of Peer's report + D; "hold" = to (last at-or-above instant)+MinimumActivationDuration + D
	Aim string  `json:"aim,omitempty"`
	D   int64   `json:"d,omitempty"`
	Cfg *c15Cfg `json:"cfg,omitempty"`
	// NoRecalc: do not recalculate after this op (the next recalculation sees the combined change)
	NoRecalc bool `json:"no_recalc,omitempty"`
}

type c15Case struct {
	Init c15Cfg  `json:"init"`
	Ops  []c15Op `json:"ops"`
}

var c15Peers = []string{"p1", "p2", "p3"}
var c15Levels = []int{0, 1, 10, 49, 50, 51, 74, 75, 76, 89, 90, 91, 99, 100}
var c15MinDurs = []int64{0, 1, int64(time.Second), int64(5 * time.Second), int64(10 * time.Second), int64(30 * time.Second)}

func genC15Cfg(t *rapid.T) c15Cfg {
	c := c15Cfg{}
	c.Mode = rapid.SampledFrom([]string{"monitor", "monitor", "monitor", "monitor", "monitor", "monitor", "never", "always"}).Draw(t, "mode")
	c.Act = uint(rapid.SampledFrom([]int{1, 50, 75, 90, 90, 100}).Draw(t, "act"))
	// deact < act by construction
	cands := []int{}
	for _, d := range []int{0, 1, 49, 50, 50, 74, 75, 75, 89, 99} {
		if uint(d) < c.Act {
			cands = append(cands, d)
		}
	}
	c.Deact = uint(rapid.SampledFrom(cands).Draw(t, "deact"))
	c.MinDur = rapid.SampledFrom(c15MinDurs).Draw(t, "mindur")
	return c
}

func genC15(t *rapid.T) c15Case {
	c := c15Case{Init: genC15Cfg(t)}
	opGen := rapid.Custom(func(t *rapid.T) c15Op {
		kind := rapid.IntRange(0, 19).Draw(t, "opkind")
		skip := rapid.IntRange(0, 4).Draw(t, "norecalc") == 0
		switch {
		case kind <= 5:
			src := rapid.SampledFrom([]string{"all", "all", "all", "incoming", "incoming", "peerq", "mem"}).Draw(t, "source")
			lv := rapid.SampledFrom(append([]int{120}, c15Levels...)).Draw(t, "level")
			return c15Op{Op: "own", Source: src, Level: lv, NoRecalc: skip}
		case kind <= 10:
			lv := rapid.SampledFrom(c15Levels).Draw(t, "level")
			if rapid.IntRange(0, 3).Draw(t, "anylevel") == 0 {
				lv = rapid.IntRange(0, 100).Draw(t, "lv")
			}
			return c15Op{Op: "peer", Peer: rapid.IntRange(0, len(c15Peers)-1).Draw(t, "peer"), Level: lv, NoRecalc: skip}
		case kind <= 12:
			return c15Op{Op: "advance", Aim: "peer", Peer: rapid.IntRange(0, len(c15Peers)-1).Draw(t, "peer"), D: rapid.SampledFrom([]int64{-1, 0, 0, 1}).Draw(t, "delta")}
		case kind <= 14:
			return c15Op{Op: "advance", Aim: "hold", D: rapid.SampledFrom([]int64{-1, 0, 0, 1}).Draw(t, "delta")}
		case kind <= 16:
			return c15Op{Op: "advance", D: rapid.SampledFrom([]int64{1, int64(100 * time.Millisecond), int64(time.Second), int64(5 * time.Second),
				int64(10*time.Second) - 1, int64(10 * time.Second), int64(10*time.Second) + 1, int64(30 * time.Second)}).Draw(t, "d")}
		case kind == 17:
			cfg := genC15Cfg(t)
			return c15Op{Op: "reload", Cfg: &cfg, NoRecalc: skip}
		default:
			return c15Op{Op: "recalc"}
		}
	})
	c.Ops = rapid.SliceOfN(opGen, 1, 40).Draw(t, "ops")
	return c
}

// ---------- reference pieces ----------

// c15RmsRange returns the integers r with |r - rms(levels)| < 1 (floor and, if
// the rms is not an integer, ceil), computed exactly in integers; rms of an
// empty list is 0.
func c15RmsRange(levels []uint64) (lo, hi uint64) {
	if len(levels) == 0 {
		return 0, 0
	}
	var total uint64
	for _, l := range levels {
		total += l * l
	}
	n := uint64(len(levels))
	k := uint64(0)
	for (k+1)*(k+1)*n <= total {
		k++
	}
	if k*k*n == total {
		return k, k
	}
	return k, k + 1
}

type c15Report struct {
	level uint64
	at    time.Time
	seen  bool // has taken part in a recalculation while unexpired
	gone  bool // a recalculation has seen it expired
}

func execC15(c c15Case) vkit.Result {
	var res vkit.Result
	base := time.Unix(1_700_000_000, 0)
	fc := clockwork.NewFakeClockAt(base)
	mx := &c15Metrics{vals: map[string]float64{}}
	ps := &c15PubSub{subs: map[string][]pubsub.SubscriptionCallback{}}
	hl := &c15Health{unregistered: make(chan struct{}, 1)}
	mkCfg := func(k c15Cfg) *config.MockConfig {
		return &config.MockConfig{StressRelief: config.StressReliefConfig{
			Mode: k.Mode, ActivationLevel: k.Act, DeactivationLevel: k.Deact, SamplingRate: 10,
			MinimumActivationDuration: config.Duration(k.MinDur),
		}}
	}
	sr := &collect.StressRelief{
		Clock: c15Clock{fc}, Done: make(chan struct{}), Logger: &logger.NullLogger{}, RefineryMetrics: mx,
		PubSub: ps, Health: hl, Peer: peer.NewMockPeers([]string{"self"}, "self"), Config: mkCfg(c.Init),
	}
	const capQ, maxAlloc = 10000.0, 1e9
	mx.Store(collect.DENOMINATOR_INCOMING_CAP, capQ)
	mx.Store(collect.DENOMINATOR_PEER_CAP, capQ)
	mx.Store(collect.DENOMINATOR_MEMORY_MAX_ALLOC, maxAlloc)
	if err := sr.Start(); err != nil {
		res.Violate("harness/c15-start", "%v", err)
		return res
	}
	defer func() {
		close(sr.Done)
		select {
		case <-hl.unregistered: // the monitor goroutine has left its loop
		case <-time.After(5 * time.Second):
		}
	}()
	sr.UpdateFromConfig() // as InMemCollector.Start does

	cfg := c.Init
	timeout := peer.PeerEntryTimeout
	reports := map[int]*c15Report{}
	anchorValid := false
	var anchorT time.Time
	holdAttempts, expiries, transitions := 0, 0, 0

	recalc := func(step int) {
		prevOn := sr.Stressed()
		own := uint64(sr.Recalc())
		now := fc.Now()
		lvF, okL := mx.Get("stress_level")
		indF, _ := mx.Get("individual_stress_level")
		on := sr.Stressed()
		if !okL || lvF < 0 || lvF != float64(uint64(lvF)) {
			res.Violate("C15/level/gauge-missing-or-not-integral", "step %d: stress_level gauge = %v (present %v)", step, lvF, okL)
			return
		}
		level := uint64(lvF)
		if own > 100 || uint64(indF) != own {
			res.Violate("C15/level/own-level-out-of-range", "step %d: Recalc()=%d individual_stress_level=%v", step, own, indF)
		}

		// --- level = max(own, rms of recent non-zero reports incl. own) ---
		var certain []uint64
		var boundary []uint64
		if own > 0 {
			certain = append(certain, own)
		}
		idx := make([]int, 0, len(reports))
		for p := range reports {
			idx = append(idx, p)
		}
		sort.Ints(idx)
		for _, p := range idx {
			r := reports[p]
			age := now.Sub(r.at)
			switch {
			case age < timeout:
				r.seen = true
				if r.level > 0 {
					certain = append(certain, r.level)
				}
			case age == timeout:
				if r.seen && !r.gone {
					expiries++
					res.Class("peer-report-at-exact-expiry-instant")
				}
				r.seen = true
				if r.level > 0 {
					boundary = append(boundary, r.level)
				}
			default:
				if !r.gone {
					r.gone = true
					if r.seen {
						expiries++
						res.Class("peer-report-expired")
					}
				}
			}
		}
		okLevel := false
		var accepted []string
		for mask := 0; mask < 1<<len(boundary); mask++ {
			ls := append([]uint64(nil), certain...)
			for b, l := range boundary {
				if mask&(1<<b) != 0 {
					ls = append(ls, l)
				}
			}
			lo, hi := c15RmsRange(ls)
			for r := lo; r <= hi; r++ {
				want := r
				if own > want {
					want = own
				}
				accepted = append(accepted, fmt.Sprint(want))
				if want == level {
					okLevel = true
				}
			}
		}
		if !okLevel {
			res.Violate("C15/level/not-max-of-own-and-rms", "step %d: stress_level=%d, own=%d, unexpired non-zero reports (incl. own)=%v, at exact expiry=%v; accepted %v",
				step, level, own, certain, boundary, accepted)
		}
		if level > 100 {
			res.Violate("C15/level/above-100", "step %d: stress_level=%d although own level and all peer reports are within 0..100", step, level)
		}

		// --- activation automaton ---
		switch cfg.Mode {
		case "never":
			anchorValid = false
			if on {
				res.Violate("C15/never/relief-on", "step %d: mode never, Stressed()=true after recalculation (level %d)", step, level)
			}
		case "always":
			anchorValid = false
			if !on {
				res.Violate("C15/always/relief-off", "step %d: mode always, Stressed()=false after recalculation (level %d)", step, level)
			}
		case "monitor":
			switch {
			case !prevOn && level >= uint64(cfg.Act):
				res.Class("monitor:activation")
				if !on {
					res.Violate("C15/monitor/not-activated-at-activation-level", "step %d: level %d >= ActivationLevel %d but relief stayed off", step, level, cfg.Act)
				}
			case !prevOn:
				if on {
					res.Violate("C15/monitor/activated-below-activation-level", "step %d: level %d < ActivationLevel %d but relief switched on", step, level, cfg.Act)
				}
			case level >= uint64(cfg.Deact):
				res.Class("monitor:held-by-level")
				if !on {
					res.Violate("C15/monitor/deactivated-at-or-above-deactivation-level", "step %d: level %d >= DeactivationLevel %d but relief switched off", step, level, cfg.Deact)
				}
			case !anchorValid:
				// relief is on without an at-or-above observation under the
				// current configuration (mode/threshold/duration reload mid-episode):
				// the statement does not fix the hold deadline; either answer.
				res.Class("monitor:below-deactivation/no-anchor(after-reload)")
			default:
				elapsed := now.Sub(anchorT)
				minDur := time.Duration(cfg.MinDur)
				switch {
				case elapsed < minDur:
					holdAttempts++
					res.Class("monitor:below-deactivation/inside-min-duration")
					if !on {
						res.Violate("C15/monitor/deactivated-inside-minimum-duration",
							"step %d: level %d < DeactivationLevel %d but only %v of MinimumActivationDuration %v have passed since the level was last at or above it", step, level, cfg.Deact, elapsed, minDur)
					}
				case elapsed > minDur:
					res.Class("monitor:below-deactivation/after-min-duration")
					if on {
						res.Violate("C15/monitor/still-on-after-minimum-duration",
							"step %d: level %d < DeactivationLevel %d and %v > MinimumActivationDuration %v have passed since it was last at or above it, but relief is still on", step, level, cfg.Deact, elapsed, minDur)
					}
				default:
					res.Class("monitor:below-deactivation/exact-deadline")
				}
			}
			if on && level >= uint64(cfg.Deact) {
				anchorValid, anchorT = true, now
			}
			if !on {
				anchorValid = false
			}
		}
		if prevOn != on {
			transitions++
		}
	}

	for i, op := range c.Ops {
		switch op.Op {
		case "own":
			l := float64(op.Level)
			switch op.Source {
			case "peerq":
				mx.Gauge(collect.NUMERATOR_PEER_QUEUE, l*l+0.5)
			case "mem":
				mx.Gauge(collect.NUMERATOR_MEMORY_HEAP_ALLOC, l/100*maxAlloc)
			case "all":
				mx.Gauge(collect.NUMERATOR_INCOMING_QUEUE, l*l+0.5)
				mx.Gauge(collect.NUMERATOR_PEER_QUEUE, l*l+0.5)
				mx.Gauge(collect.NUMERATOR_MEMORY_HEAP_ALLOC, 0)
			default:
				mx.Gauge(collect.NUMERATOR_INCOMING_QUEUE, l*l+0.5)
			}
		case "peer":
			if op.Peer < 0 || op.Peer >= len(c15Peers) || op.Level < 0 || op.Level > 100 {
				continue
			}
			if n := ps.deliver(fmt.Sprintf("%s|%d", c15Peers[op.Peer], op.Level)); n != 1 {
				res.Violate("harness/c15-subscribers", "step %d: %d subscribers", i, n)
				return res
			}
			reports[op.Peer] = &c15Report{level: uint64(op.Level), at: fc.Now()}
		case "advance":
			d := op.D
			if d < 0 {
				d = -d
			}
			switch op.Aim {
			case "peer":
				if r, ok := reports[op.Peer]; ok {
					if target := r.at.Add(timeout).Add(time.Duration(op.D)); !target.Before(fc.Now()) {
						d = int64(target.Sub(fc.Now()))
					}
				}
			case "hold":
				if anchorValid {
					if target := anchorT.Add(time.Duration(cfg.MinDur)).Add(time.Duration(op.D)); !target.Before(fc.Now()) {
						d = int64(target.Sub(fc.Now()))
					}
				}
			}
			fc.Advance(time.Duration(d))
		case "reload":
			if op.Cfg == nil || op.Cfg.Deact >= op.Cfg.Act {
				continue
			}
			n := *op.Cfg
			if n.Mode != cfg.Mode || n.Deact != cfg.Deact || n.MinDur != cfg.MinDur {
				anchorValid = false
				res.Class("reload-changes-hold-parameters")
			}
			cfg = n
			sr.Config = mkCfg(n)
			sr.UpdateFromConfig()
		}
		if !op.NoRecalc {
			recalc(i)
		}
	}
	if holdAttempts > 0 {
		res.Class("has-deactivation-attempt-inside-min-duration")
	}
	if expiries > 0 {
		res.Class("has-peer-report-expiry")
	}
	if transitions > 0 {
		res.Class("has-transition")
	}
	res.Class("init-mode=" + c.Init.Mode)
	res.NonTrivial = holdAttempts > 0 || expiries > 0
	return res
}

func TestC15(t *testing.T) {
	vkit.Run(t, vkit.Spec[c15Case]{
		ID: "C15",
		Rule: "rapid-generated histories (1-40 ops) of gauge changes (incoming/peer queue, heap), peer reports (3 peers, levels 0..100), clock advances (aimed at the exact expiry of a peer report and at last-at-or-above+MinimumActivationDuration, +-1 ns), " +
			"mode/threshold/duration reloads and recalculations against the real collect.StressRelief; the harness owns the clock and calls Recalc; after every recalculation the stress_level gauge and Stressed() are compared with the reference automaton. " +
			"Non-trivial: a recalculation with relief on, level below DeactivationLevel and less than MinimumActivationDuration since the last at-or-above observation, or a peer report that expires. Distinct = distinct case JSON.",
		Assumptions: []string{
			"clockwork.FakeClock stands in for the real clock; the background goroutine is kept from recalculating (its ticker never fires), so the level only changes at harness-issued Recalc calls",
			"the own level is taken from Recalc()'s return value (the statement does not fix how it is derived from queue/memory readings); it must lie in 0..100",
			"the rms is taken over the latest unexpired non-zero report of each peer AND the node's own non-zero level (clusterStressLevel inserts the node's own report: 'the stress levels reported by each node'); rounding to floor or ceil is accepted",
			"a report whose age equals PeerEntryTimeout exactly may be counted or not",
			"DeactivationLevel < ActivationLevel (configuration reference) and peer levels within 0..100 are construction constraints",
			"'last at or above' is sampled at recalculations; after a reload that changes mode, DeactivationLevel or MinimumActivationDuration while relief is on, the hold deadline of that episode is don't-care until the level is next observed at or above DeactivationLevel; at exactly MinimumActivationDuration either answer is accepted",
		},
		Gen:  genC15,
		Exec: execC15,
	})
}
