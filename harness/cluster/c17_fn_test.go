package cluster

import (
	"fmt"
	"sort"
	"testing"

	"github.com/honeycombio/refinery/config"
	"github.com/honeycombio/refinery/internal/peer"
	"github.com/honeycombio/refinery/logger"
	"github.com/honeycombio/refinery/sharder"
	"github.com/honeycombio/refinery/verifharness/vkit"
	"pgregory.net/rapid"
)

// C17 part 1 (function level): every node that sees the same list of peer
// addresses, in any order, computes the same owner for any trace id, and the
// owner is a member of the list.
//
// Oracle = metamorphic: the owner computed by a reference sharder (list in
// generated order, own address = first member) must be reproduced by every
// sharder built from a permutation of the list, whichever member it believes
// itself to be, and whether it got the list at start or through a peer update.

type c17Case struct {
	Peers []string `json:"peers"` // distinct addresses, generated order
	// Perms: sampled permutations (index vectors) used when len(Peers) > 5;
	// for len(Peers) <= 5 every permutation is enumerated.
	Perms [][]int `json:"perms,omitempty"`
	// DupSelf: additionally build, for each member m, the list FilePeers hands
	// out when the operator's file lists all nodes: Peers + [m].
	DupSelf bool `json:"dup_self,omitempty"`
	// Prior: if non-empty, additionally a sharder is started on Prior+[own] and
	// then updated to a permutation of Peers through the peers callback.
	Prior    []string `json:"prior,omitempty"`
	TraceIDs []string `json:"trace_ids,omitempty"`
	// Cluster: if set, the case is an in-process cluster history (part 2) and
	// the fields above are unused.
	Cluster *c17Cluster `json:"cluster,omitempty"`
}

var c17Hosts = []string{
	"10.0.0.1", "10.0.0.2", "10.0.0.10", "10.0.0.11", "10.0.1.1", "192.168.1.1", "172.16.0.3", "127.0.0.1",
	"refinery-0", "refinery-1", "refinery-10", "refinery-2.refinery.svc.cluster.local", "refinery-1.refinery.svc.cluster.local",
	"localhost", "[fe80::1]", "[2001:db8::2]", "[::1]", "REFINERY-0", "a", "b",
}
var c17Ports = []string{"8081", "8082", "80", "443", "18081", ""}
var c17Schemes = []string{"http://", "http://", "http://", "https://"}

func genC17Addr(t *rapid.T) string {
	if rapid.IntRange(0, 9).Draw(t, "addrkind") == 0 {
		// free-form host label
		h := rapid.StringMatching(`[a-z][a-z0-9\-]{0,12}(\.[a-z]{2,5})?`).Draw(t, "host")
		return "http://" + h + ":" + rapid.SampledFrom([]string{"8081", "9000"}).Draw(t, "port")
	}
	s := rapid.SampledFrom(c17Schemes).Draw(t, "scheme")
	h := rapid.SampledFrom(c17Hosts).Draw(t, "host")
	p := rapid.SampledFrom(c17Ports).Draw(t, "port")
	if p == "" {
		return s + h
	}
	return s + h + ":" + p
}

func genC17TraceID(t *rapid.T) string {
	switch rapid.IntRange(0, 7).Draw(t, "tidkind") {
	case 0, 1, 2:
		return rapid.StringMatching(`[0-9a-f]{32}`).Draw(t, "tid32")
	case 3:
		return rapid.StringMatching(`[0-9a-f]{16}`).Draw(t, "tid16")
	case 4:
		return rapid.SampledFrom([]string{"RCIVNUNA", "test", "1", "2", "0", "00000000000000000000000000000000", "ffffffffffffffffffffffffffffffff"}).Draw(t, "tidconst")
	case 5:
		return rapid.StringMatching(`[0-9]{1,6}`).Draw(t, "tiddec")
	case 6:
		return rapid.StringN(1, 24, 64).Draw(t, "tidany")
	default:
		return rapid.StringMatching(`[0-9a-f]{8}-[0-9a-f]{4}-[0-9a-f]{4}-[0-9a-f]{4}-[0-9a-f]{12}`).Draw(t, "tiduuid")
	}
}

// c17ClusterOneIn: one generated case in N is a cluster history (wall-clock
// based and ~100x more expensive than a function-level case).
func c17ClusterOneIn() int {
	if vkit.Thorough() {
		return 12
	}
	return 40
}

func genC17(t *rapid.T) c17Case {
	var c c17Case
	// (modulo of a wide draw: rapid's IntRange is biased towards the bounds)
	if n := uint64(c17ClusterOneIn()); rapid.Uint64().Draw(t, "iscluster")%n == n/2 {
		c.Cluster = genC17Cluster(t)
		return c
	}
	// sizes: bias to the exhaustively permuted ones, but cover up to 12
	n := rapid.SampledFrom([]int{1, 2, 2, 3, 3, 4, 4, 5, 5, 6, 7, 8, 9, 10, 11, 12}).Draw(t, "n")
	c.Peers = rapid.SliceOfNDistinct(rapid.Custom(genC17Addr), n, n, rapid.ID[string]).Draw(t, "peers")
	if n > 5 {
		k := rapid.IntRange(2, 8).Draw(t, "nperms")
		for i := 0; i < k; i++ {
			idx := make([]int, n)
			for j := range idx {
				idx[j] = j
			}
			c.Perms = append(c.Perms, rapid.Permutation(idx).Draw(t, "perm"))
		}
	}
	c.DupSelf = rapid.IntRange(0, 3).Draw(t, "dupself") == 0
	if rapid.IntRange(0, 3).Draw(t, "prior") == 0 {
		c.Prior = rapid.SliceOfNDistinct(rapid.Custom(genC17Addr), 0, 4, rapid.ID[string]).Draw(t, "priorlist")
		if c.Prior == nil {
			c.Prior = []string{}
		}
		// a non-nil empty Prior still means "exercise the update path" (start on [own] only)
		c.Prior = append(c.Prior, "http://prior-only:1")
	}
	c.TraceIDs = rapid.SliceOfN(rapid.Custom(genC17TraceID), 1, 24).Draw(t, "tids")
	return c
}

func c17NewSharder(list []string, self string) (*sharder.DeterministicSharder, *peer.MockPeers, error) {
	l := append([]string(nil), list...)
	mp := peer.NewMockPeers(l, self)
	if err := mp.Start(); err != nil {
		return nil, nil, err
	}
	s := &sharder.DeterministicSharder{
		Config: &config.MockConfig{},
		Logger: &logger.NullLogger{},
		Peers:  mp,
	}
	// Start() sleeps 5x5 s when self is not in the list; callers guarantee membership.
	if err := s.Start(); err != nil {
		return nil, nil, err
	}
	return s, mp, nil
}

func c17AllPerms(n int) [][]int {
	var out [][]int
	idx := make([]int, n)
	for i := range idx {
		idx[i] = i
	}
	var rec func(k int)
	rec = func(k int) {
		if k == n {
			out = append(out, append([]int(nil), idx...))
			return
		}
		for i := k; i < n; i++ {
			idx[k], idx[i] = idx[i], idx[k]
			rec(k + 1)
			idx[k], idx[i] = idx[i], idx[k]
		}
	}
	rec(0)
	return out
}

func c17ValidPerm(p []int, n int) bool {
	if len(p) != n {
		return false
	}
	q := append([]int(nil), p...)
	sort.Ints(q)
	for i, v := range q {
		if v != i {
			return false
		}
	}
	return true
}

func execC17(c c17Case) vkit.Result {
	var res vkit.Result
	if c.Cluster != nil {
		execC17Cluster(c.Cluster, &res)
		return res
	}
	n := len(c.Peers)
	if n == 0 || len(c.TraceIDs) == 0 {
		res.Class("empty-case")
		return res
	}
	member := map[string]bool{}
	for _, p := range c.Peers {
		if member[p] {
			res.Class("invalid-case-duplicate-peer")
			return res
		}
		member[p] = true
	}

	ref, _, err := c17NewSharder(c.Peers, c.Peers[0])
	if err != nil {
		res.Violate("C17/fn/start-failed", "reference sharder on %v as %q: %v", c.Peers, c.Peers[0], err)
		return res
	}
	want := make([]string, len(c.TraceIDs))
	owners := map[string]bool{}
	for i, tid := range c.TraceIDs {
		sh := ref.WhichShard(tid)
		want[i] = sh.GetAddress()
		owners[want[i]] = true
		if !member[want[i]] {
			res.Violate("C17/fn/owner-not-member", "peers=%q trace=%q owner=%q", c.Peers, tid, want[i])
		}
	}

	compare := func(kind string, s *sharder.DeterministicSharder, list []string, self string) {
		my := s.MyShard()
		if my == nil || my.GetAddress() != self {
			got := "<nil>"
			if my != nil {
				got = my.GetAddress()
			}
			res.Violate("C17/fn/"+kind+"/myshard-wrong", "list=%q self=%q MyShard=%q", list, self, got)
			return
		}
		for i, tid := range c.TraceIDs {
			sh := s.WhichShard(tid)
			got := sh.GetAddress()
			if got != want[i] {
				res.Violate("C17/fn/"+kind+"/owner-disagrees", "trace=%q: list %q (self %q) -> %q, but list %q (self %q) -> %q",
					tid, list, self, got, c.Peers, c.Peers[0], want[i])
				return
			}
			// local-vs-forward decision used by the router: Equals(MyShard) iff I am the owner
			if isMine := my.Equals(sh); isMine != (got == self) {
				res.Violate("C17/fn/"+kind+"/self-decision-wrong", "trace=%q list=%q self=%q owner=%q MyShard.Equals(owner)=%v", tid, list, self, got, isMine)
				return
			}
		}
	}

	var perms [][]int
	if n <= 5 {
		perms = c17AllPerms(n)
		res.Class(fmt.Sprintf("perms=all(n=%d)", n))
	} else {
		for _, p := range c.Perms {
			if c17ValidPerm(p, n) {
				perms = append(perms, p)
			}
		}
		res.Class("perms=sampled")
	}
	built := 0
	for _, p := range perms {
		list := make([]string, n)
		for i, j := range p {
			list[i] = c.Peers[j]
		}
		for _, self := range c.Peers {
			s, _, err := c17NewSharder(list, self)
			if err != nil {
				res.Violate("C17/fn/start-failed", "list=%q self=%q: %v", list, self, err)
				continue
			}
			built++
			compare("perm", s, list, self)
		}
		if len(res.Violations) > 0 {
			break
		}
	}

	if c.DupSelf && len(perms) > 0 {
		// What FilePeers.GetPeers yields when the file lists every node: the
		// configured list (in the file's order) plus the node's own address.
		res.Class("dup-self")
		for k, self := range c.Peers {
			p := perms[k%len(perms)]
			list := make([]string, 0, n+1)
			for _, j := range p {
				list = append(list, c.Peers[j])
			}
			list = append(list, self)
			s, _, err := c17NewSharder(list, self)
			if err != nil {
				res.Violate("C17/fn/start-failed", "list=%q self=%q: %v", list, self, err)
				continue
			}
			// reference for this sub-check is node 0's own view of the same file
			if k == 0 {
				differs := false
				for i, tid := range c.TraceIDs {
					a := s.WhichShard(tid).GetAddress()
					if !member[a] {
						res.Violate("C17/fn/dupself/owner-not-member", "list=%q trace=%q owner=%q", list, tid, a)
					}
					if a != want[i] {
						differs = true
					}
					want[i] = a
				}
				if differs {
					// not asserted: a list with a duplicated address is a different
					// list (the partition count follows the list length)
					res.Class("dont-care:owner-differs-between-list-and-list+self")
				}
				continue
			}
			compare("dupself", s, list, self)
		}
		// restore reference answers
		for i, tid := range c.TraceIDs {
			want[i] = ref.WhichShard(tid).GetAddress()
		}
	}

	if c.Prior != nil && len(perms) > 0 {
		res.Class("update-path")
		for k, self := range c.Peers {
			start := []string{self}
			for _, p := range c.Prior {
				if p != self {
					start = append(start, p)
				}
			}
			s, mp, err := c17NewSharder(start, self)
			if err != nil {
				res.Violate("C17/fn/start-failed", "list=%q self=%q: %v", start, self, err)
				continue
			}
			p := perms[(k*7+3)%len(perms)]
			list := make([]string, n)
			for i, j := range p {
				list[i] = c.Peers[j]
			}
			mp.UpdatePeers(append([]string(nil), list...)) // callbacks run synchronously
			compare("update", s, list, self)
		}
	}

	res.Class(fmt.Sprintf("distinct-owners=%d", min(len(owners), 4)))
	res.NonTrivial = n >= 2 && built >= 2
	return res
}

func TestC17(t *testing.T) {
	vkit.Run(t, vkit.Spec[c17Case]{
		ID:   "C17",
		Rule: "function level: rapid-generated lists of 1..12 distinct peer URLs and 1..24 trace ids; a DeterministicSharder (real code, MockPeers) is built for EVERY permutation of the list when n<=5 (sampled permutations above) x every member as own address, plus the FilePeers shape list+[self] and the start-on-other-list-then-UpdatePeers path; each must name the same owner as the reference sharder, the owner must be a member, and MyShard().Equals(owner) must hold exactly on the owner. Non-trivial: >=2 peers and >=2 sharders compared. Cluster level (roughly 1 case in 40 in thorough, 1 in 150 in quick): 2-3 real refinery apps in-process (FilePeers on loopback, file lists in generated per-node orders, with or without self), spans of generated traces posted to generated entry nodes via /1/batch and /1/events; every accepted span must come out upstream exactly once, on the node a harness-owned reference sharder names, after <=1 hand-over to a peer transmission, never addressed to the forwarding node itself; non-trivial there: >=1 span entered at a non-owner. Distinct = distinct case JSON.",
		Assumptions: []string{
			"peer.MockPeers stands in for the membership source (the sharder only calls GetPeers/GetInstanceID/RegisterUpdatedPeersCallback)",
			"two sharders are 'nodes that see the same list' when the multiset of addresses is equal; the FilePeers shape list+[self] (same set, own address twice) is also treated as the same list because that is what every node of a file-configured cluster sees",
		},
		Gen:  genC17,
		Exec: execC17,
	})
}
