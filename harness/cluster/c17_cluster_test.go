package cluster

import (
	"bytes"
	"encoding/json"
	"fmt"
	"io"
	"net"
	"net/http"
	"os"
	"sort"
	"strings"
	"sync"
	"sync/atomic"
	"time"

	"github.com/facebookgo/inject"
	"github.com/facebookgo/startstop"
	"github.com/jonboulle/clockwork"
	"go.opentelemetry.io/otel/trace/noop"
	"pgregory.net/rapid"

	"github.com/honeycombio/refinery/app"
	"github.com/honeycombio/refinery/collect"
	"github.com/honeycombio/refinery/config"
	"github.com/honeycombio/refinery/internal/health"
	"github.com/honeycombio/refinery/internal/peer"
	"github.com/honeycombio/refinery/logger"
	"github.com/honeycombio/refinery/metrics"
	"github.com/honeycombio/refinery/pubsub"
	"github.com/honeycombio/refinery/sample"
	"github.com/honeycombio/refinery/sharder"
	"github.com/honeycombio/refinery/transmit"
	"github.com/honeycombio/refinery/types"
	"github.com/honeycombio/refinery/verifharness/vkit"
)

// C17 part 2: a 2-3 node in-process cluster of real refinery apps (wired like
// app/app_test.go newStartedApp: FilePeers on loopback ports, real routers, real
// collectors, real peer DirectTransmissions; the upstream transmission records).
// Spans of generated traces are posted to generated entry nodes.
//
// Oracle (independent of the cluster's own sharders: a reference
// DeterministicSharder built by the harness names the owner):
//   * every span comes out upstream on exactly one node, the owner;
//   * every span crosses the peer transmission at most once, never towards
//     the forwarding node's own address, and not at all if it entered at the owner.
// Wall clock: a span that has not come out by the deadline makes the case
// inconclusive for that span (class inconclusive-timing), never a violation.

const c17APIKey = "c9945edf5d245834089a1bd6cc9ad01e"

// c17CaseSeq makes span ids and the version string unique per process and case:
// several shards run in parallel and pick loopback ports independently, so a
// node of another process may end up behind a port we probed as free. Spans
// and nodes are therefore tagged, and only our own are judged.
var c17CaseSeq atomic.Int64

type c17SpanRef struct {
	Trace int  `json:"tr"`
	Root  bool `json:"root,omitempty"`
}

type c17Post struct {
	Entry int          `json:"entry"` // node index the request is sent to
	Event bool         `json:"event,omitempty"`
	Spans []c17SpanRef `json:"spans"` // one span for /1/events, 1..4 for /1/batch
}

type c17Cluster struct {
	Nodes    int      `json:"nodes"`
	ListSelf bool     `json:"list_self"` // every node's file lists all nodes (FilePeers appends self again); else only the others
	Orders   [][]int  `json:"orders"`    // per node: order in which its file lists the nodes
	Workers  int      `json:"workers"`
	Traces   []string `json:"traces"` // distinct trace ids
	Posts    []c17Post `json:"posts"`
}

func genC17Cluster(t *rapid.T) *c17Cluster {
	c := &c17Cluster{}
	c.Nodes = rapid.SampledFrom([]int{2, 3, 3}).Draw(t, "nodes")
	c.ListSelf = rapid.Bool().Draw(t, "listself")
	c.Workers = rapid.IntRange(1, 3).Draw(t, "workers")
	for i := 0; i < c.Nodes; i++ {
		idx := make([]int, c.Nodes)
		for j := range idx {
			idx[j] = j
		}
		c.Orders = append(c.Orders, rapid.Permutation(idx).Draw(t, "order"))
	}
	c.Traces = rapid.SliceOfNDistinct(rapid.Custom(genC17TraceID), 2, 10, rapid.ID[string]).Draw(t, "traces")
	nt := len(c.Traces)
	nodes := c.Nodes
	postGen := rapid.Custom(func(t *rapid.T) c17Post {
		p := c17Post{Entry: rapid.IntRange(0, nodes-1).Draw(t, "entry")}
		p.Event = rapid.IntRange(0, 3).Draw(t, "isevent") == 0
		n := 1
		if !p.Event {
			n = rapid.IntRange(1, 4).Draw(t, "nspans")
		}
		for i := 0; i < n; i++ {
			p.Spans = append(p.Spans, c17SpanRef{Trace: rapid.IntRange(0, nt-1).Draw(t, "trace"), Root: rapid.IntRange(0, 3).Draw(t, "root") == 0})
		}
		return p
	})
	c.Posts = rapid.SliceOfN(postGen, 1, 16).Draw(t, "posts")
	return c
}

// ---- recording doubles (observation only) -------------------------------------

type c17Rec struct {
	mu       sync.Mutex
	upstream map[string][]int    // span id -> nodes on which it came out upstream
	forwards map[string][]c17Fwd // span id -> hand-overs to a peer transmission
}

type c17Fwd struct {
	From   int
	Target string
}

func (f c17Fwd) String() string { return fmt.Sprintf("node%d->%s", f.From, f.Target) }

type c17Upstream struct {
	node int
	rec  *c17Rec
}

func c17SpanID(ev *types.Event) string {
	if v, ok := ev.Data.Get("c17.span").(string); ok {
		return v
	}
	return ""
}

func (u *c17Upstream) EnqueueEvent(ev *types.Event) {
	id := c17SpanID(ev)
	u.rec.mu.Lock()
	u.rec.upstream[id] = append(u.rec.upstream[id], u.node)
	u.rec.mu.Unlock()
}
func (u *c17Upstream) EnqueueSpan(sp *types.Span) { u.EnqueueEvent(sp.Event) }
func (u *c17Upstream) RegisterMetrics()            {}

// c17PeerTap records what a node hands to its peer transmission and passes it
// on to the real DirectTransmission.
type c17PeerTap struct {
	Inner transmit.Transmission `inject:"c17InnerPeerTransmission"`
	node  int
	rec   *c17Rec
}

func (p *c17PeerTap) EnqueueEvent(ev *types.Event) {
	id := c17SpanID(ev)
	p.rec.mu.Lock()
	p.rec.forwards[id] = append(p.rec.forwards[id], c17Fwd{From: p.node, Target: ev.APIHost})
	p.rec.mu.Unlock()
	p.Inner.EnqueueEvent(ev)
}
func (p *c17PeerTap) EnqueueSpan(sp *types.Span) { p.EnqueueEvent(sp.Event) }

type c17Node struct {
	listen, peerPort int
	addr             string // public peer address
	objects          []*inject.Object
	metrics          *metrics.MockMetrics
	peerTransport    *http.Transport
}

func c17FreePorts(n int) ([]int, error) {
	var ls []net.Listener
	var ports []int
	for i := 0; i < n; i++ {
		l, err := net.Listen("tcp", "127.0.0.1:0")
		if err != nil {
			for _, x := range ls {
				x.Close()
			}
			return nil, err
		}
		ls = append(ls, l)
		ports = append(ports, l.Addr().(*net.TCPAddr).Port)
	}
	for _, l := range ls {
		l.Close()
	}
	return ports, nil
}

func c17StartNode(i int, n *c17Node, peersCfg []string, workers int, rec *c17Rec, version string) error {
	cfg := &config.MockConfig{
		GetTracesConfigVal: config.TracesConfig{
			SendTicker:   config.Duration(2 * time.Millisecond),
			SendDelay:    config.Duration(1 * time.Millisecond),
			TraceTimeout: config.Duration(20 * time.Millisecond),
			MaxBatchSize: 500,
		},
		GetSamplerTypeVal:    &config.DeterministicSamplerConfig{SampleRate: 1},
		PeerManagementType:   "file",
		GetPeersVal:          peersCfg,
		RedisIdentifier:      "127.0.0.1",
		GetListenAddrVal:     fmt.Sprintf("127.0.0.1:%d", n.listen),
		GetPeerListenAddrVal: fmt.Sprintf("127.0.0.1:%d", n.peerPort),
		GetHoneycombAPIVal:   "http://127.0.0.1:1", // never dialled: the upstream transmission records
		GetCollectionConfigVal: config.CollectionConfig{
			WorkerCount:        workers,
			ShutdownDelay:      config.Duration(50 * time.Millisecond),
			HealthCheckTimeout: config.Duration(3 * time.Second),
			IncomingQueueSize:  3000,
			PeerQueueSize:      3000,
		},
		TraceIdFieldNames:  []string{"trace.trace_id"},
		ParentIdFieldNames: []string{"trace.parent_id"},
		SampleCache:        config.SampleCacheConfig{KeptSize: 1000, DroppedSize: 10000, SizeCheckInterval: config.Duration(10 * time.Second)},
		GetAccessKeyConfigVal: config.AccessKeyConfig{
			ReceiveKeys:          []string{c17APIKey},
			AcceptOnlyListedKeys: true,
		},
	}
	lgr := &logger.NullLogger{}
	n.metrics = &metrics.MockMetrics{}
	n.metrics.Start()
	peers := &peer.FilePeers{Cfg: cfg, Metrics: &metrics.NullMetrics{}, Logger: lgr}
	n.peerTransport = &http.Transport{Dial: (&net.Dialer{Timeout: 3 * time.Second}).Dial}
	// generous send timeout: a retry after a client-side timeout could deliver a batch twice
	inner := transmit.NewDirectTransmission(types.TransmitTypePeer, n.peerTransport, 500, 5*time.Millisecond, 30*time.Second, false, nil)
	tap := &c17PeerTap{node: i, rec: rec}
	up := &c17Upstream{node: i, rec: rec}
	a := &app.App{Version: version}
	var g inject.Graph
	err := g.Provide(
		&inject.Object{Value: cfg},
		&inject.Object{Value: peers},
		&inject.Object{Value: lgr},
		&inject.Object{Value: http.DefaultTransport, Name: "upstreamTransport"},
		&inject.Object{Value: up, Name: "upstreamTransmission"},
		&inject.Object{Value: inner, Name: "c17InnerPeerTransmission"},
		&inject.Object{Value: tap, Name: "peerTransmission"},
		&inject.Object{Value: &sharder.DeterministicSharder{}},
		&inject.Object{Value: noop.NewTracerProvider().Tracer("test"), Name: "tracer"},
		&inject.Object{Value: &collect.InMemCollector{BlockOnAddSpan: true}},
		&inject.Object{Value: &pubsub.LocalPubSub{}},
		&inject.Object{Value: n.metrics, Name: "metrics"},
		&inject.Object{Value: version, Name: "version"},
		&inject.Object{Value: &sample.SamplerFactory{}},
		&inject.Object{Value: &health.Health{}},
		&inject.Object{Value: clockwork.NewRealClock()},
		&inject.Object{Value: &collect.MockStressReliever{}, Name: "stressRelief"},
		&inject.Object{Value: a},
	)
	if err != nil {
		return err
	}
	if err := g.Populate(); err != nil {
		return err
	}
	n.objects = g.Objects()
	return startstop.Start(n.objects, nil)
}

// c17WaitListen waits until OUR router answers on the port (the /version
// endpoint echoes the per-case version string).
func c17WaitListen(client *http.Client, port int, version string) bool {
	for i := 0; i < 400; i++ {
		resp, err := client.Get(fmt.Sprintf("http://127.0.0.1:%d/version", port))
		if err == nil {
			b, _ := io.ReadAll(resp.Body)
			resp.Body.Close()
			return strings.Contains(string(b), version)
		}
		time.Sleep(5 * time.Millisecond)
	}
	return false
}

func execC17Cluster(c *c17Cluster, res *vkit.Result) {
	res.Class("kind=cluster")
	if c.Nodes < 2 || c.Nodes > 3 || len(c.Orders) != c.Nodes || len(c.Traces) == 0 || len(c.Posts) == 0 {
		res.Class("invalid-cluster-case")
		return
	}
	for _, o := range c.Orders {
		if !c17ValidPerm(o, c.Nodes) {
			res.Class("invalid-cluster-case")
			return
		}
	}
	seen := map[string]bool{}
	for _, t := range c.Traces {
		if t == "" || seen[t] {
			res.Class("invalid-cluster-case")
			return
		}
		seen[t] = true
	}
	tag := fmt.Sprintf("c17-%d-%d", os.Getpid(), c17CaseSeq.Add(1))
	version := tag
	ports, err := c17FreePorts(2 * c.Nodes)
	if err != nil {
		res.Class("inconclusive-no-ports")
		return
	}
	rec := &c17Rec{upstream: map[string][]int{}, forwards: map[string][]c17Fwd{}}
	nodes := make([]*c17Node, c.Nodes)
	addrs := make([]string, c.Nodes)
	for i := range nodes {
		nodes[i] = &c17Node{listen: ports[2*i], peerPort: ports[2*i+1]}
		nodes[i].addr = fmt.Sprintf("http://127.0.0.1:%d", nodes[i].peerPort)
		addrs[i] = nodes[i].addr
	}
	started := 0
	defer func() {
		for i := 0; i < started; i++ {
			_ = startstop.Stop(nodes[i].objects, nil)
			nodes[i].peerTransport.CloseIdleConnections()
		}
	}()
	for i, n := range nodes {
		var list []string
		for _, j := range c.Orders[i] {
			if j == i && !c.ListSelf {
				continue
			}
			list = append(list, addrs[j])
		}
		if err := c17StartNode(i, n, list, c.Workers, rec, version); err != nil {
			// e.g. the port was taken between probing and listening
			res.Class("inconclusive-node-start-failed")
			return
		}
		started++
	}
	tr := &http.Transport{}
	client := &http.Client{Transport: tr, Timeout: 10 * time.Second}
	defer tr.CloseIdleConnections()
	for _, n := range nodes {
		if !c17WaitListen(client, n.listen, version) || !c17WaitListen(client, n.peerPort, version) {
			// not listening, or somebody else's process owns the port
			res.Class("inconclusive-listen")
			return
		}
	}

	// reference owner: a sharder of the harness' own on the plain address list
	// (built from the list exactly as node 0's FilePeers presents it: with
	// ListSelf the node's own address appears twice, and the number of
	// partitions depends on the list length)
	refList := append([]string(nil), addrs...)
	if c.ListSelf {
		refList = append(refList, addrs[0])
	}
	ref, _, err := c17NewSharder(refList, addrs[0])
	if err != nil {
		res.Violate("C17/fn/start-failed", "reference sharder: %v", err)
		return
	}
	ownerOf := func(trace string) int {
		a := ref.WhichShard(trace).GetAddress()
		for i, x := range addrs {
			if x == a {
				return i
			}
		}
		return -1
	}

	type sent struct {
		id    string
		trace string
		entry int
	}
	var all []sent
	rejected := 0
	for pi, p := range c.Posts {
		if p.Entry < 0 || p.Entry >= c.Nodes || len(p.Spans) == 0 {
			continue
		}
		var evs []map[string]any
		var ids []sent
		for si, s := range p.Spans {
			if s.Trace < 0 || s.Trace >= len(c.Traces) {
				continue
			}
			id := fmt.Sprintf("%s-p%d-s%d", tag, pi, si)
			data := map[string]any{"trace.trace_id": c.Traces[s.Trace], "trace.span_id": id, "c17.span": id, "name": "op"}
			if !s.Root {
				data["trace.parent_id"] = "parent"
			}
			evs = append(evs, map[string]any{"data": data, "samplerate": 1})
			ids = append(ids, sent{id: id, trace: c.Traces[s.Trace], entry: p.Entry})
		}
		if len(evs) == 0 {
			continue
		}
		var body []byte
		url := fmt.Sprintf("http://127.0.0.1:%d/1/batch/c17ds", nodes[p.Entry].listen)
		if p.Event {
			body, _ = json.Marshal(evs[0]["data"])
			url = fmt.Sprintf("http://127.0.0.1:%d/1/events/c17ds", nodes[p.Entry].listen)
			ids = ids[:1]
		} else {
			body, _ = json.Marshal(evs)
		}
		req, _ := http.NewRequest("POST", url, bytes.NewReader(body))
		req.Header.Set("X-Honeycomb-Team", c17APIKey)
		req.Header.Set("Content-Type", "application/json")
		resp, err := client.Do(req)
		if err != nil {
			res.Class("inconclusive-post-failed")
			return
		}
		rb, _ := io.ReadAll(resp.Body)
		resp.Body.Close()
		if resp.StatusCode != http.StatusOK {
			rejected++
			continue
		}
		if !p.Event {
			var st []struct {
				Status int `json:"status"`
			}
			if json.Unmarshal(rb, &st) == nil && len(st) == len(ids) {
				for k, s := range st {
					if s.Status == http.StatusAccepted {
						all = append(all, ids[k])
					} else {
						rejected++
					}
				}
				continue
			}
		}
		all = append(all, ids...)
	}
	if rejected > 0 {
		res.Class("some-posts-rejected")
	}

	// wait until every accepted span came out somewhere (or the deadline passes)
	deadline := time.Now().Add(8 * time.Second)
	complete := false
	for !complete && time.Now().Before(deadline) {
		time.Sleep(5 * time.Millisecond)
		rec.mu.Lock()
		complete = true
		for _, s := range all {
			if len(rec.upstream[s.id]) == 0 {
				complete = false
				break
			}
		}
		rec.mu.Unlock()
	}
	if complete {
		time.Sleep(30 * time.Millisecond) // room for a duplicate to show up
	}
	retried := false
	for _, n := range nodes {
		if v, ok := n.metrics.Get("libhoney_peer_send_retries"); ok && v > 0 {
			retried = true
		}
	}

	rec.mu.Lock()
	defer rec.mu.Unlock()
	foreign, missing := 0, 0
	for _, s := range all {
		owner := ownerOf(s.trace)
		if owner < 0 {
			res.Violate("C17/cluster/owner-not-member", "trace %q: reference owner not among %q", s.trace, addrs)
			continue
		}
		ups := append([]int(nil), rec.upstream[s.id]...)
		sort.Ints(ups)
		fw := rec.forwards[s.id]
		if s.entry != owner {
			foreign++
		}
		switch {
		case len(ups) == 0:
			missing++
		case len(ups) > 1 && !retried:
			res.Violate("C17/cluster/span-delivered-more-than-once", "span %s of trace %q (entry node %d, owner node %d) came out upstream on nodes %v; forwards %v", s.id, s.trace, s.entry, owner, ups, fw)
		case ups[0] != owner:
			res.Violate("C17/cluster/span-at-wrong-node", "span %s of trace %q entered at node %d, came out upstream on node %d, but WhichShard(%q) names node %d (%s); forwards %v; ListSelf=%v orders=%v",
				s.id, s.trace, s.entry, ups[0], s.trace, owner, addrs[owner], fw, c.ListSelf, c.Orders)
		}
		if len(fw) > 1 && !retried {
			res.Violate("C17/cluster/more-than-one-hop", "span %s of trace %q (entry %d, owner %d) crossed the peer transmission %d times: %v", s.id, s.trace, s.entry, owner, len(fw), fw)
		}
		for _, f := range fw {
			if f.From >= 0 && f.From < len(addrs) && f.Target == addrs[f.From] {
				res.Violate("C17/cluster/forwarded-to-self", "node %d (%s) handed span %s of trace %q to its peer transmission addressed to itself", f.From, addrs[f.From], s.id, s.trace)
			}
		}
		if s.entry == owner && len(fw) > 0 {
			res.Violate("C17/cluster/owner-forwarded-own-span", "span %s of trace %q entered at its owner node %d but was forwarded: %v", s.id, s.trace, owner, fw)
		}
	}
	if missing > 0 {
		res.Class("inconclusive-timing")
	}
	if retried {
		res.Class("inconclusive-peer-send-retried")
	}
	if foreign > 0 {
		res.Class("cluster-with-forwarded-span")
	}
	res.Class(fmt.Sprintf("cluster-nodes=%d", c.Nodes))
	res.NonTrivial = len(all) > 0 && foreign > 0 && missing < len(all)
}
