package auth

// C28 (b): mutational generator of requests. A request is a valid base body of
// one of the wire formats refinery accepts plus a list of mutation operators
// (state-free, so rapid can delete and shrink them), an optional compression
// step, more mutations on the compressed stream, and header choices. The bytes
// actually sent are recomputed deterministically from that description.

import (
	"bytes"
	"compress/gzip"
	"encoding/hex"
	"encoding/json"
	"fmt"
	"strings"
	"time"

	"github.com/klauspost/compress/zstd"
	"github.com/vmihailenco/msgpack/v5"
	collectorlogs "go.opentelemetry.io/proto/otlp/collector/logs/v1"
	collectortrace "go.opentelemetry.io/proto/otlp/collector/trace/v1"
	commonpb "go.opentelemetry.io/proto/otlp/common/v1"
	logspb "go.opentelemetry.io/proto/otlp/logs/v1"
	resourcepb "go.opentelemetry.io/proto/otlp/resource/v1"
	tracepb "go.opentelemetry.io/proto/otlp/trace/v1"
	"google.golang.org/protobuf/encoding/protojson"
	"google.golang.org/protobuf/proto"
	"pgregory.net/rapid"
)

type c28Mut struct {
	Kind string `json:"k"`           // trunc | flip | set | insert | dup | cut | splice | repeat | swap
	Pos  int    `json:"p,omitempty"` // position in permille of the current length
	Tok  int    `json:"t,omitempty"` // >0: aim at the Tok-th structural offset (value/field start) of the current bytes instead of Pos
	Arg  int    `json:"a,omitempty"`
}

type c28Req struct {
	Target   string   `json:"target"`   // incoming | peer | grpc
	Endpoint string   `json:"endpoint"` // HTTP: path template name; gRPC: method name
	Method   string   `json:"method,omitempty"`
	Base     string   `json:"base"` // which valid body the mutation starts from
	Pre      []c28Mut `json:"pre,omitempty"`
	Enc      string   `json:"enc,omitempty"`     // "", gzip, zstd : really compress
	EncHdr   string   `json:"enchdr,omitempty"`  // Content-Encoding header sent ("=" means same as Enc)
	Post     []c28Mut `json:"post,omitempty"`    // mutations of the (compressed) stream
	CT       string   `json:"ct,omitempty"`      // Content-Type ("=" the right one for Base)
	Key      string   `json:"key,omitempty"`     // legacy | env | none | junk
	Dataset  string   `json:"dataset,omitempty"` // path segment for /1/ endpoints, header for OTLP
	Time     string   `json:"time,omitempty"`    // X-Honeycomb-Event-Time
	Rate     string   `json:"rate,omitempty"`    // X-Honeycomb-Samplerate
	UA       string   `json:"ua,omitempty"`
	// Huge (family "accepted but internally huge"): the body is built from this
	// description instead of Base: small on the wire (under every HTTP/gRPC
	// limit), > 1 MB or > 5 MB once refinery holds it as messagepack.
	Huge *c28Huge `json:"huge,omitempty"`
}

type c28Huge struct {
	Kind string `json:"kind"` // json-number-array | json-many-fields | otlp-big-attr | msgpack-big-string (sent zstd-compressed)
	N    int    `json:"n"`    // array length / number of fields / attribute bytes
}

// c28HugeBody builds the request body of a Huge request and says how many
// events it carries (the big one first, then small companions where the
// endpoint takes several).
func c28HugeBody(r c28Req) (body []byte, ct string, events int) {
	h := r.Huge
	switch h.Kind {
	case "json-number-array", "json-many-fields":
		var data strings.Builder
		if h.Kind == "json-number-array" {
			// every JSON number becomes a 9-byte float64 inside refinery
			data.WriteString(`{"name":"numbers","vals":[`)
			data.WriteString(strings.TrimSuffix(strings.Repeat("1,", h.N), ","))
			data.WriteString(`]}`)
		} else {
			data.WriteString(`{"name":"fields"`)
			for i := 0; i < h.N; i++ {
				fmt.Fprintf(&data, `,"f%d":1`, i)
			}
			data.WriteString(`}`)
		}
		if strings.HasPrefix(r.Endpoint, "/1/batch") {
			return []byte(`[{"samplerate":1,"data":` + data.String() + `},{"samplerate":1,"data":{"name":"small"}}]`), "application/json", 2
		}
		return []byte(data.String()), "application/json", 1
	case "msgpack-big-string":
		// a few KB on the wire (zstd), N bytes of string once decompressed: cheap to
		// parse, so this is the everyday member of the family
		big := map[string]any{"name": "big", "s": strings.Repeat("x", h.N)}
		if strings.HasPrefix(r.Endpoint, "/1/batch") {
			raw := authMsgpack([]map[string]any{{"samplerate": 1, "data": big}, {"samplerate": 1, "data": map[string]any{"name": "small"}}})
			return c28ZstdEnc.EncodeAll(raw, nil), "application/msgpack", 2
		}
		return c28ZstdEnc.EncodeAll(authMsgpack(big), nil), "application/msgpack", 1
	case "otlp-big-attr":
		big := strings.Repeat("x", h.N)
		if strings.Contains(r.Endpoint, "logs") || strings.Contains(r.Endpoint, "Logs") {
			lg := c28BaseLogs()
			recs := lg.ResourceLogs[0].ScopeLogs[0].LogRecords
			recs[0].Attributes = append(recs[0].Attributes, c28KV("big", c28S(big)))
			b, _ := proto.Marshal(lg)
			return b, "application/protobuf", 2
		}
		tr := c28BaseTrace()
		sp := tr.ResourceSpans[0].ScopeSpans[0].Spans
		sp[0].Attributes = append(sp[0].Attributes, c28KV("big", c28S(big)))
		sp[0].Events, sp[0].Links = nil, nil
		b, _ := proto.Marshal(tr)
		return b, "application/protobuf", 2
	}
	return nil, "application/json", 0
}

// ---- base bodies

func c28KV(k string, v *commonpb.AnyValue) *commonpb.KeyValue {
	return &commonpb.KeyValue{Key: k, Value: v}
}
func c28S(s string) *commonpb.AnyValue {
	return &commonpb.AnyValue{Value: &commonpb.AnyValue_StringValue{StringValue: s}}
}
func c28I(i int64) *commonpb.AnyValue {
	return &commonpb.AnyValue{Value: &commonpb.AnyValue_IntValue{IntValue: i}}
}

func c28BaseTrace() *collectortrace.ExportTraceServiceRequest {
	tid := []byte{1, 2, 3, 4, 5, 6, 7, 8, 9, 10, 11, 12, 13, 14, 15, 16}
	attrs := []*commonpb.KeyValue{
		c28KV("s", c28S("str")), c28KV("i", c28I(-7)),
		c28KV("d", &commonpb.AnyValue{Value: &commonpb.AnyValue_DoubleValue{DoubleValue: 1.5}}),
		c28KV("b", &commonpb.AnyValue{Value: &commonpb.AnyValue_BoolValue{BoolValue: true}}),
		c28KV("bytes", &commonpb.AnyValue{Value: &commonpb.AnyValue_BytesValue{BytesValue: []byte{0, 1, 2}}}),
		c28KV("arr", &commonpb.AnyValue{Value: &commonpb.AnyValue_ArrayValue{ArrayValue: &commonpb.ArrayValue{Values: []*commonpb.AnyValue{c28S("a"), c28I(1)}}}}),
		c28KV("kv", &commonpb.AnyValue{Value: &commonpb.AnyValue_KvlistValue{KvlistValue: &commonpb.KeyValueList{Values: []*commonpb.KeyValue{c28KV("n", c28I(1))}}}}),
		c28KV("sampleRate", c28I(3)),
	}
	return &collectortrace.ExportTraceServiceRequest{ResourceSpans: []*tracepb.ResourceSpans{{
		Resource:  &resourcepb.Resource{Attributes: []*commonpb.KeyValue{c28KV("service.name", c28S("svc")), c28KV("host", c28S("h"))}},
		SchemaUrl: "https://opentelemetry.io/schemas/1.21.0",
		ScopeSpans: []*tracepb.ScopeSpans{{
			Scope: &commonpb.InstrumentationScope{Name: "lib", Version: "1", Attributes: []*commonpb.KeyValue{c28KV("sa", c28S("x"))}},
			Spans: []*tracepb.Span{
				{TraceId: tid, SpanId: []byte{1, 1, 1, 1, 1, 1, 1, 1}, Name: "root", Kind: tracepb.Span_SPAN_KIND_SERVER, TraceState: "k=v",
					StartTimeUnixNano: 1_700_000_000_000_000_000, EndTimeUnixNano: 1_700_000_001_000_000_000, Attributes: attrs,
					Status: &tracepb.Status{Code: tracepb.Status_STATUS_CODE_ERROR, Message: "boom"},
					Events: []*tracepb.Span_Event{{TimeUnixNano: 1_700_000_000_500_000_000, Name: "exception", Attributes: []*commonpb.KeyValue{c28KV("exception.message", c28S("m"))}}},
					Links:  []*tracepb.Span_Link{{TraceId: tid, SpanId: []byte{9, 9, 9, 9, 9, 9, 9, 9}, Attributes: []*commonpb.KeyValue{c28KV("l", c28I(1))}}}},
				{TraceId: tid, SpanId: []byte{2, 2, 2, 2, 2, 2, 2, 2}, ParentSpanId: []byte{1, 1, 1, 1, 1, 1, 1, 1}, Name: "child", Kind: tracepb.Span_SPAN_KIND_CLIENT,
					StartTimeUnixNano: 1_700_000_000_100_000_000, EndTimeUnixNano: 1_700_000_000_200_000_000},
			}}},
	}}}
}

func c28BaseLogs() *collectorlogs.ExportLogsServiceRequest {
	return &collectorlogs.ExportLogsServiceRequest{ResourceLogs: []*logspb.ResourceLogs{{
		Resource: &resourcepb.Resource{Attributes: []*commonpb.KeyValue{c28KV("service.name", c28S("svc"))}},
		ScopeLogs: []*logspb.ScopeLogs{{
			Scope: &commonpb.InstrumentationScope{Name: "lib"},
			LogRecords: []*logspb.LogRecord{
				{TimeUnixNano: 1_700_000_000_000_000_000, ObservedTimeUnixNano: 1_700_000_000_000_000_001, SeverityText: "ERROR", SeverityNumber: logspb.SeverityNumber_SEVERITY_NUMBER_ERROR,
					Body:       &commonpb.AnyValue{Value: &commonpb.AnyValue_KvlistValue{KvlistValue: &commonpb.KeyValueList{Values: []*commonpb.KeyValue{c28KV("msg", c28S("hello"))}}}},
					Attributes: []*commonpb.KeyValue{c28KV("a", c28I(1))}, TraceId: []byte{1, 2, 3, 4, 5, 6, 7, 8, 9, 10, 11, 12, 13, 14, 15, 16}, SpanId: []byte{1, 1, 1, 1, 1, 1, 1, 1}},
				{TimeUnixNano: 1_700_000_000_000_000_002, Body: c28S("plain")},
			}}},
	}}}
}

type c28BaseBody struct {
	Body []byte
	CT   string
}

var c28Bases = func() map[string]c28BaseBody {
	ev := map[string]any{"trace.trace_id": "t1", "trace.span_id": "s1", "name": "n", "status": 200, "dur": 1.5, "ok": true, "nested": map[string]any{"a": []any{1, "x", nil}}, "meta.signal_type": "trace"}
	ev2 := map[string]any{"msg": "no trace id", "n": -1}
	batch := []map[string]any{
		{"time": "2023-11-14T22:13:20.123456789Z", "samplerate": 2, "data": ev},
		{"time": "2023-11-14T22:13:21Z", "samplerate": 1, "data": ev2},
	}
	ts := time.Unix(1_700_000_000, 123)
	batchMP := []map[string]any{
		{"time": ts, "samplerate": 2, "data": ev},
		{"samplerate": 1, "data": ev2},
	}
	j := func(v any) []byte { b, _ := json.Marshal(v); return b }
	tr, lg := c28BaseTrace(), c28BaseLogs()
	trb, _ := proto.Marshal(tr)
	lgb, _ := proto.Marshal(lg)
	trj, _ := protojson.Marshal(tr)
	lgj, _ := protojson.Marshal(lg)
	// OTLP/JSON spells ids in hex; protojson emits base64. Use the hex form for the trace/span ids.
	fix := func(b []byte) []byte {
		var cb bytes.Buffer
		json.Compact(&cb, b) // protojson's whitespace is deliberately unstable
		s := cb.String()
		s = strings.ReplaceAll(s, `"AQIDBAUGBwgJCgsMDQ4PEA=="`, `"0102030405060708090a0b0c0d0e0f10"`)
		s = strings.ReplaceAll(s, `"AQEBAQEBAQE="`, `"0101010101010101"`)
		s = strings.ReplaceAll(s, `"AgICAgICAgI="`, `"0202020202020202"`)
		s = strings.ReplaceAll(s, `"CQkJCQkJCQk="`, `"0909090909090909"`)
		return []byte(s)
	}
	return map[string]c28BaseBody{
		"event-json":      {j(ev), "application/json"},
		"event-msgpack":   {authMsgpack(ev), "application/msgpack"},
		"batch-json":      {j(batch), "application/json"},
		"batch-msgpack":   {authMsgpack(batchMP), "application/msgpack"},
		"otlp-trace-pb":   {trb, "application/protobuf"},
		"otlp-trace-json": {fix(trj), "application/json"},
		"otlp-logs-pb":    {lgb, "application/protobuf"},
		"otlp-logs-json":  {fix(lgj), "application/json"},
		"empty":           {nil, "application/json"},
	}
}()

var c28BaseNames = []string{"event-json", "event-msgpack", "batch-json", "batch-msgpack", "otlp-trace-pb", "otlp-trace-json", "otlp-logs-pb", "otlp-logs-json", "empty"}

var c28ChunksMsgpack = [][]byte{
	{0xdd, 0xff, 0xff, 0xff, 0xff},                                   // array32, 4G elements
	{0xdf, 0xff, 0xff, 0xff, 0xff},                                   // map32
	{0xdb, 0xff, 0xff, 0xff, 0xff},                                   // str32
	{0xc6, 0xff, 0xff, 0xff, 0xff},                                   // bin32
	{0xc9, 0xff, 0xff, 0xff, 0xff, 0xff},                             // ext32
	{0xdc, 0xff, 0xff},                                               // array16, 65535
	{0xde, 0xff, 0xff},                                               // map16
	{0xd7, 0xff, 0, 0, 0, 0, 0, 0, 0, 0},                             // fixext8 of type -1: timestamp64
	{0xc7, 12, 0xff, 0xff, 0xff, 0xff, 0xff, 0, 0, 0, 0, 0, 0, 0, 0}, // timestamp96 with absurd nanos
	{0xd6, 0xff, 0xff, 0xff, 0xff, 0xff},                             // timestamp32 max
	{0xc1},                                                           // never-used byte
	{0xc0},                                                           // nil
	{0xcf, 0xff, 0xff, 0xff, 0xff, 0xff, 0xff, 0xff, 0xff},           // uint64 max
	{0xd3, 0x80, 0, 0, 0, 0, 0, 0, 0},                                // int64 min
	{0xcb, 0x7f, 0xf8, 0, 0, 0, 0, 0, 1},                             // NaN
	{0xa0},                                                           // empty string (e.g. as a key)
	{0x80},                                                           // empty map
	{0x90},                                                           // empty array
}

var c28ChunksProto = [][]byte{
	{0xff, 0xff, 0xff, 0xff, 0xff, 0xff, 0xff, 0xff, 0xff, 0x01},       // 10-byte varint (max uint64)
	{0xff, 0xff, 0xff, 0xff, 0xff, 0xff, 0xff, 0xff, 0xff, 0x7f},       // overlong varint
	{0xff, 0xff, 0xff, 0xff, 0x0f},                                     // length 4G
	{0xff, 0xff, 0xff, 0xff, 0x07},                                     // length 2G-1
	{0x80, 0x80, 0x80, 0x80, 0x80, 0x80, 0x80, 0x80, 0x80, 0x01},       // 2^63
	{0x0a, 0xff, 0xff, 0xff, 0xff, 0x0f},                               // field 1, length 4G
	{0x0a, 0x80, 0x80, 0x80, 0x80, 0x80, 0x80, 0x80, 0x80, 0x80, 0x01}, // field 1, length 2^63
	{0x0b},       // start-group
	{0x0c},       // end-group
	{0x0f},       // wire type 7
	{0x00},       // field number 0
	{0x0a, 0x00}, // empty sub-message in field 1
	{0x12, 0x00}, // empty sub-message in field 2
	{0x0a, 0x02, 0x0a, 0x00},
	{0x01}, // length 1
	{0x7f},
}

var c28ChunksJSON = [][]byte{
	[]byte(strings.Repeat("[", 20000)),
	[]byte(strings.Repeat(`{"a":`, 10000)),
	[]byte(`1e999999`), []byte(`-0`), []byte(`"\ud800"`), []byte(`"\u0000"`), {0x00}, []byte(strings.Repeat("9", 400)),
	[]byte(`"time":"` + strings.Repeat("9", 30) + `",`),
	[]byte(`"samplerate":-9223372036854775808,`),
	[]byte(`"samplerate":1e30,`),
	[]byte(`"traceId":"zz",`), []byte(`"traceId":"` + strings.Repeat("0", 31) + `",`),
	[]byte(`"startTimeUnixNano":"-1",`), []byte(`"intValue":"99999999999999999999",`), []byte(`"doubleValue":"NaN",`),
	[]byte(`null,`), []byte(`{},`), []byte(`[],`), []byte(`"":"",`),
}

var c28ChunksOther = [][]byte{
	{0x28, 0xb5, 0x2f, 0xfd}, // zstd magic
	{0x28, 0xb5, 0x2f, 0xfd, 0xe4, 0xff, 0xff, 0xff, 0xff, 0xff, 0xff, 0xff, 0xff}, // zstd frame header announcing a gigantic content size
	{0x1f, 0x8b, 0x08}, // gzip magic
	{0x1f, 0x8b, 0x08, 0x04, 0, 0, 0, 0, 0, 0xff, 0xff, 0xff}, // gzip with FEXTRA of 65535 bytes
	{0xff, 0xff, 0xff, 0xff},
	{0, 0, 0, 0},
}

// hostile constants for "insert"/"overwrite": one table, family ranges known to the generator
var c28Chunks, c28ChunkRange = func() ([][]byte, map[string][2]int) {
	var all [][]byte
	rng := map[string][2]int{}
	for _, f := range []struct {
		name string
		tab  [][]byte
	}{{"msgpack", c28ChunksMsgpack}, {"proto", c28ChunksProto}, {"json", c28ChunksJSON}, {"", c28ChunksOther}} {
		rng[f.name] = [2]int{len(all), len(all) + len(f.tab) - 1}
		all = append(all, f.tab...)
	}
	return all, rng
}()

// textual type swaps for JSON bodies
var c28Swaps = [][2]string{
	{`"data":{`, `"data":[`}, {`"data":`, `"data":null,"x":`}, {`"samplerate":2`, `"samplerate":"2"`}, {`"samplerate":2`, `"samplerate":-2`}, {`"samplerate":2`, `"samplerate":2.5`},
	{`"time":"`, `"time":123,"t":"`}, {`"trace.trace_id":"t1"`, `"trace.trace_id":12345`}, {`"trace.trace_id":"t1"`, `"trace.trace_id":null`}, {`"trace.trace_id":"t1"`, `"trace.trace_id":{"a":1}`},
	{`"trace.trace_id":"t1"`, `"trace.trace_id":"` + strings.Repeat("t", 70000) + `"`},
	{`"meta.signal_type":"trace"`, `"meta.signal_type":7`}, {`"meta.signal_type":"trace"`, `"meta.refinery.probe":true`}, {`"meta.signal_type":"trace"`, `"meta.refinery.probe":"yes"`},
	{`"resourceSpans":[`, `"resourceSpans":{`}, {`"scopeSpans":[`, `"scopeSpans":null,"x":[`}, {`"spans":[`, `"spans":[null,`}, {`"attributes":[`, `"attributes":[{"key":"k"},`},
	{`"attributes":[`, `"attributes":[{"key":"k","value":{}},`}, {`"attributes":[`, `"attributes":[{"value":{"stringValue":"v"}},`}, {`"stringValue":"str"`, `"stringValue":5`},
	{`"intValue":"-7"`, `"intValue":-7.5`}, {`"kind":"SPAN_KIND_SERVER"`, `"kind":2`}, {`"kind":"SPAN_KIND_SERVER"`, `"kind":99999999999`}, {`"startTimeUnixNano":"`, `"startTimeUnixNano":"x`},
	{`"resourceLogs":[`, `"resourceLogs":[{}, `}, {`"logRecords":[`, `"logRecords":[{"body":{"kvlistValue":{"values":[{"key":"a","value":{"kvlistValue":{"values":[{"key":"a","value":null}]}}}]}}},`},
	{`"body":`, `"body":null,"b":`}, {`"traceId":"0102030405060708090a0b0c0d0e0f10"`, `"traceId":""`}, {`"spanId":"0101010101010101"`, `"spanId":"01"`},
	{`{`, `{"":null,`}, {`[`, `[[],`},
}

// c28MsgpackOffsets returns the offsets at which msgpack values start (walks
// as far as the bytes are well-formed).
func c28MsgpackOffsets(b []byte) []int {
	var offs []int
	var walk func(p, depth int) int
	be := func(p, n int) int {
		v := 0
		for i := 0; i < n; i++ {
			v = v<<8 | int(b[p+i])
		}
		return v
	}
	walk = func(p, depth int) int {
		if p >= len(b) || depth > 64 || len(offs) > 4096 {
			return -1
		}
		offs = append(offs, p)
		c := b[p]
		need := func(n int) bool { return p+1+n <= len(b) }
		seq := func(start, n int) int {
			q := start
			for i := 0; i < n && q >= 0; i++ {
				q = walk(q, depth+1)
			}
			return q
		}
		switch {
		case c <= 0x7f || c >= 0xe0 || c == 0xc0 || c == 0xc2 || c == 0xc3:
			return p + 1
		case c >= 0x80 && c <= 0x8f:
			return seq(p+1, 2*int(c&0x0f))
		case c >= 0x90 && c <= 0x9f:
			return seq(p+1, int(c&0x0f))
		case c >= 0xa0 && c <= 0xbf:
			return p + 1 + int(c&0x1f)
		}
		switch c {
		case 0xc4, 0xd9:
			if need(1) {
				return p + 2 + be(p+1, 1)
			}
		case 0xc5, 0xda:
			if need(2) {
				return p + 3 + be(p+1, 2)
			}
		case 0xc6, 0xdb:
			if need(4) {
				return p + 5 + be(p+1, 4)
			}
		case 0xc7:
			if need(1) {
				return p + 3 + be(p+1, 1)
			}
		case 0xc8:
			if need(2) {
				return p + 4 + be(p+1, 2)
			}
		case 0xc9:
			if need(4) {
				return p + 6 + be(p+1, 4)
			}
		case 0xca, 0xce, 0xd2:
			return p + 5
		case 0xcb, 0xcf, 0xd3:
			return p + 9
		case 0xcc, 0xd0:
			return p + 2
		case 0xcd, 0xd1:
			return p + 3
		case 0xd4:
			return p + 3
		case 0xd5:
			return p + 4
		case 0xd6:
			return p + 6
		case 0xd7:
			return p + 10
		case 0xd8:
			return p + 18
		case 0xdc:
			if need(2) {
				return seq(p+3, be(p+1, 2))
			}
		case 0xdd:
			if need(4) {
				return seq(p+5, min(be(p+1, 4), len(b)))
			}
		case 0xde:
			if need(2) {
				return seq(p+3, 2*be(p+1, 2))
			}
		case 0xdf:
			if need(4) {
				return seq(p+5, min(2*be(p+1, 4), len(b)))
			}
		}
		return -1
	}
	for p := 0; p >= 0 && p < len(b); {
		p = walk(p, 0)
	}
	return offs
}

// c28ProtoOffsets returns the offsets of field tags and of length prefixes in a
// protobuf message, descending into length-delimited fields that parse as messages.
func c28ProtoOffsets(b []byte) []int {
	var offs []int
	varint := func(p, end int) (uint64, int) {
		var v uint64
		for i := 0; i < 10 && p+i < end; i++ {
			v |= uint64(b[p+i]&0x7f) << (7 * uint(i))
			if b[p+i] < 0x80 {
				return v, p + i + 1
			}
		}
		return 0, -1
	}
	var msg func(p, end, depth int, record bool) bool
	msg = func(p, end, depth int, record bool) bool {
		for p < end {
			tagAt := p
			tag, q := varint(p, end)
			if q < 0 || tag>>3 == 0 {
				return false
			}
			if record {
				offs = append(offs, tagAt)
			}
			switch tag & 7 {
			case 0:
				if _, q = varint(q, end); q < 0 {
					return false
				}
			case 1:
				q += 8
			case 5:
				q += 4
			case 2:
				lenAt := q
				l, r := varint(q, end)
				if r < 0 || l > uint64(end-r) {
					return false
				}
				if record {
					offs = append(offs, lenAt)
				}
				if depth < 12 && l > 0 && msg(r, r+int(l), depth+1, false) {
					msg(r, r+int(l), depth+1, record)
				}
				q = r + int(l)
			default:
				return false
			}
			if q > end {
				return false
			}
			p = q
		}
		return true
	}
	msg(0, len(b), 0, true)
	return offs
}

// c28StructOffsets: structural offsets of the current bytes for the wire format of base.
func c28StructOffsets(b []byte, family string) []int {
	switch family {
	case "msgpack":
		return c28MsgpackOffsets(b)
	case "proto":
		return c28ProtoOffsets(b)
	case "json":
		var offs []int
		for i, c := range b {
			if c == '{' || c == '[' || c == ':' || c == ',' {
				offs = append(offs, i+1)
			}
			if len(offs) > 4096 {
				break
			}
		}
		return offs
	}
	return nil
}

func c28Family(base string) string {
	switch {
	case strings.HasSuffix(base, "-msgpack"):
		return "msgpack"
	case strings.HasSuffix(base, "-pb"):
		return "proto"
	case strings.HasSuffix(base, "-json"):
		return "json"
	}
	return ""
}

func c28ApplyMuts(b []byte, muts []c28Mut, family string) []byte {
	const maxLen = 6 << 20
	for _, m := range muts {
		n := len(b)
		if m.Tok > 0 && n > 0 {
			// resolve the structural aim against the bytes as they are now
			if offs := c28StructOffsets(b, family); len(offs) > 0 {
				m.Pos = -1 - offs[(m.Tok-1)%len(offs)] // negative: absolute offset
			}
		}
		abs := func() int { // insertion point in [0, n]
			if m.Pos < 0 {
				return min(-1-m.Pos, n)
			}
			return m.Pos * n / 1000
		}
		at := func() int { // index of an existing byte
			if n == 0 {
				return 0
			}
			p := abs()
			if p >= n {
				p = n - 1
			}
			return p
		}
		switch m.Kind {
		case "trunc":
			b = append([]byte(nil), b[:abs()]...)
		case "flip":
			if n > 0 {
				b = append([]byte(nil), b...)
				b[at()] ^= byte(m.Arg%255 + 1)
			}
		case "set":
			if n > 0 {
				b = append([]byte(nil), b...)
				b[at()] = byte(m.Arg)
			}
		case "insert":
			ch := c28Chunks[m.Arg%len(c28Chunks)]
			p := abs()
			nb := append([]byte(nil), b[:p]...)
			nb = append(nb, ch...)
			b = append(nb, b[p:]...)
		case "overwrite":
			ch := c28Chunks[m.Arg%len(c28Chunks)]
			p := abs()
			nb := append([]byte(nil), b...)
			for i := 0; i < len(ch) && p+i < len(nb); i++ {
				nb[p+i] = ch[i]
			}
			b = nb
		case "dup": // repeat a slice in place (splice with itself)
			if n > 0 {
				p := at()
				l := (m.Arg%200 + 1) * n / 1000
				if p+l > n {
					l = n - p
				}
				nb := append([]byte(nil), b[:p+l]...)
				nb = append(nb, b[p:]...)
				b = nb
			}
		case "cut":
			if n > 0 {
				p := at()
				l := (m.Arg%200 + 1) * n / 1000
				if p+l > n {
					l = n - p
				}
				b = append(append([]byte(nil), b[:p]...), b[p+l:]...)
			}
		case "splice": // head of this body, tail of another valid body
			other := c28Bases[c28BaseNames[m.Arg%len(c28BaseNames)]].Body
			p := abs()
			q := 0
			if n > 0 {
				q = p * len(other) / n
			}
			b = append(append([]byte(nil), b[:p]...), other[q:]...)
		case "repeat":
			k := m.Arg%40 + 2
			if n*k <= maxLen {
				b = bytes.Repeat(b, k)
			}
		case "swap":
			sw := c28Swaps[m.Arg%len(c28Swaps)]
			b = []byte(strings.Replace(string(b), sw[0], sw[1], 1+(m.Arg/len(c28Swaps))%2*1000))
		}
		if len(b) > maxLen {
			b = b[:maxLen]
		}
	}
	return b
}

var c28ZstdEnc, _ = zstd.NewWriter(nil, zstd.WithEncoderConcurrency(1))

// c28Wire computes the bytes on the wire and the headers of a request.
func c28Wire(r c28Req) (body []byte, ct, ce string) {
	if r.Huge != nil {
		body, ct, _ = c28HugeBody(r)
		if r.Huge.Kind == "msgpack-big-string" {
			return body, ct, "zstd"
		}
		return body, ct, ""
	}
	base, ok := c28Bases[r.Base]
	if !ok {
		base = c28Bases["empty"]
	}
	body = c28ApplyMuts(base.Body, r.Pre, c28Family(r.Base))
	enc := r.Enc
	if r.Target == "grpc" {
		enc = "" // the gRPC client applies the compressor itself
	}
	switch enc {
	case "gzip":
		var buf bytes.Buffer
		zw := gzip.NewWriter(&buf)
		zw.Write(body)
		zw.Close()
		body = buf.Bytes()
	case "zstd":
		body = c28ZstdEnc.EncodeAll(body, nil)
	}
	body = c28ApplyMuts(body, r.Post, "")
	ct = r.CT
	if ct == "=" {
		ct = base.CT
	}
	ce = r.EncHdr
	if ce == "=" {
		ce = r.Enc
	}
	return
}

func c28Hex(b []byte, n int) string {
	if len(b) <= n {
		return hex.EncodeToString(b)
	}
	return hex.EncodeToString(b[:n]) + fmt.Sprintf("...(%d bytes)", len(b))
}

// ---- generator

var c28HTTPEndpoints = []string{"/1/events/{ds}", "/1/batch/{ds}", "/v1/traces", "/v1/traces/", "/v1/logs", "/v1/logs/", "/alive", "/ready", "/version",
	"/query/trace/{ds}", "/query/rules/{fmt}/{ds}", "/query/allrules/{fmt}", "/query/configmetadata", "/1/markers/{ds}", "/x/{ds}", "/1/events/", "/1/batch/{ds}/extra"}

var c28GRPCMethods = []string{
	"/opentelemetry.proto.collector.trace.v1.TraceService/Export",
	"/opentelemetry.proto.collector.logs.v1.LogsService/Export",
	"/grpc.health.v1.Health/Check",
	"/opentelemetry.proto.collector.metrics.v1.MetricsService/Export",
	"/opentelemetry.proto.collector.trace.v1.TraceService/NoSuchMethod",
}

var c28Datasets = []string{"ds", "a%2Fb", "%F0%9F%98%80", "my.dataset", "a%20b", "%00", "..", "%2E%2E%2F", "json", "yaml", "toml", "JSON", "xml", strings.Repeat("d", 3000), "ds?x=1", "env"}

func genC28Mut(t *rapid.T, label, family string) c28Mut {
	kinds := []string{"insert", "overwrite", "set", "trunc", "flip", "dup", "cut", "splice", "repeat", "swap", "insert", "overwrite"}
	m := c28Mut{Kind: rapid.SampledFrom(kinds).Draw(t, label+"-kind")}
	// where: the top-level header, a structural offset (value / field / length
	// start), the very end, or anywhere
	switch rapid.IntRange(0, 7).Draw(t, label+"-aim") {
	case 0:
		m.Pos = 0
	case 1, 2, 3:
		if family != "" {
			m.Tok = rapid.IntRange(1, 64).Draw(t, label+"-tok")
		} else {
			m.Pos = rapid.IntRange(0, 1000).Draw(t, label+"-pos")
		}
	case 4:
		m.Pos = 1000
	case 5:
		m.Pos = rapid.IntRange(970, 1000).Draw(t, label+"-pos")
	default:
		m.Pos = rapid.IntRange(0, 1000).Draw(t, label+"-pos")
	}
	switch m.Kind {
	case "set":
		m.Arg = int(rapid.SampledFrom([]byte{0xdd, 0xdf, 0xdc, 0xde, 0xdb, 0xc6, 0xc1, 0xc7, 0xd7, 0xff, 0x00, 0x80, 0x90, 0xa0, 0xc0, 0x7f, '[', '{', '"', '\\'}).Draw(t, label+"-byte"))
	case "insert", "overwrite":
		rng := c28ChunkRange[family]
		if family == "" || rapid.IntRange(0, 4).Draw(t, label+"-anyfamily") == 0 {
			rng = [2]int{0, len(c28Chunks) - 1}
		}
		m.Arg = rapid.IntRange(rng[0], rng[1]).Draw(t, label+"-chunk")
	case "swap":
		m.Arg = rapid.IntRange(0, 2*len(c28Swaps)-1).Draw(t, label+"-swap")
	case "splice":
		m.Arg = rapid.IntRange(0, len(c28BaseNames)-1).Draw(t, label+"-other")
	default:
		m.Arg = rapid.IntRange(0, 255).Draw(t, label+"-arg")
	}
	return m
}

// c28Rarely is true with probability 1/n; rapid shrinks it to false.
func c28Rarely(t *rapid.T, n int, label string) bool {
	return rapid.IntRange(0, n-1).Draw(t, label) == n-1
}

func genC28Req(t *rapid.T) c28Req {
	// a request is coherent (right body, content type, encoding header for its
	// endpoint) except for the few deviations drawn below
	r := c28Req{Target: rapid.SampledFrom([]string{"incoming", "incoming", "incoming", "peer", "grpc", "grpc"}).Draw(t, "target")}
	natural := map[string][]string{
		"/1/events/{ds}": {"event-json", "event-msgpack"}, "/1/batch/{ds}": {"batch-msgpack", "batch-json"},
		"/v1/traces": {"otlp-trace-pb", "otlp-trace-json"}, "/v1/logs": {"otlp-logs-pb", "otlp-logs-json"},
	}
	if r.Target == "grpc" {
		r.Endpoint = c28GRPCMethods[0]
		switch rapid.IntRange(0, 9).Draw(t, "grpc-method") {
		case 0, 1, 2, 3:
		case 4, 5, 6:
			r.Endpoint = c28GRPCMethods[1]
		default:
			r.Endpoint = rapid.SampledFrom(c28GRPCMethods).Draw(t, "grpc-other-method")
		}
		r.Base = "otlp-trace-pb"
		if strings.Contains(r.Endpoint, "logs") {
			r.Base = "otlp-logs-pb"
		}
		if c28Rarely(t, 8, "unnatural-base") {
			r.Base = rapid.SampledFrom(c28BaseNames).Draw(t, "base")
		}
		r.Enc = rapid.SampledFrom([]string{"", "", "gzip"}).Draw(t, "grpc-compressor")
	} else {
		if !c28Rarely(t, 6, "other-endpoint") {
			r.Endpoint = rapid.SampledFrom([]string{"/1/batch/{ds}", "/1/events/{ds}", "/v1/traces", "/v1/logs"}).Draw(t, "endpoint")
			r.Base = rapid.SampledFrom(natural[r.Endpoint]).Draw(t, "base-for-endpoint")
			r.Method = "POST"
			if c28Rarely(t, 10, "other-method") {
				r.Method = rapid.SampledFrom([]string{"PUT", "GET", "DELETE", "PATCH"}).Draw(t, "method")
			}
		} else {
			r.Endpoint = rapid.SampledFrom(c28HTTPEndpoints).Draw(t, "endpoint")
			r.Method = rapid.SampledFrom([]string{"GET", "POST", "PUT", "DELETE", "HEAD", "OPTIONS"}).Draw(t, "method")
			r.Base = rapid.SampledFrom(c28BaseNames).Draw(t, "base")
		}
		if c28Rarely(t, 8, "unnatural-base") {
			r.Base = rapid.SampledFrom(c28BaseNames).Draw(t, "base")
		}
		r.Enc = rapid.SampledFrom([]string{"", "", "", "gzip", "zstd"}).Draw(t, "enc")
		r.EncHdr = "="
		if c28Rarely(t, 8, "enchdr-mismatch") {
			r.EncHdr = rapid.SampledFrom([]string{"gzip", "zstd", "", "deflate", "gzip, zstd", "GZIP"}).Draw(t, "enchdr")
		}
		r.CT = "="
		if c28Rarely(t, 6, "ct-mismatch") {
			r.CT = rapid.SampledFrom([]string{"application/json", "application/msgpack", "application/x-msgpack", "application/protobuf", "application/x-protobuf",
				"", "text/plain", "application/json; charset=utf-8", "application/x-protobuf; x=y", "APPLICATION/JSON", "application/grpc", "*/*"}).Draw(t, "ct")
		}
		if c28Rarely(t, 5, "event-time-set") {
			r.Time = rapid.SampledFrom([]string{"1700000000", "1700000000123", "170000000012345678901234567890", "-1", "abc", "1e400", "0x10", "1700000000.5", "2023-11-14T22:13:20Z", "9999-99-99T99:99:99Z", strings.Repeat("1", 400), "00000000000", "+1700000000", "-170000000012", "1700000000e5", "NaN", "Inf", ".5", "99999999999999999999.9"}).Draw(t, "event-time")
		}
		if c28Rarely(t, 6, "samplerate-set") {
			r.Rate = rapid.SampledFrom([]string{"2", "0", "-1", "99999999999999999999", "abc", "1.5", "4294967296", "-9223372036854775808"}).Draw(t, "samplerate")
		}
	}
	r.Key = rapid.SampledFrom([]string{"env", "env", "legacy", "none", "junk", "env2", "auth401", "auth500", "authgarbage", "authhangup"}).Draw(t, "key")
	r.Dataset = "ds"
	if c28Rarely(t, 4, "odd-dataset") {
		r.Dataset = rapid.SampledFrom(c28Datasets).Draw(t, "dataset")
	}
	if c28Rarely(t, 8, "odd-ua") {
		r.UA = rapid.SampledFrom([]string{"c28/1.0", strings.Repeat("u", 5000), "é"}).Draw(t, "ua")
	}
	fam := c28Family(r.Base)
	r.Pre = rapid.SliceOfN(rapid.Custom(func(t *rapid.T) c28Mut { return genC28Mut(t, "pre", fam) }), 0, 3).Draw(t, "pre")
	if r.Enc != "" && r.Target != "grpc" && c28Rarely(t, 2, "mutate-compressed") {
		r.Post = rapid.SliceOfN(rapid.Custom(func(t *rapid.T) c28Mut { return genC28Mut(t, "post", "") }), 1, 2).Draw(t, "post")
		for i := range r.Post {
			if r.Post[i].Kind == "swap" || r.Post[i].Kind == "repeat" {
				r.Post[i].Kind = "flip"
			}
		}
	}
	return r
}

var c28FailKeys = []string{"auth401", "auth500", "authgarbage", "authhangup"}

// genC28PlainReq: a well-formed ingestion request (no mutation) with the given key.
func genC28PlainReq(t *rapid.T, label, key string) c28Req {
	r := c28Req{Method: "POST", CT: "=", EncHdr: "=", Dataset: "ds", Key: key}
	switch rapid.IntRange(0, 5).Draw(t, label+"-where") {
	case 0:
		r.Target, r.Endpoint, r.Base = "grpc", c28GRPCMethods[0], "otlp-trace-pb"
	case 1:
		r.Target, r.Endpoint, r.Base = "grpc", c28GRPCMethods[1], "otlp-logs-pb"
	default:
		r.Target = rapid.SampledFrom([]string{"incoming", "incoming", "peer"}).Draw(t, label+"-listener")
		r.Endpoint = rapid.SampledFrom([]string{"/1/batch/{ds}", "/1/events/{ds}", "/v1/traces", "/v1/logs"}).Draw(t, label+"-endpoint")
		r.Base = map[string][]string{"/1/events/{ds}": {"event-json", "event-msgpack"}, "/1/batch/{ds}": {"batch-msgpack", "batch-json"},
			"/v1/traces": {"otlp-trace-pb", "otlp-trace-json"}, "/v1/logs": {"otlp-logs-pb", "otlp-logs-json"}}[r.Endpoint][rapid.IntRange(0, 1).Draw(t, label+"-format")]
	}
	return r
}

// genC28LookupHistory: a history on one live router in which the environment
// lookup (/1/auth) FAILS for some request (401, 500, undecodable answer,
// connection hung up) and further requests with environment-style keys follow:
// the same failing key, another failing key, a good key that is already cached,
// a good key that is not.
func genC28LookupHistory(t *rapid.T) c28Case {
	var reqs []c28Req
	if rapid.Bool().Draw(t, "warm-cache-first") {
		reqs = append(reqs, genC28PlainReq(t, "warm", "env"))
	}
	reqs = append(reqs, genC28PlainReq(t, "fail", rapid.SampledFrom(c28FailKeys).Draw(t, "fail-key")))
	n := rapid.IntRange(1, 3).Draw(t, "n-after")
	for i := 0; i < n; i++ {
		key := rapid.SampledFrom([]string{"env", "env2", "env", "auth401", "authgarbage", "authslow"}).Draw(t, "after-key")
		r := genC28PlainReq(t, "after", key)
		if rapid.IntRange(0, 3).Draw(t, "after-mutated") == 0 {
			fam := c28Family(r.Base)
			r.Pre = []c28Mut{genC28Mut(t, "after-mut", fam)}
		}
		reqs = append(reqs, r)
	}
	return c28Case{Mode: "request", Reqs: reqs}
}

// genC28Huge: the family "accepted but internally huge". One request whose body
// is small on the wire but becomes > 1 MB (the per-event limit of the API) or
// > 5 MB (more than a whole outgoing batch) inside refinery, with small
// companions in the same batch and a small request behind it; then the SUT is
// shut down and must flush, report and return (see the drain step).
func genC28Huge(t *rapid.T) c28Case {
	r := c28Req{Method: "POST", Key: "legacy", Dataset: "ds", Huge: &c28Huge{}}
	over5 := rapid.IntRange(0, 3).Draw(t, "over-5MB") != 0 // mostly beyond a whole batch
	switch rapid.IntRange(0, 9).Draw(t, "huge-kind") {
	case 0, 1, 2, 3:
		r.Huge.Kind, r.Huge.N = "msgpack-big-string", 1_200_000
		if over5 {
			r.Huge.N = 5_300_000
		}
	case 4:
		// JSON numbers inflate 2 -> 9 bytes; refinery's JSON path is slow on long
		// arrays (seconds of CPU), so the > 5 MB variant is rare
		r.Huge.Kind, r.Huge.N = "json-number-array", 130_000
		if over5 && rapid.IntRange(0, 3).Draw(t, "json-600k") == 3 {
			r.Huge.N = 600_000
		}
	case 5:
		r.Huge.Kind, r.Huge.N = "json-many-fields", 70_000
		if over5 && rapid.IntRange(0, 3).Draw(t, "json-330k") == 3 {
			r.Huge.N = 330_000
		}
	default:
		r.Huge.Kind, r.Huge.N = "otlp-big-attr", 1_200_000
		if over5 {
			r.Huge.N = 5_300_000
		}
	}
	if r.Huge.Kind == "otlp-big-attr" {
		switch rapid.IntRange(0, 3).Draw(t, "otlp-where") {
		case 0:
			r.Target, r.Endpoint = "grpc", c28GRPCMethods[0]
		case 1:
			r.Target, r.Endpoint = "grpc", c28GRPCMethods[1]
		case 2:
			r.Target, r.Endpoint = "incoming", "/v1/traces"
		default:
			r.Target, r.Endpoint = "incoming", "/v1/logs"
		}
	} else {
		r.Target = rapid.SampledFrom([]string{"incoming", "incoming", "peer"}).Draw(t, "listener")
		r.Endpoint = rapid.SampledFrom([]string{"/1/batch/{ds}", "/1/batch/{ds}", "/1/events/{ds}"}).Draw(t, "endpoint")
	}
	reqs := []c28Req{r}
	if rapid.Bool().Draw(t, "small-request-behind") {
		reqs = append(reqs, genC28PlainReq(t, "behind", "legacy"))
	}
	return c28Case{Mode: "request", Reqs: reqs, Drain: true}
}

func genC28Request(t *rapid.T) c28Case {
	if rapid.IntRange(0, 39).Draw(t, "huge-family") == 39 {
		return genC28Huge(t)
	}
	if rapid.IntRange(0, 3).Draw(t, "lookup-failure-history") == 3 {
		return genC28LookupHistory(t)
	}
	return c28Case{Mode: "request", Reqs: rapid.SliceOfN(rapid.Custom(genC28Req), 1, 5).Draw(t, "reqs")}
}

var _ = msgpack.Marshal
