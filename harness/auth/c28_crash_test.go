package auth

// C28: no accepted configuration or request input can crash Refinery.
//
// One check, two modes (c28Case.Mode):
//
//  config  : a generated config file + rules file. Whatever refinery's own
//            validation (config.NewConfig) ACCEPTS is then used the way refinery
//            uses it: every argument-free getter of config.Config (reflection),
//            the lookups by destination name, Reload, the marshalling the
//            /query endpoints do, and every sampler built by
//            sample.SamplerFactory and run on three small traces.
//  request : 1-5 mutated requests against a live Router (incoming + peer HTTP
//            listeners, gRPC listener) with a fixed valid configuration.
//
// Everything refinery-side runs in a child process (c28_worker_test.go).
// Oracle (validity predicate, nothing about refinery's logic): no panic
// (recovered or not), the process does not terminate, every request gets an
// HTTP/gRPC answer or a clean close, and /alive still answers afterwards.
// A reply that does not come within the (generous) deadline is inconclusive.

import (
	"bytes"
	"context"
	"encoding/json"
	"fmt"
	"io"
	"net/http"
	"os"
	"strconv"
	"strings"
	"sync"
	"sync/atomic"
	"testing"
	"time"

	"google.golang.org/grpc"
	"google.golang.org/grpc/codes"
	"google.golang.org/grpc/credentials/insecure"
	"google.golang.org/grpc/encoding"
	_ "google.golang.org/grpc/encoding/gzip"
	"google.golang.org/grpc/metadata"
	"google.golang.org/grpc/status"
	"pgregory.net/rapid"

	"github.com/honeycombio/refinery/verifharness/vkit"
)

type c28Case struct {
	Mode string `json:"mode"` // config | request
	// config mode: the literal file contents
	Config       string `json:"config,omitempty"`
	ConfigFormat string `json:"config_format,omitempty"`
	Rules        string `json:"rules,omitempty"`
	RulesFormat  string `json:"rules_format,omitempty"`
	Odd          int    `json:"odd,omitempty"`    // number of near-valid/junk values the generator placed (information only)
	Reload       bool   `json:"reload,omitempty"` // also call Config.Reload() on the unchanged files
	// request mode
	Reqs []c28Req `json:"reqs,omitempty"`
	// Drain: after the requests the SUT is shut down (Router.Stop,
	// DirectTransmission.Stop); the shutdown must return and every accepted event
	// must have been forwarded or reported as an error.
	Drain bool `json:"drain,omitempty"`
	// Tag (hand-kept regression cases only) is appended to every signature this
	// case produces, so that a regression of a FIXED defect can never be masked by
	// a known finding that happens to panic in the same function.
	Tag string `json:"tag,omitempty"`
}

const (
	c28ConfigDeadline  = 90 * time.Second
	c28RequestDeadline = 30 * time.Second
	c28WorkerMaxUses   = 400
	// a single request (at most 6 MB) that makes the server burn this much CPU
	// time without answering is spinning; CPU time, unlike wall time, does not
	// grow because the machine is busy with other things
	c28SpinCPUSeconds = 6.0
	// a handler is BLOCKED (stuck, not late) when its request has had no answer
	// for this long while the server process used (almost) no CPU in that window,
	// the fake upstream is serving nothing (so refinery is not waiting on the
	// network), /alive is answered at once (the process is scheduled and idle) and
	// two goroutine dumps a second apart show the handler parked on a lock/channel
	c28BlockedAfter  = 3 * time.Second
	c28BlockedMaxCPU = 0.15 // CPU-seconds per 3 s window; the idle router (tickers, GC) measures 0.03-0.06
)

var (
	c28StatMu                sync.Mutex
	c28ValidatorPanics       = map[string]int{}
	c28Accepted, c28Rejected int
)

func genC28(t *rapid.T) c28Case {
	switch os.Getenv("C28_MODE") { // development aid
	case "config":
		return genC28Config(t)
	case "request":
		return genC28Request(t)
	}
	if rapid.IntRange(0, 9).Draw(t, "mode") < 5 {
		return genC28Config(t)
	}
	return genC28Request(t)
}

func execC28(c c28Case) vkit.Result {
	res := execC28Tagged(c)
	if d := os.Getenv("C28_DUMP_INCONCLUSIVE"); d != "" { // development aid
		for _, cl := range res.Classes {
			if cl == "inconclusive-timing" {
				b, _ := json.Marshal(map[string]any{"case": c, "obs": res.Obs})
				os.WriteFile(fmt.Sprintf("%s/incon-%d.json", d, time.Now().UnixNano()), b, 0o644)
			}
		}
	}
	if os.Getenv("C28_SURVEY") != "" { // development aid: histogram of signatures instead of stopping at the first
		for _, v := range res.Violations {
			res.Class("survey:" + v.Signature)
			if d := os.Getenv("C28_DUMP_VIOLATIONS"); d != "" && !c28IsKnown(v.Signature) {
				b, _ := json.MarshalIndent(map[string]any{"property": "C28", "signature": v.Signature, "detail": v.Detail, "case": c}, "", " ")
				os.WriteFile(fmt.Sprintf("%s/%s-%d.json", d, c28Slug(v.Signature), len(b)), b, 0o644)
			}
		}
		res.Violations = nil
	}
	return res
}

var (
	c28KnownOnce sync.Once
	c28KnownSigs map[string]bool
)

// c28IsKnown: signatures already listed as known findings need no confirmation
// run (they are excluded by vkit anyway); this only saves time.
func c28IsKnown(sig string) bool {
	c28KnownOnce.Do(func() {
		c28KnownSigs = map[string]bool{}
		b, err := os.ReadFile(os.Getenv("VERIF_KNOWN"))
		if err != nil {
			return
		}
		var doc struct {
			Findings []struct{ Property, Signature, Status string }
		}
		if json.Unmarshal(b, &doc) == nil {
			for _, f := range doc.Findings {
				if f.Property == "C28" && f.Status == "known" {
					c28KnownSigs[f.Signature] = true
				}
			}
		}
	})
	return c28KnownSigs[sig]
}

func execC28Tagged(c c28Case) vkit.Result {
	res := execC28Confirmed(c)
	if c.Tag != "" {
		for i := range res.Violations {
			res.Violations[i].Signature += "#" + c.Tag
		}
	}
	return res
}

func execC28Confirmed(c c28Case) vkit.Result {
	res := c28Run(c, false)
	if len(res.Violations) == 0 {
		return res
	}
	allKnown := true
	for _, v := range res.Violations {
		allKnown = allKnown && c28IsKnown(v.Signature)
	}
	if allKnown {
		res.Class("known-signature(no confirmation run)")
		return res
	}
	// a verdict counts only if a brand-new worker process reproduces it: the
	// shared worker may carry leftovers of earlier cases
	res2 := c28Run(c, true)
	if len(res2.Violations) == 0 {
		res2.Class("violation-not-reproduced-on-fresh-worker")
		res2.Obs = fmt.Sprintf("first run reported %s: %.300s", res.Violations[0].Signature, res.Violations[0].Detail)
		return res2
	}
	res2.Class("violation-confirmed-on-fresh-worker")
	return res2
}

func c28Run(c c28Case, fresh bool) vkit.Result {
	switch c.Mode {
	case "config":
		return c28RunConfig(c, fresh)
	case "request":
		return c28RunRequest(c, fresh)
	}
	var res vkit.Result
	res.Class("unknown-mode")
	return res
}

// ---------------------------------------------------------------- config mode

func c28MemTotal() uint64 {
	b, err := os.ReadFile("/proc/meminfo")
	if err != nil {
		return 1 << 40
	}
	var total uint64
	for _, l := range strings.Split(string(b), "\n") {
		if strings.HasPrefix(l, "MemTotal:") || strings.HasPrefix(l, "SwapTotal:") {
			f := strings.Fields(l)
			if len(f) >= 2 {
				kb, _ := strconv.ParseUint(f[1], 10, 64)
				total += kb << 10
			}
		}
	}
	if total == 0 {
		return 1 << 40
	}
	return total
}

// c28JudgeDeath reports a dead worker. where = "config/<stage>" or "request/<endpoint>".
func c28JudgeDeath(res *vkit.Result, d *c28Death, where, ctx string) {
	if d.Hung {
		// no reply within the deadline: could be a hang, could be a slow machine
		res.Class("inconclusive-timing")
		res.Obs = "no reply within deadline; " + where
		return
	}
	label, oom := c28ClassifyDeath(d)
	if strings.HasPrefix(label, "fatal-out-of-memory") && oom <= c28MemTotal() {
		// the child runs under an address-space cap; only an allocation that no
		// machine of this size could satisfy anyway is blamed on refinery
		res.Class("child-oom-below-machine-memory(not judged)")
		res.Obs = fmt.Sprintf("%s: %d bytes requested", label, oom)
		return
	}
	if label == "harness-code-in-child" {
		res.Class("inconclusive-infrastructure")
		res.Obs = "the child died in harness code: " + c28Tail(d.Stderr, 600)
		return
	}
	if strings.HasPrefix(label, "exit(signal-killed)") {
		res.Class("inconclusive-infrastructure")
		res.Obs = "worker was killed: " + c28Tail(d.Stderr, 300)
		return
	}
	var keep []string
	for _, l := range strings.Split(d.Stderr, "\n") {
		if !strings.HasPrefix(l, "C28STAGE getters ") {
			keep = append(keep, l)
		}
	}
	excerpt := strings.Join(keep, "\n")
	for _, marker := range []string{"fatal error: ", "panic: "} {
		if i := strings.LastIndex(excerpt, marker); i >= 0 {
			excerpt = excerpt[i:]
			if len(excerpt) > 2500 {
				excerpt = excerpt[:2500] + "..."
			}
			break
		}
	}
	detail := fmt.Sprintf("the refinery process terminated (%s) %s; %s\n--- child stderr ---\n%s", d.Exit, ctx, label, c28Tail(excerpt, 2600))
	if oom > 0 {
		detail = fmt.Sprintf("allocation of %d bytes requested; ", oom) + detail
	}
	res.Violate("C28/"+where+"/process-terminated/"+label, "%s", detail)
}

func c28StageKind(stage string) string {
	// "sampler-build key=foo" -> "sampler-build"; "sampler-run DynamicSampler" stays
	if i := strings.Index(stage, " key="); i >= 0 {
		return stage[:i]
	}
	if strings.HasPrefix(stage, "getters ") {
		return "getters"
	}
	if strings.HasPrefix(stage, "sampler-run ") { // the frame names the sampler; the outer type would only split one defect
		return "sampler-run"
	}
	return strings.ReplaceAll(stage, " ", "-")
}

func c28RunConfig(c c28Case, fresh bool) vkit.Result {
	var res vkit.Result
	res.Class("mode=config")
	w, err := c28GetWorker(fresh, c28WorkerMaxUses)
	if err != nil {
		res.Class("inconclusive-infrastructure")
		res.Obs = err.Error()
		return res
	}
	w.stderr.Reset()
	rep, death := w.call(c28Cmd{Op: "config", ConfigYAML: c.Config, RulesYAML: c.Rules, ConfigFormat: c.ConfigFormat, RulesFormat: c.RulesFormat, Reload: c.Reload}, c28ConfigDeadline)
	if death != nil {
		stage := c28StageKind(c28LastStage(death.Stderr))
		if stage == "load(validate+NewConfig)" {
			// died while validating/loading: the file never "passed validation"
			res.Class("terminated-during-validation(outside the statement)")
			label, _ := c28ClassifyDeath(death)
			c28StatMu.Lock()
			c28ValidatorPanics["terminated:"+label]++
			c28StatMu.Unlock()
			res.Obs = label
			return res
		}
		res.NonTrivial = true
		// the stage is not part of the signature: a goroutine started by a sampler
		// may bring the process down a moment later, whatever we are doing then
		c28JudgeDeath(&res, death, "config", "after validation had accepted the files, during stage "+c28LastStage(death.Stderr))
		return res
	}
	if rep.Err != "" {
		res.Class("inconclusive-infrastructure")
		res.Obs = rep.Err
		return res
	}
	if !rep.Accepted {
		c28StatMu.Lock()
		c28Rejected++
		c28StatMu.Unlock()
		if len(rep.Panics) > 0 {
			// a panic inside validation/loading: the statement only speaks about
			// files that pass validation; counted and shown, not a violation
			_, ref := c28TopFrames(rep.Panics[0].Stack)
			top, _ := c28TopFrames(rep.Panics[0].Stack)
			if ref == "" {
				ref = top
			}
			res.Class("panic-during-validation(outside the statement)")
			c28StatMu.Lock()
			c28ValidatorPanics[ref]++
			c28StatMu.Unlock()
			res.Obs = rep.Panics[0].Msg + " @ " + ref
			return res
		}
		res.Class("config-rejected-by-validation")
		if os.Getenv("C28_SURVEY") != "" && c.Odd == 0 {
			msg := rep.Reject
			if i := strings.Index(msg, "ERROR: Validation failed for rules"); i > 0 {
				msg = msg[i+len("ERROR: Validation failed for rules"):]
			}
			res.Class("survey-reject-with-no-odd-value:" + fmt.Sprintf("%.200s", strings.ReplaceAll(msg, "\n", " | ")))
		}
		return res
	}
	c28StatMu.Lock()
	c28Accepted++
	c28StatMu.Unlock()
	res.Class("config-accepted")
	if c.Odd > 0 {
		// the interesting ones: validation let a file with odd values through
		res.NonTrivial = true
		res.Class("config-accepted-with-odd-values")
	}
	for _, s := range rep.Samplers {
		res.Class("sampler-run=" + s[strings.LastIndex(s, "=")+1:])
	}
	seen := map[string]bool{}
	for _, p := range rep.Panics {
		stage := p.Msg
		if i := strings.Index(stage, ": "); i >= 0 {
			stage = stage[:i]
		}
		top, ref := c28TopFrames(p.Stack)
		if ref == "" {
			ref = top
		}
		sig := "C28/config/" + c28StageKind(stage) + "/panic@" + ref
		if seen[sig] {
			continue
		}
		seen[sig] = true
		res.Violate(sig, "validation accepted the files, then %s\n%s", p.Msg, c28Tail(c28PanicPart(p.Stack), 1800))
	}
	for _, typ := range rep.NilSampler {
		sig := "C28/config/sampler-build/no-sampler-returned/" + typ
		if seen[sig] {
			continue
		}
		seen[sig] = true
		res.Violate(sig, "validation accepted the files but SamplerFactory.GetSamplerImplementationForKey returned nil for a %q sampler; the collector calls sampler.GetKeyFields() on the result unconditionally (collect/collector_worker.go), i.e. a nil dereference on the first trace", typ)
	}
	return res
}

// c28PanicPart cuts a debug.Stack() dump down to the frames from the panic on.
func c28PanicPart(stack string) string {
	if i := strings.LastIndex(stack, "\npanic("); i >= 0 {
		return stack[i+1:]
	}
	return stack
}

// ---------------------------------------------------------------- request mode

type c28RawCodec struct{}

func (c28RawCodec) Marshal(v any) ([]byte, error) {
	if b, ok := v.(*[]byte); ok {
		return *b, nil
	}
	return nil, fmt.Errorf("raw codec: %T", v)
}
func (c28RawCodec) Unmarshal(data []byte, v any) error {
	if b, ok := v.(*[]byte); ok {
		*b = append((*b)[:0], data...)
		return nil
	}
	return fmt.Errorf("raw codec: %T", v)
}
func (c28RawCodec) Name() string { return "proto" }

var _ encoding.Codec = c28RawCodec{}

func c28KeyFor(k string) string {
	switch k {
	case "legacy":
		return c28LegacyKey
	case "env":
		return c28EnvKey
	case "junk":
		return "k\"ey with spaces and \\ and é"
	}
	return c28AuthKeys[k] // "" for none
}

type c28Outcome struct {
	Kind   string // answered | closed | timeout | unsendable | spin | blocked
	Status string
	Detail string
	Body   string // first bytes of an HTTP response body
}

func c28EndpointLabel(r c28Req) string {
	ep := r.Endpoint
	if r.Target == "grpc" {
		ep = ep[strings.LastIndex(ep[:strings.LastIndex(ep, "/")], ".")+1:]
	}
	return r.Target + ":" + ep
}

// c28SigEndpoint: the endpoint as it appears in signatures. The incoming and the
// peer listener run the same handlers, so the listener is not part of it.
func c28SigEndpoint(r c28Req) string {
	if r.Target == "grpc" {
		return c28EndpointLabel(r)
	}
	return "http:" + r.Endpoint
}

func c28DoHTTP(ctx context.Context, addr string, r c28Req, body []byte, ct, ce string) c28Outcome {
	path := strings.ReplaceAll(r.Endpoint, "{ds}", r.Dataset)
	path = strings.ReplaceAll(path, "{fmt}", r.Dataset)
	req, err := http.NewRequestWithContext(ctx, r.Method, "http://"+addr+path, bytes.NewReader(body))
	if err != nil {
		return c28Outcome{Kind: "unsendable", Status: err.Error()}
	}
	if ct != "" {
		req.Header.Set("Content-Type", ct)
	}
	if ce != "" {
		req.Header.Set("Content-Encoding", ce)
	}
	if k := c28KeyFor(r.Key); k != "" {
		req.Header.Set("X-Honeycomb-Team", k)
	}
	if strings.HasPrefix(r.Endpoint, "/v1/") {
		req.Header.Set("X-Honeycomb-Dataset", r.Dataset)
	}
	if strings.HasPrefix(r.Endpoint, "/query/") {
		req.Header.Set("X-Honeycomb-Refinery-Query", c28QueryToken)
	}
	if r.Time != "" {
		req.Header.Set("X-Honeycomb-Event-Time", r.Time)
	}
	if r.Rate != "" {
		req.Header.Set("X-Honeycomb-Samplerate", r.Rate)
	}
	if r.UA != "" {
		req.Header.Set("User-Agent", r.UA)
	}
	tr := &http.Transport{DisableKeepAlives: true}
	defer tr.CloseIdleConnections()
	cl := &http.Client{Transport: tr}
	resp, err := cl.Do(req)
	if err != nil {
		if ctx.Err() != nil {
			return c28Outcome{Kind: "timeout", Status: err.Error()}
		}
		return c28Outcome{Kind: "closed", Status: err.Error()}
	}
	head, _ := io.ReadAll(io.LimitReader(resp.Body, 4096))
	_, rerr := io.Copy(io.Discard, io.LimitReader(resp.Body, 8<<20))
	resp.Body.Close()
	if rerr != nil && ctx.Err() != nil {
		return c28Outcome{Kind: "timeout", Status: rerr.Error()}
	}
	return c28Outcome{Kind: "answered", Status: strconv.Itoa(resp.StatusCode), Body: string(head)}
}

func c28DoGRPC(ctx context.Context, conn *grpc.ClientConn, r c28Req, body []byte) c28Outcome {
	md := metadata.MD{}
	if k := c28KeyFor(r.Key); k != "" && r.Key != "junk" {
		md.Set("x-honeycomb-team", k)
	}
	md.Set("x-honeycomb-dataset", strings.Map(func(c rune) rune {
		if c < 0x20 || c > 0x7e {
			return '_'
		}
		return c
	}, r.Dataset))
	ctx = metadata.NewOutgoingContext(ctx, md)
	opts := []grpc.CallOption{grpc.ForceCodec(c28RawCodec{})}
	if r.Enc == "gzip" {
		opts = append(opts, grpc.UseCompressor("gzip"))
	}
	var out []byte
	err := conn.Invoke(ctx, r.Endpoint, &body, &out, opts...)
	st, _ := status.FromError(err)
	switch st.Code() {
	case codes.DeadlineExceeded, codes.Canceled:
		return c28Outcome{Kind: "timeout", Status: st.Message()}
	case codes.Unavailable:
		return c28Outcome{Kind: "closed", Status: st.Message()}
	}
	if os.Getenv("ZZ_PROBE") != "" {
		fmt.Println("grpc:", r.Endpoint, r.Enc, st.Code(), st.Message())
	}
	return c28Outcome{Kind: "answered", Status: st.Code().String()}
}

// c28Watched runs one request while watching the CPU time of the server
// process. Outcome kind "spin": the server burnt c28SpinCPUSeconds on it without
// answering (the request is then abandoned). "timeout": no answer within the
// wall deadline without that much CPU burnt (inconclusive).
func c28Watched(w *c28Worker, aliveAddr string, wireBytes int, do func(ctx context.Context) c28Outcome) (c28Outcome, float64) {
	// legitimate work grows with the body (refinery's JSON path needs seconds of
	// CPU for a megabyte of short numbers): the spin threshold is generous per
	// megabyte, so only small requests can be called spinning within the deadline
	spinCPU := c28SpinCPUSeconds + 60*float64(wireBytes)/1e6
	deadline := c28RequestDeadline
	if wireBytes > 200_000 {
		deadline = 4 * c28RequestDeadline
	}
	ctx, cancel := context.WithTimeout(context.Background(), deadline)
	defer cancel()
	pid := w.cmd.Process.Pid
	cpu0 := c28CPUSeconds(pid)
	t0 := time.Now()
	type sample struct {
		at  time.Time
		cpu float64
	}
	samples := []sample{{t0, cpu0}}
	nextBlockedCheck := t0.Add(c28BlockedAfter)
	ch := make(chan c28Outcome, 1)
	go func() { ch <- do(ctx) }()
	tick := time.NewTicker(250 * time.Millisecond)
	defer tick.Stop()
	for {
		select {
		case out := <-ch:
			return out, c28CPUSeconds(pid) - cpu0
		case now := <-tick.C:
			cpu := c28CPUSeconds(pid)
			samples = append(samples, sample{now, cpu})
			if d := cpu - cpu0; d >= spinCPU {
				// answered in the meantime?
				select {
				case out := <-ch:
					return out, d
				default:
				}
				return c28Outcome{Kind: "spin", Status: fmt.Sprintf("%.1f CPU-seconds burnt, no answer", d)}, d
			}
			if now.Before(nextBlockedCheck) {
				continue
			}
			// CPU used during the last c28BlockedAfter
			var ref sample
			for _, sm := range samples {
				if now.Sub(sm.at) >= c28BlockedAfter {
					ref = sm
				}
			}
			if ref.at.IsZero() || cpu-ref.cpu >= c28BlockedMaxCPU {
				continue
			}
			nextBlockedCheck = now.Add(c28BlockedAfter)
			if frame, blk, ok := c28ConfirmBlocked(w, aliveAddr, pid); ok {
				select {
				case out := <-ch: // answered after all
					return out, cpu - cpu0
				default:
				}
				return c28Outcome{Kind: "blocked", Status: frame, Detail: blk}, cpu - cpu0
			}
		}
	}
}

// c28ConfirmBlocked: the process is idle; is it idle because a handler is parked
// for good? Nothing here depends on how fast the machine is: a parked goroutine
// stays parked, an upstream call in flight or a busy/unscheduled process
// disqualify the verdict.
func c28ConfirmBlocked(w *c28Worker, aliveAddr string, pid int) (frame, blk string, ok bool) {
	d1, death := w.call(c28Cmd{Op: "stacks"}, 30*time.Second)
	if death != nil || d1 == nil || d1.UpstreamInFlight != 0 {
		return "", "", false
	}
	id1, st1, f1, b1 := c28BlockedHandler(d1.Stacks)
	if id1 == "" {
		return "", "", false
	}
	// the process is alive and answers at once
	actx, acancel := context.WithTimeout(context.Background(), 2*time.Second)
	alive := c28DoHTTP(actx, aliveAddr, c28Req{Method: "GET", Endpoint: "/alive"}, nil, "", "")
	acancel()
	if alive.Kind != "answered" || alive.Status != "200" {
		return "", "", false
	}
	cpuA := c28CPUSeconds(pid)
	time.Sleep(time.Second)
	d2, death := w.call(c28Cmd{Op: "stacks"}, 30*time.Second)
	if death != nil || d2 == nil || d2.UpstreamInFlight != 0 {
		return "", "", false
	}
	// same goroutine, same wait state, same place, and still no CPU
	for _, b := range strings.Split(d2.Stacks, "\n\n") {
		if strings.HasPrefix(b, "goroutine "+id1+" [") {
			id2, st2, f2, _ := c28BlockedHandler(b)
			if id2 == id1 && st2 == st1 && f2 == f1 && c28CPUSeconds(pid)-cpuA < c28BlockedMaxCPU+0.05 {
				return f1, b1, true
			}
		}
	}
	return "", "", false
}

func c28RunRequest(c c28Case, fresh bool) vkit.Result {
	var res vkit.Result
	res.Class("mode=request")
	w, err := c28GetWorker(fresh, c28WorkerMaxUses)
	if err != nil {
		res.Class("inconclusive-infrastructure")
		res.Obs = err.Error()
		return res
	}
	w.stderr.Reset()
	rep, death := w.call(c28Cmd{Op: "start", Fresh: fresh}, 60*time.Second)
	if death != nil || rep.Err != "" {
		res.Class("inconclusive-infrastructure")
		if death != nil {
			res.Obs = "worker died while starting the router: " + c28Tail(death.Stderr, 400)
		} else {
			res.Obs = rep.Err
			c28KillWorker()
		}
		return res
	}
	httpAddr, peerAddr, grpcAddr := rep.HTTPAddr, rep.PeerAddr, rep.GRPCAddr
	var conn *grpc.ClientConn
	defer func() {
		if conn != nil {
			conn.Close()
		}
	}()
	mutated := false
	hugeDS, accepted := "", 0
	if c.Drain {
		hugeDS = fmt.Sprintf("huge%dx%d", os.Getpid(), c28HugeCtr.Add(1))
		res.Class("family=accepted-but-internally-huge")
		res.NonTrivial = true
	}
	for i, r := range c.Reqs {
		if c.Drain {
			// accounting is per dataset: every request of the case goes to a dataset
			// of its own, with a classic key (dataset taken from path/header)
			r.Dataset, r.Key = hugeDS, "legacy"
			r.Pre, r.Post, r.Enc, r.EncHdr = nil, nil, "", ""
			if r.CT == "" {
				r.CT = "="
			}
		}
		body, ct, ce := c28Wire(r)
		if len(r.Pre)+len(r.Post) > 0 {
			mutated = true
		}
		res.Class("endpoint=" + c28EndpointLabel(r))
		ep := c28SigEndpoint(r)
		var out c28Outcome
		switch r.Target {
		case "grpc":
			if conn == nil {
				conn, err = grpc.NewClient(grpcAddr, grpc.WithTransportCredentials(insecure.NewCredentials()),
					grpc.WithDefaultCallOptions(grpc.MaxCallSendMsgSize(16<<20)))
				if err != nil {
					res.Class("inconclusive-infrastructure")
					return res
				}
			}
			out, _ = c28Watched(w, httpAddr, len(body), func(ctx context.Context) c28Outcome { return c28DoGRPC(ctx, conn, r, body) })
		case "peer":
			out, _ = c28Watched(w, httpAddr, len(body), func(ctx context.Context) c28Outcome { return c28DoHTTP(ctx, peerAddr, r, body, ct, ce) })
		default:
			out, _ = c28Watched(w, httpAddr, len(body), func(ctx context.Context) c28Outcome { return c28DoHTTP(ctx, httpAddr, r, body, ct, ce) })
		}
		res.Class("outcome=" + out.Kind + "/" + out.Status[:min(len(out.Status), 24)])
		desc := fmt.Sprintf("request %d: %s %s base=%s pre=%v enc=%q post=%v content-type=%q content-encoding=%q key=%s dataset=%.40q event-time=%.40q samplerate=%q; %d bytes on the wire: %s; outcome %s %.200s",
			i, r.Method, c28EndpointLabel(r), r.Base, r.Pre, r.Enc, r.Post, ct, ce, r.Key, r.Dataset, r.Time, r.Rate, len(body), c28Hex(body, 96), out.Kind, out.Status)
		if out.Kind == "blocked" {
			res.NonTrivial = true
			c28KillWorker()
			res.Violate("C28/request/"+ep+"/blocked-without-progress@"+out.Status,
				"no answer after %v while the refinery process was idle (< %.0f ms CPU in that window), the upstream had nothing outstanding, /alive answered, and two goroutine dumps one second apart show the handler parked at the same place; %s\n--- blocked handler goroutine ---\n%s",
				c28BlockedAfter, c28BlockedMaxCPU*1000, desc, out.Detail[:min(len(out.Detail), 2200)])
			return res
		}
		if out.Kind == "spin" {
			res.NonTrivial = true
			frame, blk := "unknown-frame", ""
			if srep, death := w.call(c28Cmd{Op: "stacks"}, 60*time.Second); death == nil && srep != nil {
				if f, b := c28BusyFrame(srep.Stacks); f != "" {
					frame, blk = f, b
				}
			} else if death != nil && !death.Hung {
				// it died while we were looking: judge the death instead
				c28JudgeDeath(&res, death, "request/"+ep, "while serving "+desc)
				c28KillWorker()
				return res
			}
			c28KillWorker()
			if blk == "" {
				// CPU was burnt, but not by a goroutine inside refinery's request handling
				res.Class("cpu-burnt-outside-refinery-handlers(not judged)")
				res.Obs = desc
				return res
			}
			res.Violate("C28/request/"+ep+"/cpu-spin-without-answer@"+frame, "%s for %s\n--- busy goroutine ---\n%s", out.Status, desc, blk[:min(len(blk), 2200)])
			return res
		}
		srep, death := w.call(c28Cmd{Op: "sync"}, 60*time.Second)
		if death != nil {
			res.NonTrivial = true
			c28JudgeDeath(&res, death, "request/"+ep, "while or right after serving "+desc)
			return res
		}
		for _, p := range srep.Panics {
			top, ref := c28TopFrames(p.Stack)
			if ref == "" {
				ref = top
			}
			res.Violate("C28/request/"+ep+"/panic-recovered-by-handler@"+ref, "the router logged 'caught panic' (%s) for %s\n%s", p.Msg, desc, c28Tail(c28PanicPart(p.Stack), 1500))
		}
		if c.Drain && out.Kind == "answered" {
			accepted += c28AcceptedEvents(r, out)
		}
		if out.Kind == "timeout" {
			res.Class("inconclusive-timing")
			res.Obs = desc
			// the worker may still be busy with it: do not reuse
			c28KillWorker()
			return res
		}
	}
	if mutated {
		res.NonTrivial = true
	}
	if c.Drain {
		if conn != nil {
			conn.Close()
			conn = nil
		}
		c28Drain(&res, w, hugeDS, accepted, c)
		return res
	}
	// still serving?
	hctx, hcancel := context.WithTimeout(context.Background(), c28RequestDeadline)
	defer hcancel()
	health := c28DoHTTP(hctx, httpAddr, c28Req{Method: "GET", Endpoint: "/alive"}, nil, "", "")
	switch {
	case health.Kind == "answered" && health.Status == "200":
	case health.Kind == "timeout":
		res.Class("inconclusive-timing")
		c28KillWorker()
		return res
	default:
		// closed / refused / non-200
		if _, death := w.call(c28Cmd{Op: "sync"}, 60*time.Second); death != nil {
			c28JudgeDeath(&res, death, "request/after-case", "after the requests of the case were answered")
			return res
		}
		res.Violate("C28/request/health-check-fails-afterwards", "GET /alive after the case: %s %s", health.Kind, health.Status)
	}
	return res
}

var c28HugeCtr atomic.Int64

// c28AcceptedEvents: a lower bound of the events refinery accepted with this answer.
func c28AcceptedEvents(r c28Req, out c28Outcome) int {
	ok := out.Status == "200" || out.Status == "OK"
	if !ok {
		return 0
	}
	switch {
	case strings.Contains(strings.ToLower(r.Endpoint), "logs"):
		return 0 // husky picks the dataset of logs itself; they are not accounted per dataset
	case r.Target != "grpc" && strings.HasPrefix(r.Endpoint, "/1/batch"):
		return strings.Count(out.Body, `"status":202`)
	case r.Target != "grpc" && strings.HasPrefix(r.Endpoint, "/1/events"):
		return 1
	case r.Huge != nil:
		_, _, n := c28HugeBody(r)
		return n
	case strings.HasPrefix(r.Base, "otlp-"):
		return 2 // two spans / two log records in the base bodies
	}
	return 0
}

// c28Drain shuts the SUT down inside the child and watches it from outside.
// Verdicts: the shutdown burns CPU without ever returning (spin), or it returned
// and an accepted event was neither forwarded nor reported. Nothing is judged
// on wall-clock time: a shutdown that is merely slow ends as inconclusive.
func c28Drain(res *vkit.Result, w *c28Worker, ds string, accepted int, c c28Case) {
	first := ""
	for _, r := range c.Reqs {
		if r.Huge != nil {
			first = fmt.Sprintf("%s %s %+v", r.Target, r.Endpoint, *r.Huge)
			break
		}
	}
	desc := fmt.Sprintf("after %d request(s) of the family 'accepted but internally huge' (%s), %d event(s) accepted", len(c.Reqs), first, accepted)
	if rep, death := w.call(c28Cmd{Op: "drain"}, 60*time.Second); death != nil {
		c28JudgeDeath(res, death, "request/shutdown", "when the shutdown was started "+desc)
		return
	} else if rep.Err != "" {
		res.Class("inconclusive-infrastructure")
		res.Obs = rep.Err
		c28KillWorker()
		return
	}
	pid := w.cmd.Process.Pid
	cpu0, t0 := c28CPUSeconds(pid), time.Now()
	for {
		time.Sleep(200 * time.Millisecond)
		st, death := w.call(c28Cmd{Op: "drainstatus", Dataset: ds}, 60*time.Second)
		if death != nil {
			c28JudgeDeath(res, death, "request/shutdown", "during the shutdown "+desc)
			return
		}
		if st.Err != "" {
			res.Class("inconclusive-infrastructure")
			res.Obs = st.Err
			c28KillWorker()
			return
		}
		if st.Stopped {
			res.Class("drain=returned")
			res.Obs = fmt.Sprintf("accepted=%d delivered=%d errors=%d", accepted, st.Delivered, st.Errors)
			if st.Errors > 0 {
				res.Class("drain=oversized-event-reported-as-error")
			}
			if st.Delivered+st.Errors < accepted {
				res.Violate("C28/request/shutdown/accepted-event-neither-forwarded-nor-reported",
					"Router.Stop and DirectTransmission.Stop returned, but of %d accepted event(s) only %d reached the upstream and %d were reported as errors; %s", accepted, st.Delivered, st.Errors, desc)
			}
			return
		}
		if d := c28CPUSeconds(pid) - cpu0; d >= c28SpinCPUSeconds {
			frame, blk := "unknown-frame", ""
			if srep, death := w.call(c28Cmd{Op: "stacks"}, 60*time.Second); death == nil && srep != nil {
				if f, b := c28BusyFrameIn(srep.Stacks, false, "transmit"); f != "" {
					frame, blk = f, b
				}
			}
			c28KillWorker()
			if blk == "" {
				res.Class("cpu-burnt-outside-refinery-handlers(not judged)")
				res.Obs = desc
				return
			}
			res.Violate("C28/request/shutdown/cpu-spin-stop-never-returns@"+frame,
				"the shutdown (Router.Stop, DirectTransmission.Stop) has not returned while the process burnt %.1f CPU-seconds; %s\n--- busy goroutine ---\n%s", d, desc, blk[:min(len(blk), 2200)])
			return
		}
		if time.Since(t0) > 120*time.Second {
			// neither returned nor burning CPU: could be anything; not judged
			res.Class("inconclusive-timing")
			res.Obs = "shutdown did not return within the ceiling; " + desc
			c28KillWorker()
			return
		}
	}
}

func TestC28(t *testing.T) {
	defer c28KillWorker()
	vkit.Run(t, vkit.Spec[c28Case]{
		ID: "C28",
		Rule: "Two modes in one check. config: files generated from refinery's own metadata (configMeta.yaml/rulesMeta.yaml: valid, near-valid and junk values, YAML mostly, some JSON/TOML); whatever config.NewConfig accepts is exercised as refinery does (all argument-free Config getters by reflection, per-destination lookups, Reload, the marshalling of /query/*rules, every sampler built by sample.SamplerFactory and run on 3 small traces). " +
			"request: 1-5 mutated requests (truncate, flip, set, insert/overwrite hostile length headers, dup, cut, splice with another format, repeat, JSON type swaps; real gzip/zstd then mutations of the compressed stream; wrong content types/encodings; hostile event-time/samplerate/dataset) on every HTTP route of the incoming and the peer listener and on the gRPC trace, logs, health and unknown methods of a live Router; a quarter of the request cases are HISTORIES in which the environment lookup at the fake Honeycomb's /1/auth fails for one request (401, 500, undecodable body, hang-up) and requests with environment-style keys (same, other, cached, uncached, slow lookup) follow on the same router; 1 in 40 request cases (plus 4 hand-kept replays) belong to the family 'accepted but internally huge' (small on the wire, > 1 MB or > 5 MB as messagepack inside refinery: compressed msgpack strings, JSON number arrays / many numeric fields, OTLP attributes) and end with a shutdown of the SUT that must return with every accepted event forwarded or reported as an error. " +
			"The refinery side runs in a child process (crashes, os.Exit and CPU spins are observed from outside); a violation is reported only when a brand-new child reproduces it. Hand-kept regression cases of fixed defects carry a tag that is appended to their signatures so a known finding can never mask them. Non-trivial: config mode = validation accepted a file into which the generator had put at least one near-valid/junk value; request mode = at least one request was really mutated (or the process died). Distinct = distinct case JSON.",
		Assumptions: []string{
			"a panic or exit during validation/loading itself is outside the statement ('configuration that passes validation'): counted in coverage key validator_panics, not reported as a violation",
			"a missing reply within the wall deadline (30 s per request, 90 s per config) is inconclusive; a hang is reported only when the server process burnt >= 6 CPU-seconds (+ 60 per MB of body on the wire: long JSON number arrays legitimately cost seconds) on one request without answering; CPU time depends little on how busy the machine is",
			"shutdown verdicts (drain): 'never returns' needs >= 6 CPU-seconds burnt while Stop() is pending and a busy refinery goroutine in the dump; a shutdown that neither returns nor burns CPU within 120 s is inconclusive; accounting is a lower bound (OTLP logs, whose dataset husky chooses, are not counted)",
			"a handler is reported BLOCKED (not late) only when, >= 3 s after the request, the process used < 150 ms CPU in the last 3 s (its idle baseline is 30-60 ms), the fake upstream serves nothing (refinery is not waiting on the network), /alive is answered within 2 s (the process is scheduled and idle), and two goroutine dumps 1 s apart show the same handler goroutine parked on a lock/channel at the same frame",
			"the child runs with RLIMIT_AS = 5 GiB; an out-of-memory death is blamed on refinery only when the single allocation it asked for exceeds this machine's RAM+swap (it would fail without the cap too)",
			"the collector is a pass-through double and samplers are driven directly (as collectorWorker.send drives them); collector start-up under fuzzed Collection/Traces values is not exercised",
			"malformed HTTP framing (bad chunking, wrong Content-Length, invalid %-escapes in the path) is answered by net/http before refinery sees it and is not generated",
		},
		Gen:  genC28,
		Exec: execC28,
		Extra: func() map[string]any {
			c28StatMu.Lock()
			defer c28StatMu.Unlock()
			vp := map[string]any{}
			for k, v := range c28ValidatorPanics {
				vp[k] = v
			}
			return map[string]any{"configs_accepted": c28Accepted, "configs_rejected": c28Rejected, "validator_panics": vp}
		},
	})
}
