package auth

// Shared layer of the `auth` engine (C24, C28): a real route.Router on loopback
// ports (HTTP + gRPC), a real config.Config loaded by config.NewConfig from
// generated YAML files, a real transmit.DirectTransmission as upstream, and a
// fake Honeycomb (httptest) that records X-Honeycomb-Team per received batch and
// answers /1/auth with key IDs.
//
// The collector is a pass-through double: every span the router hands to the
// collector is forwarded to the upstream transmission immediately (what a
// keep-everything sampler ends up doing), so "what leaves Refinery" is decided
// synchronously by the router before it answers, and after
// DirectTransmission.Stop() (which flushes) the fake Honeycomb has seen
// everything that will ever be sent: no wall-clock wait is part of any verdict.

import (
	"bytes"
	"context"
	"encoding/json"
	"errors"
	"fmt"
	"io"
	"net"
	"net/http"
	"net/http/httptest"
	"os"
	"path/filepath"
	"sort"
	"strconv"
	"strings"
	"sync"
	"sync/atomic"
	"testing"
	"time"

	"github.com/klauspost/compress/zstd"
	"github.com/vmihailenco/msgpack/v5"
	"go.opentelemetry.io/otel/trace/noop"
	"gopkg.in/yaml.v3"

	"github.com/honeycombio/refinery/config"
	"github.com/honeycombio/refinery/logger"
	"github.com/honeycombio/refinery/metrics"
	"github.com/honeycombio/refinery/route"
	"github.com/honeycombio/refinery/sharder"
	"github.com/honeycombio/refinery/transmit"
	"github.com/honeycombio/refinery/types"
)

// ---------------------------------------------------------------- fake Honeycomb

type authBatch struct {
	Team    string   `json:"team"`
	Dataset string   `json:"dataset"`
	RIDs    []string `json:"rids"` // value of the "rid" field of each event ("" if absent)
}

type authHoney struct {
	srv *httptest.Server

	mu         sync.Mutex
	batches    []authBatch
	authCalls  []string          // X-Honeycomb-Team of every /1/auth request
	keyIDs     map[string]string // key -> id returned by /1/auth
	decodeErrs []string
	other      []string       // any other request (method + path)
	discard    bool           // do not decode batches
	counts     map[string]int // discard mode: events announced per dataset
	inflight   atomic.Int64   // requests being served right now
	// authScript, when set, decides how /1/auth treats a key: "" = normal answer,
	// "401", "500", "garbage" (200 with an undecodable body), "hangup" (connection
	// closed without an answer), "slow" (normal answer after 4 s), or one of
	// "429","403","404","400","409","503","502" (that status with a JSON error body).
	authScript func(key string) string
}

func authNewHoney(keyIDs map[string]string) *authHoney {
	h := &authHoney{keyIDs: keyIDs}
	mux := http.NewServeMux()
	mux.HandleFunc("/1/auth", h.handleAuth)
	mux.HandleFunc("/1/batch/", h.handleBatch)
	mux.HandleFunc("/", func(w http.ResponseWriter, r *http.Request) {
		io.Copy(io.Discard, r.Body)
		h.mu.Lock()
		if len(h.other) < 1000 {
			h.other = append(h.other, r.Method+" "+r.URL.Path)
		}
		h.mu.Unlock()
		w.WriteHeader(http.StatusNotFound)
	})
	h.srv = httptest.NewServer(http.HandlerFunc(func(w http.ResponseWriter, r *http.Request) {
		h.inflight.Add(1)
		defer h.inflight.Add(-1)
		mux.ServeHTTP(w, r)
	}))
	return h
}

func (h *authHoney) URL() string { return h.srv.URL }
func (h *authHoney) Close()      { h.srv.Close() }

func (h *authHoney) handleAuth(w http.ResponseWriter, r *http.Request) {
	key := r.Header.Get("X-Honeycomb-Team")
	h.mu.Lock()
	if len(h.authCalls) < 5000 {
		h.authCalls = append(h.authCalls, key)
	}
	id := h.keyIDs[key]
	h.mu.Unlock()
	if h.authScript != nil {
		switch mode := h.authScript(key); mode {
		case "429", "403", "404", "400", "409", "503", "502":
			// e.g. Honeycomb throttling the auth endpoint: an error status with a JSON body
			code, _ := strconv.Atoi(mode)
			w.Header().Set("Content-Type", "application/json")
			w.WriteHeader(code)
			w.Write([]byte(`{"error":"scripted failure of the auth endpoint"}`))
			return
		case "401":
			w.WriteHeader(http.StatusUnauthorized)
			return
		case "500":
			w.WriteHeader(http.StatusInternalServerError)
			return
		case "garbage":
			w.Header().Set("Content-Type", "application/json")
			w.Write([]byte(`{"environment":`))
			return
		case "hangup":
			if hj, ok := w.(http.Hijacker); ok {
				if c, _, err := hj.Hijack(); err == nil {
					c.Close()
					return
				}
			}
			w.WriteHeader(http.StatusBadGateway)
			return
		case "slow":
			time.Sleep(4 * time.Second)
		}
	}
	w.Header().Set("Content-Type", "application/json")
	// every key is a valid key of some environment; only the id differs.
	fmt.Fprintf(w, `{"api_key_access":{"events":true},"team":{"slug":"team"},"environment":{"slug":"env","name":"env"},"id":%s}`, strconv.Quote(id))
}

var authZstdDec, _ = zstd.NewReader(nil, zstd.WithDecoderConcurrency(1))

var authZstdDecBounded, _ = zstd.NewReader(nil, zstd.WithDecoderConcurrency(1), zstd.WithDecoderMaxMemory(64<<20))

// authBatchCount reads only the msgpack array header of a (possibly zstd
// compressed) batch body; 0 when it is not one. Counts are capped.
func authBatchCount(body []byte, enc string) int {
	if enc == "zstd" {
		dec, err := authZstdDecBounded.DecodeAll(body, nil)
		if err != nil {
			return 0
		}
		body = dec
	}
	if len(body) == 0 {
		return 0
	}
	n := 0
	switch c := body[0]; {
	case c >= 0x90 && c <= 0x9f:
		n = int(c & 0x0f)
	case c == 0xdc && len(body) >= 3:
		n = int(body[1])<<8 | int(body[2])
	case c == 0xdd && len(body) >= 5:
		n = int(body[1])<<24 | int(body[2])<<16 | int(body[3])<<8 | int(body[4])
	}
	if n < 0 || n > 100000 {
		return 0
	}
	return n
}

func (h *authHoney) handleBatch(w http.ResponseWriter, r *http.Request) {
	if h.discard {
		// C28: whatever refinery forwards or proxies here is hostile by design;
		// the fake upstream must not interpret it
		// ... except for the number of events a batch announces (array header
		// only, nothing is allocated from it): needed to answer one status per
		// event and to account per dataset.
		body, _ := io.ReadAll(io.LimitReader(r.Body, 8<<20))
		io.Copy(io.Discard, r.Body)
		n := authBatchCount(body, r.Header.Get("Content-Encoding"))
		ds := strings.TrimPrefix(r.URL.Path, "/1/batch/")
		h.mu.Lock()
		if h.counts == nil {
			h.counts = map[string]int{}
		}
		if len(h.counts) < 10000 {
			h.counts[ds] += n
		}
		h.mu.Unlock()
		w.Header().Set("Content-Type", "application/json")
		w.Write([]byte("[" + strings.TrimSuffix(strings.Repeat(`{"status":202},`, n), ",") + "]"))
		return
	}
	body, _ := io.ReadAll(r.Body)
	b := authBatch{Team: r.Header.Get("X-Honeycomb-Team"), Dataset: strings.TrimPrefix(r.URL.Path, "/1/batch/")}
	var derr string
	if r.Header.Get("Content-Encoding") == "zstd" {
		dec, err := authZstdDec.DecodeAll(body, nil)
		if err != nil {
			derr = "zstd: " + err.Error()
		}
		body = dec
	}
	var evs []map[string]any
	if derr == "" {
		if ct := r.Header.Get("Content-Type"); ct == "application/msgpack" || ct == "application/x-msgpack" {
			if err := msgpack.Unmarshal(body, &evs); err != nil {
				derr = "msgpack: " + err.Error()
			}
		} else if err := json.Unmarshal(body, &evs); err != nil {
			derr = "json: " + err.Error()
		}
	}
	for _, ev := range evs {
		rid := ""
		if d, ok := ev["data"].(map[string]any); ok {
			if s, ok := d["rid"].(string); ok {
				rid = s
			}
		}
		b.RIDs = append(b.RIDs, rid)
	}
	h.mu.Lock()
	if derr != "" {
		h.decodeErrs = append(h.decodeErrs, derr)
	}
	h.batches = append(h.batches, b)
	if len(h.batches) > 5000 { // long-lived SUTs (C28 worker): keep memory bounded
		h.batches = append(h.batches[:0:0], h.batches[2500:]...)
	}
	h.mu.Unlock()
	resp := make([]map[string]int, len(evs))
	for i := range resp {
		resp[i] = map[string]int{"status": 202}
	}
	w.Header().Set("Content-Type", "application/json")
	json.NewEncoder(w).Encode(resp)
}

func (h *authHoney) snapshot() (batches []authBatch, authCalls, decodeErrs []string) {
	h.mu.Lock()
	defer h.mu.Unlock()
	return append([]authBatch(nil), h.batches...), append([]string(nil), h.authCalls...), append([]string(nil), h.decodeErrs...)
}

// ---------------------------------------------------------------- logger double

type authLogLine struct {
	Level  string
	Msg    string
	Fields map[string]any
}

// authLogger keeps warn/error lines (debug/info are dropped, they are per-request
// chatter). onError, when set, is called synchronously for every error line.
type authLogger struct {
	mu      sync.Mutex
	lines   []authLogLine
	onError func(authLogLine)
}

type authLogEntry struct {
	l      *authLogger
	level  string
	fields map[string]any
}

func (l *authLogger) Debug() logger.Entry         { return authNopEntry{} }
func (l *authLogger) Info() logger.Entry          { return authNopEntry{} }
func (l *authLogger) Warn() logger.Entry          { return &authLogEntry{l: l, level: "warn"} }
func (l *authLogger) Error() logger.Entry         { return &authLogEntry{l: l, level: "error"} }
func (l *authLogger) SetLevel(level string) error { return nil }
func (l *authLogger) snapshot() []authLogLine {
	l.mu.Lock()
	defer l.mu.Unlock()
	return append([]authLogLine(nil), l.lines...)
}

type authNopEntry struct{}

func (authNopEntry) WithField(string, interface{}) logger.Entry     { return authNopEntry{} }
func (authNopEntry) WithString(string, string) logger.Entry         { return authNopEntry{} }
func (authNopEntry) WithFields(map[string]interface{}) logger.Entry { return authNopEntry{} }
func (authNopEntry) Logf(string, ...interface{})                    {}

func (e *authLogEntry) WithField(k string, v interface{}) logger.Entry {
	if e.fields == nil {
		e.fields = map[string]any{}
	}
	e.fields[k] = v
	return e
}
func (e *authLogEntry) WithString(k, v string) logger.Entry { return e.WithField(k, v) }
func (e *authLogEntry) WithFields(f map[string]interface{}) logger.Entry {
	for k, v := range f {
		e.WithField(k, v)
	}
	return e
}
func (e *authLogEntry) Logf(f string, args ...interface{}) {
	msg := f
	if len(args) > 0 {
		msg = fmt.Sprintf(f, args...)
	}
	line := authLogLine{Level: e.level, Msg: msg, Fields: e.fields}
	e.l.mu.Lock()
	if len(e.l.lines) < 10000 {
		e.l.lines = append(e.l.lines, line)
	}
	cb := e.l.onError
	e.l.mu.Unlock()
	if cb != nil && e.level == "error" {
		cb(line)
	}
}

// authCaughtPanics returns the error lines that report a recovered panic.
func authCaughtPanics(lines []authLogLine) []authLogLine {
	var out []authLogLine
	for _, ln := range lines {
		if m, _ := ln.Fields["error.msg"].(string); m == "caught panic" || strings.Contains(ln.Msg, "caught panic") {
			out = append(out, ln)
		}
	}
	return out
}

// ---------------------------------------------------------------- other doubles

// authCollector forwards every span to the upstream transmission immediately.
type authCollector struct {
	upstream transmit.Transmission
	spans    atomic.Int64
}

func (c *authCollector) AddSpan(sp *types.Span) error {
	c.spans.Add(1)
	c.upstream.EnqueueSpan(sp)
	return nil
}
func (c *authCollector) AddSpanFromPeer(sp *types.Span) error { return c.AddSpan(sp) }
func (c *authCollector) Stressed() bool                       { return false }
func (c *authCollector) GetStressedSampleRate(string) (uint, bool, string) {
	return 1, true, ""
}
func (c *authCollector) ProcessSpanImmediately(*types.Span) (bool, bool) { return false, false }

type authHealth struct{}

func (authHealth) IsAlive() bool { return true }
func (authHealth) IsReady() bool { return true }

// authPeerTransmission counts what would have gone to a peer (never expected with
// a single-server sharder).
type authPeerTransmission struct{ n atomic.Int64 }

func (p *authPeerTransmission) EnqueueEvent(*types.Event) { p.n.Add(1) }
func (p *authPeerTransmission) EnqueueSpan(*types.Span)   { p.n.Add(1) }

// ---------------------------------------------------------------- port blocks

// Ports are taken from 127.0.0.1:20000-29990, below the ephemeral range
// (32768+), in blocks of 10 claimed through O_EXCL lock files, so that parallel
// copies of the harness never race for a port the kernel might hand to someone
// else. A block whose owner process is gone is reclaimed.
const (
	authPortBase   = 20000
	authPortBlocks = 999
	authPortDir    = "/tmp/verif-auth-ports"
)

type authPortBlock struct {
	base int
	lock string
}

func authPidAlive(pid int) bool {
	if pid <= 0 {
		return false
	}
	_, err := os.Stat("/proc/" + strconv.Itoa(pid))
	return err == nil
}

func authPortFree(p int) bool {
	l, err := net.Listen("tcp", "127.0.0.1:"+strconv.Itoa(p))
	if err != nil {
		return false
	}
	l.Close()
	return true
}

func authClaimPorts(start int) (*authPortBlock, error) {
	_ = os.MkdirAll(authPortDir, 0o777)
	for i := 0; i < authPortBlocks; i++ {
		k := (start + i) % authPortBlocks
		lock := filepath.Join(authPortDir, fmt.Sprintf("blk-%03d.lock", k))
		f, err := os.OpenFile(lock, os.O_CREATE|os.O_EXCL|os.O_WRONLY, 0o666)
		if err != nil {
			// stale? (owner gone, e.g. a killed worker): reclaim it
			b, rerr := os.ReadFile(lock)
			if rerr != nil {
				continue
			}
			pid, _ := strconv.Atoi(strings.TrimSpace(string(b)))
			st, serr := os.Stat(lock)
			if serr != nil || authPidAlive(pid) || time.Since(st.ModTime()) < 2*time.Second {
				continue
			}
			os.Remove(lock)
			if f, err = os.OpenFile(lock, os.O_CREATE|os.O_EXCL|os.O_WRONLY, 0o666); err != nil {
				continue
			}
		}
		fmt.Fprintf(f, "%d\n", os.Getpid())
		f.Close()
		blk := &authPortBlock{base: authPortBase + 10*k, lock: lock}
		ok := true
		for p := 0; p < 3; p++ {
			if !authPortFree(blk.base + p) {
				ok = false
			}
		}
		if ok {
			return blk, nil
		}
		// someone else (not this harness) sits on these ports; keep the lock file
		// for our lifetime so nobody else tries, and move on.
	}
	return nil, errors.New("no free port block")
}

func (b *authPortBlock) Release() { os.Remove(b.lock) }

var (
	authProcPortsMu sync.Mutex
	authProcPorts   *authPortBlock
)

// authProcessPorts returns this process's port block (claimed once).
func authProcessPorts() (*authPortBlock, error) {
	authProcPortsMu.Lock()
	defer authProcPortsMu.Unlock()
	if authProcPorts != nil {
		return authProcPorts, nil
	}
	b, err := authClaimPorts((os.Getpid() * 7) % authPortBlocks)
	if err != nil {
		return nil, err
	}
	authProcPorts = b
	return b, nil
}

func authDropProcessPorts() {
	authProcPortsMu.Lock()
	defer authProcPortsMu.Unlock()
	// keep the lock file (ports are suspect), just forget the block.
	authProcPorts = nil
}

func TestMain(m *testing.M) {
	code := m.Run()
	authProcPortsMu.Lock()
	if authProcPorts != nil {
		authProcPorts.Release()
	}
	authProcPortsMu.Unlock()
	os.Exit(code)
}

// ---------------------------------------------------------------- SUT

type authSUTOpts struct {
	// Config groups merged over the harness defaults (General, Network,
	// GRPCServerParameters are filled in by the harness).
	Config map[string]any
	// Rules file content; nil = keep-everything deterministic sampler.
	Rules  map[string]any
	KeyIDs map[string]string
	// OnError is called for every error-level log line.
	OnError func(authLogLine)
	// Peer also starts a second Router of type peer on PeerListenAddr.
	Peer bool
	// HoneyDiscard makes the fake Honeycomb swallow batches without decoding them.
	HoneyDiscard bool
	// BatchTimeout of the upstream DirectTransmission (default 20 ms). Its
	// dispatcher ticks every BatchTimeout/4, so a long-lived idle SUT wants it large.
	BatchTimeout time.Duration
	// AuthScript scripts /1/auth per key (see authHoney.authScript).
	AuthScript func(key string) string
}

type authSUT struct {
	Cfg       config.Config
	Router    *route.Router
	PeerRtr   *route.Router
	PeerAddr  string
	Upstream  *transmit.DirectTransmission
	Peer      *authPeerTransmission
	Collector *authCollector
	Honey     *authHoney
	Log       *authLogger
	HTTPAddr  string
	GRPCAddr  string
	Nonce     string
	dir       string
	transport *http.Transport
	upTransp  *http.Transport
	stopped   bool
}

var authNonceCtr atomic.Int64

var errAuthConfigRejected = errors.New("configuration rejected by refinery's validator")

func authDefaultRules() map[string]any {
	return map[string]any{
		"RulesVersion": 2,
		"Samplers": map[string]any{
			"__default__": map[string]any{"DeterministicSampler": map[string]any{"SampleRate": 1}},
		},
	}
}

// authStartSUT loads the configuration with config.NewConfig and starts an
// incoming Router. A returned error wrapping errAuthConfigRejected means the
// validator refused the files; any other error is a harness/infrastructure
// problem (inconclusive, never a violation).
func authStartSUT(o authSUTOpts) (*authSUT, error) {
	var lastErr error
	for attempt := 0; attempt < 4; attempt++ {
		s, err := authStartSUTOnce(o)
		if err == nil || errors.Is(err, errAuthConfigRejected) {
			return s, err
		}
		lastErr = err
		authDropProcessPorts()
	}
	return nil, lastErr
}

func authStartSUTOnce(o authSUTOpts) (*authSUT, error) {
	blk, err := authProcessPorts()
	if err != nil {
		return nil, err
	}
	s := &authSUT{
		HTTPAddr: "127.0.0.1:" + strconv.Itoa(blk.base),
		GRPCAddr: "127.0.0.1:" + strconv.Itoa(blk.base+2),
		Nonce:    fmt.Sprintf("verif-%d-%d", os.Getpid(), authNonceCtr.Add(1)),
	}
	s.Honey = authNewHoney(o.KeyIDs)
	s.Honey.discard = o.HoneyDiscard
	s.Honey.authScript = o.AuthScript
	ok := false
	defer func() {
		if !ok {
			s.Honey.Close()
			if s.dir != "" {
				os.RemoveAll(s.dir)
			}
		}
	}()

	cfgMap := map[string]any{}
	for k, v := range o.Config {
		cfgMap[k] = v
	}
	merge := func(group string, kv map[string]any) {
		g, _ := cfgMap[group].(map[string]any)
		ng := map[string]any{}
		for k, v := range g {
			ng[k] = v
		}
		for k, v := range kv {
			ng[k] = v
		}
		cfgMap[group] = ng
	}
	merge("General", map[string]any{"ConfigurationVersion": 2})
	merge("Network", map[string]any{
		"ListenAddr":     s.HTTPAddr,
		"PeerListenAddr": "127.0.0.1:" + strconv.Itoa(blk.base+1),
		"HoneycombAPI":   s.Honey.URL(),
	})
	merge("GRPCServerParameters", map[string]any{"Enabled": true, "ListenAddr": s.GRPCAddr})
	rules := o.Rules
	if rules == nil {
		rules = authDefaultRules()
	}
	s.dir, err = os.MkdirTemp("", "authsut-")
	if err != nil {
		return nil, err
	}
	cb, err := yaml.Marshal(cfgMap)
	if err != nil {
		return nil, err
	}
	rb, err := yaml.Marshal(rules)
	if err != nil {
		return nil, err
	}
	cpath, rpath := filepath.Join(s.dir, "config.yaml"), filepath.Join(s.dir, "rules.yaml")
	if err := os.WriteFile(cpath, cb, 0o644); err != nil {
		return nil, err
	}
	if err := os.WriteFile(rpath, rb, 0o644); err != nil {
		return nil, err
	}
	cfg, err := config.NewConfig(&config.CmdEnv{ConfigLocations: []string{cpath}, RulesLocations: []string{rpath}})
	if cfg == nil {
		return nil, fmt.Errorf("%w: %v", errAuthConfigRejected, err)
	}
	s.Cfg = cfg

	s.Log = &authLogger{onError: o.OnError}
	met := &metrics.NullMetrics{}
	s.upTransp = &http.Transport{MaxIdleConnsPerHost: 4}
	bt := o.BatchTimeout
	if bt == 0 {
		bt = 20 * time.Millisecond
	}
	s.Upstream = transmit.NewDirectTransmission(types.TransmitTypeUpstream, s.upTransp, 50, bt, 30*time.Second, true, nil)
	s.Upstream.Config, s.Upstream.Logger, s.Upstream.Metrics, s.Upstream.Version = cfg, s.Log, met, "verif"
	if err := s.Upstream.Start(); err != nil {
		return nil, err
	}
	s.Peer = &authPeerTransmission{}
	s.Collector = &authCollector{upstream: s.Upstream}
	s.transport = &http.Transport{MaxIdleConnsPerHost: 4}
	s.Router = &route.Router{
		Config:               cfg,
		Logger:               s.Log,
		Health:               authHealth{},
		HTTPTransport:        s.transport,
		UpstreamTransmission: s.Upstream,
		PeerTransmission:     s.Peer,
		Sharder:              &sharder.SingleServerSharder{Logger: s.Log},
		Collector:            s.Collector,
		Metrics:              met,
		Tracer:               noop.NewTracerProvider().Tracer("verif"),
	}
	s.Router.SetVersion(s.Nonce)
	s.Router.SetType(types.RouterTypeIncoming)
	if !authPortFree(blk.base) || !authPortFree(blk.base+2) {
		s.Upstream.Stop()
		return nil, fmt.Errorf("ports %d/%d busy", blk.base, blk.base+2)
	}
	s.Router.LnS()

	// wait until OUR router answers on the port (the version string is a nonce)
	deadline := time.Now().Add(15 * time.Second)
	cl := &http.Client{Timeout: 2 * time.Second, Transport: &http.Transport{DisableKeepAlives: true}}
	for {
		resp, err := cl.Get("http://" + s.HTTPAddr + "/version")
		if err == nil {
			b, _ := io.ReadAll(resp.Body)
			resp.Body.Close()
			if bytes.Contains(b, []byte(s.Nonce)) {
				break
			}
			s.stop()
			return nil, fmt.Errorf("port %s answered by someone else: %.80s", s.HTTPAddr, b)
		}
		if time.Now().After(deadline) {
			s.stop()
			return nil, fmt.Errorf("router did not come up on %s: %v", s.HTTPAddr, err)
		}
		time.Sleep(2 * time.Millisecond)
	}
	if o.Peer {
		s.PeerAddr = "127.0.0.1:" + strconv.Itoa(blk.base+1)
		if !authPortFree(blk.base + 1) {
			s.stop()
			return nil, fmt.Errorf("port %d busy", blk.base+1)
		}
		s.PeerRtr = &route.Router{
			Config: cfg, Logger: s.Log, Health: authHealth{}, HTTPTransport: s.transport,
			UpstreamTransmission: s.Upstream, PeerTransmission: s.Peer,
			Sharder: &sharder.SingleServerSharder{Logger: s.Log}, Collector: s.Collector,
			Metrics: met, Tracer: noop.NewTracerProvider().Tracer("verif"),
		}
		s.PeerRtr.SetVersion(s.Nonce + "-peer")
		s.PeerRtr.SetType(types.RouterTypePeer)
		s.PeerRtr.LnS()
		for {
			resp, err := cl.Get("http://" + s.PeerAddr + "/version")
			if err == nil {
				b, _ := io.ReadAll(resp.Body)
				resp.Body.Close()
				if bytes.Contains(b, []byte(s.Nonce+"-peer")) {
					break
				}
				s.stop()
				return nil, fmt.Errorf("port %s answered by someone else: %.80s", s.PeerAddr, b)
			}
			if time.Now().After(deadline) {
				s.stop()
				return nil, fmt.Errorf("peer router did not come up on %s: %v", s.PeerAddr, err)
			}
			time.Sleep(2 * time.Millisecond)
		}
	}
	// and the gRPC listener
	for {
		c, err := net.DialTimeout("tcp", s.GRPCAddr, time.Second)
		if err == nil {
			c.Close()
			break
		}
		if time.Now().After(deadline) {
			s.stop()
			return nil, fmt.Errorf("grpc listener did not come up on %s: %v", s.GRPCAddr, err)
		}
		time.Sleep(2 * time.Millisecond)
	}
	ok = true
	return s, nil
}

func (s *authSUT) stop() {
	if s.stopped {
		return
	}
	s.stopped = true
	done := make(chan struct{})
	go func() {
		defer close(done)
		_ = s.Router.Stop()
		if s.PeerRtr != nil {
			_ = s.PeerRtr.Stop()
		}
		_ = s.Upstream.Stop() // flushes every pending batch synchronously
	}()
	select {
	case <-done:
	case <-time.After(90 * time.Second):
	}
	s.transport.CloseIdleConnections()
	s.upTransp.CloseIdleConnections()
	s.Honey.Close()
	os.RemoveAll(s.dir)
}

// stopComponents stops routers and upstream transmission (what shutdown does)
// and returns when they have returned. The caller then calls finish().
func (s *authSUT) stopComponents() {
	_ = s.Router.Stop()
	if s.PeerRtr != nil {
		_ = s.PeerRtr.Stop()
	}
	_ = s.Upstream.Stop()
}

// finish releases what is left after stopComponents returned.
func (s *authSUT) finish() {
	s.stopped = true
	s.transport.CloseIdleConnections()
	s.upTransp.CloseIdleConnections()
	s.Honey.Close()
	os.RemoveAll(s.dir)
}

// Stop stops the router, flushes the upstream transmission and returns whether
// the shutdown completed (false = inconclusive, do not judge what was sent).
func (s *authSUT) Stop() bool {
	t0 := time.Now()
	s.stop()
	return time.Since(t0) < 90*time.Second
}

// ---------------------------------------------------------------- small utils

func authSortedKeys[V any](m map[string]V) []string {
	ks := make([]string, 0, len(m))
	for k := range m {
		ks = append(ks, k)
	}
	sort.Strings(ks)
	return ks
}

func authMsgpack(v any) []byte {
	b, err := msgpack.Marshal(v)
	if err != nil {
		panic(err)
	}
	return b
}

func authCtx(d time.Duration) (context.Context, context.CancelFunc) {
	return context.WithTimeout(context.Background(), d)
}
