package auth

// C24: ingest authorisation and key replacement are uniform across protocols.
//
// Oracle (written from config.md "Access Key Configuration" and the property
// statement, NOT from AccessKeyConfig.IsAccepted / GetReplaceKey):
//
//   listed(k)   := k in ReceiveKeys  or  id(k) in ReceiveKeyIDs     (id from /1/auth; "" for blank/legacy keys)
//   accepted(k) := !AcceptOnlyListedKeys or listed(k) or (SendKey != "" and k == SendKey)
//                  -- judged on the key the CLIENT sent ("applied before SendKey and SendKeyMode")
//   upstream(k) := k                                    if SendKey == ""
//                  none: k | all: SendKey | nonblank: k=="" ? "" : SendKey
//                  listedonly: listed(k) ? SendKey : k  | missingonly: k=="" ? SendKey : k
//                  unlisted: listed(k) ? k : (k=="" ? DON'T-CARE : SendKey)
//   accepted & upstream != "" : success response, every event of the request reaches Honeycomb exactly once with X-Honeycomb-Team == upstream(k)
//   !accepted                 : error response, nothing of the request reaches Honeycomb
//   accepted & upstream == "" : nothing of the request reaches Honeycomb (response is a don't-care); never a blank X-Honeycomb-Team

import (
	"bytes"
	"encoding/hex"
	"encoding/json"
	"fmt"
	"io"
	"net/http"
	"os"
	"path/filepath"
	"sort"
	"strings"
	"sync"
	"sync/atomic"
	"testing"
	"time"

	collectorlogs "go.opentelemetry.io/proto/otlp/collector/logs/v1"
	collectortrace "go.opentelemetry.io/proto/otlp/collector/trace/v1"
	commonpb "go.opentelemetry.io/proto/otlp/common/v1"
	logspb "go.opentelemetry.io/proto/otlp/logs/v1"
	resourcepb "go.opentelemetry.io/proto/otlp/resource/v1"
	tracepb "go.opentelemetry.io/proto/otlp/trace/v1"
	"google.golang.org/grpc"
	"google.golang.org/grpc/codes"
	"google.golang.org/grpc/credentials/insecure"
	"google.golang.org/grpc/metadata"
	"google.golang.org/grpc/status"
	"google.golang.org/protobuf/proto"
	"pgregory.net/rapid"

	"github.com/honeycombio/refinery/verifharness/vkit"
)

var c24Modes = []string{"none", "all", "nonblank", "listedonly", "unlisted", "missingonly"}

var c24Endpoints = []string{
	"event", "batch", "otlp-traces-http-proto", "otlp-traces-http-json", "otlp-logs-http", "otlp-traces-grpc", "otlp-logs-grpc",
}

type c24Req struct {
	Endpoint string `json:"endpoint"`
	Key      string `json:"key"`               // the key the client sends ("" = no key header at all)
	Short    bool   `json:"short,omitempty"`   // /1/ endpoints only: send the key in X-Hny-Team
	NoTrace  bool   `json:"notrace,omitempty"` // /1/ endpoints and logs: event without a trace id (goes upstream directly, not through the collector)
	Msgpack  bool   `json:"msgpack,omitempty"` // /1/ endpoints: msgpack body
	// Auth: how Honeycomb's /1/auth answers WHILE this request is served ("" =
	// healthy; "401","429","403","404","500","503","hangup","garbage" = the lookup
	// service fails that way for every key).
	Auth string `json:"auth,omitempty"`
}

type c24Case struct {
	Table         bool              `json:"table,omitempty"` // part of the exhaustive table (replays/C24/table-*.json)
	Mode          string            `json:"mode"`
	AOLK          bool              `json:"aolk"`
	SendKey       string            `json:"sendkey"` // "" = unset
	ReceiveKeys   []string          `json:"receivekeys"`
	ReceiveKeyIDs []string          `json:"receivekeyids"`
	KeyIDs        map[string]string `json:"keyids"` // what the fake /1/auth answers as "id" per key
	Reqs          []c24Req          `json:"reqs"`
}

// ---- the oracle's own notion of the configuration

func c24IsLegacy(k string) bool { // classic keys have no key id (config.md: "does not support legacy API keys")
	isHexLower := func(s string) bool {
		for _, c := range s {
			if !(c >= '0' && c <= '9' || c >= 'a' && c <= 'f') {
				return false
			}
		}
		return true
	}
	isAlnumLower := func(s string) bool {
		for _, c := range s {
			if !(c >= '0' && c <= '9' || c >= 'a' && c <= 'z') {
				return false
			}
		}
		return true
	}
	switch len(k) {
	case 32:
		return isHexLower(k)
	case 64:
		return k[:2] == "hc" && k[2] >= 'a' && k[2] <= 'z' && k[3:6] == "ic_" && isAlnumLower(k[6:])
	}
	return false
}

func c24In(list []string, s string) bool {
	for _, x := range list {
		if x == s {
			return true
		}
	}
	return false
}

func (c *c24Case) keyID(k string) string {
	if k == "" || c24IsLegacy(k) {
		return ""
	}
	return c.KeyIDs[k]
}

func (c *c24Case) listed(k string) bool {
	if c24In(c.ReceiveKeys, k) {
		return true
	}
	id := c.keyID(k)
	return id != "" && c24In(c.ReceiveKeyIDs, id)
}

// class of the client's key, for the histogram and the table coverage.
func (c *c24Case) class(k string) string {
	switch {
	case k == "":
		return "blank"
	case c.SendKey != "" && k == c.SendKey:
		return "sendkey"
	case c24In(c.ReceiveKeys, k):
		return "listed"
	case c.listed(k):
		return "listed-by-id"
	}
	return "unlisted"
}

func (c *c24Case) accepted(k string) bool {
	return !c.AOLK || c.listed(k) || (c.SendKey != "" && k == c.SendKey)
}

// upstream returns the key the documented SendKeyMode table prescribes; dontCare
// is set for the one corner the documentation leaves open.
func (c *c24Case) upstream(k string) (key string, dontCare bool) {
	if c.SendKey == "" {
		return k, false
	}
	switch c.Mode {
	case "none":
		return k, false
	case "all":
		return c.SendKey, false
	case "nonblank":
		if k == "" {
			return "", false
		}
		return c.SendKey, false
	case "listedonly":
		if c.listed(k) {
			return c.SendKey, false
		}
		return k, false
	case "missingonly":
		if k == "" {
			return c.SendKey, false
		}
		return k, false
	case "unlisted":
		if c.listed(k) {
			return k, false
		}
		if k == "" {
			// "uses the SendKey for all events except those with keys listed":
			// whether a missing key counts is not said (the other modes say so
			// explicitly when blank keys are meant).
			return "", true
		}
		return c.SendKey, false
	}
	panic("unknown mode " + c.Mode)
}

// ---- generator

const (
	c24CanonSend     = "sendkeysendkeysendkey1" // 22 alnum: valid "new style" key for the validator
	c24CanonListed   = "listedkeylistedkey0001"
	c24CanonByID     = "hcaik_" + "01byidbyidbyidbyidbyidbyidbyidbyidbyidbyidbyidbyidbyidbyid" // ingest key, 58 after prefix
	c24CanonByIDID   = "hcaik_01byidbyidbyidbyidby"
	c24CanonUnlisted = "unlistedkeyunlisted001"
)

func c24CanonKeyIDs() map[string]string {
	return map[string]string{
		c24CanonByID:     c24CanonByIDID,
		c24CanonListed:   "id-of-listed",
		c24CanonUnlisted: "id-of-unlisted",
		c24CanonSend:     "id-of-sendkey",
	}
}

func c24TableCases() []c24Case {
	var out []c24Case
	for _, mode := range c24Modes {
		for _, aolk := range []bool{false, true} {
			for _, sk := range []string{c24CanonSend, ""} {
				c := c24Case{Table: true, Mode: mode, AOLK: aolk, SendKey: sk,
					ReceiveKeys: []string{c24CanonListed}, ReceiveKeyIDs: []string{c24CanonByIDID}, KeyIDs: c24CanonKeyIDs()}
				keys := []string{"", c24CanonListed, c24CanonByID, c24CanonUnlisted}
				if sk != "" {
					keys = append(keys, sk)
				}
				for _, ep := range c24Endpoints {
					for _, k := range keys {
						c.Reqs = append(c.Reqs, c24Req{Endpoint: ep, Key: k})
					}
				}
				out = append(out, c)
			}
		}
	}
	return out
}

// ways the lookup service can fail (non-401 4xx first: they carry a JSON body)
var c24AuthFailures = []string{"429", "403", "404", "429", "400", "401", "500", "503", "hangup", "garbage"}

// c24HistoryCases: hand-kept histories (replays/C24/history-*.json). For every
// way the lookup can fail and every endpoint: a key that is authorised only
// through its key id is first seen while /1/auth fails, then again (same
// endpoint, then another one) while it is healthy.
func c24HistoryCases() map[string]c24Case {
	out := map[string]c24Case{}
	for _, cfg := range []struct {
		name, mode string
		aolk       bool
	}{{"aolk-none", "none", true}, {"listedonly", "listedonly", false}, {"unlisted", "unlisted", false}} {
		for _, fail := range []string{"429", "403", "404", "401", "500", "503", "hangup", "garbage"} {
			c := c24Case{Mode: cfg.mode, AOLK: cfg.aolk, SendKey: c24CanonSend, ReceiveKeys: []string{c24CanonListed}, KeyIDs: c24CanonKeyIDs()}
			for i, ep := range c24Endpoints {
				k := fmt.Sprintf("hcaik_%02dhist%s", i, strings.Repeat("histkey", 8)[:52])
				id := fmt.Sprintf("hcaik_%02dhistid", i)
				c.KeyIDs[k] = id
				c.ReceiveKeyIDs = append(c.ReceiveKeyIDs, id)
				c.Reqs = append(c.Reqs, c24Req{Endpoint: ep, Key: k, Auth: fail}, c24Req{Endpoint: ep, Key: k},
					c24Req{Endpoint: c24Endpoints[(i+3)%len(c24Endpoints)], Key: k})
			}
			out[fmt.Sprintf("history-%s-after-%s", cfg.name, fail)] = c
		}
	}
	return out
}

const c24TableDomainRows = 6 * 2 * (5 + 4) * 7 // class "equals SendKey" does not exist when SendKey is unset

func c24GenKey(t *rapid.T, label string) string {
	const hexd = "0123456789abcdef"
	const alnum = "abcdefghijklmnopqrstuvwxyz0123456789"
	const mixed = "ABCDEFGHIJKLMNOPQRSTUVWXYZabcdefghijklmnopqrstuvwxyz0123456789"
	str := func(alpha string, n int, l string) string {
		b := make([]byte, n)
		for i := range b {
			// few distinct characters: collisions/near-misses between keys become likely
			b[i] = alpha[rapid.IntRange(0, len(alpha)-1).Draw(t, l)]
		}
		return string(b)
	}
	switch rapid.IntRange(0, 5).Draw(t, label+"-shape") {
	case 0: // classic 32 hex
		return str(hexd, 32, label)
	case 1: // classic ingest key hc?ic_ + 58
		return "hc" + str("abx", 1, label) + "ic_" + str(alnum, 58, label)
	case 2: // ingest key hc?ik_ + 58
		return "hc" + str("abx", 1, label) + "ik_" + str(alnum, 58, label)
	case 3: // new style 20-23 alnum
		return str(mixed, rapid.IntRange(20, 23).Draw(t, label+"-len"), label)
	case 4: // arbitrary internal secret ("any arbitrary string", README)
		return str(mixed+"-_.", rapid.IntRange(1, 40).Draw(t, label+"-len"), label)
	default:
		return str("ab", rapid.IntRange(1, 3).Draw(t, label+"-len"), label)
	}
}

func c24GenSendKey(t *rapid.T) string {
	// must satisfy the validator's apikey format
	const hexd = "0123456789abcdef"
	const alnum = "abcdefghijklmnopqrstuvwxyz0123456789"
	const mixed = "ABCDEFGHIJKLMNOPQRSTUVWXYZabcdefghijklmnopqrstuvwxyz0123456789"
	str := func(alpha string, n int) string {
		b := make([]byte, n)
		for i := range b {
			b[i] = alpha[rapid.IntRange(0, len(alpha)-1).Draw(t, "sk")]
		}
		return string(b)
	}
	switch rapid.IntRange(0, 2).Draw(t, "sendkey-shape") {
	case 0:
		return str(hexd, 32)
	case 1:
		return str(mixed, rapid.IntRange(20, 23).Draw(t, "sendkey-len"))
	default:
		return "hc" + str("abx", 1) + str("ik", 1) + str("ck", 1) + "_" + str(alnum, 58)
	}
}

func c24Variant(t *rapid.T, k string) string {
	if k == "" {
		return "x"
	}
	switch rapid.IntRange(0, 4).Draw(t, "variant") {
	case 0:
		return k + "0"
	case 1:
		return k[:len(k)-1]
	case 2:
		if u := strings.ToUpper(k); u != k {
			return u
		}
		return strings.ToLower(k) + "z"
	case 3:
		return "0" + k
	default:
		b := []byte(k)
		i := rapid.IntRange(0, len(b)-1).Draw(t, "flip")
		if b[i] == 'a' {
			b[i] = 'b'
		} else {
			b[i] = 'a'
		}
		return string(b)
	}
}

func genC24(t *rapid.T) c24Case {
	c := c24Case{
		Mode:   rapid.SampledFrom(c24Modes).Draw(t, "mode"),
		AOLK:   rapid.Bool().Draw(t, "aolk"),
		KeyIDs: map[string]string{},
	}
	if rapid.IntRange(0, 3).Draw(t, "sendkey-set") > 0 {
		c.SendKey = c24GenSendKey(t)
	}
	nrk := rapid.IntRange(0, 3).Draw(t, "n-receivekeys")
	for i := 0; i < nrk; i++ {
		k := c24GenKey(t, "rk")
		if rapid.IntRange(0, 9).Draw(t, "rk-is-sendkey") == 0 && c.SendKey != "" {
			k = c.SendKey // operators do list their send key
		}
		c.ReceiveKeys = append(c.ReceiveKeys, k)
	}
	// keys authorised through their id
	var byID []string
	nid := rapid.IntRange(0, 2).Draw(t, "n-receivekeyids")
	for i := 0; i < nid; i++ {
		id := "kid" + fmt.Sprint(rapid.IntRange(0, 3).Draw(t, "kid"))
		if !c24In(c.ReceiveKeyIDs, id) {
			c.ReceiveKeyIDs = append(c.ReceiveKeyIDs, id)
		}
		k := c24GenKey(t, "idkey")
		if c24IsLegacy(k) {
			k = "n" + k // legacy keys have no id
		}
		c.KeyIDs[k] = id
		byID = append(byID, k)
	}
	// pool of client keys: every class plus near misses of the configured ones
	pool := []string{"", ""}
	pool = append(pool, c.ReceiveKeys...)
	pool = append(pool, byID...)
	if c.SendKey != "" {
		pool = append(pool, c.SendKey, c24Variant(t, c.SendKey))
	}
	for _, k := range c.ReceiveKeys {
		if rapid.Bool().Draw(t, "rk-variant") {
			pool = append(pool, c24Variant(t, k))
		}
	}
	for i, n := 0, rapid.IntRange(1, 3).Draw(t, "n-unlisted"); i < n; i++ {
		pool = append(pool, c24GenKey(t, "unl"))
	}
	// ids for non-legacy keys that have none yet: some unlisted id, sometimes a
	// near miss of a listed id, sometimes none at all
	for _, k := range pool {
		if k == "" || c24IsLegacy(k) {
			continue
		}
		if _, ok := c.KeyIDs[k]; ok {
			continue
		}
		switch rapid.IntRange(0, 3).Draw(t, "id-kind") {
		case 0:
			c.KeyIDs[k] = ""
		case 1:
			if len(c.ReceiveKeyIDs) > 0 {
				c.KeyIDs[k] = c.ReceiveKeyIDs[0] + "x"
				break
			}
			fallthrough
		default:
			c.KeyIDs[k] = "other-" + fmt.Sprint(rapid.IntRange(0, 3).Draw(t, "oid"))
		}
	}
	reqGen := rapid.Custom(func(t *rapid.T) c24Req {
		r := c24Req{
			Endpoint: rapid.SampledFrom(c24Endpoints).Draw(t, "endpoint"),
			Key:      pool[rapid.IntRange(0, len(pool)-1).Draw(t, "key")],
		}
		switch r.Endpoint {
		case "event", "batch":
			r.Short = rapid.IntRange(0, 3).Draw(t, "short") == 0
			r.NoTrace = rapid.Bool().Draw(t, "notrace")
			r.Msgpack = rapid.Bool().Draw(t, "msgpack")
		case "otlp-logs-http", "otlp-logs-grpc":
			r.NoTrace = rapid.Bool().Draw(t, "notrace")
		}
		return r
	})
	c.Reqs = rapid.SliceOfN(reqGen, 1, 10).Draw(t, "reqs")
	// the lookup service (/1/auth) is not always healthy: some requests are served
	// while it fails ...
	for i := range c.Reqs {
		if rapid.IntRange(0, 5).Draw(t, "auth-failing") == 5 {
			c.Reqs[i].Auth = rapid.SampledFrom(c24AuthFailures).Draw(t, "auth-failure")
		}
	}
	// ... and half of the cases start with an aimed history: a key (preferably one
	// authorised through its key id) meets a failing lookup first and comes back
	// when the service is healthy again
	if rapid.Bool().Draw(t, "lookup-failure-history") {
		var cands []string
		cands = append(cands, byID...)
		if len(cands) == 0 || rapid.IntRange(0, 3).Draw(t, "history-other-key") == 0 {
			for _, k := range pool {
				if k != "" && !c24IsLegacy(k) {
					cands = append(cands, k)
				}
			}
		}
		if len(cands) > 0 {
			k := cands[rapid.IntRange(0, len(cands)-1).Draw(t, "history-key")]
			hist := []c24Req{{Endpoint: rapid.SampledFrom(c24Endpoints).Draw(t, "history-first-endpoint"), Key: k,
				Auth: rapid.SampledFrom(c24AuthFailures).Draw(t, "history-failure")}}
			for i, n := 0, rapid.IntRange(1, 2).Draw(t, "history-n-after"); i < n; i++ {
				hist = append(hist, c24Req{Endpoint: rapid.SampledFrom(c24Endpoints).Draw(t, "history-endpoint"), Key: k})
			}
			c.Reqs = append(hist, c.Reqs...)
		}
	}
	return c
}

// ---- request construction

func c24TraceID(i int) []byte {
	b := make([]byte, 16)
	b[0], b[14], b[15] = 0xc2, byte(i>>8), byte(i)
	return b
}

func c24SpanID(i int) []byte { return []byte{0xc2, 4, 0, 0, 0, 0, byte(i >> 8), byte(i)} }

func c24Str(k, v string) *commonpb.KeyValue {
	return &commonpb.KeyValue{Key: k, Value: &commonpb.AnyValue{Value: &commonpb.AnyValue_StringValue{StringValue: v}}}
}

func c24TraceReq(i int, rid string) *collectortrace.ExportTraceServiceRequest {
	return &collectortrace.ExportTraceServiceRequest{ResourceSpans: []*tracepb.ResourceSpans{{
		Resource: &resourcepb.Resource{Attributes: []*commonpb.KeyValue{c24Str("service.name", "svc")}},
		ScopeSpans: []*tracepb.ScopeSpans{{Spans: []*tracepb.Span{{
			TraceId: c24TraceID(i), SpanId: c24SpanID(i), Name: "op", Kind: tracepb.Span_SPAN_KIND_SERVER,
			StartTimeUnixNano: 1_700_000_000_000_000_000, EndTimeUnixNano: 1_700_000_001_000_000_000,
			Attributes: []*commonpb.KeyValue{c24Str("rid", rid)},
		}}}},
	}}}
}

func c24TraceJSON(i int, rid string) []byte {
	return []byte(fmt.Sprintf(`{"resourceSpans":[{"resource":{"attributes":[{"key":"service.name","value":{"stringValue":"svc"}}]},`+
		`"scopeSpans":[{"spans":[{"traceId":"%s","spanId":"%s","name":"op","kind":2,"startTimeUnixNano":"1700000000000000000","endTimeUnixNano":"1700000001000000000",`+
		`"attributes":[{"key":"rid","value":{"stringValue":"%s"}}]}]}]}]}`, hex.EncodeToString(c24TraceID(i)), hex.EncodeToString(c24SpanID(i)), rid))
}

func c24LogsReq(i int, rid string, noTrace bool) *collectorlogs.ExportLogsServiceRequest {
	rec := &logspb.LogRecord{TimeUnixNano: 1_700_000_000_000_000_000, SeverityText: "INFO",
		Body:       &commonpb.AnyValue{Value: &commonpb.AnyValue_StringValue{StringValue: "hello"}},
		Attributes: []*commonpb.KeyValue{c24Str("rid", rid)}}
	if !noTrace {
		rec.TraceId, rec.SpanId = c24TraceID(i), c24SpanID(i)
	}
	return &collectorlogs.ExportLogsServiceRequest{ResourceLogs: []*logspb.ResourceLogs{{
		Resource:  &resourcepb.Resource{Attributes: []*commonpb.KeyValue{c24Str("service.name", "svc")}},
		ScopeLogs: []*logspb.ScopeLogs{{LogRecords: []*logspb.LogRecord{rec}}},
	}}}
}

type c24Resp struct {
	Outcome string // "accepted", "rejected", "timeout", "transport-error"
	Status  int    // HTTP status, or gRPC code for gRPC endpoints
	Body    string
}

const c24ReqTimeout = 30 * time.Second

type c24Client struct {
	httpAddr string
	hc       *http.Client
	conn     *grpc.ClientConn
}

func (cl *c24Client) do(i int, r c24Req) c24Resp {
	rid := fmt.Sprintf("r%d", i)
	switch r.Endpoint {
	case "event", "batch":
		data := map[string]any{"rid": rid, "n": i}
		if !r.NoTrace {
			data["trace.trace_id"] = fmt.Sprintf("c24trace%d", i)
			data["trace.span_id"] = fmt.Sprintf("c24span%d", i)
		}
		var payload any = data
		path := "/1/events/ds"
		if r.Endpoint == "batch" {
			ev := map[string]any{"samplerate": 1, "data": data}
			if !r.Msgpack {
				ev["time"] = "2023-11-14T22:13:20Z"
			}
			payload = []map[string]any{ev}
			path = "/1/batch/ds"
		}
		var body []byte
		ct := "application/json"
		if r.Msgpack {
			body = authMsgpack(payload)
			ct = "application/msgpack"
		} else {
			body, _ = json.Marshal(payload)
		}
		hdr := http.Header{"Content-Type": {ct}}
		if r.Key != "" {
			if r.Short {
				hdr.Set("X-Hny-Team", r.Key)
			} else {
				hdr.Set("X-Honeycomb-Team", r.Key)
			}
		}
		resp := cl.post(path, hdr, body)
		if r.Endpoint == "batch" && resp.Outcome == "accepted" {
			// a batch answers 200 with one status per event
			var sts []struct {
				Status int `json:"status"`
			}
			if err := json.Unmarshal([]byte(resp.Body), &sts); err != nil || len(sts) != 1 {
				resp.Outcome = "rejected"
			} else if sts[0].Status != http.StatusAccepted {
				resp.Outcome, resp.Status = "rejected", sts[0].Status
			}
		}
		return resp
	case "otlp-traces-http-proto", "otlp-traces-http-json", "otlp-logs-http":
		hdr := http.Header{"X-Honeycomb-Dataset": {"ds"}}
		if r.Key != "" {
			hdr.Set("X-Honeycomb-Team", r.Key)
		}
		var body []byte
		path := "/v1/traces"
		switch r.Endpoint {
		case "otlp-traces-http-proto":
			body, _ = proto.Marshal(c24TraceReq(i, rid))
			hdr.Set("Content-Type", "application/protobuf")
		case "otlp-traces-http-json":
			body = c24TraceJSON(i, rid)
			hdr.Set("Content-Type", "application/json")
		default:
			body, _ = proto.Marshal(c24LogsReq(i, rid, r.NoTrace))
			hdr.Set("Content-Type", "application/protobuf")
			path = "/v1/logs"
		}
		return cl.post(path, hdr, body)
	case "otlp-traces-grpc", "otlp-logs-grpc":
		ctx, cancel := authCtx(c24ReqTimeout)
		defer cancel()
		md := metadata.Pairs("x-honeycomb-dataset", "ds")
		if r.Key != "" {
			md.Set("x-honeycomb-team", r.Key)
		}
		ctx = metadata.NewOutgoingContext(ctx, md)
		var err error
		if r.Endpoint == "otlp-traces-grpc" {
			_, err = collectortrace.NewTraceServiceClient(cl.conn).Export(ctx, c24TraceReq(i, rid))
		} else {
			_, err = collectorlogs.NewLogsServiceClient(cl.conn).Export(ctx, c24LogsReq(i, rid, r.NoTrace))
		}
		st, _ := status.FromError(err)
		switch st.Code() {
		case codes.OK:
			return c24Resp{Outcome: "accepted", Status: int(codes.OK)}
		case codes.DeadlineExceeded, codes.Canceled:
			return c24Resp{Outcome: "timeout", Status: int(st.Code()), Body: st.Message()}
		case codes.Unavailable:
			return c24Resp{Outcome: "transport-error", Status: int(st.Code()), Body: st.Message()}
		}
		return c24Resp{Outcome: "rejected", Status: int(st.Code()), Body: st.Message()}
	}
	panic("unknown endpoint " + r.Endpoint)
}

func (cl *c24Client) post(path string, hdr http.Header, body []byte) c24Resp {
	req, _ := http.NewRequest("POST", "http://"+cl.httpAddr+path, bytes.NewReader(body))
	for k, v := range hdr {
		req.Header[k] = v
	}
	req.Header.Set("User-Agent", "c24-client")
	resp, err := cl.hc.Do(req)
	if err != nil {
		if ne, ok := err.(interface{ Timeout() bool }); ok && ne.Timeout() {
			return c24Resp{Outcome: "timeout", Body: err.Error()}
		}
		return c24Resp{Outcome: "transport-error", Body: err.Error()}
	}
	b, _ := io.ReadAll(io.LimitReader(resp.Body, 1<<16))
	resp.Body.Close()
	out := c24Resp{Status: resp.StatusCode, Body: string(b), Outcome: "rejected"}
	if resp.StatusCode >= 200 && resp.StatusCode < 300 {
		out.Outcome = "accepted"
	}
	return out
}

// ---- coverage of the table (reported through Spec.Extra)

var (
	c24CovMu    sync.Mutex
	c24TableCov = map[string]bool{} // rows covered by table cases
	c24AnyCov   = map[string]bool{} // rows covered by any case
)

// ---- execute + judge

func c24EP(r c24Req) string { return r.Endpoint }

func execC24(c c24Case) vkit.Result {
	var res vkit.Result
	if c.KeyIDs == nil {
		c.KeyIDs = map[string]string{}
	}
	ak := map[string]any{"SendKeyMode": c.Mode, "AcceptOnlyListedKeys": c.AOLK}
	if c.SendKey != "" {
		ak["SendKey"] = c.SendKey
	}
	if len(c.ReceiveKeys) > 0 {
		ak["ReceiveKeys"] = c.ReceiveKeys
	}
	if len(c.ReceiveKeyIDs) > 0 {
		ak["ReceiveKeyIDs"] = c.ReceiveKeyIDs
	}
	var authMode atomic.Value // how /1/auth answers right now (set before each request)
	authMode.Store("")
	sut, err := authStartSUT(authSUTOpts{Config: map[string]any{"AccessKeys": ak}, KeyIDs: c.KeyIDs,
		AuthScript: func(string) string { return authMode.Load().(string) }})
	if err != nil {
		if strings.Contains(err.Error(), errAuthConfigRejected.Error()) {
			res.Class("config-rejected-by-validator(out-of-domain)")
			res.Obs = err.Error()
			return res
		}
		res.Class("inconclusive-infrastructure")
		res.Obs = err.Error()
		return res
	}
	// the configuration refinery actually holds must be the one the oracle reasons about
	got := sut.Cfg.GetAccessKeyConfig()
	if got.SendKeyMode != c.Mode || got.AcceptOnlyListedKeys != c.AOLK || got.SendKey != c.SendKey ||
		fmt.Sprint(got.ReceiveKeys) != fmt.Sprint(append([]string{}, c.ReceiveKeys...)) || fmt.Sprint(got.ReceiveKeyIDs) != fmt.Sprint(append([]string{}, c.ReceiveKeyIDs...)) {
		sut.Stop()
		res.Violate("C24/config/access-keys-not-loaded-as-written", "wrote mode=%s aolk=%v sendkey=%q rk=%v rkid=%v, config holds %+v", c.Mode, c.AOLK, c.SendKey, c.ReceiveKeys, c.ReceiveKeyIDs, got)
		return res
	}

	conn, err := grpc.NewClient(sut.GRPCAddr, grpc.WithTransportCredentials(insecure.NewCredentials()))
	if err != nil {
		sut.Stop()
		res.Class("inconclusive-infrastructure")
		return res
	}
	tr := &http.Transport{MaxIdleConnsPerHost: 2}
	cl := &c24Client{httpAddr: sut.HTTPAddr, hc: &http.Client{Timeout: c24ReqTimeout, Transport: tr}, conn: conn}
	resps := make([]c24Resp, len(c.Reqs))
	for i, r := range c.Reqs {
		authMode.Store(r.Auth)
		resps[i] = cl.do(i, r)
	}
	authMode.Store("")
	conn.Close()
	tr.CloseIdleConnections()
	stoppedOK := sut.Stop()
	batches, _, decodeErrs := sut.Honey.snapshot()
	logs := sut.Log.snapshot()

	inconclusive := !stoppedOK
	for _, ln := range logs {
		// a failed or timed-out upstream send would make "not forwarded" meaningless
		if strings.Contains(ln.Msg, "failed to send") || strings.Contains(ln.Msg, "error when sending event") {
			inconclusive = true
		}
	}
	if len(decodeErrs) > 0 {
		res.Violate("C24/harness/upstream-body-undecodable", "%v", decodeErrs)
	}
	if p := authCaughtPanics(logs); len(p) > 0 {
		res.Class("router-caught-panic(see C28)")
	}

	// what reached Honeycomb, per request id
	type seen struct{ teams []string }
	up := map[string]*seen{}
	for _, b := range batches {
		if b.Team == "" {
			res.Violate("C24/upstream/blank-api-key", "a batch for dataset %q with %d event(s) %v left Refinery with a blank X-Honeycomb-Team", b.Dataset, len(b.RIDs), b.RIDs)
		}
		for _, rid := range b.RIDs {
			if up[rid] == nil {
				up[rid] = &seen{}
			}
			up[rid].teams = append(up[rid].teams, b.Team)
		}
	}

	failedBefore := map[string]bool{} // key -> a request with this key was served while /1/auth failed
	afterFailure := ""
	for i, r := range c.Reqs {
		rid := fmt.Sprintf("r%d", i)
		resp := resps[i]
		cls := c.class(r.Key)
		row := fmt.Sprintf("%s|%v|%v|%s|%s", c.Mode, c.AOLK, c.SendKey != "", cls, r.Endpoint)
		c24CovMu.Lock()
		c24AnyCov[row] = true
		if c.Table {
			c24TableCov[row] = true
		}
		c24CovMu.Unlock()
		res.Class("endpoint=" + r.Endpoint)
		res.Class("keyclass=" + cls)

		if resp.Outcome == "timeout" || resp.Outcome == "transport-error" || inconclusive {
			res.Class("inconclusive-timing")
			continue
		}
		needsLookup := r.Key != "" && !c24IsLegacy(r.Key)
		if r.Auth != "" {
			// the lookup service is failing while this request is served: what
			// refinery should do then (reject, forward unreplaced, answer 4xx/5xx) is
			// not specified; only the global "never a blank key upstream" applies
			res.Class("lookup-failing=" + r.Auth + "(not judged)")
			if needsLookup {
				failedBefore[r.Key] = true
			}
			continue
		}
		// healthy lookup service: whatever failed earlier, the key's real identity
		// can be obtained now, so the static tables apply in full
		if needsLookup && failedBefore[r.Key] {
			res.Class("healthy-request-after-failed-lookup-of-same-key")
			res.NonTrivial = true
			afterFailure = "/after-failed-lookup"
		} else {
			afterFailure = ""
		}
		var teams []string
		if s := up[rid]; s != nil {
			teams = s.teams
		}
		how := func() string { // how the data left, as observed
			if len(teams) == 0 {
				return "nothing-forwarded"
			}
			switch teams[0] {
			case "":
				return "forwarded-with-blank-key"
			case c.SendKey:
				if c.SendKey != r.Key {
					return "forwarded-with-sendkey"
				}
			}
			if teams[0] == r.Key {
				return "forwarded-with-client-key"
			}
			return "forwarded-with-other-key"
		}
		detail := fmt.Sprintf("request %d %+v (key class %s) under mode=%s AcceptOnlyListedKeys=%v SendKey=%q ReceiveKeys=%v ReceiveKeyIDs=%v keyID=%q: response %s status=%d body=%.200q; upstream X-Honeycomb-Team for this request's event: %q",
			i, r, cls, c.Mode, c.AOLK, c.SendKey, c.ReceiveKeys, c.ReceiveKeyIDs, c.keyID(r.Key), resp.Outcome, resp.Status, resp.Body, teams)
		ep := c24EP(r)

		if !c.accepted(r.Key) {
			res.NonTrivial = true
			res.Class("expect=reject")
			if resp.Outcome == "accepted" {
				res.Violate("C24/"+ep+"/unauthorised-key-accepted/"+how()+afterFailure, "%s", detail)
			} else if len(teams) > 0 {
				res.Violate("C24/"+ep+"/rejected-but-forwarded/"+how(), "%s", detail)
			} else if isGRPC := strings.HasSuffix(ep, "grpc"); (isGRPC && resp.Status != int(codes.Unauthenticated)) || (!isGRPC && resp.Status != http.StatusUnauthorized) {
				// config.md: "will be rejected with an HTTP 401 error"
				res.Violate("C24/"+ep+"/rejection-status-not-401", "%s", detail)
			}
			continue
		}
		want, dontCare := c.upstream(r.Key)
		if dontCare {
			res.Class("expect=dont-care(unlisted-mode,blank-key)")
			if len(teams) > 0 && teams[0] != c.SendKey {
				res.Violate("C24/"+ep+"/wrong-upstream-key/"+how(), "undocumented corner, but only SendKey or nothing can be right: %s", detail)
			}
			continue
		}
		if want == "" {
			res.Class("expect=nothing-leaves(blank-result)")
			if len(teams) > 0 {
				res.Violate("C24/"+ep+"/blank-key-request-forwarded/"+how(), "%s", detail)
			}
			continue
		}
		if want != r.Key {
			res.NonTrivial = true
			res.Class("expect=replace")
		} else {
			res.Class("expect=passthrough")
		}
		switch {
		case resp.Outcome != "accepted":
			res.Violate("C24/"+ep+"/authorised-key-rejected/"+how()+afterFailure, "expected upstream key %q: %s", want, detail)
		case len(teams) == 0:
			res.Violate("C24/"+ep+"/accepted-but-not-forwarded", "expected upstream key %q: %s", want, detail)
		case len(teams) > 1:
			res.Violate("C24/"+ep+"/forwarded-more-than-once", "expected upstream key %q: %s", want, detail)
		case teams[0] != want:
			res.Violate("C24/"+ep+"/wrong-upstream-key/"+how()+afterFailure, "expected upstream key %q: %s", want, detail)
		}
	}
	// events nobody sent
	var strangers []string
	for rid := range up {
		var idx int
		if n, _ := fmt.Sscanf(rid, "r%d", &idx); n != 1 || idx < 0 || idx >= len(c.Reqs) {
			strangers = append(strangers, rid)
		}
	}
	sort.Strings(strangers)
	if len(strangers) > 0 {
		res.Violate("C24/upstream/unknown-event", "events with rid %v reached Honeycomb but were never sent", strangers)
	}
	res.Class("mode=" + c.Mode)
	if c.Table {
		res.Class("table-case")
	}
	return res
}

func TestC24(t *testing.T) {
	vkit.Run(t, vkit.Spec[c24Case]{
		ID: "C24",
		Rule: "A real incoming route.Router (HTTP + gRPC listeners on loopback) with a real config.Config loaded by config.NewConfig from generated YAML, a pass-through collector double, a real DirectTransmission and a fake Honeycomb that records X-Honeycomb-Team per batch and answers /1/auth with key ids. " +
			"Part 1 (replays/C24/table-*.json, every run): the full table SendKeyMode(6) x AcceptOnlyListedKeys(2) x SendKey{set,unset} x client key class{blank, =SendKey, listed, listed by key id, unlisted} x 7 endpoints. " +
			"Part 1b (replays/C24/history-*.json, every run): lookup-failure histories: for 3 configurations x 8 ways /1/auth can fail x 7 endpoints, a key authorised through its key id is first served while the lookup fails and then again (same and another endpoint) while it is healthy. " +
			"Part 2: rapid-generated configurations (key strings of every documented shape, overlapping lists, near-miss keys and ids) with 1-10 requests over all endpoints, header variants and encodings. " +
			"Oracle: acceptance and upstream key computed from config.md's SendKeyMode text on the key the client sent, independent of IsAccepted/GetReplaceKey. " +
			"Non-trivial: the case has at least one request that must be rejected or whose key must be replaced. Distinct = distinct case JSON.",
		Assumptions: []string{
			"'listed' in the SendKeyMode table means ReceiveKeys or ReceiveKeyIDs (ReceiveKeyIDs: 'treated specially' like ReceiveKeys)",
			"SendKey unset: no mode can replace anything, the client's key is used",
			"unlisted mode + blank client key is not specified by config.md: only 'nothing leaves or SendKey' is asserted",
			"client key blank and no replacement prescribed: only 'nothing leaves Refinery' is asserted, the response is a don't-care",
			"the collector is a pass-through double that forwards each span to the upstream transmission with the key the router put on it (the real collector does not touch Event.APIKey)",
			"'' is never listed in ReceiveKeys; every non-legacy key is known to /1/auth",
			"what refinery answers WHILE the lookup service fails is not judged here (C23); a request served while /1/auth is healthy must be authorised and re-keyed by the tables even if an earlier lookup of the same key failed (only successful lookups may be cached)",
		},
		Gen:  genC24,
		Exec: execC24,
		Extra: func() map[string]any {
			c24CovMu.Lock()
			defer c24CovMu.Unlock()
			return map[string]any{
				"exhaustive_table_rows":        len(c24TableCov),
				"exhaustive_table_domain_rows": fmt.Sprint(c24TableDomainRows),
				"exhaustive_table_note":        "table rows = mode x AcceptOnlyListedKeys x SendKey{set,unset} x key class x endpoint; class '=SendKey' does not exist when SendKey is unset (756 rows, not 840); enumerated by the replay tier of shard 0",
			}
		},
	})
}

// TestC24WriteTable regenerates replays/C24/table-*.json (run by hand:
// C24_WRITE_TABLE=/verif/replays/C24 go test -run TestC24WriteTable ./auth).
func TestC24WriteTable(t *testing.T) {
	dir := os.Getenv("C24_WRITE_TABLE")
	if dir == "" {
		t.Skip("C24_WRITE_TABLE not set")
	}
	if err := os.MkdirAll(dir, 0o755); err != nil {
		t.Fatal(err)
	}
	rows := 0
	for _, c := range c24TableCases() {
		sk := "sendkey-set"
		if c.SendKey == "" {
			sk = "sendkey-unset"
		}
		name := fmt.Sprintf("table-%s-aolk-%v-%s.json", c.Mode, c.AOLK, sk)
		cj, _ := json.Marshal(c)
		doc, _ := json.MarshalIndent(map[string]any{"property": "C24", "signature": "", "detail": "exhaustive table case", "case": json.RawMessage(cj)}, "", " ")
		if err := os.WriteFile(filepath.Join(dir, name), doc, 0o644); err != nil {
			t.Fatal(err)
		}
		rows += len(c.Reqs)
	}
	if rows != c24TableDomainRows {
		t.Fatalf("table has %d rows, want %d", rows, c24TableDomainRows)
	}
	for name, c := range c24HistoryCases() {
		cj, _ := json.Marshal(c)
		doc, _ := json.MarshalIndent(map[string]any{"property": "C24", "signature": "", "detail": "hand-kept lookup-failure history", "case": json.RawMessage(cj)}, "", " ")
		if err := os.WriteFile(filepath.Join(dir, name+".json"), doc, 0o644); err != nil {
			t.Fatal(err)
		}
	}
}
