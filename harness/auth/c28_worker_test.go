package auth

// C28 worker: the system under test runs in a CHILD process (this same test
// binary, re-executed with -test.run ^TestC28Worker$), so that a crash that
// cannot be recovered from (fatal error, os.Exit, panic on a goroutine of the
// server) is observed by the parent instead of being suffered by the harness.
// Parent and child talk JSON lines over two extra pipes (fd 3 = commands,
// fd 4 = replies); the child's stderr is kept by the parent (tail) and is where
// the Go runtime writes the trace of a fatal crash.

import (
	"bufio"
	"bytes"
	"encoding/json"
	"errors"
	"fmt"
	"io"
	"os"
	"os/exec"
	"reflect"
	"regexp"
	"runtime"
	"runtime/debug"
	"strings"
	"sync"
	"syscall"
	"testing"
	"time"

	"github.com/pelletier/go-toml/v2"
	"gopkg.in/yaml.v3"

	"github.com/honeycombio/refinery/config"
	"github.com/honeycombio/refinery/metrics"
	"github.com/honeycombio/refinery/sample"
	"github.com/honeycombio/refinery/types"
)

// ---------------------------------------------------------------- protocol

type c28Cmd struct {
	Op           string `json:"op"` // config | start | sync | stop | quit
	ConfigYAML   string `json:"config_yaml,omitempty"`
	RulesYAML    string `json:"rules_yaml,omitempty"`
	ConfigFormat string `json:"config_format,omitempty"`
	RulesFormat  string `json:"rules_format,omitempty"`
	Reload       bool   `json:"reload,omitempty"`
	Fresh        bool   `json:"fresh,omitempty"`
	Dataset      string `json:"dataset,omitempty"` // drainstatus: which dataset to account for
}

type c28PanicRec struct {
	Msg   string `json:"msg"`
	Stack string `json:"stack"`
}

type c28Reply struct {
	OK  bool   `json:"ok"`
	Err string `json:"err,omitempty"`
	// config
	Accepted   bool          `json:"accepted,omitempty"`
	Reject     string        `json:"reject,omitempty"`
	Panics     []c28PanicRec `json:"panics,omitempty"` // recovered panics, Msg prefixed with "<stage>: "
	NilSampler []string      `json:"nil_sampler,omitempty"`
	Samplers   []string      `json:"samplers,omitempty"` // "<key>=<type>"
	Stages     int           `json:"stages,omitempty"`
	Stacks     string        `json:"stacks,omitempty"`
	// requests the fake upstream is serving right now (stacks op)
	UpstreamInFlight int `json:"upstream_in_flight,omitempty"`
	// drainstatus
	Stopped   bool `json:"stopped,omitempty"`   // routers and transmission have returned from Stop()
	Delivered int  `json:"delivered,omitempty"` // events the fake upstream received for the dataset
	Errors    int  `json:"errors,omitempty"`    // error-level log lines of the transmission naming the dataset
	// start
	HTTPAddr string `json:"http_addr,omitempty"`
	PeerAddr string `json:"peer_addr,omitempty"`
	GRPCAddr string `json:"grpc_addr,omitempty"`
}

// ---------------------------------------------------------------- child side

const c28ChildASLimit = 5 << 30 // address-space cap of the child: bounds what a hostile length can make it map

func TestC28Worker(t *testing.T) {
	if os.Getenv("C28_WORKER") == "" {
		t.Skip("worker mode only")
	}
	_ = syscall.Setrlimit(syscall.RLIMIT_AS, &syscall.Rlimit{Cur: c28ChildASLimit, Max: c28ChildASLimit})
	_ = syscall.Setrlimit(syscall.RLIMIT_CORE, &syscall.Rlimit{Cur: 0, Max: 0})
	in := bufio.NewReaderSize(os.NewFile(3, "cmd"), 1<<20)
	out := os.NewFile(4, "rep")
	enc := json.NewEncoder(out)
	var (
		sut    *authSUT
		pmu    sync.Mutex
		caught []c28PanicRec
		dsErrs = map[string]int{}
		drain  chan struct{} // closed when the shutdown started by "drain" has returned
	)
	onError := func(ln authLogLine) {
		// everything refinery logs at error level goes to our stderr (context for a later death)
		fmt.Fprintf(os.Stderr, "C28LOG error: %.300s\n", ln.Msg)
		if ds, _ := ln.Fields["dataset"].(string); strings.HasPrefix(ds, "huge") {
			pmu.Lock()
			dsErrs[ds]++
			pmu.Unlock()
		}
		if m, _ := ln.Fields["error.msg"].(string); m == "caught panic" {
			rec := c28PanicRec{Msg: fmt.Sprint(ln.Fields["error.err"])}
			rec.Stack, _ = ln.Fields["error.stack_trace"].(string)
			pmu.Lock()
			caught = append(caught, rec)
			pmu.Unlock()
		}
	}
	for {
		line, err := in.ReadBytes('\n')
		if err != nil {
			break
		}
		var cmd c28Cmd
		if err := json.Unmarshal(line, &cmd); err != nil {
			enc.Encode(c28Reply{Err: "bad command: " + err.Error()})
			continue
		}
		switch cmd.Op {
		case "config":
			enc.Encode(c28ChildConfig(cmd.ConfigYAML, cmd.RulesYAML, cmd.ConfigFormat, cmd.RulesFormat, cmd.Reload))
		case "start":
			if sut != nil && !cmd.Fresh {
				// the router is reused across cases of one worker; verdicts are
				// confirmed on a brand-new worker (and router) before they count
				enc.Encode(c28Reply{OK: true, HTTPAddr: sut.HTTPAddr, PeerAddr: sut.PeerAddr, GRPCAddr: sut.GRPCAddr})
				continue
			}
			if sut != nil {
				sut.Stop()
				sut = nil
			}
			s, err := authStartSUT(authSUTOpts{Config: c28RouterConfig(), Rules: c28RouterRules(), OnError: onError, Peer: true, HoneyDiscard: true, AuthScript: c28AuthScript, BatchTimeout: 2 * time.Second,
				KeyIDs: map[string]string{}})
			if err != nil {
				enc.Encode(c28Reply{Err: err.Error()})
				continue
			}
			sut = s
			pmu.Lock()
			caught = nil
			pmu.Unlock()
			enc.Encode(c28Reply{OK: true, HTTPAddr: s.HTTPAddr, PeerAddr: s.PeerAddr, GRPCAddr: s.GRPCAddr})
		case "drain":
			// shut the SUT down the way the process does on exit: stop the routers,
			// then the transmission (which must flush and return). Runs beside the
			// command loop so that the parent can watch it.
			if sut == nil {
				enc.Encode(c28Reply{Err: "no router running"})
				continue
			}
			if drain == nil {
				drain = make(chan struct{})
				go func(s *authSUT, done chan struct{}) {
					fmt.Fprintf(os.Stderr, "C28STAGE drain (Router.Stop, DirectTransmission.Stop)\n")
					s.stopComponents()
					close(done)
				}(sut, drain)
			}
			enc.Encode(c28Reply{OK: true})
		case "drainstatus":
			r := c28Reply{OK: true}
			if drain != nil && sut != nil {
				select {
				case <-drain:
					r.Stopped = true
				default:
				}
				sut.Honey.mu.Lock()
				r.Delivered = sut.Honey.counts[cmd.Dataset]
				sut.Honey.mu.Unlock()
				pmu.Lock()
				r.Errors = dsErrs[cmd.Dataset]
				pmu.Unlock()
				if r.Stopped {
					sut.finish()
					sut, drain = nil, nil
				}
			} else {
				r.Err = "no drain in progress"
			}
			enc.Encode(r)
		case "stacks":
			buf := make([]byte, 4<<20)
			buf = buf[:runtime.Stack(buf, true)]
			r := c28Reply{OK: true, Stacks: string(buf)}
			if sut != nil {
				r.UpstreamInFlight = int(sut.Honey.inflight.Load())
			}
			enc.Encode(r)
		case "sync":
			pmu.Lock()
			r := c28Reply{OK: true, Panics: caught}
			caught = nil
			pmu.Unlock()
			enc.Encode(r)
		case "stop":
			if sut != nil {
				sut.Stop()
				sut = nil
			}
			enc.Encode(c28Reply{OK: true})
		case "quit":
			if sut != nil {
				sut.Stop()
			}
			enc.Encode(c28Reply{OK: true})
			return
		default:
			enc.Encode(c28Reply{Err: "unknown op " + cmd.Op})
		}
	}
}

func c28RouterConfig() map[string]any {
	return map[string]any{
		"Debugging":  map[string]any{"QueryAuthToken": c28QueryToken},
		"AccessKeys": map[string]any{"ReceiveKeys": []string{c28LegacyKey}, "AcceptOnlyListedKeys": false},
	}
}

const (
	c28QueryToken = "c28token"
	c28LegacyKey  = "c28c28c28c28c28c28c28c28c28c28ab"
	c28EnvKey     = "c28envkeyc28envkey0001"
)

// keys whose environment lookup (/1/auth at the fake Honeycomb) is scripted to fail
var c28AuthKeys = map[string]string{
	"auth401":     "c28auth401key000000001",
	"auth500":     "c28auth500key000000001",
	"authgarbage": "c28authgarbagekey00001",
	"authhangup":  "c28authhangupkey000001",
	"authslow":    "c28authslowkey00000001",
	"env2":        "c28envkeyc28envkey0002",
}

func c28AuthScript(key string) string {
	for name, k := range c28AuthKeys {
		if k == key && strings.HasPrefix(name, "auth") {
			return strings.TrimPrefix(name, "auth")
		}
	}
	return ""
}

func c28RouterRules() map[string]any {
	return map[string]any{
		"RulesVersion": 2,
		"Samplers": map[string]any{
			"__default__": map[string]any{"DeterministicSampler": map[string]any{"SampleRate": 1}},
			"env": map[string]any{"RulesBasedSampler": map[string]any{"Rules": []any{
				map[string]any{"Name": "keep errors", "SampleRate": 1, "Conditions": []any{
					map[string]any{"Field": "status", "Operator": ">=", "Value": 500, "Datatype": "int"}}},
				map[string]any{"Name": "dyn", "Sampler": map[string]any{"DynamicSampler": map[string]any{"SampleRate": 2, "FieldList": []string{"status", "root.name"}}}},
			}}},
		},
	}
}

// c28Stage runs f, converting a panic into a record (the child survives and goes on).
func c28Stage(rep *c28Reply, stage string, f func()) {
	rep.Stages++
	fmt.Fprintf(os.Stderr, "C28STAGE %s\n", stage)
	defer func() {
		if p := recover(); p != nil {
			rep.Panics = append(rep.Panics, c28PanicRec{Msg: stage + ": " + fmt.Sprint(p), Stack: string(debug.Stack())})
		}
	}()
	f()
}

var c28GetterLike = regexp.MustCompile(`^(Get|Is|Has)`)

// c28CallGetterMethods calls the argument-free getter-like methods of a value
// returned by a Config getter (what collectors/routers/loggers do with it).
func c28CallGetterMethods(v reflect.Value) {
	if !v.IsValid() {
		return
	}
	if v.Kind() == reflect.Struct {
		pv := reflect.New(v.Type())
		pv.Elem().Set(v)
		v = pv
	}
	if v.Kind() != reflect.Ptr || v.IsNil() || v.Elem().Kind() != reflect.Struct {
		return
	}
	for i := 0; i < v.NumMethod(); i++ {
		m := v.Type().Method(i)
		if c28GetterLike.MatchString(m.Name) && v.Method(i).Type().NumIn() == 0 {
			v.Method(i).Call(nil)
		}
	}
	e := v.Elem()
	for i := 0; i < e.NumField(); i++ {
		f := e.Field(i)
		if !e.Type().Field(i).IsExported() {
			continue
		}
		if f.Kind() == reflect.Ptr { // e.g. *DefaultTrue: Get() is what callers use
			if m := f.MethodByName("Get"); m.IsValid() && m.Type().NumIn() == 0 {
				m.Call(nil)
			}
		}
	}
}

func c28Traces(cfg config.Config) []*types.Trace {
	mk := func(id string, spans ...map[string]any) *types.Trace {
		tr := &types.Trace{TraceID: id, Dataset: "ds", APIKey: c28LegacyKey}
		for i, d := range spans {
			p := types.NewPayload(cfg, d)
			p.ExtractMetadata()
			sp := &types.Span{TraceID: id, IsRoot: i == 0 && d["trace.parent_id"] == nil,
				Event: &types.Event{Dataset: "ds", APIKey: c28LegacyKey, SampleRate: 1, Timestamp: time.Unix(1_700_000_000, 0), Data: p}}
			if sp.IsRoot {
				tr.RootSpan = sp
			}
			tr.AddSpan(sp)
		}
		return tr
	}
	return []*types.Trace{
		mk("t1",
			map[string]any{"trace.trace_id": "t1", "trace.span_id": "a", "name": "root", "status": 200, "http.status_code": int64(200), "duration_ms": 12.5, "error": false, "service.name": "svc", "meta.span_count": 2},
			map[string]any{"trace.trace_id": "t1", "trace.span_id": "b", "trace.parent_id": "a", "name": "child", "status": "500", "error": true, "nested": map[string]any{"a": 1}, "list": []any{1, "x"}}),
		mk("t2", // no root span
			map[string]any{"trace.trace_id": "t2", "trace.span_id": "c", "trace.parent_id": "zz", "status": 404.5, "name": ""}),
		mk("t3", // root only, hardly any field
			map[string]any{"trace.trace_id": "t3"}),
	}
}

// c28ChildConfig is the config-fuzz body: load, call every getter, build and run
// the samplers. Panics are recovered per stage and reported; anything that
// kills the process is seen by the parent.
func c28Ext(format string) string {
	switch format {
	case "json", "toml":
		return format
	}
	return "yaml"
}

func c28ChildConfig(cfgYAML, rulesYAML, cfgFormat, rulesFormat string, reload bool) (rep c28Reply) {
	rep.OK = true
	dir, err := os.MkdirTemp("", "c28cfg-")
	if err != nil {
		return c28Reply{Err: err.Error()}
	}
	defer os.RemoveAll(dir)
	cpath, rpath := dir+"/config."+c28Ext(cfgFormat), dir+"/rules."+c28Ext(rulesFormat)
	if err := os.WriteFile(cpath, []byte(cfgYAML), 0o644); err != nil {
		return c28Reply{Err: err.Error()}
	}
	if err := os.WriteFile(rpath, []byte(rulesYAML), 0o644); err != nil {
		return c28Reply{Err: err.Error()}
	}
	var cfg config.Config
	var loadErr error
	c28Stage(&rep, "load(validate+NewConfig)", func() {
		cfg, loadErr = config.NewConfig(&config.CmdEnv{ConfigLocations: []string{cpath}, RulesLocations: []string{rpath}})
	})
	if len(rep.Panics) > 0 {
		return rep
	}
	if cfg == nil || reflect.ValueOf(cfg).IsNil() {
		rep.Reject = fmt.Sprintf("%.1500v", loadErr)
		return rep
	}
	rep.Accepted = true

	lg := &authLogger{onError: func(ln authLogLine) { fmt.Fprintf(os.Stderr, "C28LOG error: %.300s\n", ln.Msg) }}
	var samplerNames []string
	c28Stage(&rep, "getters", func() {
		v := reflect.ValueOf(cfg)
		it := reflect.TypeOf((*config.Config)(nil)).Elem()
		for i := 0; i < it.NumMethod(); i++ {
			m := it.Method(i)
			if m.Type.NumIn() != 0 {
				continue
			}
			fmt.Fprintf(os.Stderr, "C28STAGE getters %s\n", m.Name)
			for _, o := range v.MethodByName(m.Name).Call(nil) {
				c28CallGetterMethods(o)
			}
		}
		if rules := cfg.GetAllSamplerRules(); rules != nil {
			samplerNames = authSortedKeys(rules.Samplers)
		}
		for _, n := range append([]string{"__default__", "no-such-destination", ""}, samplerNames...) {
			cfg.GetSamplingKeyFieldsForDestName(n)
			cfg.GetSamplerConfigForDestName(n)
			cfg.DetermineSamplerKey(c28LegacyKey, "", n)
			cfg.DetermineSamplerKey(c28EnvKey, n, "ds")
		}
	})
	if reload {
		c28Stage(&rep, "reload(unchanged files)", func() { _ = cfg.Reload() })
	}
	c28Stage(&rep, "marshal-rules(/query/allrules)", func() {
		// what route.getAllSamplerRules / getSamplerRules hand to marshalToFormat
		rules := cfg.GetAllSamplerRules()
		_, _ = json.Marshal(rules)
		_, _ = yaml.Marshal(rules)
		_, _ = toml.Marshal(rules)
		for _, n := range samplerNames {
			c, name := cfg.GetSamplerConfigForDestName(n)
			obj := map[string]interface{}{name: c}
			_, _ = json.Marshal(obj)
			_, _ = yaml.Marshal(obj)
			_, _ = toml.Marshal(obj)
		}
	})

	factory := &sample.SamplerFactory{Config: cfg, Logger: lg, Metrics: &metrics.NullMetrics{}}
	c28Stage(&rep, "sampler-factory-start", func() { _ = factory.Start() })
	defer func() {
		defer func() { recover() }()
		factory.Stop()
	}()
	traces := c28Traces(cfg)
	for _, key := range append([]string{"no-such-destination"}, samplerNames...) {
		var s sample.Sampler
		c28Stage(&rep, "sampler-build key="+key, func() { s = factory.GetSamplerImplementationForKey(key) })
		_, typ := cfg.GetSamplerConfigForDestName(key)
		if s == nil || (reflect.ValueOf(s).Kind() == reflect.Ptr && reflect.ValueOf(s).IsNil()) {
			if len(rep.Panics) == 0 {
				rep.NilSampler = append(rep.NilSampler, typ)
			}
			continue
		}
		rep.Samplers = append(rep.Samplers, key+"="+typ)
		c28Stage(&rep, "sampler-run "+typ, func() {
			// exactly what collect.(*collectorWorker).send does with a sampler
			all, nonRoot := s.GetKeyFields()
			for _, tr := range traces {
				for _, sp := range tr.GetSpans() {
					if sp.IsRoot {
						sp.Data.MemoizeFields(all...)
					} else {
						sp.Data.MemoizeFields(nonRoot...)
					}
				}
				for i := 0; i < 3; i++ {
					s.GetSampleRate(tr)
				}
			}
		})
	}
	if len(rep.Samplers) > 0 {
		// samplers start goroutines (dynsampler tickers); give them the moment they
		// need to run their first statements, so that a panic there is attributed
		// to this case and not to the next one
		fmt.Fprintf(os.Stderr, "C28STAGE settle(goroutines started by the samplers)\n")
		for i := 0; i < 10; i++ {
			runtime.Gosched()
		}
		time.Sleep(10 * time.Millisecond)
	}
	return rep
}

// ---------------------------------------------------------------- parent side

type c28Ring struct {
	mu  sync.Mutex
	buf []byte
}

func (r *c28Ring) Write(p []byte) (int, error) {
	r.mu.Lock()
	r.buf = append(r.buf, p...)
	if len(r.buf) > 1<<18 {
		// keep head (where a crash trace starts is unknown) and tail
		r.buf = append(r.buf[:1<<16:1<<16], r.buf[len(r.buf)-(1<<17):]...)
	}
	r.mu.Unlock()
	return len(p), nil
}

func (r *c28Ring) String() string {
	r.mu.Lock()
	defer r.mu.Unlock()
	return string(r.buf)
}

func (r *c28Ring) Reset() {
	r.mu.Lock()
	r.buf = r.buf[:0]
	r.mu.Unlock()
}

type c28Worker struct {
	cmd    *exec.Cmd
	in     io.WriteCloser
	out    *bufio.Reader
	outF   *os.File
	stderr *c28Ring
	uses   int
	dead   bool
	waited chan struct{}
	state  *os.ProcessState
}

type c28Death struct {
	Exit   string // "exit status 1", "signal: killed", ...
	Stderr string
	Hung   bool // the harness killed it after a reply did not come in time
}

var errC28Infra = errors.New("c28 worker infrastructure problem")

func c28Spawn() (*c28Worker, error) {
	cr, cw, err := os.Pipe() // commands: parent writes cw, child reads cr (fd 3)
	if err != nil {
		return nil, err
	}
	rr, rw, err := os.Pipe() // replies: child writes rw (fd 4), parent reads rr
	if err != nil {
		return nil, err
	}
	w := &c28Worker{stderr: &c28Ring{}, waited: make(chan struct{})}
	w.cmd = exec.Command(os.Args[0], "-test.run=^TestC28Worker$", "-test.count=1", "-test.timeout=0")
	w.cmd.Env = append(os.Environ(), "C28_WORKER=1", "GOTRACEBACK=all", "VERIF_OUT=", "VERIF_REPLAY=", "VERIF_REPLAY_DIR=")
	w.cmd.ExtraFiles = []*os.File{cr, rw}
	w.cmd.Stdout = w.stderr
	w.cmd.Stderr = w.stderr
	if err := w.cmd.Start(); err != nil {
		return nil, err
	}
	cr.Close()
	rw.Close()
	w.in, w.outF, w.out = cw, rr, bufio.NewReaderSize(rr, 1<<20)
	go func() {
		_ = w.cmd.Wait()
		w.state = w.cmd.ProcessState
		close(w.waited)
	}()
	return w, nil
}

func (w *c28Worker) kill() {
	if w == nil {
		return
	}
	w.dead = true
	_ = w.cmd.Process.Kill()
	select {
	case <-w.waited:
	case <-time.After(10 * time.Second):
	}
	w.in.Close()
	w.outF.Close()
}

func (w *c28Worker) death(hung bool) *c28Death {
	w.dead = true
	if hung {
		_ = w.cmd.Process.Kill()
	}
	select {
	case <-w.waited:
	case <-time.After(20 * time.Second):
		_ = w.cmd.Process.Kill()
		<-w.waited
	}
	w.in.Close()
	w.outF.Close()
	d := &c28Death{Hung: hung, Stderr: w.stderr.String()}
	if w.state != nil {
		d.Exit = w.state.String()
	}
	return d
}

// call sends one command and waits for the reply. A nil reply with a non-nil
// death means the child is gone (died on its own, or Hung: killed by us after
// the deadline).
func (w *c28Worker) call(cmd c28Cmd, timeout time.Duration) (*c28Reply, *c28Death) {
	w.uses++
	b, _ := json.Marshal(cmd)
	b = append(b, '\n')
	if _, err := w.in.Write(b); err != nil {
		return nil, w.death(false)
	}
	type res struct {
		line []byte
		err  error
	}
	ch := make(chan res, 1)
	go func() {
		line, err := w.out.ReadBytes('\n')
		ch <- res{line, err}
	}()
	select {
	case r := <-ch:
		if r.err != nil {
			return nil, w.death(false)
		}
		var rep c28Reply
		if err := json.Unmarshal(r.line, &rep); err != nil {
			return &c28Reply{Err: "bad reply: " + err.Error()}, nil
		}
		return &rep, nil
	case <-w.waited:
		return nil, w.death(false)
	case <-time.After(timeout):
		return nil, w.death(true)
	}
}

var (
	c28WorkerMu  sync.Mutex
	c28TheWorker *c28Worker
)

// c28GetWorker returns the process-wide worker, (re)spawning it when it is
// gone, worn (maxUses) or when a fresh one is demanded.
func c28GetWorker(fresh bool, maxUses int) (*c28Worker, error) {
	c28WorkerMu.Lock()
	defer c28WorkerMu.Unlock()
	w := c28TheWorker
	if w != nil && (fresh || w.dead || w.uses >= maxUses) {
		if !w.dead {
			w.kill()
		}
		w = nil
	}
	if w == nil {
		nw, err := c28Spawn()
		if err != nil {
			return nil, fmt.Errorf("%w: %v", errC28Infra, err)
		}
		w = nw
		c28TheWorker = w
	}
	return w, nil
}

func c28KillWorker() {
	c28WorkerMu.Lock()
	defer c28WorkerMu.Unlock()
	if c28TheWorker != nil && !c28TheWorker.dead {
		c28TheWorker.kill()
	}
	c28TheWorker = nil
}

// ---------------------------------------------------------------- stack classification

var c28FrameArgs = regexp.MustCompile(`\([^()]*\)$`)

func c28FuncName(line string) string {
	line = strings.TrimSpace(line)
	line = strings.TrimPrefix(line, "created by ")
	if i := strings.Index(line, " in goroutine"); i >= 0 {
		line = line[:i]
	}
	line = c28FrameArgs.ReplaceAllString(line, "")
	return line
}

func c28ShortFunc(fn string) string {
	fn = strings.TrimPrefix(fn, "github.com/honeycombio/refinery/")
	fn = strings.TrimPrefix(fn, "github.com/honeycombio/")
	fn = strings.TrimPrefix(fn, "github.com/")
	return fn
}

// c28TopFrames extracts, from a Go stack dump (debug.Stack of a recovered panic,
// or the runtime's crash output), the function where it happened and the first
// refinery function on that stack. Returned names are short and stable.
func c28TopFrames(stack string) (top, refinery string) {
	lines := strings.Split(stack, "\n")
	// a crash dump may hold many goroutines: use the first one that is [running]
	start, end := 0, len(lines)
	for i, l := range lines {
		if strings.HasPrefix(l, "goroutine ") && strings.Contains(l, "[running") {
			start = i + 1
			for j := start; j < len(lines); j++ {
				if strings.TrimSpace(lines[j]) == "" {
					end = j
					break
				}
			}
			break
		}
	}
	var funcs []string
	for _, l := range lines[start:end] {
		if l == "" || strings.HasPrefix(l, "\t") || strings.HasPrefix(l, " ") || strings.HasPrefix(l, "goroutine ") {
			continue
		}
		funcs = append(funcs, c28FuncName(l))
	}
	// frames above the last "panic" frame belong to the recovery machinery
	for i := len(funcs) - 1; i >= 0; i-- {
		if funcs[i] == "panic" {
			funcs = funcs[i+1:]
			break
		}
	}
	for _, f := range funcs {
		if strings.HasPrefix(f, "runtime.") || strings.HasPrefix(f, "runtime/") || strings.HasPrefix(f, "testing.") || strings.HasPrefix(f, "reflect.") {
			continue
		}
		if strings.Contains(f, "/verifharness/") {
			continue
		}
		if top == "" {
			top = c28ShortFunc(f)
		}
		if refinery == "" && strings.HasPrefix(f, "github.com/honeycombio/refinery/") {
			refinery = c28ShortFunc(f)
			break
		}
	}
	return
}

// c28CrashInHarness: the crashing goroutine runs harness code (fake upstream,
// worker loop) and no refinery code at all.
func c28CrashInHarness(dump string) bool {
	lines := strings.Split(dump, "\n")
	in := false
	for _, l := range lines {
		if strings.HasPrefix(l, "goroutine ") {
			if in {
				break
			}
			in = strings.Contains(l, "[running")
			continue
		}
		if in && strings.Contains(l, "/verifharness/") {
			return true
		}
	}
	return false
}

var c28MallocSize = regexp.MustCompile(`runtime\.mallocgc\(0x([0-9a-f]+)`)

// c28ClassifyDeath turns the stderr of a dead child into a short stable label.
func c28ClassifyDeath(d *c28Death) (label string, oomBytes uint64) {
	s := d.Stderr
	idx := -1
	for _, marker := range []string{"\nfatal error: ", "\npanic: ", "fatal error: ", "panic: "} {
		if i := strings.LastIndex(s, marker); i >= 0 {
			idx = i
			break
		}
	}
	if idx >= 0 {
		dump := s[idx:]
		first := strings.SplitN(strings.TrimSpace(dump), "\n", 2)[0]
		kind := "panic"
		if strings.Contains(first, "fatal error") {
			kind = "fatal"
		}
		top, ref := c28TopFrames(dump)
		if ref == "" && c28CrashInHarness(dump) {
			return "harness-code-in-child", 0
		}
		where := ref
		if where == "" {
			where = top
		}
		if strings.Contains(first, "out of memory") || strings.Contains(first, "cannot allocate memory") {
			kind = "fatal-out-of-memory"
			if m := c28MallocSize.FindStringSubmatch(dump); m != nil {
				fmt.Sscanf(m[1], "%x", &oomBytes)
			}
		}
		if where == "" {
			where = "unknown-frame"
		}
		return kind + "@" + where, oomBytes
	}
	// no Go crash dump: os.Exit or a signal
	lastLog := ""
	for _, l := range strings.Split(s, "\n") {
		if strings.HasPrefix(l, "C28LOG error: ") {
			lastLog = strings.TrimPrefix(l, "C28LOG error: ")
		}
	}
	slug := c28Slug(lastLog)
	if slug == "" {
		slug = "no-message"
	}
	return "exit(" + c28Slug(d.Exit) + ")@" + slug, 0
}

// c28CPUSeconds: user+system CPU time consumed so far by process pid.
func c28CPUSeconds(pid int) float64 {
	b, err := os.ReadFile(fmt.Sprintf("/proc/%d/stat", pid))
	if err != nil {
		return 0
	}
	s := string(b)
	if i := strings.LastIndex(s, ")"); i >= 0 { // comm may contain spaces
		s = s[i+1:]
	}
	f := strings.Fields(s)
	if len(f) < 13 {
		return 0
	}
	var ut, st float64
	fmt.Sscan(f[11], &ut)
	fmt.Sscan(f[12], &st)
	return (ut + st) / 100
}

// c28BusyFrame finds, in a runtime.Stack(all) dump, the goroutine that is
// running/runnable inside refinery's request handling and returns its first
// refinery frame.
func c28BusyFrame(dump string) (frame, block string) { return c28BusyFrameIn(dump, true, "") }

// c28BusyFrameIn: handlerOnly restricts the search to goroutines serving a
// request (net/http conn or gRPC stream); preferPkg, when a frame of that
// refinery package is on the busy stack, names the outermost named function of
// that package instead of the innermost refinery frame (which moves around
// inside a loop).
func c28BusyFrameIn(dump string, handlerOnly bool, preferPkg string) (frame, block string) {
	for _, blk := range strings.Split(dump, "\n\n") {
		first := strings.SplitN(blk, "\n", 2)[0]
		if !strings.HasPrefix(first, "goroutine ") || !(strings.Contains(first, "[running") || strings.Contains(first, "[runnable")) {
			continue
		}
		if !strings.Contains(blk, "github.com/honeycombio/refinery/route.") && !strings.Contains(blk, "honeycombio/husky") && !strings.Contains(blk, "github.com/honeycombio/refinery/transmit.") {
			continue
		}
		if strings.Contains(blk, "TestC28Worker") {
			continue
		}
		if handlerOnly && !strings.Contains(blk, "net/http.(*conn).serve") && !strings.Contains(blk, "google.golang.org/grpc.(*Server).") {
			continue
		}
		if preferPkg != "" {
			// the outermost named function of that package: the one whose loop spins
			outer := ""
			for _, l := range strings.Split(blk, "\n") {
				if strings.HasPrefix(l, "github.com/honeycombio/refinery/"+preferPkg+".") && !strings.Contains(l, ".func") {
					outer = c28ShortFunc(c28FuncName(l))
				}
			}
			if outer != "" {
				return outer, blk
			}
		}
		_, ref := c28TopFrames(strings.Replace(blk, first, strings.Replace(first, "[runnable", "[running", 1), 1))
		if ref != "" {
			return ref, blk
		}
	}
	return "", ""
}

var c28GoroutineHdr = regexp.MustCompile(`^goroutine (\d+) \[([^\],]+)`)

// c28BlockedHandler finds, in a runtime.Stack(all) dump, a request-handling
// goroutine (net/http conn.serve or a gRPC stream handler, with refinery route
// frames) that is parked on a lock, channel or select: not running, not
// runnable, not waiting for the network, not sleeping.
func c28BlockedHandler(dump string) (id, state, frame, block string) {
	for _, blk := range strings.Split(dump, "\n\n") {
		first := strings.SplitN(blk, "\n", 2)[0]
		m := c28GoroutineHdr.FindStringSubmatch(first)
		if m == nil {
			continue
		}
		st := m[2]
		parked := strings.HasPrefix(st, "sync.") || strings.HasPrefix(st, "semacquire") || strings.HasPrefix(st, "chan ") || st == "select" || strings.HasPrefix(st, "select (no cases)")
		if !parked {
			continue
		}
		if !strings.Contains(blk, "github.com/honeycombio/refinery/route.") {
			continue
		}
		if !strings.Contains(blk, "net/http.(*conn).serve") && !strings.Contains(blk, "google.golang.org/grpc.(*Server).") {
			continue
		}
		_, ref := c28TopFrames(strings.Replace(blk, first, "goroutine "+m[1]+" [running]:", 1))
		if ref != "" {
			return m[1], st, ref, blk
		}
	}
	return "", "", "", ""
}

var c28NonWord = regexp.MustCompile(`[^a-zA-Z]+`)

func c28Slug(s string) string {
	s = c28NonWord.ReplaceAllString(s, "-")
	s = strings.Trim(s, "-")
	if len(s) > 48 {
		s = s[:48]
	}
	return strings.ToLower(s)
}

func c28LastStage(stderr string) string {
	last := ""
	for _, l := range strings.Split(stderr, "\n") {
		if strings.HasPrefix(l, "C28STAGE ") {
			last = strings.TrimPrefix(l, "C28STAGE ")
		}
	}
	return last
}

func c28Tail(s string, n int) string {
	if len(s) <= n {
		return s
	}
	return "..." + s[len(s)-n:]
}

var _ = bytes.MinRead
