package auth

// C28 (a): structure-aware generator of refinery config and rules files, driven
// by refinery's own metadata (config/metadata/configMeta.yaml, rulesMeta.yaml
// through config.LoadConfigMetadata / LoadRulesMetadata): every field gets a
// valid value for its declared type/validations most of the time, a near-valid
// one (boundaries, empty, zero, negative, huge) or junk (wrong type) sometimes.

import (
	"encoding/json"
	"fmt"
	"math"
	"strings"
	"sync"
	"time"

	"github.com/pelletier/go-toml/v2"
	"gopkg.in/yaml.v3"
	"pgregory.net/rapid"

	"github.com/honeycombio/refinery/config"
)

var (
	c28MetaOnce sync.Once
	c28CfgMeta  *config.Metadata
	c28RuleMeta *config.Metadata
)

func c28Meta() (*config.Metadata, *config.Metadata) {
	c28MetaOnce.Do(func() {
		var err error
		if c28CfgMeta, err = config.LoadConfigMetadata(); err != nil {
			panic(err)
		}
		if c28RuleMeta, err = config.LoadRulesMetadata(); err != nil {
			panic(err)
		}
	})
	return c28CfgMeta, c28RuleMeta
}

type c28G struct {
	t   *rapid.T
	odd int // how many near-valid/junk values were placed
}

// quality: 0 valid (most draws, and what rapid shrinks towards), 1 near-valid, 2 junk.
func (g *c28G) quality(label string) int {
	switch v := rapid.IntRange(0, 49).Draw(g.t, label+"?"); {
	case v <= 46:
		return 0
	case v <= 48:
		g.odd++
		return 1
	default:
		g.odd++
		return 2
	}
}

func (g *c28G) pick(label string, xs ...any) any {
	return xs[rapid.IntRange(0, len(xs)-1).Draw(g.t, label)]
}

var c28FieldNames = []any{"status", "http.status_code", "name", "duration_ms", "error", "service.name", "root.name", "root.status", "nested.a", "meta.span_count", "?.NUM_DESCENDANTS"}
var c28OddFieldNames = []any{"", "root.", "?.", "r", "?", "root", "?.x", "root.root.x", ".", "trace.trace_id", " ", "a b", strings.Repeat("f", 300), "\u00e9\u4e16", "${HOME}"}

func (g *c28G) fieldName(label string, q int) string {
	if q == 0 {
		return g.pick(label, c28FieldNames...).(string)
	}
	return g.pick(label, c28OddFieldNames...).(string)
}

func c28Bounds(f *config.Field) (min, max any) {
	for _, v := range f.Validations {
		switch v.Type {
		case "minimum", "minOrZero":
			min = v.Arg
		case "maximum":
			max = v.Arg
		}
	}
	return
}

func c28AsInt(v any, def int) int {
	switch x := v.(type) {
	case int:
		return x
	case int64:
		return int(x)
	case float64:
		return int(x)
	}
	return def
}

func c28HasValidation(f *config.Field, typ string, arg string) bool {
	for _, v := range f.Validations {
		if v.Type == typ && (arg == "" || fmt.Sprint(v.Arg) == arg) {
			return true
		}
	}
	return false
}

var c28Junk = []any{"", "junk", 0, -1, 1.5, true, nil, []any{}, []any{1, "a", nil}, map[string]any{}, map[string]any{"a": map[string]any{"b": []any{1}}},
	"null", "~", "${HOME}", "${", "\x00", strings.Repeat("x", 5000), math.MaxInt64, math.MinInt64, 1e308, math.Inf(1), math.NaN(), "1e999", []any{[]any{[]any{}}}}

// value generates a value for one metadata field.
func (g *c28G) value(f *config.Field, label string) any {
	q := g.quality(label)
	if q == 2 {
		return g.pick(label+"-junk", c28Junk...)
	}
	isNameList := strings.Contains(f.Name, "FieldList") || f.Name == "Fields" || f.Name == "TraceNames" || f.Name == "ParentNames" || f.Name == "AdditionalErrorFields"
	minV, maxV := c28Bounds(f)
	switch f.Type {
	case "int", "percentage":
		lo, hi := c28AsInt(minV, 0), c28AsInt(maxV, 1_000_000)
		if f.Type == "percentage" {
			lo, hi = max(lo, 0), min(hi, 100)
		}
		if q == 0 && (strings.Contains(f.Name, "SampleRate") || strings.HasPrefix(f.Name, "Goal")) && rapid.IntRange(0, 4).Draw(g.t, label+"-oddrate") == 4 {
			// rates of every sampler type (incl. a rule's own SampleRate and downstream
			// samplers): zero and negative are what operators mistype and what
			// the validator mostly lets through
			g.odd++
			return g.pick(label+"-rate", 0, -1, -100, math.MinInt64)
		}
		if q == 0 {
			return g.pick(label, lo, lo+1, hi, c28AsInt(f.Default, lo+1), lo+2, lo+10, lo+100)
		}
		return g.pick(label, lo-1, hi+1, 0, -1, 1<<31, 1<<32, math.MaxInt64, math.MinInt64, "5", 5.0, 5.5)
	case "float":
		if q == 0 {
			if maxV != nil {
				return g.pick(label, 0.5, 0.1, 0.9, 1, 0, 0.0001)
			}
			return g.pick(label, 0.5, 0.1, 0.9, 1, 0, 2.0, 0.0001)
		}
		return g.pick(label, -0.1, 1.1, 0, 1, -1, 1e308, 1e-320, math.Inf(1), math.Inf(-1), math.NaN(), "0.5", math.MaxInt64)
	case "bool":
		if q == 0 {
			return g.pick(label, true, false)
		}
		return g.pick(label, "true", "yes", 1, 0, "", "False")
	case "defaulttrue":
		if q == 0 {
			return g.pick(label, true, false, "true", "false", "t", "f")
		}
		return g.pick(label, "T", "F", "TRUE", "1", 1, "", "yes", "tr ue")
	case "duration":
		if q == 0 {
			d := time.Second
			if s, ok := minV.(string); ok {
				if pd, err := time.ParseDuration(s); err == nil && pd > 0 {
					d = pd
				}
			}
			return g.pick(label, d.String(), (2 * d).String(), (d + time.Millisecond).String(), (10 * d).String(), (90 * d).String(), (3600 * d).String())
		}
		return g.pick(label, "0s", "0", "1ns", "-1s", "1us", "2562047h47m16.854775807s", "2562048h", "1.5s", "1d", "", "s", 5, "1e3s", "99999999999h", "-0s", "0.0000000001ns")
	case "memorysize":
		if q == 0 {
			return g.pick(label, "1Gb", "15MB", "100_000_000", "1MiB", 1000000, "500Mb", "64MiB")
		}
		return g.pick(label, "0", 0, -1, "-1", "1", "1EiB", "16EiB", "9223372036854775807", "18446744073709551615", "1e30", "1.5Gi", "1 Gb", "Gb", "", "0x10", 1.5, "1_", "_1", "1e3", "999999999999Eb")
	case "hostport":
		if q == 0 {
			return g.pick(label, "127.0.0.1:0", "localhost:8080", "0.0.0.0:9090", "[::1]:8080", ":8080", "example.com:443")
		}
		return g.pick(label, "", "host", "1.2.3.4", ":", "::", "[::1]", "host:99999", "host:-1", "host:http", "a:b:c", " :8080", "http://x:80", "\x00:1")
	case "url", "urlOrBlank":
		if q == 0 {
			return g.pick(label, "http://127.0.0.1:1", "https://api.honeycomb.io", "http://localhost:8081/", "https://example.com:443/path?q=1")
		}
		return g.pick(label, "", "http://", "http:///x", "ftp://x", "x", "http://[::1", "http://a b", "//host", "http://host:99999", "HTTP://H", "http://%zz", "http://u:p@h", "\x7f://", ":")
	case "string":
		if len(f.Choices) > 0 {
			if q == 0 {
				return f.Choices[rapid.IntRange(0, len(f.Choices)-1).Draw(g.t, label)]
			}
			c := f.Choices[rapid.IntRange(0, len(f.Choices)-1).Draw(g.t, label)]
			return g.pick(label+"-near", strings.ToUpper(c), c+" ", "", c[:len(c)/2], "none", "null", 1)
		}
		if f.Name == "Field" {
			if q == 0 && rapid.IntRange(0, 5).Draw(g.t, label+"-oddname") == 5 {
				g.odd++
				q = 1
			}
			return g.fieldName(label, q)
		}
		if c28HasValidation(f, "format", "apikey") || c28HasValidation(f, "format", "apikeyOrBlank") || f.Pattern == "apikey" {
			if q == 0 {
				return g.pick(label, "abcdef0123456789abcdef0123456789", "abcdefghijABCDEFGHIJ12", "hcaik_"+strings.Repeat("a1", 29))
			}
			return g.pick(label, "", "short", strings.Repeat("a", 33), "hcaik_", "InvalidHoneycombAPIKey", "${REFINERY_KEY}")
		}
		if c28HasValidation(f, "format", "version") {
			if q == 0 {
				return g.pick(label, "v2.0", "v2.9", "v3.0", "v1.0", "v0.0")
			}
			return g.pick(label, "v99.99", "v99999999999999999999.0", "2.0", "v2", "v2.0.1", "", "v-1.0", "v3.999999999999999999999")
		}
		if c28HasValidation(f, "format", "alphanumeric") {
			if q == 0 {
				return g.pick(label, "", "prefix", "Prod1")
			}
			return g.pick(label, "a.b", "a b", "\u00e9", "-", strings.Repeat("a", 4000))
		}
		if q == 0 {
			return g.pick(label, "value", "refinery", "trace", "x", "some name")
		}
		return g.pick(label, "", " ", "\x00", "\t\n", strings.Repeat("s", 70000), "${HOME}", "${UNSET_VARIABLE_C28}", "${", "}{$", "%s%d%v", "\u00e9\u4e16\U0001F600", "null", "true", "0", `"`, `\`, "{{.}}")
	case "stringarray":
		if q == 0 {
			n := rapid.IntRange(1, 3).Draw(g.t, label+"-n")
			out := make([]any, n)
			for i := range out {
				switch {
				case isNameList:
					// any string is a legal field name for the validator: odd names are frequent
					if rapid.IntRange(0, 5).Draw(g.t, label+"-oddname") == 5 {
						g.odd++
						out[i] = g.fieldName(label, 1)
					} else {
						out[i] = g.fieldName(label, 0)
					}
				case c28HasValidation(f, "elementType", "hostport"):
					out[i] = g.pick(label, "127.0.0.1:6379", "redis-1:6379", "[::1]:6379")
				case c28HasValidation(f, "elementType", "url"):
					out[i] = g.pick(label, "http://127.0.0.1:8081", "http://peer-1:8081", "https://10.0.0.2")
				default:
					out[i] = g.pick(label, "a", "b", "key1", "127.0.0.1:8081")
				}
			}
			return out
		}
		if isNameList {
			n := rapid.IntRange(0, 3).Draw(g.t, label+"-n")
			out := make([]any, n)
			for i := range out {
				out[i] = g.fieldName(label, rapid.IntRange(0, 1).Draw(g.t, label+"-oddname"))
			}
			return out
		}
		return g.pick(label, []any{}, []any{""}, []any{"a", "a"}, []any{"", ""}, []any{strings.Repeat("k", 70000)}, "scalar", []any{"a", 1}, []any{nil}, []any{[]any{"a"}})
	case "map":
		if q == 0 {
			return g.pick(label, map[string]any{}, map[string]any{"k": "v"}, map[string]any{"X-Custom": "1", "environment": "prod"})
		}
		return g.pick(label, map[string]any{"": ""}, map[string]any{"k": 1}, map[string]any{"k": nil}, map[string]any{"X-Honeycomb-Team": "x"}, map[string]any{"k": map[string]any{"a": "b"}}, map[string]any{"a b": "c\nd", "\x00": "\x00"}, []any{"k"}, "k:v")
	case "anyscalar", "sliceorscalar":
		return g.condValue(label, q)
	}
	return g.pick(label+"-junk", c28Junk...)
}

func (g *c28G) condValue(label string, q int) any {
	if q == 0 {
		return g.pick(label, 200, 500, "500", "error", 1.5, true, "^a.*b$", "svc", 0, []any{200, 404}, []any{"a", "b"}, []any{1.5, 2.5})
	}
	return g.pick(label, "", "(", "[", "(?P<x", `\`, "*", "a{1000000}", strings.Repeat("(a*)*", 20), nil, []any{}, []any{nil}, []any{"a", 1}, []any{[]any{1}}, map[string]any{"a": 1},
		math.MaxInt64, math.MinInt64, 1e308, math.NaN(), math.Inf(1), "NaN", "1e999", "-0", "0x10", " 5", "true ", "TRUE", strings.Repeat("v", 70000), "\x00")
}

// ---- config file

func (g *c28G) configFile() map[string]any {
	cm, _ := c28Meta()
	out := map[string]any{}
	gen := map[string]any{}
	switch g.quality("confver") {
	case 0:
		gen["ConfigurationVersion"] = 2
	case 1:
		gen["ConfigurationVersion"] = g.pick("confver-near", 1, 3, 0, "2", 2.0)
	}
	for gi := range cm.Groups {
		grp := &cm.Groups[gi]
		if len(grp.Fields) == 0 {
			continue
		}
		// most groups are left to their defaults
		if rapid.IntRange(0, 5).Draw(g.t, "incl-"+grp.Name) != 5 && grp.Name != "General" {
			continue
		}
		m := map[string]any{}
		if grp.Name == "General" {
			m = gen
		}
		for fi := range grp.Fields {
			f := &grp.Fields[fi]
			if f.Name == "ConfigurationVersion" {
				continue
			}
			if rapid.IntRange(0, 2).Draw(g.t, "incl-"+grp.Name+"."+f.Name) != 2 {
				continue
			}
			m[f.Name] = g.value(f, grp.Name+"."+f.Name)
		}
		out[grp.Name] = m
	}
	if _, ok := out["General"]; !ok {
		out["General"] = gen
	}
	switch g.quality("cfg-structure") {
	case 1:
		out[g.pick("emptygroup", "Traces", "Collection", "AccessKeys", "Logger").(string)] = map[string]any{}
	case 2:
		switch rapid.IntRange(0, 3).Draw(g.t, "cfg-junk-kind") {
		case 0:
			out["NoSuchGroup"] = map[string]any{"x": 1}
		case 1:
			out[g.pick("scalargroup", "Traces", "Collection", "General", "Network").(string)] = g.pick("scalargroup-v", c28Junk...)
		case 2:
			if m, ok := out["General"].(map[string]any); ok {
				m["NoSuchField"] = 1
			}
		default:
			out[""] = map[string]any{"": ""}
		}
	}
	return out
}

// ---- rules file

func (g *c28G) group(name string) *config.Group {
	_, rm := c28Meta()
	for i := range rm.Groups {
		if rm.Groups[i].Name == name {
			return &rm.Groups[i]
		}
	}
	panic("no rules group " + name)
}

func (g *c28G) fieldsOf(groupName, label string, always ...string) map[string]any {
	grp := g.group(groupName)
	m := map[string]any{}
	for fi := range grp.Fields {
		f := &grp.Fields[fi]
		if f.Type == "object" || f.Type == "objectarray" {
			continue
		}
		required := c28HasValidation(f, "requiredInGroup", "")
		for _, a := range always {
			if a == f.Name {
				required = true
			}
		}
		incl := rapid.IntRange(0, 2).Draw(g.t, label+"."+f.Name+"-incl")
		if (required && incl == 2 && g.quality(label+"."+f.Name+"-drop-required") != 0) || (!required && incl != 2) {
			continue
		}
		m[f.Name] = g.value(f, label+"."+f.Name)
	}
	return m
}

var c28SamplerTypes = []string{"DeterministicSampler", "DynamicSampler", "EMADynamicSampler", "EMAThroughputSampler", "WindowedThroughputSampler", "TotalThroughputSampler", "RulesBasedSampler"}
var c28Downstream = []string{"DynamicSampler", "EMADynamicSampler", "EMAThroughputSampler", "WindowedThroughputSampler", "TotalThroughputSampler"}

func (g *c28G) sampler(label string, depth int) map[string]any {
	typ := c28SamplerTypes[rapid.IntRange(0, len(c28SamplerTypes)-1).Draw(g.t, label+"-type")]
	out := map[string]any{}
	switch g.quality(label + "-shape") {
	case 1: // no sampler / two samplers in one choice
		if rapid.Bool().Draw(g.t, label+"-empty") {
			return out
		}
		out["DeterministicSampler"] = map[string]any{"SampleRate": 1}
	case 2:
		out[g.pick(label+"-badtype", "NoSuchSampler", "deterministicsampler", "Rules", "Samplers", "").(string)] = map[string]any{"SampleRate": 1}
		return out
	}
	if typ != "RulesBasedSampler" {
		out[typ] = g.fieldsOf(typ, label+"."+typ)
		return out
	}
	rb := g.fieldsOf("RulesBasedSampler", label+".rb")
	nr := rapid.IntRange(0, 3).Draw(g.t, label+"-nrules")
	var rules []any
	for r := 0; r < nr; r++ {
		rl := fmt.Sprintf("%s.rule%d", label, r)
		rule := g.fieldsOf("Rules", rl)
		nc := rapid.IntRange(0, 3).Draw(g.t, rl+"-nconds")
		var conds []any
		for c := 0; c < nc; c++ {
			cl := fmt.Sprintf("%s.cond%d", rl, c)
			cond := g.fieldsOf("Conditions", cl, "Operator")
			// Field and Fields conflict; keep one unless we are being odd
			if _, a := cond["Field"]; a {
				if _, b := cond["Fields"]; b && g.quality(cl+"-both") == 0 {
					delete(cond, "Fields")
				}
			}
			if g.quality(cl+"-condshape") == 2 {
				conds = append(conds, g.pick(cl+"-junkcond", nil, "cond", 1, []any{}, map[string]any{}))
				continue
			}
			conds = append(conds, cond)
		}
		if nc > 0 || rapid.Bool().Draw(g.t, rl+"-emptyconds") {
			if conds == nil {
				conds = []any{}
			}
			rule["Conditions"] = conds
		}
		if rapid.IntRange(0, 2).Draw(g.t, rl+"-downstream") == 0 {
			ds := c28Downstream[rapid.IntRange(0, len(c28Downstream)-1).Draw(g.t, rl+"-dstype")]
			smp := map[string]any{ds: g.fieldsOf(ds, rl+"."+ds)}
			switch g.quality(rl + "-dsshape") {
			case 1:
				smp = map[string]any{}
			case 2:
				smp = map[string]any{"DeterministicSampler": map[string]any{"SampleRate": 2}, "RulesBasedSampler": map[string]any{}}
			}
			rule["Sampler"] = smp
		}
		if g.quality(rl+"-ruleshape") == 2 {
			rules = append(rules, g.pick(rl+"-junkrule", nil, "rule", 1, []any{}, map[string]any{}))
			continue
		}
		rules = append(rules, rule)
	}
	if rules != nil || rapid.Bool().Draw(g.t, label+"-emptyrules") {
		if rules == nil {
			rules = []any{}
		}
		rb["Rules"] = rules
	}
	out[typ] = rb
	return out
}

func (g *c28G) rulesFile() map[string]any {
	out := map[string]any{}
	switch g.quality("rulesver") {
	case 0:
		out["RulesVersion"] = 2
	case 1:
		out["RulesVersion"] = g.pick("rulesver-near", 1, 3, "2", 2.0)
	}
	samplers := map[string]any{}
	if g.quality("default-sampler") != 2 {
		samplers["__default__"] = g.sampler("default", 0)
	}
	n := rapid.IntRange(0, 2).Draw(g.t, "n-samplers")
	for i := 0; i < n; i++ {
		name := g.pick("sampler-name", "env", "production", "dataset1", "my.dataset", "", "__default__ ", "a/b", "${HOME}", strings.Repeat("n", 300)).(string)
		samplers[name] = g.sampler(fmt.Sprintf("s%d", i), 0)
	}
	switch g.quality("samplers-shape") {
	case 0, 1:
		out["Samplers"] = samplers
	default:
		out["Samplers"] = g.pick("samplers-junk", nil, []any{}, "x", map[string]any{"__default__": nil}, map[string]any{"__default__": "x"}, map[string]any{"__default__": []any{}})
	}
	if g.quality("rules-extra") == 2 {
		out["Extra"] = 1
	}
	return out
}

// ---- rendering

// c28Sanitize makes the structure representable in the chosen format (JSON has
// no NaN/Inf; TOML has no nil).
func c28Sanitize(v any, format string) any {
	switch x := v.(type) {
	case map[string]any:
		m := map[string]any{}
		for k, e := range x {
			if format == "toml" && e == nil {
				continue
			}
			m[k] = c28Sanitize(e, format)
		}
		return m
	case []any:
		out := make([]any, 0, len(x))
		for _, e := range x {
			if format == "toml" && e == nil {
				continue
			}
			out = append(out, c28Sanitize(e, format))
		}
		return out
	case float64:
		if format == "json" && (math.IsNaN(x) || math.IsInf(x, 0)) {
			return "NaN"
		}
	}
	return v
}

func c28Render(v map[string]any, format string) string {
	v = c28Sanitize(v, format).(map[string]any)
	var b []byte
	var err error
	switch format {
	case "json":
		b, err = json.Marshal(v)
	case "toml":
		b, err = toml.Marshal(v)
	default:
		b, err = yaml.Marshal(v)
	}
	if err != nil {
		// unrepresentable in that format: fall back to YAML text under the same extension (a broken file)
		b, _ = yaml.Marshal(v)
	}
	return string(b)
}

func genC28Config(t *rapid.T) c28Case {
	g := &c28G{t: t}
	c := c28Case{Mode: "config", ConfigFormat: "yaml", RulesFormat: "yaml"}
	if rapid.IntRange(0, 49).Draw(t, "cfg-format") == 49 {
		c.ConfigFormat = rapid.SampledFrom([]string{"json", "toml"}).Draw(t, "cfg-format-kind")
	}
	if rapid.IntRange(0, 49).Draw(t, "rules-format") == 49 {
		c.RulesFormat = rapid.SampledFrom([]string{"json", "toml"}).Draw(t, "rules-format-kind")
	}
	c.Rules = c28Render(g.rulesFile(), c.RulesFormat)
	c.Config = c28Render(g.configFile(), c.ConfigFormat)
	c.Odd = g.odd
	c.Reload = rapid.IntRange(0, 7).Draw(t, "reload") == 7
	return c
}
