package small

import (
	"fmt"
	"sort"
	"testing"
	"time"

	"github.com/honeycombio/refinery/generics"
	"github.com/honeycombio/refinery/verifharness/vkit"
	"github.com/jonboulle/clockwork"
	"pgregory.net/rapid"
)

// C32: TTL sets and maps agree on membership at every instant.

type c32Op struct {
	Op    string `json:"op"` // add, remove, advance, probe
	Key   string `json:"key,omitempty"`
	Val   int    `json:"val,omitempty"`
	D     int64  `json:"d,omitempty"`     // advance: ns; with Key set: offset from Key's expiry instant
	Order int    `json:"order,omitempty"` // probe order selector
}

type c32Case struct {
	Kind string  `json:"kind"` // set | map
	TTL  int64   `json:"ttl"`  // ns
	Ops  []c32Op `json:"ops"`
}

var c32Keys = []string{"a", "b", "c", "d"}

func genC32(t *rapid.T) c32Case {
	c := c32Case{Kind: rapid.SampledFrom([]string{"set", "map"}).Draw(t, "kind")}
	c.TTL = rapid.SampledFrom([]int64{1, 2, 1000, int64(time.Millisecond), int64(time.Second), int64(10 * time.Second)}).Draw(t, "ttl")
	// ops are state-free (so rapid can delete/shrink them); an advance may be
	// *aimed*: "to the expiry instant of key K plus Delta ns", resolved against
	// the reference model at execution time.
	opGen := rapid.Custom(func(t *rapid.T) c32Op {
		kind := rapid.IntRange(0, 9).Draw(t, "opkind")
		order := rapid.IntRange(0, 23).Draw(t, "order")
		switch {
		case kind <= 3:
			return c32Op{Op: "add", Key: rapid.SampledFrom(c32Keys).Draw(t, "key"), Val: rapid.IntRange(0, 99).Draw(t, "val"), Order: order}
		case kind == 4:
			return c32Op{Op: "remove", Key: rapid.SampledFrom(c32Keys).Draw(t, "key"), Order: order}
		case kind <= 7:
			return c32Op{Op: "advance", Key: rapid.SampledFrom(c32Keys).Draw(t, "aim"), D: int64(rapid.SampledFrom([]int{0, 0, 0, -1, 1}).Draw(t, "delta")), Order: order}
		case kind == 8:
			return c32Op{Op: "advance", D: c.TTL, Order: order}
		default:
			return c32Op{Op: "advance", D: rapid.Int64Range(0, 2*c.TTL).Draw(t, "d"), Order: order}
		}
	})
	c.Ops = rapid.SliceOfN(opGen, 1, 30).Draw(t, "ops")
	return c
}

func c32KeyIndex(k string) int {
	for i, x := range c32Keys {
		if x == k {
			return i
		}
	}
	return 0
}

var c32Perms = [][3]int{{0, 1, 2}, {0, 2, 1}, {1, 0, 2}, {1, 2, 0}, {2, 0, 1}, {2, 1, 0}}

func execC32(c c32Case) vkit.Result {
	var res vkit.Result
	clock := clockwork.NewFakeClockAt(time.Unix(1_700_000_000, 0))
	ttl := time.Duration(c.TTL)
	var set *generics.SetWithTTL[string]
	var mp *generics.MapWithTTL[string, int]
	if c.Kind == "set" {
		set = generics.NewSetWithTTL[string](ttl)
		set.Clock = clock
	} else {
		mp = generics.NewMapWithTTL[string, int](ttl, nil)
		mp.Clock = clock
	}
	type ent struct {
		exp time.Time
		val int
	}
	model := map[string]ent{}
	boundaryProbes := 0

	probe := func(step int, order int) {
		now := clock.Now()
		// status per key
		status := map[string]int{} // 0 absent, 1 present, 2 boundary
		liveOthers := 0
		for _, k := range c32Keys {
			e, ok := model[k]
			switch {
			case !ok || now.After(e.exp):
				status[k] = 0
			case now.Before(e.exp):
				status[k] = 1
				liveOthers++
			default:
				status[k] = 2
			}
		}
		answers := map[string]map[string]bool{} // query kind -> key -> present
		vals := map[string]map[string]int{}
		var lengthAns, listLen int
		runQuery := func(q int) {
			switch q {
			case 0: // point queries
				a := map[string]bool{}
				v := map[string]int{}
				for _, k := range c32Keys {
					if set != nil {
						a[k] = set.Contains(k)
					} else {
						val, ok := mp.Get(k)
						a[k] = ok
						v[k] = val % 100
					}
				}
				answers["point"] = a
				vals["point"] = v
			case 1: // listings
				a := map[string]bool{}
				if set != nil {
					ms := set.Members()
					listLen = len(ms)
					if !sort.StringsAreSorted(ms) {
						res.Violate("C32/set/members-unsorted", "step %d: %v", step, ms)
					}
					for _, k := range ms {
						if a[k] {
							res.Violate("C32/set/members-duplicate", "step %d: %v", step, ms)
						}
						a[k] = true
					}
				} else {
					// the four listing calls are issued in a generated order and
					// each one is judged on its own: one of them may purge expired
					// entries as a side effect and so hide what another would list
					type listing struct {
						name string
						keys []string
						vals map[string]int
					}
					var ls []listing
					decode := func(vs []int) ([]string, map[string]int) {
						ks := make([]string, 0, len(vs))
						m := map[string]int{}
						for _, v := range vs {
							k := c32Keys[(v/100)%len(c32Keys)]
							ks = append(ks, k)
							m[k] = v % 100
						}
						return ks, m
					}
					calls := []func(){
						func() { ls = append(ls, listing{name: "keys", keys: mp.Keys()}) },
						func() {
							sk := mp.SortedKeys()
							if !sort.StringsAreSorted(sk) {
								res.Violate("C32/map/sortedkeys-unsorted", "step %d: %v", step, sk)
							}
							ls = append(ls, listing{name: "sortedkeys", keys: sk})
						},
						func() {
							ks, m := decode(mp.Values())
							ls = append(ls, listing{name: "values", keys: ks, vals: m})
						},
						func() {
							sv := mp.SortedValues()
							ks, m := decode(sv)
							// SortedValues is ordered by key
							if !sort.StringsAreSorted(ks) {
								res.Violate("C32/map/sortedvalues-not-in-key-order", "step %d: %v", step, sv)
							}
							ls = append(ls, listing{name: "sortedvalues", keys: ks, vals: m})
						},
					}
					for i := 0; i < 4; i++ {
						calls[(i+order/6)%4]()
					}
					for _, l := range ls {
						la := map[string]bool{}
						for _, k := range l.keys {
							if la[k] {
								res.Violate("C32/map/"+l.name+"-duplicate", "step %d: %v", step, l.keys)
							}
							la[k] = true
						}
						answers[l.name] = la
						if l.vals != nil {
							vals[l.name] = l.vals
						}
						if l.name == "keys" {
							listLen = len(l.keys)
							a = la
						}
					}
				}
				answers["list"] = a
			case 2:
				if set != nil {
					lengthAns = set.Length()
				} else {
					lengthAns = mp.Length()
				}
			}
		}
		for _, q := range c32Perms[order%6] {
			runQuery(q)
		}
		hasBoundary := false
		for _, k := range c32Keys {
			st := status[k]
			for kind, a := range answers {
				switch st {
				case 0:
					if a[k] {
						res.Violate(fmt.Sprintf("C32/%s/%s/present-after-expiry-or-removal", c.Kind, kind), "step %d key %q now=%v model=%v", step, k, now, model[k])
					}
				case 1:
					if !a[k] {
						res.Violate(fmt.Sprintf("C32/%s/%s/absent-before-expiry", c.Kind, kind), "step %d key %q now=%v exp=%v", step, k, now, model[k].exp)
					} else if vs, ok := vals[kind]; ok && mp != nil {
						if got := vs[k]; got != model[k].val {
							res.Violate(fmt.Sprintf("C32/map/%s/stale-value", kind), "step %d key %q got %d want %d", step, k, got, model[k].val)
						}
					}
				}
			}
			if st == 2 {
				hasBoundary = true
				for kind, a := range answers {
					if kind != "point" && answers["point"][k] != a[k] {
						res.Violate(fmt.Sprintf("C32/%s/expiry-instant/point-vs-listing", c.Kind), "step %d key %q at exact expiry: point query=%v %s=%v", step, k, answers["point"][k], kind, a[k])
					}
				}
			}
		}
		if lengthAns != listLen {
			res.Violate(fmt.Sprintf("C32/%s/length-vs-listing", c.Kind), "step %d: Length=%d, listing has %d", step, lengthAns, listLen)
		}
		if hasBoundary {
			boundaryProbes++
			res.Class("probe-at-exact-expiry")
			if liveOthers > 0 {
				res.NonTrivial = true
			}
		}
	}

	for i, op := range c.Ops {
		switch op.Op {
		case "add":
			if set != nil {
				set.Add(op.Key)
			} else {
				mp.Set(op.Key, c32KeyIndex(op.Key)*100+op.Val)
			}
			model[op.Key] = ent{exp: clock.Now().Add(ttl), val: op.Val}
		case "remove":
			if set != nil {
				set.Remove(op.Key)
			} else {
				mp.Delete(op.Key)
			}
			delete(model, op.Key)
		case "advance":
			d := op.D
			if op.Key != "" { // aimed: expiry instant of Key plus D
				d = 0
				if e, ok := model[op.Key]; ok {
					d = int64(e.exp.Sub(clock.Now())) + op.D
				}
				if d < 0 {
					d = 0
				}
			}
			clock.Advance(time.Duration(d))
		}
		probe(i, op.Order)
	}
	res.Class("kind=" + c.Kind)
	return res
}

func TestC32(t *testing.T) {
	vkit.Run(t, vkit.Spec[c32Case]{
		ID:   "C32",
		Rule: "rapid-generated histories of add/remove/advance over 4 keys on SetWithTTL[string] / MapWithTTL[string,int] with a fake clock; advances are aimed at exact expiry instants (+-1ns); after every step all query kinds (point, every listing call separately: Keys/SortedKeys/Values/SortedValues or Members, and Length) are issued in a generated order and each answer is compared to a reference model on its own. Non-trivial: a probe issued at an exact expiry instant of some key while >=1 other key is live. Distinct = distinct case JSON.",
		Assumptions: []string{
			"clockwork.FakeClock faithfully stands in for the real clock (containers only call Clock.Now)",
			"at the exact expiry instant either answer is accepted, but all query kinds must agree",
		},
		Gen:  genC32,
		Exec: execC32,
	})
}
