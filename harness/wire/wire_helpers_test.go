package wire

// Shared reference layer of the `wire` engine (properties C21, C20, C22, C09).
//
//  1. a msgpack value algebra (wv) whose *generator* picks the wire form, with
//     an encoder written from the msgpack spec and an independent decoder
//     (also from the spec; cross-checked against vmihailenco/msgpack and
//     tinylib/msgp in TestWireSelf) that is used as the oracle's decoder.
//     refinery's types.Payload is never used as an oracle.
//  2. JSON rendering of the JSON-able part of the algebra.
//
// All identifiers are prefixed `wire`/`wv`.

import (
	"bytes"
	"encoding/binary"
	"encoding/json"
	"fmt"
	"math"
	"sort"
	"strconv"
	"strings"
	"unicode/utf8"
)

// wv is one msgpack (or JSON) value together with its wire form.
type wv struct {
	K string `json:"k"`           // int uint f32 f64 str bin bool nil arr map time ext | jnum (JSON number literal)
	W string `json:"w,omitempty"` // wire form (see wvEncode); "" = smallest form
	I int64  `json:"i,omitempty"` // int
	U uint64 `json:"u,omitempty"` // uint
	// floats are kept as IEEE bit patterns so that every value is JSON-able and exact
	FB uint64 `json:"fb,omitempty"` // f32: 32-bit pattern, f64: 64-bit pattern
	FS string `json:"fs,omitempty"` // human-readable rendering of FB (informational only)
	S  string `json:"s,omitempty"`  // str (valid UTF-8) / jnum literal
	X  []byte `json:"x,omitempty"`  // bin / ext payload / str that is not valid UTF-8
	B  bool   `json:"b,omitempty"`
	A  []wv   `json:"a,omitempty"`
	M  []wkv  `json:"m,omitempty"`
	TS int64  `json:"ts,omitempty"` // time: unix seconds
	TN int64  `json:"tn,omitempty"` // time: nanoseconds 0..999999999
	XT int    `json:"xt,omitempty"` // ext type
}

type wkv struct {
	Key string `json:"key"`
	KW  string `json:"kw,omitempty"` // key wire form: "" (smallest str), s8,s16,s32, b8,b16,b32 (binary key)
	V   wv     `json:"v"`
}

func wvInt(i int64, w string) wv   { return wv{K: "int", W: w, I: i} }
func wvUint(u uint64, w string) wv { return wv{K: "uint", W: w, U: u} }
func wvF64(f float64) wv {
	return wv{K: "f64", FB: math.Float64bits(f), FS: strconv.FormatFloat(f, 'g', -1, 64)}
}
func wvF32(f float32) wv {
	return wv{K: "f32", FB: uint64(math.Float32bits(f)), FS: strconv.FormatFloat(float64(f), 'g', -1, 32)}
}
func wvStr(s string) wv  { return wv{K: "str", S: s} }
func wvBool(b bool) wv   { return wv{K: "bool", B: b} }
func wvNil() wv          { return wv{K: "nil"} }
func wvJNum(l string) wv { return wv{K: "jnum", S: l} }

func (v wv) f64() float64 { return math.Float64frombits(v.FB) }
func (v wv) f32() float32 { return math.Float32frombits(uint32(v.FB)) }

func (v wv) strBytes() []byte {
	if v.X != nil {
		return v.X
	}
	return []byte(v.S)
}

// ---------------------------------------------------------------- encoder

func wvFitsInt(i int64, w string) bool {
	switch w {
	case "fix":
		return i >= -32 && i <= 127
	case "i8":
		return i >= math.MinInt8 && i <= math.MaxInt8
	case "i16":
		return i >= math.MinInt16 && i <= math.MaxInt16
	case "i32":
		return i >= math.MinInt32 && i <= math.MaxInt32
	case "i64":
		return true
	}
	return false
}

func wvFitsUint(u uint64, w string) bool {
	switch w {
	case "u8":
		return u <= math.MaxUint8
	case "u16":
		return u <= math.MaxUint16
	case "u32":
		return u <= math.MaxUint32
	case "u64":
		return true
	}
	return false
}

var wvIntForms = []string{"fix", "i8", "i16", "i32", "i64"}
var wvUintForms = []string{"u8", "u16", "u32", "u64"}

func wvAppendStrHeader(b []byte, n int, w string) []byte {
	switch {
	case (w == "" || w == "fix") && n <= 31:
		return append(b, 0xa0|byte(n))
	case (w == "" || w == "fix" || w == "s8") && n <= 255:
		return append(b, 0xd9, byte(n))
	case (w == "" || w == "fix" || w == "s8" || w == "s16") && n <= 65535:
		return append(b, 0xda, byte(n>>8), byte(n))
	default:
		return append(b, 0xdb, byte(n>>24), byte(n>>16), byte(n>>8), byte(n))
	}
}

func wvAppendBinHeader(b []byte, n int, w string) []byte {
	switch {
	case (w == "" || w == "b8") && n <= 255:
		return append(b, 0xc4, byte(n))
	case (w == "" || w == "b8" || w == "b16") && n <= 65535:
		return append(b, 0xc5, byte(n>>8), byte(n))
	default:
		return append(b, 0xc6, byte(n>>24), byte(n>>16), byte(n>>8), byte(n))
	}
}

func wvAppendKey(b []byte, key string, kw string) []byte {
	if strings.HasPrefix(kw, "b") {
		b = wvAppendBinHeader(b, len(key), kw)
	} else {
		b = wvAppendStrHeader(b, len(key), kw)
	}
	return append(b, key...)
}

func wvAppendMapHeader(b []byte, n int, w string) []byte {
	switch {
	case (w == "" || w == "fix") && n <= 15:
		return append(b, 0x80|byte(n))
	case (w == "" || w == "fix" || w == "m16") && n <= 65535:
		return append(b, 0xde, byte(n>>8), byte(n))
	default:
		return append(b, 0xdf, byte(n>>24), byte(n>>16), byte(n>>8), byte(n))
	}
}

func wvAppendArrHeader(b []byte, n int, w string) []byte {
	switch {
	case (w == "" || w == "fix") && n <= 15:
		return append(b, 0x90|byte(n))
	case (w == "" || w == "fix" || w == "a16") && n <= 65535:
		return append(b, 0xdc, byte(n>>8), byte(n))
	default:
		return append(b, 0xdd, byte(n>>24), byte(n>>16), byte(n>>8), byte(n))
	}
}

// wvEncode appends v in exactly the wire form v.W (falling back to the next
// wider form when the value does not fit, so hand-edited replay files stay valid).
func wvEncode(b []byte, v wv) []byte {
	switch v.K {
	case "nil":
		return append(b, 0xc0)
	case "bool":
		if v.B {
			return append(b, 0xc3)
		}
		return append(b, 0xc2)
	case "int":
		w := v.W
		if w == "" {
			w = "fix"
		}
		start := 0
		for i, f := range wvIntForms {
			if f == w {
				start = i
			}
		}
		for _, f := range wvIntForms[start:] {
			if !wvFitsInt(v.I, f) {
				continue
			}
			switch f {
			case "fix":
				return append(b, byte(int8(v.I)))
			case "i8":
				return append(b, 0xd0, byte(int8(v.I)))
			case "i16":
				return binary.BigEndian.AppendUint16(append(b, 0xd1), uint16(int16(v.I)))
			case "i32":
				return binary.BigEndian.AppendUint32(append(b, 0xd2), uint32(int32(v.I)))
			default:
				return binary.BigEndian.AppendUint64(append(b, 0xd3), uint64(v.I))
			}
		}
	case "uint":
		w := v.W
		if w == "" {
			w = "u8"
		}
		start := 0
		for i, f := range wvUintForms {
			if f == w {
				start = i
			}
		}
		for _, f := range wvUintForms[start:] {
			if !wvFitsUint(v.U, f) {
				continue
			}
			switch f {
			case "u8":
				return append(b, 0xcc, byte(v.U))
			case "u16":
				return binary.BigEndian.AppendUint16(append(b, 0xcd), uint16(v.U))
			case "u32":
				return binary.BigEndian.AppendUint32(append(b, 0xce), uint32(v.U))
			default:
				return binary.BigEndian.AppendUint64(append(b, 0xcf), v.U)
			}
		}
	case "f32":
		return binary.BigEndian.AppendUint32(append(b, 0xca), uint32(v.FB))
	case "f64":
		return binary.BigEndian.AppendUint64(append(b, 0xcb), v.FB)
	case "jnum":
		f, _ := strconv.ParseFloat(v.S, 64)
		return binary.BigEndian.AppendUint64(append(b, 0xcb), math.Float64bits(f))
	case "str":
		s := v.strBytes()
		b = wvAppendStrHeader(b, len(s), v.W)
		return append(b, s...)
	case "bin":
		b = wvAppendBinHeader(b, len(v.X), v.W)
		return append(b, v.X...)
	case "arr":
		b = wvAppendArrHeader(b, len(v.A), v.W)
		for _, e := range v.A {
			b = wvEncode(b, e)
		}
		return b
	case "map":
		b = wvAppendMapHeader(b, len(v.M), v.W)
		for _, kv := range v.M {
			b = wvAppendKey(b, kv.Key, kv.KW)
			b = wvEncode(b, kv.V)
		}
		return b
	case "time":
		w := v.W
		if w == "t32" && (v.TN != 0 || v.TS < 0 || v.TS > math.MaxUint32) {
			w = "t64"
		}
		if w == "t64" && (v.TS < 0 || v.TS >= 1<<34) {
			w = "t96"
		}
		if w == "" {
			w = "t96"
			if v.TS >= 0 && v.TS < 1<<34 {
				w = "t64"
				if v.TN == 0 && v.TS <= math.MaxUint32 {
					w = "t32"
				}
			}
		}
		switch w {
		case "t32":
			return binary.BigEndian.AppendUint32(append(b, 0xd6, 0xff), uint32(v.TS))
		case "t64":
			return binary.BigEndian.AppendUint64(append(b, 0xd7, 0xff), uint64(v.TN)<<34|uint64(v.TS))
		default:
			b = append(b, 0xc7, 12, 0xff)
			b = binary.BigEndian.AppendUint32(b, uint32(v.TN))
			return binary.BigEndian.AppendUint64(b, uint64(v.TS))
		}
	case "ext":
		n := len(v.X)
		switch n {
		case 1:
			b = append(b, 0xd4, byte(int8(v.XT)))
		case 2:
			b = append(b, 0xd5, byte(int8(v.XT)))
		case 4:
			b = append(b, 0xd6, byte(int8(v.XT)))
		case 8:
			b = append(b, 0xd7, byte(int8(v.XT)))
		case 16:
			b = append(b, 0xd8, byte(int8(v.XT)))
		default:
			b = append(b, 0xc7, byte(n), byte(int8(v.XT)))
		}
		return append(b, v.X...)
	}
	panic(fmt.Sprintf("wvEncode: cannot encode %+v", v))
}

// ---------------------------------------------------------------- decoder (oracle side)

type wvDecErr struct{ msg string }

func (e wvDecErr) Error() string { return "wvDecode: " + e.msg }

func wvNeed(b []byte, n int) error {
	if len(b) < n {
		return wvDecErr{fmt.Sprintf("short input: need %d have %d", n, len(b))}
	}
	return nil
}

func wvMkStr(raw []byte, w string) wv {
	if utf8.Valid(raw) {
		return wv{K: "str", W: w, S: string(raw)}
	}
	return wv{K: "str", W: w, X: append([]byte{}, raw...)}
}

// wvDecode decodes one msgpack value from b per the msgpack specification,
// recording the exact wire form. Written independently of refinery and msgp.
func wvDecode(b []byte) (wv, []byte, error) {
	return wvDecodeDepth(b, 0)
}

func wvDecodeDepth(b []byte, depth int) (v wv, rest []byte, err error) {
	if depth > 200 {
		return v, b, wvDecErr{"too deep"}
	}
	if err = wvNeed(b, 1); err != nil {
		return
	}
	c := b[0]
	b = b[1:]
	readLen := func(n int) (int, error) {
		if e := wvNeed(b, n); e != nil {
			return 0, e
		}
		var l uint64
		for i := 0; i < n; i++ {
			l = l<<8 | uint64(b[i])
		}
		b = b[n:]
		if l > uint64(len(b)) {
			return 0, wvDecErr{"length beyond input"}
		}
		return int(l), nil
	}
	take := func(n int) ([]byte, error) {
		if n < 0 || len(b) < n {
			return nil, wvDecErr{fmt.Sprintf("short input: need %d have %d", n, len(b))}
		}
		r := b[:n]
		b = b[n:]
		return r, nil
	}
	decArr := func(n int, w string) (wv, []byte, error) {
		if n > len(b) {
			return wv{}, b, wvDecErr{"array length beyond input"}
		}
		out := wv{K: "arr", W: w, A: make([]wv, 0, n)}
		for i := 0; i < n; i++ {
			e, r, err := wvDecodeDepth(b, depth+1)
			if err != nil {
				return wv{}, b, err
			}
			b = r
			out.A = append(out.A, e)
		}
		return out, b, nil
	}
	decMap := func(n int, w string) (wv, []byte, error) {
		if n > len(b) {
			return wv{}, b, wvDecErr{"map length beyond input"}
		}
		out := wv{K: "map", W: w, M: make([]wkv, 0, n)}
		for i := 0; i < n; i++ {
			k, r, err := wvDecodeDepth(b, depth+1)
			if err != nil {
				return wv{}, b, err
			}
			b = r
			var kv wkv
			switch k.K {
			case "str":
				kv.Key = string(k.strBytes())
				kv.KW = k.W
				if kv.KW == "fix" {
					kv.KW = ""
				}
			case "bin":
				kv.Key = string(k.X)
				kv.KW = k.W
			default:
				return wv{}, b, wvDecErr{"map key of kind " + k.K}
			}
			e, r, err := wvDecodeDepth(b, depth+1)
			if err != nil {
				return wv{}, b, err
			}
			b = r
			kv.V = e
			out.M = append(out.M, kv)
		}
		return out, b, nil
	}
	decExt := func(n int) (wv, []byte, error) {
		if e := wvNeed(b, 1+n); e != nil {
			return wv{}, b, e
		}
		t := int(int8(b[0]))
		data := b[1 : 1+n]
		b = b[1+n:]
		if t == -1 {
			switch n {
			case 4:
				return wv{K: "time", W: "t32", TS: int64(binary.BigEndian.Uint32(data))}, b, nil
			case 8:
				x := binary.BigEndian.Uint64(data)
				return wv{K: "time", W: "t64", TS: int64(x & (1<<34 - 1)), TN: int64(x >> 34)}, b, nil
			case 12:
				return wv{K: "time", W: "t96", TN: int64(binary.BigEndian.Uint32(data[:4])), TS: int64(binary.BigEndian.Uint64(data[4:]))}, b, nil
			}
		}
		return wv{K: "ext", XT: t, X: append([]byte{}, data...)}, b, nil
	}

	switch {
	case c <= 0x7f:
		return wv{K: "int", W: "fix", I: int64(c)}, b, nil
	case c >= 0xe0:
		return wv{K: "int", W: "fix", I: int64(int8(c))}, b, nil
	case c >= 0xa0 && c <= 0xbf:
		raw, e := take(int(c & 0x1f))
		if e != nil {
			return v, b, e
		}
		return wvMkStr(raw, "fix"), b, nil
	case c >= 0x90 && c <= 0x9f:
		return decArr(int(c&0x0f), "fix")
	case c >= 0x80 && c <= 0x8f:
		return decMap(int(c&0x0f), "fix")
	}
	switch c {
	case 0xc0:
		return wv{K: "nil"}, b, nil
	case 0xc2:
		return wv{K: "bool", B: false}, b, nil
	case 0xc3:
		return wv{K: "bool", B: true}, b, nil
	case 0xc4, 0xc5, 0xc6:
		n, e := readLen(1 << (c - 0xc4))
		if e != nil {
			return v, b, e
		}
		raw, e := take(n)
		if e != nil {
			return v, b, e
		}
		return wv{K: "bin", W: []string{"b8", "b16", "b32"}[c-0xc4], X: append([]byte{}, raw...)}, b, nil
	case 0xc7, 0xc8, 0xc9:
		n, e := readLen(1 << (c - 0xc7))
		if e != nil {
			return v, b, e
		}
		return decExt(n)
	case 0xca:
		raw, e := take(4)
		if e != nil {
			return v, b, e
		}
		return wvF32(math.Float32frombits(binary.BigEndian.Uint32(raw))), b, nil
	case 0xcb:
		raw, e := take(8)
		if e != nil {
			return v, b, e
		}
		return wvF64(math.Float64frombits(binary.BigEndian.Uint64(raw))), b, nil
	case 0xcc, 0xcd, 0xce, 0xcf:
		raw, e := take(1 << (c - 0xcc))
		if e != nil {
			return v, b, e
		}
		var u uint64
		for _, x := range raw {
			u = u<<8 | uint64(x)
		}
		return wv{K: "uint", W: wvUintForms[c-0xcc], U: u}, b, nil
	case 0xd0:
		raw, e := take(1)
		if e != nil {
			return v, b, e
		}
		return wv{K: "int", W: "i8", I: int64(int8(raw[0]))}, b, nil
	case 0xd1:
		raw, e := take(2)
		if e != nil {
			return v, b, e
		}
		return wv{K: "int", W: "i16", I: int64(int16(binary.BigEndian.Uint16(raw)))}, b, nil
	case 0xd2:
		raw, e := take(4)
		if e != nil {
			return v, b, e
		}
		return wv{K: "int", W: "i32", I: int64(int32(binary.BigEndian.Uint32(raw)))}, b, nil
	case 0xd3:
		raw, e := take(8)
		if e != nil {
			return v, b, e
		}
		return wv{K: "int", W: "i64", I: int64(binary.BigEndian.Uint64(raw))}, b, nil
	case 0xd4, 0xd5, 0xd6, 0xd7, 0xd8:
		return decExt(1 << (c - 0xd4))
	case 0xd9, 0xda, 0xdb:
		n, e := readLen(1 << (c - 0xd9))
		if e != nil {
			return v, b, e
		}
		raw, e := take(n)
		if e != nil {
			return v, b, e
		}
		return wvMkStr(raw, []string{"s8", "s16", "s32"}[c-0xd9]), b, nil
	case 0xdc, 0xdd:
		n, e := readLen(2 << (c - 0xdc))
		if e != nil {
			return v, b, e
		}
		return decArr(n, []string{"a16", "a32"}[c-0xdc])
	case 0xde, 0xdf:
		n, e := readLen(2 << (c - 0xde))
		if e != nil {
			return v, b, e
		}
		return decMap(n, []string{"m16", "m32"}[c-0xde])
	}
	return v, b, wvDecErr{fmt.Sprintf("invalid lead byte 0x%02x", c)}
}

// ---------------------------------------------------------------- typed comparison

// wvNum describes a numeric value abstractly.
func (v wv) isInteger() bool { return v.K == "int" || v.K == "uint" }

// wvIntClass: "i" (definitely signed form), "u" (definitely unsigned form),
// "" (positive fixint: carries no signedness).
func (v wv) intClass() string {
	if v.K == "uint" {
		return "u"
	}
	if v.K == "int" && (v.W == "fix" || v.W == "") && v.I >= 0 {
		return ""
	}
	return "i"
}

// wvIntEq compares two integer values mathematically.
func wvIntEq(a, b wv) bool {
	switch {
	case a.K == "int" && b.K == "int":
		return a.I == b.I
	case a.K == "uint" && b.K == "uint":
		return a.U == b.U
	case a.K == "int":
		return a.I >= 0 && uint64(a.I) == b.U
	default:
		return b.I >= 0 && uint64(b.I) == a.U
	}
}

// wvDiff returns "" when got carries the same typed value as want, else a short
// classification "<path>:<what>" . Typed equality: integers by mathematical
// value (signedness class reported separately as "int-signedness" only when both
// sides have a definite and different class), float32 vs float64 kept apart and
// compared by bit pattern (NaN payloads included), str vs bin kept apart,
// arrays element-wise, maps as sets of (key, value) regardless of order and key
// wire form, timestamps by instant (seconds, nanoseconds).
func wvDiff(want, got wv) (what string, path string) {
	if want.isInteger() && got.isInteger() {
		if !wvIntEq(want, got) {
			return "int-value", ""
		}
		if wc, gc := want.intClass(), got.intClass(); wc != "" && gc != "" && wc != gc {
			return "int-signedness", ""
		}
		return "", ""
	}
	if want.K != got.K {
		return "type-" + want.K + "-became-" + got.K, ""
	}
	switch want.K {
	case "nil":
	case "bool":
		if want.B != got.B {
			return "bool-value", ""
		}
	case "f32", "f64":
		if want.FB != got.FB {
			return want.K + "-value", ""
		}
	case "str":
		if !bytes.Equal(want.strBytes(), got.strBytes()) {
			return "str-value", ""
		}
	case "bin":
		if !bytes.Equal(want.X, got.X) {
			return "bin-value", ""
		}
	case "time":
		if want.TS != got.TS || want.TN != got.TN {
			return "time-value", ""
		}
	case "ext":
		if want.XT != got.XT || !bytes.Equal(want.X, got.X) {
			return "ext-value", ""
		}
	case "arr":
		if len(want.A) != len(got.A) {
			return "arr-length", ""
		}
		for i := range want.A {
			if w, p := wvDiff(want.A[i], got.A[i]); w != "" {
				return w, fmt.Sprintf("[%d]%s", i, p)
			}
		}
	case "map":
		gm := map[string]wv{}
		for _, kv := range got.M {
			if _, dup := gm[kv.Key]; dup {
				return "map-duplicate-key", "." + kv.Key
			}
			gm[kv.Key] = kv.V
		}
		wm := map[string]bool{}
		for _, kv := range want.M {
			wm[kv.Key] = true
			g, ok := gm[kv.Key]
			if !ok {
				return "map-key-lost", "." + kv.Key
			}
			if w, p := wvDiff(kv.V, g); w != "" {
				return w, "." + kv.Key + p
			}
		}
		for _, kv := range got.M {
			if !wm[kv.Key] {
				return "map-key-added", "." + kv.Key
			}
		}
	default:
		return "unknown-kind-" + want.K, ""
	}
	return "", ""
}

// wvShape is a short description of a value's kind + wire form for signatures.
func (v wv) shape() string {
	switch v.K {
	case "int":
		w := v.W
		if w == "" || w == "fix" {
			if v.I < 0 {
				return "negfixint"
			}
			return "posfixint"
		}
		return "int" + w[1:]
	case "uint":
		w := v.W
		if w == "" {
			w = "u8"
		}
		return "uint" + w[1:]
	case "f32":
		return "float32"
	case "f64":
		return "float64"
	case "time":
		if v.W == "" {
			return "timestamp"
		}
		return "timestamp" + v.W[1:]
	case "jnum":
		return "jsonnumber"
	}
	return v.K
}

func (v wv) get(key string) (wv, bool) {
	for _, kv := range v.M {
		if kv.Key == key {
			return kv.V, true
		}
	}
	return wv{}, false
}

func (v wv) nested() bool { return v.K == "arr" || v.K == "map" }

func (v wv) String() string {
	switch v.K {
	case "int":
		return fmt.Sprintf("%s(%d)", v.shape(), v.I)
	case "uint":
		return fmt.Sprintf("%s(%d)", v.shape(), v.U)
	case "f32":
		return fmt.Sprintf("float32(%v)", v.f32())
	case "f64":
		return fmt.Sprintf("float64(%v)", v.f64())
	case "str":
		return fmt.Sprintf("str(%q)", v.strBytes())
	case "bin":
		return fmt.Sprintf("bin(%x)", v.X)
	case "bool":
		return fmt.Sprintf("bool(%v)", v.B)
	case "nil":
		return "nil"
	case "jnum":
		return "jsonnumber(" + v.S + ")"
	case "time":
		return fmt.Sprintf("time(%d.%09d)", v.TS, v.TN)
	case "ext":
		return fmt.Sprintf("ext(%d,%x)", v.XT, v.X)
	case "arr":
		parts := []string{}
		for _, e := range v.A {
			parts = append(parts, e.String())
		}
		return "[" + strings.Join(parts, ",") + "]"
	case "map":
		// rendered in key order so that messages are deterministic even when the
		// value went through a Go map inside refinery
		parts := []string{}
		for _, kv := range v.M {
			parts = append(parts, fmt.Sprintf("%q:%s", kv.Key, kv.V.String()))
		}
		sort.Strings(parts)
		return "{" + strings.Join(parts, ",") + "}"
	}
	return "?" + v.K
}

// ---------------------------------------------------------------- JSON side

// wvJSONable reports whether v can be written as JSON text (jnum, str with
// valid UTF-8, bool, nil, arr, map with str keys).
func wvJSONable(v wv) bool {
	switch v.K {
	case "jnum", "bool", "nil":
		return true
	case "str":
		return v.X == nil
	case "arr":
		for _, e := range v.A {
			if !wvJSONable(e) {
				return false
			}
		}
		return true
	case "map":
		for _, kv := range v.M {
			if strings.HasPrefix(kv.KW, "b") || !utf8.ValidString(kv.Key) || !wvJSONable(kv.V) {
				return false
			}
		}
		return true
	}
	return false
}

func wvJSONString(b []byte, s string) []byte {
	var buf bytes.Buffer
	enc := json.NewEncoder(&buf)
	enc.SetEscapeHTML(false)
	_ = enc.Encode(s)
	return append(b, bytes.TrimRight(buf.Bytes(), "\n")...)
}

// wvJSON renders a JSON-able value as JSON text; object members keep their order.
func wvJSON(b []byte, v wv) []byte {
	switch v.K {
	case "jnum":
		return append(b, v.S...)
	case "bool":
		return strconv.AppendBool(b, v.B)
	case "nil":
		return append(b, "null"...)
	case "str":
		return wvJSONString(b, v.S)
	case "arr":
		b = append(b, '[')
		for i, e := range v.A {
			if i > 0 {
				b = append(b, ',')
			}
			b = wvJSON(b, e)
		}
		return append(b, ']')
	case "map":
		b = append(b, '{')
		for i, kv := range v.M {
			if i > 0 {
				b = append(b, ',')
			}
			b = wvJSONString(b, kv.Key)
			b = append(b, ':')
			b = wvJSON(b, kv.V)
		}
		return append(b, '}')
	}
	panic("wvJSON: not JSON-able: " + v.K)
}

// wvJSONExpect maps a JSON-able value to the typed value the property promises
// for it after forwarding: numbers become float64 (correctly rounded value of
// the literal), everything else keeps its type.
func wvJSONExpect(v wv) wv {
	switch v.K {
	case "jnum":
		f, err := strconv.ParseFloat(v.S, 64)
		if err != nil {
			panic("wvJSONExpect: bad literal " + v.S)
		}
		return wvF64(f)
	case "arr":
		out := wv{K: "arr"}
		for _, e := range v.A {
			out.A = append(out.A, wvJSONExpect(e))
		}
		return out
	case "map":
		out := wv{K: "map"}
		for _, kv := range v.M {
			out.M = append(out.M, wkv{Key: kv.Key, V: wvJSONExpect(kv.V)})
		}
		return out
	}
	return v
}

// wvFromStdJSON converts the result of encoding/json (UseNumber) decoding into
// the algebra — the independent reference decoder for JSON input.
func wvFromStdJSON(x any) wv {
	switch t := x.(type) {
	case nil:
		return wvNil()
	case bool:
		return wvBool(t)
	case string:
		return wvStr(t)
	case json.Number:
		f, _ := strconv.ParseFloat(string(t), 64)
		return wvF64(f)
	case []any:
		out := wv{K: "arr"}
		for _, e := range t {
			out.A = append(out.A, wvFromStdJSON(e))
		}
		return out
	case map[string]any:
		out := wv{K: "map"}
		keys := make([]string, 0, len(t))
		for k := range t {
			keys = append(keys, k)
		}
		sort.Strings(keys)
		for _, k := range keys {
			out.M = append(out.M, wkv{Key: k, V: wvFromStdJSON(t[k])})
		}
		return out
	}
	panic(fmt.Sprintf("wvFromStdJSON: %T", x))
}
