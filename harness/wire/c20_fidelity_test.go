package wire

// C20: Forwarded events carry exactly the client's fields.
//
// Generated JSON / msgpack payload maps (unique keys; nested maps and arrays,
// binary keys, every scalar wire form incl. msgpack timestamps; keys that are
// sampling-key fields, ID fields, look-alikes of reserved meta.* names, odd
// names) are sent to a real route.Router through every Honeycomb ingestion
// encoding, pass (a) straight to the upstream transmission (non-trace events)
// or (b) through a collector stand-in that touches the payload the way the real
// collector and samplers do through the exported Payload API (MemoizeFields,
// Exists/Get, Set of meta.* fields and configured additional attributes), and
// optionally (c) a peer hop first. They leave through a real
// transmit.DirectTransmission; the fake Honeycomb decodes the posted batch with
// the independent decoder. Oracle: decoded forwarded fields == reference value
// of the input (typed comparison) plus only reserved meta.* names and the
// configured additional attributes.

import (
	"fmt"
	"sort"
	"strings"
	"sync"
	"testing"

	"github.com/honeycombio/refinery/config"
	"github.com/honeycombio/refinery/types"
	"github.com/honeycombio/refinery/verifharness/vkit"
	"pgregory.net/rapid"
)

type c20Event struct {
	Fields   []c21Field `json:"fields"`
	Bulk     int        `json:"bulk,omitempty"`      // additional synthetic fields k00000.. (int values)
	MapWire  string     `json:"map_wire,omitempty"`  // wire form of the data map header (msgpack): "", m16, m32
	EnvOrder int        `json:"env_order,omitempty"` // order of time/samplerate/data in a batch element
}

type c20Case struct {
	Encoding      string            `json:"encoding"` // json-event | msgpack-event | json-batch | msgpack-batch
	PeerHop       bool              `json:"peer_hop,omitempty"`
	ReqEncoding   string            `json:"req_encoding,omitempty"`
	Compress      bool              `json:"compress,omitempty"`  // DirectTransmission zstd
	MaxBatch      int               `json:"max_batch,omitempty"` // DirectTransmission max batch size
	SamplerFields []string          `json:"sampler_fields,omitempty"`
	LazyFields    []string          `json:"lazy_fields,omitempty"` // memoized later by the collector stand-in
	GetFields     []string          `json:"get_fields,omitempty"`  // read (Exists/Get) by the collector stand-in
	Attributes    map[string]string `json:"attributes,omitempty"`
	Events        []c20Event        `json:"events"`
	Conc          *c20Conc          `json:"conc,omitempty"` // concurrent sub-mode (Events empty)
}

// Names Refinery reserves for its own metadata (types/payload.go metadata fields).
var c20Reserved = map[string]bool{
	"meta.signal_type": true, "meta.trace_id": true, "meta.annotation_type": true, "meta.refinery.probe": true,
	"meta.refinery.root": true, "meta.refinery.incoming_user_agent": true, "meta.refinery.local_hostname": true,
	"meta.stressed": true, "meta.refinery.reason": true, "meta.refinery.send_reason": true, "meta.span_event_count": true,
	"meta.span_link_count": true, "meta.span_count": true, "meta.event_count": true,
	"meta.refinery.original_sample_rate": true, "meta.refinery.final_sample_rate": true, "meta.refinery.sample_key": true,
}

var (
	c20Plain      = []string{"name", "n", "dur", "service.name", "http.status", "f1", "f2", "f3", "f4"}
	c20IDNames    = []string{"trace.trace_id", "trace.parent_id", "traceId", "parentId"}
	c20LookAlikes = []string{"meta.trace_id2", "meta.refinery.foo", "meta.", "meta", "metadata.x", "meta.refinery.roots", "time", "samplerate", "data", "meta.refinery", "meta.span_counts"}
	c20Odd        = []string{"", "日本語", "a b", "key\"quote", "back\\slash", strings.Repeat("k", 40), strings.Repeat("K", 300), "\u0000nul", "a/b"}
	c20ReservedG  = []string{"meta.span_count", "meta.refinery.reason", "meta.signal_type", "meta.annotation_type", "meta.stressed", "meta.event_count", "meta.refinery.sample_key"}
	c20SamplerOK  = append(append([]string{}, c20Plain...), "meta.trace_id2", "meta.refinery.foo", "日本語", "a b", "metadata.x")
)

func c20GenField(t *rapid.T, jsonEnc bool) c21Field {
	var f c21Field
	cat := rapid.IntRange(0, 19).Draw(t, "cat")
	switch {
	case cat < 9:
		f.Name = rapid.SampledFrom(c20Plain).Draw(t, "plain")
	case cat < 12:
		f.Name = rapid.SampledFrom(c20IDNames).Draw(t, "idname")
	case cat < 15:
		f.Name = rapid.SampledFrom(c20LookAlikes).Draw(t, "lookalike")
	case cat < 19:
		f.Name = rapid.SampledFrom(c20Odd).Draw(t, "odd")
	default:
		f.Name = rapid.SampledFrom(c20ReservedG).Draw(t, "reserved")
	}
	idStr := (f.Name == "trace.trace_id" || f.Name == "trace.parent_id") && rapid.IntRange(0, 4).Draw(t, "idstr") > 0
	switch {
	case idStr:
		f.V = c21GenStrWire(t, rapid.SampledFrom([]string{"t1", "t2", "p1"}).Draw(t, "idval"), jsonEnc)
	case jsonEnc:
		f.V = wvGenJSONValue(t, 2)
	default:
		f.V = wvGenValue(t, 2)
	}
	if !jsonEnc {
		f.KW = wvGenKeyWire(t, f.Name, true)
	}
	return f
}

func genC20(t *rapid.T) c20Case {
	var c c20Case
	c.Encoding = rapid.SampledFrom(c21Encodings).Draw(t, "encoding")
	jsonEnc := strings.HasPrefix(c.Encoding, "json")
	c.PeerHop = rapid.IntRange(0, 3).Draw(t, "peerhop") == 0
	c.ReqEncoding = rapid.SampledFrom([]string{"", "", "", "gzip", "zstd"}).Draw(t, "reqenc")
	c.Compress = rapid.Bool().Draw(t, "compress")
	c.MaxBatch = rapid.SampledFrom([]int{1, 2, 50}).Draw(t, "maxbatch")
	// about one case in a hundred runs the concurrent sub-mode (c20_concurrent_test.go)
	if rapid.Uint64().Draw(t, "concurrent")%96 == 49 {
		c.Encoding, c.PeerHop = "json-batch", false
		c.Conc = genC20Conc(t)
		return c
	}
	names := rapid.SampledFrom(c20SamplerOK)
	withRoot := rapid.Custom(func(t *rapid.T) string {
		n := names.Draw(t, "sname")
		if rapid.IntRange(0, 3).Draw(t, "rootprefix") == 0 {
			return "root." + n
		}
		return n
	})
	if rapid.IntRange(0, 2).Draw(t, "sampler") > 0 {
		c.SamplerFields = rapid.SliceOfNDistinct(withRoot, 1, 4, rapid.ID[string]).Draw(t, "sfields")
	}
	if rapid.IntRange(0, 2).Draw(t, "lazy") == 0 {
		c.LazyFields = rapid.SliceOfNDistinct(names, 1, 3, rapid.ID[string]).Draw(t, "lazyfields")
	}
	if rapid.IntRange(0, 2).Draw(t, "get") == 0 {
		c.GetFields = rapid.SliceOfNDistinct(names, 1, 3, rapid.ID[string]).Draw(t, "getfields")
	}
	if rapid.IntRange(0, 3).Draw(t, "attrs") == 0 {
		c.Attributes = map[string]string{"refinery.attr": rapid.SampledFrom([]string{"x", "", "prod"}).Draw(t, "attrval")}
		if rapid.Bool().Draw(t, "attr2") {
			c.Attributes["cluster"] = "c1"
		}
	}
	evGen := rapid.Custom(func(t *rapid.T) c20Event {
		var e c20Event
		e.Fields = rapid.SliceOfNDistinct(rapid.Custom(func(t *rapid.T) c21Field { return c20GenField(t, jsonEnc) }), 1, 10,
			func(f c21Field) string { return f.Name }).Draw(t, "fields")
		e.EnvOrder = rapid.IntRange(0, 5).Draw(t, "envorder")
		// about half of the events belong to a trace (and so pass the collector stand-in)
		hasTrace := false
		for _, f := range e.Fields {
			hasTrace = hasTrace || f.Name == "trace.trace_id"
		}
		if !hasTrace && rapid.Bool().Draw(t, "intrace") {
			at := rapid.IntRange(0, len(e.Fields)).Draw(t, "traceat")
			tf := c21Field{Name: "trace.trace_id", V: c21GenStrWire(t, rapid.SampledFrom([]string{"t1", "t2"}).Draw(t, "tid"), jsonEnc)}
			e.Fields = append(e.Fields[:at:at], append([]c21Field{tf}, e.Fields[at:]...)...)
		}
		if !jsonEnc {
			e.MapWire = rapid.SampledFrom([]string{"", "", "", "m16", "m32"}).Draw(t, "mapwire")
		}
		switch b := rapid.IntRange(0, 39).Draw(t, "bulk"); {
		case b == 0:
			e.Bulk = rapid.SampledFrom([]int{5, 6, 7, 14, 15, 16, 17, 40}).Draw(t, "bulkn")
		case b == 1 && vkit.Thorough():
			e.Bulk = rapid.SampledFrom([]int{255, 256, 2000, 2100}).Draw(t, "bulkbig")
		}
		return e
	})
	c.Events = rapid.SliceOfN(evGen, 1, 3).Draw(t, "events")
	return c
}

func c20DataMap(e c20Event, jsonEnc bool) wv {
	m := wv{K: "map", W: e.MapWire}
	for _, f := range e.Fields {
		m.M = append(m.M, wkv{Key: f.Name, KW: f.KW, V: f.V})
	}
	for i := 0; i < e.Bulk; i++ {
		k := fmt.Sprintf("k%05d", i)
		if jsonEnc {
			m.M = append(m.M, wkv{Key: k, V: wvJNum(fmt.Sprint(i))})
		} else {
			m.M = append(m.M, wkv{Key: k, V: wvInt(int64(i), "")})
		}
	}
	return m
}

func c20Samplers(fields []string) map[string]*config.V2SamplerChoice {
	if len(fields) == 0 {
		return nil
	}
	return map[string]*config.V2SamplerChoice{"__default__": {DynamicSampler: &config.DynamicSamplerConfig{SampleRate: 1, FieldList: fields}}}
}

func c20Send(rig *wireRig, c c20Case) (rejected map[int]string) {
	rejected = map[int]string{}
	jsonEnc := strings.HasPrefix(c.Encoding, "json")
	switch c.Encoding {
	case "json-event", "msgpack-event":
		for i, e := range c.Events {
			q := wireReq{Path: "/1/events/ds", Encoding: c.ReqEncoding, Headers: map[string]string{"X-Honeycomb-Samplerate": fmt.Sprint(1000 + i)}}
			if jsonEnc {
				q.ContentType = "application/json"
				q.Body = wvJSON(nil, c20DataMap(e, true))
			} else {
				q.ContentType = "application/msgpack"
				q.Body = wvEncode(nil, c20DataMap(e, false))
			}
			if resp := rig.post(q); resp.Status != 200 {
				rejected[i] = fmt.Sprintf("status %d %s %s", resp.Status, resp.Body, resp.Err)
			}
		}
	default:
		var envs []wireEnvelope
		for i, e := range c.Events {
			envs = append(envs, wireEnvelope{SampleRate: int64(1000 + i), Data: c20DataMap(e, jsonEnc), Order: e.EnvOrder})
		}
		q := wireReq{Path: "/1/batch/ds", Encoding: c.ReqEncoding}
		if jsonEnc {
			q.ContentType = "application/json"
			q.Body = wireBatchJSON(envs)
		} else {
			q.ContentType = "application/msgpack"
			q.Body = wireBatchMsgpack(envs)
		}
		resp := rig.post(q)
		st := wireBatchStatuses(resp.Body)
		for i := range c.Events {
			if resp.Status != 200 || len(st) != len(c.Events) {
				rejected[i] = fmt.Sprintf("status %d %s %s", resp.Status, resp.Body, resp.Err)
			} else if st[i] != 202 {
				rejected[i] = fmt.Sprintf("event status %d: %s", st[i], resp.Body)
			}
		}
	}
	return rejected
}

func execC20(c c20Case) vkit.Result {
	var res vkit.Result
	rig, err := wireGetRig()
	if err != nil {
		panic(err)
	}
	rig.caseMu.Lock()
	defer rig.caseMu.Unlock()

	if c.Conc != nil {
		execC20Conc(rig, c, &res)
		return res
	}
	jsonEnc := strings.HasPrefix(c.Encoding, "json")
	enc := c.Encoding
	if c.PeerHop {
		enc += "+peer-hop"
	}
	res.Class("enc=" + enc)

	samplerSet := map[string]bool{}
	for _, f := range append(append([]string{}, c.SamplerFields...), c.LazyFields...) {
		samplerSet[strings.TrimPrefix(f, "root.")] = true
	}

	var peerTraces []string
	for _, e := range c.Events {
		for _, f := range e.Fields {
			if f.V.K == "str" {
				peerTraces = append(peerTraces, string(f.V.strBytes()))
			}
		}
	}

	var colMu sync.Mutex
	collected := map[int]bool{}
	onSpan := func(sp *types.Span) {
		colMu.Lock()
		collected[int(sp.SampleRate)-1000] = true
		colMu.Unlock()
		// what the collector and the samplers do to a span through the exported Payload API
		if len(c.LazyFields) > 0 {
			sp.Data.MemoizeFields(c.LazyFields...)
		}
		for _, f := range c.GetFields {
			if sp.Data.Exists(f) {
				_ = sp.Data.Get(f)
			}
		}
		sp.Data.Set(types.MetaRefineryReason, "verif")
		sp.Data.Set(types.MetaRefinerySendReason, "trace_send_got_root")
		if sp.IsRoot {
			sp.Data.Set(types.MetaSpanCount, int64(1))
		}
		for k, v := range c.Attributes {
			sp.Data.Set(k, v)
		}
		rig.up.EnqueueSpan(sp)
	}

	cc := wireCaseCfg{TraceNames: []string{"trace.trace_id", "traceId"}, ParentNames: []string{"trace.parent_id", "parentId"},
		Samplers: c20Samplers(c.SamplerFields), Direct: true, Compress: c.Compress, MaxBatch: c.MaxBatch, OnSpan: onSpan, Attributes: c.Attributes}
	var rejected map[int]string
	var final []wireHoneyEvent
	var faults []string
	if !c.PeerHop {
		rig.begin(cc)
		rejected = c20Send(rig, c)
		rig.flush()
		final, faults = rig.honey.take()
	} else {
		cc1 := cc
		cc1.PeerTraces, cc1.PeerAddr = peerTraces, rig.honey.srv.URL
		rig.begin(cc1)
		rejected = c20Send(rig, c)
		peerRates := map[int64]bool{}
		for _, ev := range rig.peer.take() {
			peerRates[int64(ev.SampleRate)] = true
		}
		rig.flush()
		got, f1 := rig.honey.take()
		faults = append(faults, f1...)
		envs := wv{K: "arr"}
		for _, he := range got {
			if he.SampleRate.isInteger() && peerRates[he.SampleRate.I] {
				envs.A = append(envs.A, he.Envelope)
			} else {
				final = append(final, he)
			}
		}
		rig.begin(cc)
		if len(envs.A) > 0 {
			res.Class("peer-forwarded")
			resp := rig.post(wireReq{Path: "/1/batch/ds", ContentType: "application/msgpack", Body: wvEncode(nil, envs)})
			if resp.Status != 200 {
				res.Violate("C20/"+enc+"/peer-batch-rejected", "peer hop: the batch refinery forwarded to its peer is rejected by refinery: %d %s", resp.Status, resp.Body)
			}
		}
		rig.flush()
		got2, f2 := rig.honey.take()
		faults = append(faults, f2...)
		final = append(final, got2...)
	}
	logs := rig.log.take()
	for _, f := range faults {
		res.Violate("C20/"+enc+"/forwarded-body-undecodable", "%s", f)
	}

	byRate := map[int][]wireHoneyEvent{}
	for _, he := range final {
		if he.SampleRate.isInteger() {
			byRate[int(he.SampleRate.I)-1000] = append(byRate[int(he.SampleRate.I)-1000], he)
		}
	}

	for i, e := range c.Events {
		route := "direct"
		if collected[i] {
			route = "collected"
		}
		res.Class("route=" + route)
		if why, ok := rejected[i]; ok {
			res.Class("rejected")
			if len(why) > 90 {
				why = why[:90]
			}
			res.Class("rejected: " + why)
			hasReserved := false
			for _, e2 := range c.Events { // a batch is rejected as a whole
				for _, f := range e2.Fields {
					hasReserved = hasReserved || c20Reserved[f.Name]
				}
			}
			if !hasReserved {
				res.Class("rejected-without-reserved-name")
			}
			continue
		}
		in := c20DataMap(e, jsonEnc)
		for _, kv := range in.M {
			if kv.V.nested() || samplerSet[kv.Key] {
				res.NonTrivial = true
			}
		}
		// C20/<what>/<encoding>/<key class>/<route>[/<detail>][/peer-hop]: the deviation first, so that
		// one defect can be listed with one prefix
		sig := func(keyclass, what string, detail ...string) string {
			s := fmt.Sprintf("C20/%s/%s/%s/%s", what, c.Encoding, keyclass, route)
			for _, d := range detail {
				s += "/" + d
			}
			if c.PeerHop {
				s += "/peer-hop"
			}
			return s
		}
		outs := byRate[i]
		if len(outs) == 0 {
			var marshalErrs []string
			for _, l := range logs {
				if strings.Contains(l, "marshal") || strings.Contains(l, "exceeds") {
					marshalErrs = append(marshalErrs, l)
				}
			}
			sort.Strings(marshalErrs)
			res.Violate(sig("event", "accepted-event-not-forwarded"), "event %d %s was accepted but never reached Honeycomb; transmission errors: %v", i, in, marshalErrs)
			continue
		}
		if len(outs) > 1 && rig.sendRetries() > 0 {
			res.Class("inconclusive-timing/batch-resent-after-http-timeout")
		} else if len(outs) > 1 {
			res.Violate(sig("event", "event-forwarded-more-than-once"), "event %d %s reached Honeycomb %d times", i, in, len(outs))
		}
		out := outs[0].Data
		if out.K != "map" {
			res.Violate(sig("event", "data-not-a-map"), "event %d: forwarded data is %s", i, out)
			continue
		}
		// index forwarded fields, detecting duplicates
		outIdx := map[string]wv{}
		for _, kv := range out.M {
			if _, dup := outIdx[kv.Key]; dup && !c20Reserved[kv.Key] {
				res.Violate(sig(c20KeyClass(kv.Key, kv.KW, samplerSet), "field-duplicated"), "event %d: field %q appears twice in the forwarded event %s (input %s)", i, kv.Key, out, in)
			}
			outIdx[kv.Key] = kv.V
		}
		inKeys := map[string]bool{}
		for _, kv := range in.M {
			inKeys[kv.Key] = true
			if c20Reserved[kv.Key] {
				res.Class("reserved-name-sent")
				continue
			}
			if _, clash := c.Attributes[kv.Key]; clash {
				continue
			}
			want := kv.V
			if jsonEnc {
				want = wvJSONExpect(kv.V)
			}
			kc := c20KeyClass(kv.Key, kv.KW, samplerSet)
			got, ok := outIdx[kv.Key]
			if !ok {
				res.Violate(sig(kc, "field-lost", kv.V.shape()), "event %d: field %q = %s is missing from the forwarded event %s", i, kv.Key, kv.V, out)
				continue
			}
			if what, path := wvDiff(want, got); what != "" {
				where := "value"
				if path != "" {
					where = "nested"
				}
				res.Violate(sig(kc, what, where, kv.V.shape()), "event %d: field %q%s sent as %s arrived as %s (want %s)", i, kv.Key, path, kv.V, got, want)
			}
		}
		for _, kv := range out.M {
			if inKeys[kv.Key] || c20Reserved[kv.Key] {
				continue
			}
			if v, ok := c.Attributes[kv.Key]; ok && collected[i] {
				if kv.V.K != "str" || kv.V.S != v {
					res.Violate(sig("attribute", "additional-attribute-wrong-value"), "event %d: additional attribute %q=%q arrived as %s", i, kv.Key, v, kv.V)
				}
				continue
			}
			res.Violate(sig("added", "field-added"), "event %d: forwarded event has field %q = %s that the client did not send (input %s)", i, kv.Key, kv.V, in)
		}
	}
	return res
}

func c20KeyClass(key, kw string, samplerSet map[string]bool) string {
	switch {
	case samplerSet[key]:
		return "samplerkey"
	case strings.HasPrefix(kw, "b"):
		return "binkey"
	case strings.HasPrefix(key, "meta"):
		return "meta-lookalike"
	}
	return "plain"
}

func TestC20(t *testing.T) {
	if _, err := wireGetRig(); err != nil {
		t.Fatalf("cannot start the router rig: %v", err)
	}
	vkit.Run(t, vkit.Spec[c20Case]{
		ID: "C20",
		Rule: "rapid-generated payload maps with unique keys (1-10 fields + optional bulk fields; nested maps/arrays to depth 2; every msgpack scalar wire form incl. int8..64/uint8..64/float32/64/str8..32/bin/timestamp32/64/96; binary keys; JSON numbers as literals; key names: plain, ID fields, look-alikes of reserved meta.* names, odd names, a few reserved names) sent to a real Router as JSON event, msgpack event, JSON batch, msgpack batch (optionally gzip/zstd), routed either straight upstream or through a collector stand-in that calls MemoizeFields/Exists/Get/Set like the real collector (sampler key fields configured so they are memoized at ingest and/or later), optionally via a peer hop, and posted by a real DirectTransmission (zstd or not, max batch 1/2/50) to a fake Honeycomb that decodes with an independent msgpack decoder. Oracle: typed equality of every non-reserved client field, no duplicates, no additions except reserved meta.* names and configured additional attributes. About 1 case in 130 runs the concurrent sub-mode instead: 2/4/8 client goroutines released by a barrier in each of 40 (thorough 100) rounds post same-shaped JSON/msgpack batches and single events whose values differ per request; events are matched by a unique id and must carry exactly the fields of their own request. Non-trivial: an event with a nested value or a key that is also a sampling-key field. Distinct = distinct case JSON.",
		Assumptions: []string{
			"reserved names = the 17 metadata field names of types/payload.go; client fields with those names are not judged",
			"the collector stand-in uses only the exported Payload API in the way collect/collector_worker.go and collect.go sendTraces do (MemoizeFields, Exists, Get, Set of meta.* and AdditionalAttributes); the real InMemCollector is exercised by the collector/router engines",
			"typed equality: integers by mathematical value (a definite signed<->unsigned family change is reported separately), float32 vs float64 kept apart and compared by bits, str vs bin kept apart, maps as key sets, timestamps by instant; JSON numbers are expected as the correctly rounded float64 of the literal",
			"events the router rejects are counted, not judged",
		},
		Gen:  genC20,
		Exec: execC20,
	})
}
