package wire

// Self-test of the reference codec: the hand-written encoder/decoder pair is
// cross-checked against two third-party decoders (vmihailenco/msgpack generic
// decode and tinylib/msgp ReadIntfBytes) so that an error common to encoder and
// decoder cannot go unnoticed. Not a property check; run by `go test`.

import (
	"bytes"
	"encoding/json"
	"fmt"
	"math"
	"reflect"
	"testing"
	"time"

	"github.com/tinylib/msgp/msgp"
	"github.com/vmihailenco/msgpack/v5"
	"pgregory.net/rapid"
)

func wireSelfMatch(v wv, x any) error {
	bad := func() error { return fmt.Errorf("%s vs %T(%v)", v.String(), x, x) }
	switch v.K {
	case "nil":
		if x != nil {
			return bad()
		}
	case "bool":
		if b, ok := x.(bool); !ok || b != v.B {
			return bad()
		}
	case "int", "uint":
		rv := reflect.ValueOf(x)
		switch rv.Kind() {
		case reflect.Int, reflect.Int8, reflect.Int16, reflect.Int32, reflect.Int64:
			if !wvIntEq(v, wvInt(rv.Int(), "i64")) {
				return bad()
			}
		case reflect.Uint, reflect.Uint8, reflect.Uint16, reflect.Uint32, reflect.Uint64:
			if !wvIntEq(v, wvUint(rv.Uint(), "u64")) {
				return bad()
			}
		default:
			return bad()
		}
	case "f32":
		f, ok := x.(float32)
		if !ok || math.Float32bits(f) != uint32(v.FB) {
			return bad()
		}
	case "f64":
		f, ok := x.(float64)
		if !ok || math.Float64bits(f) != v.FB {
			return bad()
		}
	case "str":
		s, ok := x.(string)
		if !ok || s != string(v.strBytes()) {
			return bad()
		}
	case "bin":
		s, ok := x.([]byte)
		if !ok || !bytes.Equal(s, v.X) {
			return bad()
		}
	case "time":
		if re, ok := x.(*msgp.RawExtension); ok {
			// tinylib/msgp's generic reader leaves the standard timestamp extension raw
			enc := wvEncode(nil, v)
			if re.Type != -1 || !bytes.HasSuffix(enc, re.Data) {
				return bad()
			}
			return nil
		}
		tm, ok := x.(time.Time)
		if !ok || tm.Unix() != v.TS || int64(tm.Nanosecond()) != v.TN {
			return bad()
		}
	case "arr":
		a, ok := x.([]any)
		if !ok || len(a) != len(v.A) {
			return bad()
		}
		for i := range a {
			if err := wireSelfMatch(v.A[i], a[i]); err != nil {
				return err
			}
		}
	case "map":
		m, ok := x.(map[string]any)
		if !ok || len(m) != len(v.M) {
			return bad()
		}
		for _, kv := range v.M {
			e, ok := m[kv.Key]
			if !ok {
				return bad()
			}
			if err := wireSelfMatch(kv.V, e); err != nil {
				return err
			}
		}
	default:
		return bad()
	}
	return nil
}

func TestWireSelf(t *testing.T) {
	rapid.Check(t, func(rt *rapid.T) {
		v := wvGenValue(rt, 3)
		enc := wvEncode(nil, v)
		dec, rest, err := wvDecode(enc)
		if err != nil || len(rest) != 0 {
			rt.Fatalf("decode(encode(%s)) failed: %v rest=%d hex=%x", v, err, len(rest), enc)
		}
		if w, p := wvDiff(v, dec); w != "" {
			rt.Fatalf("decode(encode(v)) differs: %s at %s\n%s\n%s", w, p, v, dec)
		}
		if re := wvEncode(nil, dec); !bytes.Equal(re, enc) {
			rt.Fatalf("wire form not preserved: %x vs %x (%s)", enc, re, v)
		}
		// case JSON round trip
		cj, _ := json.Marshal(v)
		var back wv
		if err := json.Unmarshal(cj, &back); err != nil {
			rt.Fatalf("case json: %v", err)
		}
		if re := wvEncode(nil, back); !bytes.Equal(re, enc) {
			rt.Fatalf("case JSON round trip changes encoding: %s", cj)
		}
		// third-party decoders
		var x any
		if err := msgpack.Unmarshal(enc, &x); err != nil {
			rt.Fatalf("vmihailenco cannot decode %x (%s): %v", enc, v, err)
		}
		if err := wireSelfMatch(v, x); err != nil {
			rt.Fatalf("vmihailenco disagrees: %v", err)
		}
		y, rest2, err := msgp.ReadIntfBytes(enc)
		if err != nil || len(rest2) != 0 {
			rt.Fatalf("msgp cannot decode %x (%s): %v", enc, v, err)
		}
		if err := wireSelfMatch(v, y); err != nil {
			rt.Fatalf("msgp disagrees: %v", err)
		}
	})
}

func TestWireSelfJSON(t *testing.T) {
	rapid.Check(t, func(rt *rapid.T) {
		v := wvGenJSONValue(rt, 3)
		txt := wvJSON(nil, v)
		dec := json.NewDecoder(bytes.NewReader(txt))
		dec.UseNumber()
		var x any
		if err := dec.Decode(&x); err != nil {
			rt.Fatalf("encoding/json cannot parse %s: %v", txt, err)
		}
		if w, p := wvDiff(wvJSONExpect(v), wvFromStdJSON(x)); w != "" {
			rt.Fatalf("JSON expectation differs from encoding/json: %s at %s: %s", w, p, txt)
		}
	})
}

func TestWireSelfRFC3339(t *testing.T) {
	rapid.Check(t, func(rt *rapid.T) {
		c := genC22(rt)
		for _, e := range c.Events {
			if e.Format != "rfc3339" {
				continue
			}
			txt := c22Text(e)
			tm, err := time.Parse(time.RFC3339Nano, txt)
			if err != nil {
				rt.Fatalf("%q does not parse: %v", txt, err)
			}
			if tm.Unix() != e.Sec || int64(tm.Nanosecond()) != e.Nsec {
				rt.Fatalf("%q parses to %d.%09d, want %d.%09d", txt, tm.Unix(), tm.Nanosecond(), e.Sec, e.Nsec)
			}
		}
	})
}
