package wire

// C21: Trace identity and root status follow the ID-field configuration.
//
// Generated events carry any subset / order / typing of meta.trace_id, the
// configured trace-ID and parent-ID fields (plus unconfigured look-alikes) and
// meta.signal_type, and are sent to a real route.Router through every Honeycomb
// ingestion encoding (single JSON event, single msgpack event, JSON batch,
// msgpack batch, optionally followed by a peer hop through a real
// DirectTransmission). Observed: where the router hands the event (collector =
// belongs to a trace, upstream transmission = does not) and the TraceID/IsRoot
// of the span given to the collector. Oracle: the reference function c21Expect,
// written from the property statement only.

import (
	"fmt"
	"sort"
	"strings"
	"testing"

	"github.com/honeycombio/refinery/config"
	"github.com/honeycombio/refinery/verifharness/vkit"
	"pgregory.net/rapid"
)

type c21Field struct {
	Name string `json:"name"`
	KW   string `json:"kw,omitempty"`
	V    wv     `json:"v"`
}

type c21Event struct {
	Fields   []c21Field `json:"fields"`
	EnvOrder int        `json:"env_order,omitempty"`
}

type c21Case struct {
	TraceNames    []string   `json:"trace_names"`
	ParentNames   []string   `json:"parent_names"`
	Encoding      string     `json:"encoding"` // json-event | msgpack-event | json-batch | msgpack-batch
	PeerHop       bool       `json:"peer_hop,omitempty"`
	ReqEncoding   string     `json:"req_encoding,omitempty"` // "", gzip, zstd
	SamplerFields []string   `json:"sampler_fields,omitempty"`
	Events        []c21Event `json:"events"`
}

var (
	c21TracePool   = []string{"trace.trace_id", "traceId", "tid", "trace_id"}
	c21ParentPool  = []string{"trace.parent_id", "parentId", "pid", "parent_id"}
	c21Encodings   = []string{"json-event", "msgpack-event", "json-batch", "msgpack-batch"}
	c21FillerNames = []string{"name", "n", "trace.trace_id2", "traceid", "meta.trace_id2", "meta.annotation_type"}
)

func c21GenNonString(t *rapid.T, jsonEnc bool) wv {
	if jsonEnc {
		switch rapid.IntRange(0, 5).Draw(t, "nonstr") {
		case 0:
			return wvJNum("7")
		case 1:
			return wvJNum("1.5")
		case 2:
			return wvBool(rapid.Bool().Draw(t, "b"))
		case 3:
			return wvNil()
		case 4:
			return wv{K: "arr", A: []wv{wvStr("t9")}}
		default:
			return wv{K: "map", M: []wkv{{Key: "a", V: wvStr("t9")}}}
		}
	}
	switch rapid.IntRange(0, 8).Draw(t, "nonstr") {
	case 0:
		return wvGenIntWire(t, 7)
	case 1:
		return wvF64(1.5)
	case 2:
		return wvBool(rapid.Bool().Draw(t, "b"))
	case 3:
		return wvNil()
	case 4:
		return wv{K: "arr", A: []wv{wvStr("t9")}}
	case 5:
		return wv{K: "map", M: []wkv{{Key: "a", V: wvStr("t9")}}}
	case 6:
		return wv{K: "bin", W: "b8", X: []byte("t8")}
	case 7:
		return wvF32(2.5)
	default:
		return wv{K: "time", W: "t32", TS: 1_700_000_000}
	}
}

func c21GenStrWire(t *rapid.T, s string, jsonEnc bool) wv {
	v := wvStr(s)
	if !jsonEnc && rapid.IntRange(0, 2).Draw(t, "widestr") == 0 {
		v.W = rapid.SampledFrom([]string{"s8", "s16", "s32"}).Draw(t, "strwire")
	}
	return v
}

func c21GenField(t *rapid.T, jsonEnc bool) c21Field {
	var f c21Field
	cat := rapid.IntRange(0, 19).Draw(t, "cat")
	pick := func(strs []string, pStr, pEmpty int) wv {
		k := rapid.IntRange(0, 99).Draw(t, "valkind")
		switch {
		case k < pStr:
			return c21GenStrWire(t, rapid.SampledFrom(strs).Draw(t, "idval"), jsonEnc)
		case k < pStr+pEmpty:
			return c21GenStrWire(t, "", jsonEnc)
		default:
			return c21GenNonString(t, jsonEnc)
		}
	}
	switch {
	case cat < 8:
		f.Name = rapid.SampledFrom(c21TracePool).Draw(t, "tname")
		f.V = pick([]string{"t1", "t2", "t3", "t4"}, 70, 10)
	case cat < 13:
		f.Name = rapid.SampledFrom(c21ParentPool).Draw(t, "pname")
		f.V = pick([]string{"p1", "p2"}, 60, 20)
	case cat < 15:
		f.Name = "meta.trace_id"
		f.V = pick([]string{"m1", "m2"}, 65, 15)
	case cat < 18:
		f.Name = "meta.signal_type"
		f.V = pick([]string{"log", "log", "trace"}, 75, 8)
	default:
		f.Name = rapid.SampledFrom(c21FillerNames).Draw(t, "fname")
		if jsonEnc {
			f.V = wvGenJSONValue(t, 1)
		} else {
			f.V = wvGenValue(t, 1)
		}
	}
	if !jsonEnc {
		f.KW = wvGenKeyWire(t, f.Name, true)
	}
	return f
}

func genC21(t *rapid.T) c21Case {
	var c c21Case
	c.Encoding = rapid.SampledFrom(c21Encodings).Draw(t, "encoding")
	jsonEnc := strings.HasPrefix(c.Encoding, "json")
	c.TraceNames = rapid.Permutation(c21TracePool).Draw(t, "tnames")[:rapid.IntRange(1, 3).Draw(t, "ntn")]
	c.ParentNames = rapid.Permutation(c21ParentPool).Draw(t, "pnames")[:rapid.IntRange(1, 3).Draw(t, "npn")]
	c.PeerHop = rapid.IntRange(0, 4).Draw(t, "peerhop") == 0
	c.ReqEncoding = rapid.SampledFrom([]string{"", "", "", "gzip", "zstd"}).Draw(t, "reqenc")
	// Sampler key fields are extracted by the batch decoders in the same pass as the ID fields.
	// They may overlap the configured ID-field names (rules_complete.yaml itself has a condition on
	// trace.parent_id); identity and root status must not depend on them.
	if rapid.IntRange(0, 1).Draw(t, "sampler") == 0 {
		pool := append(append([]string{"name", "n", "traceid", "meta.signal_type", "root.name", "absent", "meta.trace_id"}, c21TracePool...), c21ParentPool...)
		pool = append(pool, "root.trace.parent_id", "root.traceId")
		c.SamplerFields = rapid.SliceOfNDistinct(rapid.SampledFrom(pool), 1, 4, rapid.ID[string]).Draw(t, "sfields")
	}
	evGen := rapid.Custom(func(t *rapid.T) c21Event {
		fs := rapid.SliceOfNDistinct(rapid.Custom(func(t *rapid.T) c21Field { return c21GenField(t, jsonEnc) }), 1, 8,
			func(f c21Field) string { return f.Name }).Draw(t, "fields")
		return c21Event{Fields: fs, EnvOrder: rapid.IntRange(0, 5).Draw(t, "envorder")}
	})
	c.Events = rapid.SliceOfN(evGen, 1, 3).Draw(t, "events")
	return c
}

// ---- reference function, straight from the statement

type c21Expected struct {
	Belongs bool
	TraceID string
	Root    bool
	// shape facts used for classes and signatures
	NTraceStr   int  // configured trace-ID fields holding a non-empty string
	NParentStr  int  // configured parent-ID fields holding a non-empty string
	MetaStr     bool // meta.trace_id holds a non-empty string
	MetaEmpty   bool // meta.trace_id present and ""
	MetaOther   bool // meta.trace_id present, not a string
	IsLog       bool
	IDFields    int  // NT rule: ID fields present (any value)
	BinValue    bool // some ID / meta field holds a bin value (statement silent: don't-care)
	BinKey      bool
	EmptyParent bool
	OddParent   bool // parent field present with a non-string value
	OddTrace    bool // configured trace field present with empty or non-string value
}

func c21NonEmptyStr(v wv) bool { return v.K == "str" && len(v.strBytes()) > 0 }

func c21Expect(c c21Case, e c21Event) c21Expected {
	var x c21Expected
	byName := map[string]wv{}
	for _, f := range e.Fields {
		byName[f.Name] = f.V
		special := f.Name == "meta.trace_id" || f.Name == "meta.signal_type"
		for _, n := range c.TraceNames {
			special = special || n == f.Name
		}
		for _, n := range c.ParentNames {
			special = special || n == f.Name
		}
		if special {
			if f.Name != "meta.signal_type" {
				x.IDFields++
			}
			if f.V.K == "bin" {
				x.BinValue = true
			}
			if strings.HasPrefix(f.KW, "b") {
				x.BinKey = true
			}
		}
	}
	if v, ok := byName["meta.trace_id"]; ok {
		switch {
		case c21NonEmptyStr(v):
			x.MetaStr = true
			x.Belongs, x.TraceID = true, string(v.strBytes())
		case v.K == "str":
			x.MetaEmpty = true
		default:
			x.MetaOther = true
		}
	}
	for _, n := range c.TraceNames {
		v, ok := byName[n]
		if !ok {
			continue
		}
		if c21NonEmptyStr(v) {
			x.NTraceStr++
			if !x.Belongs {
				x.Belongs, x.TraceID = true, string(v.strBytes())
			}
		} else {
			x.OddTrace = true
		}
	}
	if v, ok := byName["meta.signal_type"]; ok && v.K == "str" && string(v.strBytes()) == "log" {
		x.IsLog = true
	}
	for _, n := range c.ParentNames {
		v, ok := byName[n]
		if !ok {
			continue
		}
		switch {
		case c21NonEmptyStr(v):
			x.NParentStr++
		case v.K == "str":
			x.EmptyParent = true
		default:
			x.OddParent = true
		}
	}
	x.Root = x.Belongs && x.NParentStr == 0 && !x.IsLog
	return x
}

// ---- execution

type c21Outcome struct {
	Where   string // collector | upstream | peer
	TraceID string
	Root    bool
}

func (o c21Outcome) String() string {
	if o.Where != "collector" {
		return o.Where
	}
	return fmt.Sprintf("span(trace=%q root=%v)", o.TraceID, o.Root)
}

func c21DataMap(e c21Event) wv {
	m := wv{K: "map"}
	for _, f := range e.Fields {
		m.M = append(m.M, wkv{Key: f.Name, KW: f.KW, V: f.V})
	}
	return m
}

const c21MapPathReps = 40

func c21Send(rig *wireRig, c c21Case, reps []int) (rejected map[int]string) {
	rejected = map[int]string{}
	switch c.Encoding {
	case "json-event", "msgpack-event":
		for i, e := range c.Events {
			q := wireReq{Path: "/1/events/ds", Encoding: c.ReqEncoding, Headers: map[string]string{"X-Honeycomb-Samplerate": fmt.Sprint(1000 + i)}}
			if c.Encoding == "json-event" {
				q.ContentType = "application/json"
				q.Body = wvJSON(nil, c21DataMap(e))
			} else {
				q.ContentType = "application/msgpack"
				q.Body = wvEncode(nil, c21DataMap(e))
			}
			for r := 0; r < reps[i]; r++ {
				resp := rig.post(q)
				if resp.Status != 200 {
					rejected[i] = fmt.Sprintf("status %d %s %s", resp.Status, resp.Body, resp.Err)
					break
				}
			}
		}
	default:
		var envs []wireEnvelope
		for i, e := range c.Events {
			envs = append(envs, wireEnvelope{SampleRate: int64(1000 + i), Data: c21DataMap(e), Order: e.EnvOrder})
		}
		q := wireReq{Path: "/1/batch/ds", Encoding: c.ReqEncoding}
		if c.Encoding == "json-batch" {
			q.ContentType = "application/json"
			q.Body = wireBatchJSON(envs)
		} else {
			q.ContentType = "application/msgpack"
			q.Body = wireBatchMsgpack(envs)
		}
		resp := rig.post(q)
		st := wireBatchStatuses(resp.Body)
		for i := range c.Events {
			if resp.Status != 200 || len(st) != len(c.Events) {
				rejected[i] = fmt.Sprintf("status %d %s %s", resp.Status, resp.Body, resp.Err)
			} else if st[i] != 202 {
				rejected[i] = fmt.Sprintf("event status %d: %s", st[i], resp.Body)
			}
		}
	}
	return rejected
}

func c21Samplers(c c21Case) map[string]*config.V2SamplerChoice {
	if len(c.SamplerFields) == 0 {
		return nil
	}
	return map[string]*config.V2SamplerChoice{"__default__": {DynamicSampler: &config.DynamicSamplerConfig{SampleRate: 1, FieldList: c.SamplerFields}}}
}

func execC21(c c21Case) vkit.Result {
	var res vkit.Result
	rig, err := wireGetRig()
	if err != nil {
		panic(err)
	}
	rig.caseMu.Lock()
	defer rig.caseMu.Unlock()

	enc := c.Encoding
	if c.PeerHop {
		enc += "+peer-hop"
	}
	res.Class("enc=" + enc)
	for _, f := range c.SamplerFields {
		f = strings.TrimPrefix(f, "root.")
		for _, n := range append(append([]string{}, c.TraceNames...), c.ParentNames...) {
			if f == n {
				res.Class("sampler-key-field-is-an-id-field")
			}
		}
	}
	mapPath := c.Encoding == "json-event" || c.Encoding == "msgpack-event"
	// how refinery decodes the event data: single events are decoded into a Go
	// map, batches are scanned as msgpack bytes (JSON batches after conversion)
	family := "msgpack-path"
	if mapPath {
		family = "map-path"
	}

	exp := make([]c21Expected, len(c.Events))
	reps := make([]int, len(c.Events))
	var allStrings []string
	for i, e := range c.Events {
		exp[i] = c21Expect(c, e)
		reps[i] = 1
		// Events with >=2 ID fields are sent repeatedly on the ingestion paths
		// that decode into a Go map, so that order-dependent behaviour shows up
		// within one execution instead of making the verdict flaky.
		if mapPath && exp[i].IDFields >= 2 {
			reps[i] = c21MapPathReps
		}
		for _, f := range e.Fields {
			if f.V.K == "str" {
				allStrings = append(allStrings, string(f.V.strBytes()))
			}
		}
	}

	outcomes := make([]map[c21Outcome]int, len(c.Events))
	for i := range outcomes {
		outcomes[i] = map[c21Outcome]int{}
	}
	idx := func(rate uint) int {
		i := int(rate) - 1000
		if i < 0 || i >= len(c.Events) {
			return -1
		}
		return i
	}
	collect := func() {
		for _, s := range rig.col.take() {
			if i := idx(s.Span.SampleRate); i >= 0 {
				outcomes[i][c21Outcome{Where: "collector", TraceID: s.TraceID, Root: s.IsRoot}]++
			}
		}
		for _, ev := range rig.up.take() {
			if i := idx(ev.SampleRate); i >= 0 {
				outcomes[i][c21Outcome{Where: "upstream"}]++
			}
		}
	}

	cc := wireCaseCfg{TraceNames: c.TraceNames, ParentNames: c.ParentNames, Samplers: c21Samplers(c)}
	var rejected map[int]string
	if !c.PeerHop {
		rig.begin(cc)
		rejected = c21Send(rig, c, reps)
		collect()
	} else {
		// hop 1: every string value in the case is a trace ID owned by the peer
		cc1 := cc
		cc1.Direct, cc1.PeerTraces, cc1.PeerAddr = true, allStrings, rig.honey.srv.URL
		cc1.Compress = len(c.Events)%2 == 0
		rig.begin(cc1)
		rejected = c21Send(rig, c, reps)
		peerRates := map[int64]bool{}
		for _, ev := range rig.peer.take() {
			peerRates[int64(ev.SampleRate)] = true
		}
		collect() // events that were not forwarded to the peer
		rig.flush()
		got, faults := rig.honey.take()
		for _, f := range faults {
			res.Violate("C21/"+enc+"/peer-body-undecodable", "%s", f)
		}
		// hop 2: what the peer received is ingested by the peer's router
		var envs wv
		envs.K = "arr"
		for _, he := range got {
			if he.SampleRate.isInteger() && peerRates[he.SampleRate.I] {
				envs.A = append(envs.A, he.Envelope)
			}
		}
		rig.begin(cc)
		if len(envs.A) > 0 {
			resp := rig.post(wireReq{Path: "/1/batch/ds", ContentType: "application/msgpack", Body: wvEncode(nil, envs)})
			if resp.Status != 200 {
				res.Violate("C21/"+enc+"/peer-batch-rejected", "peer hop: batch forwarded by refinery is rejected by refinery: %d %s", resp.Status, resp.Body)
			}
		}
		collect()
	}
	_ = rig.log.take()

	for i, e := range c.Events {
		x := exp[i]
		if x.IDFields >= 2 {
			res.NonTrivial = true
		}
		res.Class(fmt.Sprintf("tracefields=%d", min(x.NTraceStr, 2)))
		if x.MetaStr {
			res.Class("meta.trace_id=str")
		}
		if x.IsLog {
			res.Class("log")
		}
		if x.NParentStr > 0 {
			res.Class("has-parent")
		}
		if why, ok := rejected[i]; ok {
			res.Class("rejected")
			_ = why
			continue
		}
		if x.BinValue {
			// the statement speaks of strings; msgpack bin values in ID fields are left open
			res.Class("dontcare-bin-id-value")
			continue
		}
		if len(outcomes[i]) == 0 {
			res.Class("accepted-but-not-routed")
			continue
		}
		var outs []c21Outcome
		for o := range outcomes[i] {
			outs = append(outs, o)
		}
		sort.Slice(outs, func(a, b int) bool { return outs[a].String() < outs[b].String() })
		shapeKey := ""
		if x.BinKey {
			shapeKey = "/binkey"
		}
		for _, o := range outs {
			aspect := ""
			switch {
			case x.Belongs && o.Where != "collector":
				aspect = "membership/trace-event-treated-as-nontrace"
			case !x.Belongs && o.Where == "collector":
				aspect = "membership/nontrace-event-treated-as-span"
			case !x.Belongs:
			case o.TraceID != x.TraceID:
				aspect = "trace-id"
			case o.Root != x.Root && x.Root:
				aspect = "root/expected-root-got-nonroot"
			case o.Root != x.Root:
				aspect = "root/expected-nonroot-got-root"
			}
			if aspect == "" {
				continue
			}
			// details must be a deterministic function of the case (rapid compares
			// messages while shrinking): no counts, no log text
			res.Violate(c21Sig(aspect, enc, family, shapeKey, c, e, x, o),
				"event %d %s: expected %s, refinery: %s (sent %d times); config trace=%v parent=%v",
				i, c21DataMap(e), c21ExpString(x), o, reps[i], c.TraceNames, c.ParentNames)
		}
		if len(outs) > 1 {
			// what differs from send to send?
			kind := "nondeterministic-root"
			for _, o := range outs[1:] {
				if o.Where != outs[0].Where {
					kind = "membership-nondeterministic"
					break
				}
				if o.TraceID != outs[0].TraceID {
					kind = "trace-id-nondeterministic"
				}
			}
			res.Violate(c21Sig(kind, enc, family, shapeKey, c, e, x, c21Outcome{}),
				"event %d %s sent %d times was classified differently from send to send: %v (expected %s); config trace=%v parent=%v",
				i, c21DataMap(e), reps[i], outs, c21ExpString(x), c.TraceNames, c.ParentNames)
		}
	}
	return res
}

func c21ExpString(x c21Expected) string {
	if !x.Belongs {
		return "not part of a trace"
	}
	return fmt.Sprintf("span(trace=%q root=%v)", x.TraceID, x.Root)
}

// c21Sig builds the signature C21/<aspect>/<primary shape>/<decode family>/<encoding>[/extras...].
func c21Sig(aspect, enc, family, shapeKey string, c c21Case, e c21Event, x c21Expected, o c21Outcome) string {
	primary, extras := c21Shape(aspect, c, e, x, o)
	sig := fmt.Sprintf("C21/%s/%s/%s/%s%s", aspect, primary, family, enc, shapeKey)
	if len(extras) > 0 {
		sig += "/" + strings.Join(extras, "/")
	}
	return sig
}

// c21Shape names the constellation of ID fields that matters for a deviation:
// the primary shape is the feature of the event the expected answer hinges on
// for that aspect, extras are further features present.
func c21Shape(aspect string, c c21Case, e c21Event, x c21Expected, o c21Outcome) (primary string, extras []string) {
	nTrace := func() string {
		switch {
		case x.NTraceStr >= 2:
			return "two-trace-id-fields"
		case x.NTraceStr == 1:
			return "one-trace-id-field"
		}
		return "no-trace-id-field"
	}
	metaExtra := func() {
		switch {
		case x.MetaEmpty:
			extras = append(extras, "with-empty-meta.trace_id")
		case x.MetaOther:
			extras = append(extras, "with-nonstring-meta.trace_id")
		}
	}
	switch {
	case strings.HasPrefix(aspect, "trace-id"):
		if x.MetaStr {
			primary = "meta.trace_id-present"
			extras = append(extras, "and-"+nTrace())
		} else {
			primary = nTrace()
			metaExtra()
		}
	case strings.HasPrefix(aspect, "membership"):
		switch {
		case x.MetaStr:
			primary = "meta.trace_id-present"
		case x.MetaEmpty:
			primary = "empty-meta.trace_id"
			extras = append(extras, "and-"+nTrace())
		case x.MetaOther:
			primary = "nonstring-meta.trace_id"
			extras = append(extras, "and-"+nTrace())
		default:
			primary = nTrace()
		}
	default: // root
		primary = fmt.Sprintf("%d-parent-id-fields", min(x.NParentStr, 2))
		if x.IsLog {
			primary = "log"
		}
		if x.EmptyParent {
			extras = append(extras, "empty-parent-id")
		}
		if x.OddParent {
			extras = append(extras, "nonstring-parent-id")
		}
	}
	if x.OddTrace {
		extras = append(extras, "with-empty-or-nonstring-trace-id-field")
	}
	if o.Where == "collector" && x.Belongs && o.TraceID != x.TraceID {
		// which field won?
		won := "unknown-value"
		first := ""
		for _, f := range e.Fields {
			isT := f.Name == "meta.trace_id"
			for _, n := range c.TraceNames {
				isT = isT || n == f.Name
			}
			if !isT || !c21NonEmptyStr(f.V) {
				continue
			}
			if first == "" {
				first = f.Name
			}
			if string(f.V.strBytes()) == o.TraceID {
				if f.Name == first {
					won = "first-in-wire-order-wins"
				} else {
					won = "later-in-wire-order-wins"
				}
				break
			}
		}
		extras = append(extras, won)
	}
	return primary, extras
}

func TestC21(t *testing.T) {
	if _, err := wireGetRig(); err != nil {
		t.Fatalf("cannot start the router rig: %v", err)
	}
	vkit.Run(t, vkit.Spec[c21Case]{
		ID: "C21",
		Rule: "rapid-generated events (1-3 per case) with any subset, order and typing (non-empty/empty string, number, bool, nil, array, map, bin, str8/16/32 wire forms, binary map keys) of meta.trace_id, 1-3 configured trace-ID and parent-ID field names out of a pool of 4 each (unconfigured pool names act as look-alikes) and meta.signal_type, sent to a real route.Router over loopback HTTP as JSON event, msgpack event, JSON batch or msgpack batch (optionally gzip/zstd, optionally with sampler key fields configured that may overlap the configured ID-field names, optionally followed by a peer hop through a real DirectTransmission and re-ingestion of the forwarded batch). Observed: collector (TraceID, IsRoot) vs upstream transmission. Oracle: reference function written from the statement. Events with >=2 ID fields are sent 40x on the map-decoding paths so order nondeterminism shows within one execution. Non-trivial: an event with >=2 ID fields (meta.trace_id, configured trace-ID/parent-ID names) present. Distinct = distinct case JSON.",
		Assumptions: []string{
			"config.MockConfig stands in for the file config: GetTraceIdFieldNames/GetParentIdFieldNames are plain getters of IDFields.TraceNames/ParentNames",
			"the router rig is shared by the cases of one process (configuration and recorders reset per case, cases run one at a time); the Router keeps no state these observations depend on",
			"msgpack bin values in ID fields are outside the statement (it speaks of strings): counted, not judged",
			"events the router rejects (4xx / per-event status != 202) are counted, not judged (C23 covers responses)",
		},
		Gen:  genC21,
		Exec: execC21,
	})
}
