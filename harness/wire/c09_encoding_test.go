package wire

// C09: Sampling does not depend on wire encoding or span order.
//
// A logical trace (1-5 spans; fields hold strings, bools, nil or numbers that
// are exactly representable in every wire type used) is delivered twice to a
// real route.Router: once as the canonical build (every span in one JSON batch,
// original order, canonical number literals) and once as a variant (spans
// permuted; each span through its own ingestion path - JSON event, JSON batch,
// msgpack event, msgpack batch, optionally after a peer hop through a real
// DirectTransmission; each number in a generated wire form: JSON literal
// variants, msgpack fixint/int8..64/uint8..64/float32/float64; reversed field
// order). The spans that reach the collector stand-in carry the real Payloads
// produced by the real decoders; they are assembled into a types.Trace the way
// collect/collector_worker.go does (AddSpan, RootSpan, MemoizeFields of the
// sampler's key fields) and given to a fresh sampler built by the real
// sample.SamplerFactory from a rules file that is parsed and validated like
// refinery does. Oracle (metamorphic): rate, reason, sample key, and keep when
// it is not a coin flip are identical for both builds. On a difference the
// cause is isolated by re-building the canonical trace with one deviation at a
// time (one field's wire form, one span's path, the order) so that the
// signature names the wire type and the condition that reads the field.

import (
	"encoding/json"
	"fmt"
	"sort"
	"strconv"
	"strings"
	"sync"
	"testing"

	"github.com/honeycombio/refinery/config"
	"github.com/honeycombio/refinery/logger"
	"github.com/honeycombio/refinery/metrics"
	"github.com/honeycombio/refinery/sample"
	"github.com/honeycombio/refinery/types"
	"github.com/honeycombio/refinery/verifharness/vkit"
	"gopkg.in/yaml.v3"
	"pgregory.net/rapid"
)

// numbers exactly representable as float32, float64 and (when integral) in the integer forms that fit
var c09Numbers = []string{"0", "1", "2", "5", "100", "200", "201", "404", "500", "-1", "-5", "1000", "65536", "1000000", "16777216",
	"0.5", "1.5", "-0.25", "200.5", "0.125"}

func c09IsInt(lit string) bool { return !strings.Contains(lit, ".") }

func c09JSONVariants(lit string) []string {
	if c09IsInt(lit) {
		return []string{lit, lit + ".0", lit + "e0", lit + ".000", lit + "E+0"}
	}
	return []string{lit, lit + "0", lit + "e0", lit + "E-0"}
}

var c09JSONVariantNames = []string{"canonical", "trailing-zero", "exponent", "trailing-zeros", "exponent-signed"}

func c09MsgpackForms(lit string) []string {
	forms := []string{"f64", "f32"}
	if c09IsInt(lit) {
		i, _ := strconv.ParseInt(lit, 10, 64)
		for _, f := range wvIntForms {
			if wvFitsInt(i, f) {
				forms = append(forms, f)
			}
		}
		if i >= 0 {
			for _, f := range wvUintForms {
				if wvFitsUint(uint64(i), f) {
					forms = append(forms, f)
				}
			}
		}
	}
	return forms
}

type c09Val struct {
	Kind string `json:"kind"`           // num | str | bool | nil
	Num  string `json:"num,omitempty"`  // canonical literal out of c09Numbers
	S    string `json:"s,omitempty"`    // str
	B    bool   `json:"b,omitempty"`    // bool
	JLit int    `json:"jlit,omitempty"` // variant build, JSON paths: literal variant (0 = canonical)
	MW   string `json:"mw,omitempty"`   // variant build, msgpack paths: wire form ("" / f64 = neutral)
}

type c09Field struct {
	Name string `json:"name"`
	V    c09Val `json:"v"`
}

type c09Span struct {
	Fields  []c09Field `json:"fields"`
	Path    string     `json:"path"` // variant build: json-batch | json-event | msgpack-batch | msgpack-event
	PeerHop bool       `json:"peer_hop,omitempty"`
	Reverse bool       `json:"reverse,omitempty"` // variant build: fields in reverse order on the wire
}

type c09CV struct {
	Kind string  `json:"kind"` // none | num | numstr | str | bool | list
	Num  string  `json:"num,omitempty"`
	AsF  bool    `json:"asf,omitempty"` // integral number written as a float (200.0)
	S    string  `json:"s,omitempty"`
	B    bool    `json:"b,omitempty"`
	L    []c09CV `json:"l,omitempty"`
}

type c09Cond struct {
	Fields   []string `json:"fields"` // 1 = Field, >1 = Fields
	Op       string   `json:"op"`
	Datatype string   `json:"datatype,omitempty"`
	Value    c09CV    `json:"value"`
}

type c09Rule struct {
	Scope     string    `json:"scope,omitempty"`
	Conds     []c09Cond `json:"conds,omitempty"`
	Action    string    `json:"action"` // keep | drop | coin | dynamic
	DynFields []string  `json:"dyn_fields,omitempty"`
}

type c09Sampler struct {
	Kind           string    `json:"kind"` // rules | dynamic
	Rules          []c09Rule `json:"rules,omitempty"`
	DynFields      []string  `json:"dyn_fields,omitempty"`
	UseTraceLength bool      `json:"use_trace_length,omitempty"`
}

type c09Case struct {
	Sampler c09Sampler `json:"sampler"`
	Spans   []c09Span  `json:"spans"`
	Root    int        `json:"root"` // index of the root span, -1 = none
	Perm    []int      `json:"perm"` // variant delivery order (indices into Spans)
}

var (
	c09FieldNames = []string{"status", "dur", "name", "err", "n"}
	c09Paths      = []string{"json-batch", "json-event", "msgpack-batch", "msgpack-batch", "msgpack-event"}
	c09Strs       = []string{"a", "b", "200", "GET", "error", "1.5", "true", ""}
)

func c09GenVal(t *rapid.T) c09Val {
	switch k := rapid.IntRange(0, 9).Draw(t, "vkind"); {
	case k < 6:
		lit := rapid.SampledFrom(c09Numbers).Draw(t, "num")
		v := c09Val{Kind: "num", Num: lit}
		v.JLit = rapid.IntRange(0, len(c09JSONVariants(lit))-1).Draw(t, "jlit")
		if rapid.Bool().Draw(t, "jcanon") {
			v.JLit = 0
		}
		v.MW = rapid.SampledFrom(c09MsgpackForms(lit)).Draw(t, "mw")
		return v
	case k < 8:
		return c09Val{Kind: "str", S: rapid.SampledFrom(c09Strs).Draw(t, "s")}
	case k == 8:
		return c09Val{Kind: "bool", B: rapid.Bool().Draw(t, "b")}
	default:
		return c09Val{Kind: "nil"}
	}
}

func c09GenFieldRef(t *rapid.T) string {
	n := rapid.SampledFrom(c09FieldNames).Draw(t, "fname")
	if rapid.IntRange(0, 3).Draw(t, "rootref") == 0 {
		return "root." + n
	}
	return n
}

func c09GenCV(t *rapid.T, kinds []string) c09CV {
	switch rapid.SampledFrom(kinds).Draw(t, "cvkind") {
	case "num":
		lit := rapid.SampledFrom(c09Numbers).Draw(t, "cnum")
		return c09CV{Kind: "num", Num: lit, AsF: c09IsInt(lit) && rapid.IntRange(0, 3).Draw(t, "asf") == 0}
	case "numstr":
		return c09CV{Kind: "numstr", Num: rapid.SampledFrom(c09Numbers).Draw(t, "cnum")}
	case "str":
		return c09CV{Kind: "str", S: rapid.SampledFrom(c09Strs).Draw(t, "cs")}
	case "bool":
		return c09CV{Kind: "bool", B: rapid.Bool().Draw(t, "cb")}
	case "list":
		n := rapid.IntRange(1, 3).Draw(t, "ln")
		l := c09CV{Kind: "list"}
		elemKinds := rapid.SampledFrom([][]string{{"num"}, {"str", "numstr"}, {"num", "numstr"}}).Draw(t, "lkinds")
		for i := 0; i < n; i++ {
			l.L = append(l.L, c09GenCV(t, elemKinds))
		}
		return l
	}
	return c09CV{Kind: "none"}
}

func c09GenCond(t *rapid.T) c09Cond {
	var c c09Cond
	c.Fields = []string{c09GenFieldRef(t)}
	if rapid.IntRange(0, 5).Draw(t, "multi") == 0 {
		c.Fields = append(c.Fields, c09GenFieldRef(t))
	}
	switch rapid.IntRange(0, 11).Draw(t, "opclass") {
	case 0, 1, 2, 3, 4, 5:
		c.Op = rapid.SampledFrom([]string{"=", "=", "!=", ">", ">=", "<", "<="}).Draw(t, "cmp")
		c.Datatype = rapid.SampledFrom([]string{"", "", "int", "float", "string"}).Draw(t, "dt")
		c.Value = c09GenCV(t, []string{"num", "num", "num", "numstr", "str"})
	case 6:
		c.Op = rapid.SampledFrom([]string{"exists", "not-exists"}).Draw(t, "ex")
		c.Value = c09CV{Kind: "none"}
	case 7:
		c.Op = rapid.SampledFrom([]string{"starts-with", "contains", "does-not-contain"}).Draw(t, "strop")
		c.Value = c09GenCV(t, []string{"str", "numstr", "num"})
	case 8, 9:
		c.Op = rapid.SampledFrom([]string{"in", "not-in"}).Draw(t, "inop")
		c.Datatype = rapid.SampledFrom([]string{"", "int", "float", "string"}).Draw(t, "dt")
		c.Value = c09GenCV(t, []string{"list"})
	case 10:
		c.Op = "matches"
		c.Value = c09CV{Kind: "str", S: rapid.SampledFrom([]string{"^2", "0$", "^[0-9]+$", "e", "^1e"}).Draw(t, "re")}
	default:
		c.Op = "="
		c.Datatype = "bool"
		c.Value = c09GenCV(t, []string{"bool"})
	}
	return c
}

func genC09(t *rapid.T) c09Case {
	var c c09Case
	if rapid.IntRange(0, 3).Draw(t, "skind") == 0 {
		c.Sampler.Kind = "dynamic"
		c.Sampler.DynFields = rapid.SliceOfNDistinct(rapid.Custom(c09GenFieldRef), 1, 3, rapid.ID[string]).Draw(t, "dynfields")
		c.Sampler.UseTraceLength = rapid.Bool().Draw(t, "utl")
	} else {
		c.Sampler.Kind = "rules"
		ruleGen := rapid.Custom(func(t *rapid.T) c09Rule {
			var r c09Rule
			r.Scope = rapid.SampledFrom([]string{"", "trace", "span"}).Draw(t, "scope")
			r.Conds = rapid.SliceOfN(rapid.Custom(c09GenCond), 1, 2).Draw(t, "conds")
			r.Action = rapid.SampledFrom([]string{"keep", "keep", "drop", "coin", "dynamic"}).Draw(t, "action")
			if r.Action == "dynamic" {
				r.DynFields = rapid.SliceOfNDistinct(rapid.Custom(c09GenFieldRef), 1, 2, rapid.ID[string]).Draw(t, "rdyn")
			}
			return r
		})
		c.Sampler.Rules = rapid.SliceOfN(ruleGen, 1, 3).Draw(t, "rules")
	}
	spanGen := rapid.Custom(func(t *rapid.T) c09Span {
		var s c09Span
		s.Fields = rapid.SliceOfNDistinct(rapid.Custom(func(t *rapid.T) c09Field {
			return c09Field{Name: rapid.SampledFrom(c09FieldNames).Draw(t, "name"), V: c09GenVal(t)}
		}), 0, 4, func(f c09Field) string { return f.Name }).Draw(t, "fields")
		s.Path = rapid.SampledFrom(c09Paths).Draw(t, "path")
		s.PeerHop = rapid.IntRange(0, 5).Draw(t, "peerhop") == 0
		s.Reverse = rapid.IntRange(0, 3).Draw(t, "reverse") == 0
		return s
	})
	c.Spans = rapid.SliceOfN(spanGen, 1, 5).Draw(t, "spans")
	c.Root = rapid.IntRange(-1, len(c.Spans)-1).Draw(t, "root")
	c.Perm = rapid.Permutation(c09Iota(len(c.Spans))).Draw(t, "perm")
	if rapid.IntRange(0, 2).Draw(t, "sameorder") == 0 {
		c.Perm = c09Iota(len(c.Spans))
	}
	return c
}

func c09Iota(n int) []int {
	out := make([]int, n)
	for i := range out {
		out[i] = i
	}
	return out
}

// ---- rules file

func (v c09CV) emit() string {
	switch v.Kind {
	case "num":
		if v.AsF {
			return v.Num + ".0"
		}
		return v.Num
	case "numstr":
		return strconv.Quote(v.Num)
	case "str":
		b, _ := json.Marshal(v.S)
		return string(b)
	case "bool":
		return strconv.FormatBool(v.B)
	case "list":
		parts := []string{}
		for _, e := range v.L {
			parts = append(parts, e.emit())
		}
		return "[" + strings.Join(parts, ",") + "]"
	}
	return "null"
}

func c09EmitStrings(ss []string) string {
	b, _ := json.Marshal(ss)
	return string(b)
}

func c09EmitDynamic(fields []string, utl bool) string {
	return fmt.Sprintf(`{"DynamicSampler":{"SampleRate":1,"FieldList":%s,"UseTraceLength":%v}}`, c09EmitStrings(fields), utl)
}

func c09EmitConfig(s c09Sampler) string {
	if s.Kind == "dynamic" {
		return `{"RulesVersion":2,"Samplers":{"__default__":` + c09EmitDynamic(s.DynFields, s.UseTraceLength) + `}}`
	}
	var rules []string
	for i, r := range s.Rules {
		var conds []string
		for _, c := range r.Conds {
			f := `"Field":` + strconv.Quote(c.Fields[0])
			if len(c.Fields) > 1 {
				f = `"Fields":` + c09EmitStrings(c.Fields)
			}
			cs := "{" + f + `,"Operator":` + strconv.Quote(c.Op)
			if c.Value.Kind != "none" {
				cs += `,"Value":` + c.Value.emit()
			}
			if c.Datatype != "" {
				cs += `,"Datatype":` + strconv.Quote(c.Datatype)
			}
			conds = append(conds, cs+"}")
		}
		rs := fmt.Sprintf(`{"Name":"r%d"`, i)
		if r.Scope != "" {
			rs += `,"Scope":` + strconv.Quote(r.Scope)
		}
		switch r.Action {
		case "keep":
			rs += `,"SampleRate":1`
		case "drop":
			rs += `,"Drop":true`
		case "coin":
			rs += `,"SampleRate":7`
		case "dynamic":
			rs += `,"Sampler":` + c09EmitDynamic(r.DynFields, false)
		}
		rs += `,"Conditions":[` + strings.Join(conds, ",") + `]}`
		rules = append(rules, rs)
	}
	return `{"RulesVersion":2,"Samplers":{"__default__":{"RulesBasedSampler":{"Rules":[` + strings.Join(rules, ",") + `]}}}}`
}

var (
	c09MetaOnce sync.Once
	c09Meta     *config.Metadata
)

// c09Load parses and validates the rules file like refinery's loader does.
func c09Load(text string) (*config.V2SamplerChoice, string) {
	c09MetaOnce.Do(func() {
		m, err := config.LoadRulesMetadata()
		if err != nil {
			panic(err)
		}
		c09Meta = m
	})
	asMap := map[string]any{}
	if err := yaml.Unmarshal([]byte(text), &asMap); err != nil {
		return nil, "yaml: " + err.Error()
	}
	for _, r := range c09Meta.ValidateRules(asMap) {
		if r.IsError() {
			return nil, "validation: " + r.Message
		}
	}
	var v2 config.V2SamplerConfig
	if err := yaml.Unmarshal([]byte(text), &v2); err != nil {
		return nil, "yaml(struct): " + err.Error()
	}
	ch := v2.Samplers["__default__"]
	if ch == nil {
		return nil, "no sampler after load"
	}
	return ch, ""
}

// ---- delivery

// c09Delivery says how one span is put on the wire in one build.
type c09Delivery struct {
	Idx     int
	Path    string
	PeerHop bool
	Reverse bool
	JLit    map[string]int    // field -> JSON literal variant
	MW      map[string]string // field -> msgpack wire form
}

func c09Canonical(i int) c09Delivery { return c09Delivery{Idx: i, Path: "json-batch"} }

func c09SpanData(c c09Case, d c09Delivery) wv {
	jsonEnc := strings.HasPrefix(d.Path, "json")
	m := wv{K: "map", M: []wkv{{Key: "trace.trace_id", V: wvStr("tr")}}}
	if d.Idx != c.Root {
		m.M = append(m.M, wkv{Key: "trace.parent_id", V: wvStr("p")})
	}
	fs := c.Spans[d.Idx].Fields
	var fields []wkv
	for _, f := range fs {
		var v wv
		switch f.V.Kind {
		case "num":
			if jsonEnc {
				v = wvJNum(c09JSONVariants(f.V.Num)[d.JLit[f.Name]])
			} else {
				v = c09MsgpackNum(f.V.Num, d.MW[f.Name])
			}
		case "str":
			v = wvStr(f.V.S)
		case "bool":
			v = wvBool(f.V.B)
		default:
			v = wvNil()
		}
		fields = append(fields, wkv{Key: f.Name, V: v})
	}
	if d.Reverse {
		for i, j := 0, len(fields)-1; i < j; i, j = i+1, j-1 {
			fields[i], fields[j] = fields[j], fields[i]
		}
		m.M = append(fields, m.M...)
	} else {
		m.M = append(m.M, fields...)
	}
	return m
}

func c09MsgpackNum(lit, form string) wv {
	f, _ := strconv.ParseFloat(lit, 64)
	switch {
	case form == "" || form == "f64":
		return wvF64(f)
	case form == "f32":
		return wvF32(float32(f))
	case strings.HasPrefix(form, "u"):
		u, _ := strconv.ParseUint(lit, 10, 64)
		return wvUint(u, form)
	default:
		i, _ := strconv.ParseInt(lit, 10, 64)
		return wvInt(i, form)
	}
}

func c09PostSpan(rig *wireRig, path string, rate int, data wv) string {
	var q wireReq
	switch path {
	case "json-event":
		q = wireReq{Path: "/1/events/ds", ContentType: "application/json", Body: wvJSON(nil, data), Headers: map[string]string{"X-Honeycomb-Samplerate": fmt.Sprint(rate)}}
	case "msgpack-event":
		q = wireReq{Path: "/1/events/ds", ContentType: "application/msgpack", Body: wvEncode(nil, data), Headers: map[string]string{"X-Honeycomb-Samplerate": fmt.Sprint(rate)}}
	case "json-batch":
		q = wireReq{Path: "/1/batch/ds", ContentType: "application/json", Body: wireBatchJSON([]wireEnvelope{{SampleRate: int64(rate), Data: data}})}
	default:
		q = wireReq{Path: "/1/batch/ds", ContentType: "application/msgpack", Body: wireBatchMsgpack([]wireEnvelope{{SampleRate: int64(rate), Data: data}})}
	}
	resp := rig.post(q)
	if resp.Status != 200 || (strings.HasSuffix(path, "batch") && !strings.Contains(resp.Body, `"status":202`)) {
		return fmt.Sprintf("%s: status %d %s %s", path, resp.Status, resp.Body, resp.Err)
	}
	return ""
}

type c09Outcome struct {
	Rate   uint
	Keep   bool
	Reason string
	Key    string
	Err    string
}

func (o c09Outcome) String() string {
	if o.Err != "" {
		return "error(" + o.Err + ")"
	}
	return fmt.Sprintf("(rate=%d keep=%v reason=%q key=%q)", o.Rate, o.Keep, o.Reason, o.Key)
}

// c09Build delivers the spans as described, assembles the trace like the
// collector does and asks a fresh sampler.
func c09Build(rig *wireRig, c c09Case, choice *config.V2SamplerChoice, ds []c09Delivery) c09Outcome {
	var mu sync.Mutex
	var spans []*types.Span
	onSpan := func(sp *types.Span) {
		mu.Lock()
		spans = append(spans, sp)
		mu.Unlock()
	}
	rig.begin(wireCaseCfg{TraceNames: []string{"trace.trace_id", "traceId"}, ParentNames: []string{"trace.parent_id", "parentId"},
		Samplers: map[string]*config.V2SamplerChoice{"__default__": choice}, OnSpan: onSpan})
	defer rig.flush()
	for _, d := range ds {
		data := c09SpanData(c, d)
		rate := 1000 + d.Idx
		if !d.PeerHop {
			if e := c09PostSpan(rig, d.Path, rate, data); e != "" {
				return c09Outcome{Err: e}
			}
			continue
		}
		// first hop: the trace belongs to the peer; what the peer receives is ingested as a msgpack batch
		rig.setPeer([]string{"tr"}, rig.honey.srv.URL)
		rig.startDirect(d.Idx%2 == 0, 1)
		e := c09PostSpan(rig, d.Path, rate, data)
		rig.flush()
		rig.setPeer(nil, "")
		got, faults := rig.honey.take()
		if e != "" {
			return c09Outcome{Err: e}
		}
		if len(faults) > 0 || len(got) != 1 {
			return c09Outcome{Err: fmt.Sprintf("peer hop: %d events forwarded, faults %v", len(got), faults)}
		}
		resp := rig.post(wireReq{Path: "/1/batch/ds", ContentType: "application/msgpack", Body: wvEncode(nil, wv{K: "arr", A: []wv{got[0].Envelope}})})
		if resp.Status != 200 {
			return c09Outcome{Err: fmt.Sprintf("peer hop: re-ingest status %d %s", resp.Status, resp.Body)}
		}
	}
	mu.Lock()
	arrived := spans
	mu.Unlock()
	if len(arrived) != len(ds) {
		return c09Outcome{Err: fmt.Sprintf("%d of %d spans reached the collector", len(arrived), len(ds))}
	}

	f := &sample.SamplerFactory{Config: rig.cfg, Logger: &logger.NullLogger{}, Metrics: &metrics.NullMetrics{}}
	if err := f.Start(); err != nil {
		return c09Outcome{Err: "factory: " + err.Error()}
	}
	defer f.Stop()
	s := f.GetSamplerImplementationForKey("ds")
	if s == nil {
		return c09Outcome{Err: "no sampler"}
	}
	if err := s.Start(); err != nil {
		return c09Outcome{Err: "sampler start: " + err.Error()}
	}
	tr := &types.Trace{APIHost: rig.honey.srv.URL, APIKey: wireAPIKey, Dataset: "ds", TraceID: "tr"}
	for _, sp := range arrived {
		tr.AddSpan(sp)
		if sp.IsRoot {
			tr.RootSpan = sp
		}
	}
	all, nonRoot := s.GetKeyFields()
	for _, sp := range tr.GetSpans() {
		if sp.IsRoot {
			sp.Data.MemoizeFields(all...)
		} else {
			sp.Data.MemoizeFields(nonRoot...)
		}
	}
	var o c09Outcome
	o.Rate, o.Keep, o.Reason, o.Key = s.GetSampleRate(tr)
	return o
}

// ---- judging

// c09Readers describes how the sampler reads a field (operator:datatype of every condition naming it, dynamic key use).
func c09Readers(s c09Sampler, field string) string {
	set := map[string]bool{}
	ref := func(f string) (bool, string) {
		if f == field {
			return true, ""
		}
		if f == "root."+field {
			return true, "root."
		}
		return false, ""
	}
	dyn := func(fields []string, label string) {
		for _, f := range fields {
			if ok, r := ref(f); ok {
				set[label+"("+r+"field)"] = true
			}
		}
	}
	dyn(s.DynFields, "dynamic-key")
	for _, r := range s.Rules {
		dyn(r.DynFields, "rule-dynamic-key")
		for _, c := range r.Conds {
			for _, f := range c.Fields {
				if ok, rp := ref(f); ok {
					dt := c.Datatype
					if dt == "" {
						dt = "untyped"
					}
					set[fmt.Sprintf("%s%s:%s", rp, c.Op, dt)] = true
				}
			}
		}
	}
	var out []string
	for k := range set {
		out = append(out, k)
	}
	sort.Strings(out)
	if len(out) == 0 {
		return "unread"
	}
	return strings.Join(out, "+")
}

// c09Family: how the conditions reading a field treat its value. String-rendering readers turn
// the value into text with fmt %v (string operators, Datatype string, untyped/string in-lists);
// numeric-comparison readers compare numbers.
func c09Family(readers string) string {
	str, num := false, false
	for _, r := range strings.Split(readers, "+") {
		r = strings.TrimPrefix(r, "root.")
		i := strings.LastIndex(r, ":")
		if i < 0 {
			num = true
			continue
		}
		op, dt := r[:i], r[i+1:]
		switch {
		case op == "starts-with" || op == "contains" || op == "does-not-contain" || op == "matches":
			str = true
		case dt == "string":
			str = true
		case (op == "in" || op == "not-in") && dt == "untyped":
			str = true
		default:
			num = true
		}
	}
	switch {
	case str && num:
		return "mixed-readers"
	case str:
		return "string-rendering"
	}
	return "numeric-comparison"
}

func c09Aspect(a, b c09Outcome, deterministicKeep bool) string {
	switch {
	case a.Err != "" || b.Err != "":
		return ""
	case a.Reason != b.Reason:
		return "rule-match"
	case a.Key != b.Key:
		return "key"
	case a.Rate != b.Rate:
		return "rate"
	case deterministicKeep && a.Keep != b.Keep:
		return "keep"
	}
	return ""
}

func execC09(c c09Case) vkit.Result {
	var res vkit.Result
	rig, err := wireGetRig()
	if err != nil {
		panic(err)
	}
	rig.caseMu.Lock()
	defer rig.caseMu.Unlock()
	res.Class("sampler=" + c.Sampler.Kind)

	choice, rejected := c09Load(c09EmitConfig(c.Sampler))
	if rejected != "" {
		res.Class("config-rejected")
		return res
	}
	// keep is a coin unless every reachable decision is keep-all / drop
	deterministicKeep := true
	for _, r := range c.Sampler.Rules {
		if r.Action == "coin" {
			deterministicKeep = false
		}
	}

	// canonical and variant builds
	var canon, variant []c09Delivery
	for i := range c.Spans {
		canon = append(canon, c09Canonical(i))
	}
	perm := c.Perm
	if len(perm) != len(c.Spans) {
		perm = c09Iota(len(c.Spans))
	}
	full := func(i int) c09Delivery {
		s := c.Spans[i]
		d := c09Delivery{Idx: i, Path: s.Path, PeerHop: s.PeerHop, Reverse: s.Reverse, JLit: map[string]int{}, MW: map[string]string{}}
		for _, f := range s.Fields {
			if f.V.Kind == "num" {
				d.JLit[f.Name] = f.V.JLit % len(c09JSONVariants(f.V.Num))
				d.MW[f.Name] = f.V.MW
			}
		}
		return d
	}
	for _, i := range perm {
		if i < 0 || i >= len(c.Spans) {
			return res
		}
		variant = append(variant, full(i))
	}
	// when a coin rule exists the keep bit is random: blank it so that neither
	// verdicts nor messages depend on it
	build := func(ds []c09Delivery) c09Outcome {
		o := c09Build(rig, c, choice, ds)
		if !deterministicKeep {
			o.Keep = false
		}
		return o
	}
	a := build(canon)
	b := build(variant)
	if a.Err != "" || b.Err != "" {
		res.Class("inconclusive-delivery")
		res.Obs = a.String() + " / " + b.String()
		return res
	}

	// non-triviality: >=2 different encodings in the trace and the sampler reads a numeric field
	encs := map[string]bool{}
	readsNumeric := false
	for _, d := range variant {
		jsonEnc := strings.HasPrefix(d.Path, "json")
		encs[d.Path] = true
		for _, f := range c.Spans[d.Idx].Fields {
			if f.V.Kind != "num" {
				continue
			}
			if c09Readers(c.Sampler, f.Name) != "unread" {
				readsNumeric = true
			}
			if jsonEnc {
				encs[fmt.Sprintf("json-lit-%d", d.JLit[f.Name])] = true
			} else {
				encs["mw-"+d.MW[f.Name]] = true
			}
		}
	}
	if len(encs) >= 2 && readsNumeric {
		res.NonTrivial = true
	}
	for e := range encs {
		res.Class("enc=" + e)
	}
	res.Class("outcome=" + strings.SplitN(a.Reason, ":", 2)[0])

	aspect := c09Aspect(a, b, deterministicKeep)
	if aspect == "" {
		return res
	}

	// Isolate the cause. The variant differs from the canonical build by a set of
	// deviations (order; per span: path, field order; per numeric field: wire form).
	// First every deviation is tried alone on top of the canonical build; if none
	// reproduces the difference, the full set is reduced to a 1-minimal failing
	// subset (every member is necessary) and each member is reported.
	type dev struct {
		kind  string // order | path | field-order | wire
		span  int
		field string
		wire  string // signature label of the wire form
		path  string // signature label of the span's path
		desc  string
	}
	var devs []dev
	identity := true
	for i, p := range perm {
		identity = identity && i == p
	}
	if !identity {
		devs = append(devs, dev{kind: "order", desc: fmt.Sprintf("spans delivered in order %v", perm)})
	}
	for i, s := range c.Spans {
		v := full(i)
		pathName := s.Path
		if s.PeerHop {
			pathName += "+peer-hop"
		}
		if s.Path != "json-batch" || s.PeerHop {
			devs = append(devs, dev{kind: "path", span: i, path: pathName, desc: fmt.Sprintf("span %d sent as %s (numbers as float64 / canonical literals)", i, pathName)})
		}
		if s.Reverse && len(s.Fields) > 0 {
			devs = append(devs, dev{kind: "field-order", span: i, path: pathName, desc: fmt.Sprintf("span %d with its fields in reverse order", i)})
		}
		jsonEnc := strings.HasPrefix(s.Path, "json")
		for _, f := range s.Fields {
			if f.V.Kind != "num" {
				continue
			}
			var wire string
			if jsonEnc {
				if v.JLit[f.Name] == 0 {
					continue
				}
				wire = "json-literal-" + c09JSONVariantNames[v.JLit[f.Name]]
			} else {
				if v.MW[f.Name] == "" || v.MW[f.Name] == "f64" {
					continue
				}
				wire = c09MsgpackNum(f.V.Num, v.MW[f.Name]).shape()
			}
			devs = append(devs, dev{kind: "wire", span: i, field: f.Name, wire: wire, path: pathName,
				desc: fmt.Sprintf("span %d field %q = %s encoded as %s on %s", i, f.Name, f.V.Num, wire, pathName)})
		}
	}
	// compose builds the delivery list that applies exactly the deviations in set
	compose := func(set []bool) []c09Delivery {
		per := make([]c09Delivery, len(c.Spans))
		for i := range per {
			per[i] = c09Delivery{Idx: i, Path: "json-batch", JLit: map[string]int{}, MW: map[string]string{}}
		}
		order := c09Iota(len(c.Spans))
		for k, d := range devs {
			if !set[k] {
				continue
			}
			v := full(d.span)
			switch d.kind {
			case "order":
				order = perm
			case "path":
				per[d.span].Path, per[d.span].PeerHop = v.Path, v.PeerHop
			case "field-order":
				per[d.span].Reverse = true
			case "wire":
				// a wire form only exists on the span's own path
				per[d.span].Path, per[d.span].PeerHop = v.Path, v.PeerHop
				per[d.span].JLit[d.field] = v.JLit[d.field]
				per[d.span].MW[d.field] = v.MW[d.field]
			}
		}
		var out []c09Delivery
		for _, i := range order {
			out = append(out, per[i])
		}
		return out
	}
	only := func(k int) []bool {
		set := make([]bool, len(devs))
		set[k] = true
		return set
	}
	report := func(k int, base, with []c09Delivery, o c09Outcome, asp string, combined bool) {
		d := devs[k]
		var sig string
		switch d.kind {
		case "order":
			sig = "C09/" + asp + "/reordered"
		case "path":
			sig = "C09/" + asp + "/path/" + d.path
		case "field-order":
			sig = "C09/" + asp + "/field-order/" + d.path
		default:
			// which reader of the field changes its answer? probe each on the deviating span alone
			var base1, with1 c09Delivery
			for _, x := range base {
				if x.Idx == d.span {
					base1 = x
				}
			}
			for _, x := range with {
				if x.Idx == d.span {
					with1 = x
				}
			}
			readerSets := c09Culprits(rig, c, d.span, d.field, asp == "key", base1, with1)
			if len(readerSets) == 0 {
				readerSets = []string{c09Readers(c.Sampler, d.field)}
			}
			how := "alone on top of the canonical build"
			suffix := ""
			if combined {
				suffix = "/in-combination"
				how = "as a necessary member of a minimal set of deviations"
			}
			for _, readers := range readerSets {
				if asp == "key" {
					// one stringification defect per kind of key field
					sig = fmt.Sprintf("C09/key/%s/%s/%s", readers, d.wire, d.path)
				} else {
					// one coercion defect per family of readers and wire type
					sig = fmt.Sprintf("C09/%s/%s/%s/%s/%s", asp, c09Family(readers), d.wire, readers, d.path)
				}
				res.Violate(sig+suffix, "sampler %s; trace %s: canonical all-JSON build -> %s; %s (%s) -> %s; reader whose answer changes on that span: %s", c09EmitConfig(c.Sampler), c09TraceString(c), a, d.desc, how, o, readers)
			}
			return
		}
		how := "alone on top of the canonical build"
		if combined {
			sig += "/in-combination"
			how = "as a necessary member of a minimal set of deviations"
		}
		res.Violate(sig, "sampler %s; trace %s: canonical all-JSON build -> %s; %s (%s) -> %s", c09EmitConfig(c.Sampler), c09TraceString(c), a, d.desc, how, o)
	}
	blamed := 0
	for k := range devs {
		ds := compose(only(k))
		o := build(ds)
		if asp := c09Aspect(a, o, deterministicKeep); asp != "" {
			blamed++
			report(k, canon, ds, o, asp, false)
		}
	}
	if blamed == 0 {
		set := make([]bool, len(devs))
		for k := range set {
			set[k] = true
		}
		if o := build(compose(set)); c09Aspect(a, o, deterministicKeep) == "" {
			// the composed full set is the variant itself; if it does not reproduce, refinery answered
			// differently for the same input
			res.Violate("C09/"+aspect+"/not-reproducible", "sampler %s; trace %s: canonical -> %s; variant -> %s; the same variant built again -> %s", c09EmitConfig(c.Sampler), c09TraceString(c), a, b, o)
			return res
		}
		for k := range set {
			set[k] = false
			if o := build(compose(set)); c09Aspect(a, o, deterministicKeep) == "" {
				set[k] = true // needed
			}
		}
		withAll := compose(set)
		oAll := build(withAll)
		asp := c09Aspect(a, oAll, deterministicKeep)
		if asp == "" {
			asp = aspect
		}
		for k := range set {
			if !set[k] {
				continue
			}
			set[k] = false
			base := compose(set)
			set[k] = true
			report(k, base, withAll, oAll, asp, true)
		}
	}
	return res
}

// c09Culprits probes every reader of the field on its own - a rules sampler consisting of one
// condition (keep rule), or a dynamic sampler keyed on one field reference - against a trace that
// consists of the deviating span alone, once in the base encoding and once in the deviating one,
// and returns the readers whose answer differs.
func c09Culprits(rig *wireRig, c c09Case, span int, field string, keyAspect bool, base, dev c09Delivery) []string {
	pc := c
	pc.Spans = []c09Span{c.Spans[span]}
	pc.Root = -1
	if c.Root == span {
		pc.Root = 0
	}
	pc.Perm = []int{0}
	base.Idx, dev.Idx = 0, 0
	set := map[string]bool{}
	tried := map[string]bool{}
	probeWith := func(label string, probe c09Sampler) {
		key := label + c09EmitConfig(probe)
		if tried[key] || set[label] {
			return
		}
		tried[key] = true
		choice, rejected := c09Load(c09EmitConfig(probe))
		if rejected != "" {
			return
		}
		pc.Sampler = probe
		x := c09Build(rig, pc, choice, []c09Delivery{base})
		y := c09Build(rig, pc, choice, []c09Delivery{dev})
		if x.Err == "" && y.Err == "" && (x.Reason != y.Reason || x.Key != y.Key || x.Rate != y.Rate) {
			set[label] = true
		}
	}
	dyn := func(fields []string, label string) {
		for _, f := range fields {
			if f == field {
				probeWith(label+"(field)", c09Sampler{Kind: "dynamic", DynFields: []string{f}})
			} else if f == "root."+field {
				probeWith(label+"(root.field)", c09Sampler{Kind: "dynamic", DynFields: []string{f}})
			}
		}
	}
	dyn(c.Sampler.DynFields, "dynamic-key")
	for _, r := range c.Sampler.Rules {
		dyn(r.DynFields, "rule-dynamic-key")
		if keyAspect {
			continue
		}
		for _, cond := range r.Conds {
			label := ""
			for _, f := range cond.Fields {
				if f == field || f == "root."+field {
					dt := cond.Datatype
					if dt == "" {
						dt = "untyped"
					}
					rp := ""
					if strings.HasPrefix(f, "root.") {
						rp = "root."
					}
					label = fmt.Sprintf("%s%s:%s", rp, cond.Op, dt)
				}
			}
			if label == "" {
				continue
			}
			probeWith(label, c09Sampler{Kind: "rules", Rules: []c09Rule{{Scope: r.Scope, Conds: []c09Cond{cond}, Action: "keep"}}})
		}
	}
	var out []string
	for k := range set {
		out = append(out, k)
	}
	sort.Strings(out)
	return out
}

func c09TraceString(c c09Case) string {
	var parts []string
	for i, s := range c.Spans {
		var fs []string
		for _, f := range s.Fields {
			switch f.V.Kind {
			case "num":
				fs = append(fs, f.Name+"="+f.V.Num)
			case "str":
				fs = append(fs, f.Name+"="+strconv.Quote(f.V.S))
			case "bool":
				fs = append(fs, fmt.Sprintf("%s=%v", f.Name, f.V.B))
			default:
				fs = append(fs, f.Name+"=nil")
			}
		}
		r := ""
		if i == c.Root {
			r = "root "
		}
		parts = append(parts, fmt.Sprintf("span%d{%s%s}", i, r, strings.Join(fs, " ")))
	}
	return strings.Join(parts, " ")
}

func TestC09(t *testing.T) {
	if _, err := wireGetRig(); err != nil {
		t.Fatalf("cannot start the router rig: %v", err)
	}
	vkit.Run(t, vkit.Spec[c09Case]{
		ID: "C09",
		Rule: "rapid-generated logical traces (1-5 spans, 0-4 fields out of {status,dur,name,err,n} per span holding numbers from a pool that is exactly representable as float32/float64 and in every fitting integer form, strings, bools or nil; at most one root) and sampler configurations (rules: 1-3 rules, scope \"\"/trace/span, 1-2 conditions with =,!=,>,>=,<,<=,exists,not-exists,starts-with,contains,does-not-contain,in,not-in,matches over Field/Fields incl. root.-prefixed, Datatype \"\"/int/float/string/bool, numeric/string/list values, outcome keep/drop/coin/downstream DynamicSampler; or a DynamicSampler with 1-3 key fields incl. root.-prefixed and UseTraceLength) written as a rules file that is parsed and validated like refinery does. Each case builds the trace twice through a real Router (canonical: JSON batch, original order; variant: permuted, per-span path JSON event/JSON batch/msgpack event/msgpack batch, optional peer hop through a real DirectTransmission, per-number wire form: JSON literal variants or msgpack fixint/int8..64/uint8..64/float32/float64, optional reversed field order), assembles types.Trace like the collector and compares (rate, reason, key, keep unless a coin rule exists). Differences are attributed by re-building with one deviation at a time. Non-trivial: >=2 different encodings in the trace and the sampler reads a field that holds a number. Distinct = distinct case JSON.",
		Assumptions: []string{
			"ID-field names are never used as sampler fields (the statement excludes them); at most 20 key values per trace (cap is 100)",
			"the trace is assembled like collect/collector_worker.go does (AddSpan in arrival order, RootSpan = the span whose IsRoot is set, MemoizeFields(GetKeyFields)); the real InMemCollector is exercised by the collector engine",
			"OTLP ingestion is not driven here: husky adds fields of its own, so an OTLP span and a hand-written event do not carry the same field names",
			"rules files the validator rejects are counted (config-rejected), not judged",
			"every build uses a fresh SamplerFactory, so dynsampler state cannot leak between the two builds",
		},
		Gen:  genC09,
		Exec: execC09,
	})
}
