package wire

// Rig of the `wire` engine: one real route.Router (incoming) per test process on
// a loopback listener, with a recording collector, switchable recording
// transmissions and a fake Honeycomb API (httptest) that decodes what a real
// transmit.DirectTransmission posts with the independent decoder wvDecode.
// The router itself is stateless for everything these properties observe; all
// per-case state (configuration, recorders, transmissions) is reset per case and
// cases are executed strictly one after another.

import (
	"sync/atomic"
	"bytes"
	"compress/gzip"
	"encoding/json"
	"fmt"
	"io"
	"net"
	"net/http"
	"net/http/httptest"
	"os"
	"strings"
	"sync"
	"time"

	"github.com/honeycombio/refinery/config"
	"github.com/honeycombio/refinery/logger"
	"github.com/honeycombio/refinery/metrics"
	"github.com/honeycombio/refinery/route"
	"github.com/honeycombio/refinery/sharder"
	"github.com/honeycombio/refinery/transmit"
	"github.com/honeycombio/refinery/types"
	"github.com/klauspost/compress/zstd"
	"go.opentelemetry.io/otel/trace/noop"
)

// ---------------------------------------------------------------- recording logger

type wireLogger struct {
	mu     sync.Mutex
	errors []string
}

type wireLogEntry struct {
	l      *wireLogger
	record bool
	fields []string
}

func (l *wireLogger) Debug() logger.Entry         { return &wireLogEntry{l: l} }
func (l *wireLogger) Info() logger.Entry          { return &wireLogEntry{l: l} }
func (l *wireLogger) Warn() logger.Entry          { return &wireLogEntry{l: l} }
func (l *wireLogger) Error() logger.Entry         { return &wireLogEntry{l: l, record: true} }
func (l *wireLogger) SetLevel(level string) error { return nil }

func (e *wireLogEntry) WithField(key string, value interface{}) logger.Entry {
	if !e.record {
		return e
	}
	return &wireLogEntry{l: e.l, record: true, fields: append(append([]string{}, e.fields...), fmt.Sprintf("%s=%v", key, value))}
}
func (e *wireLogEntry) WithString(key string, value string) logger.Entry {
	return e.WithField(key, value)
}
func (e *wireLogEntry) WithFields(fields map[string]interface{}) logger.Entry {
	if !e.record {
		return e
	}
	out := logger.Entry(e)
	for _, k := range []string{"error.err", "error.msg", "error.status_code", "error", "err", "status_code"} {
		if v, ok := fields[k]; ok {
			out = out.WithField(k, v)
		}
	}
	return out
}
func (e *wireLogEntry) Logf(f string, args ...interface{}) {
	if !e.record {
		return
	}
	e.l.mu.Lock()
	defer e.l.mu.Unlock()
	if len(e.l.errors) < 50 {
		e.l.errors = append(e.l.errors, fmt.Sprintf(f, args...)+" "+strings.Join(e.fields, " "))
	}
}

func (l *wireLogger) take() []string {
	l.mu.Lock()
	defer l.mu.Unlock()
	out := l.errors
	l.errors = nil
	return out
}

// ---------------------------------------------------------------- recording collector

type wireSpanObs struct {
	TraceID string
	IsRoot  bool
	Span    *types.Span
	Peer    bool
}

type wireCollector struct {
	mu     sync.Mutex
	spans  []wireSpanObs
	onSpan func(*types.Span)
}

func (c *wireCollector) add(sp *types.Span, peer bool) error {
	c.mu.Lock()
	c.spans = append(c.spans, wireSpanObs{TraceID: sp.TraceID, IsRoot: sp.IsRoot, Span: sp, Peer: peer})
	f := c.onSpan
	c.mu.Unlock()
	if f != nil {
		f(sp)
	}
	return nil
}
func (c *wireCollector) AddSpan(sp *types.Span) error         { return c.add(sp, false) }
func (c *wireCollector) AddSpanFromPeer(sp *types.Span) error { return c.add(sp, true) }
func (c *wireCollector) Stressed() bool                       { return false }
func (c *wireCollector) GetStressedSampleRate(traceID string) (uint, bool, string) {
	return 1, true, ""
}
func (c *wireCollector) ProcessSpanImmediately(sp *types.Span) (bool, bool) { return false, false }

func (c *wireCollector) reset(onSpan func(*types.Span)) {
	c.mu.Lock()
	c.spans = nil
	c.onSpan = onSpan
	c.mu.Unlock()
}
func (c *wireCollector) take() []wireSpanObs {
	c.mu.Lock()
	defer c.mu.Unlock()
	out := c.spans
	c.spans = nil
	return out
}

// ---------------------------------------------------------------- switchable recording transmission

type wireSwitchTx struct {
	mu     sync.Mutex
	events []*types.Event
	inner  transmit.Transmission
}

func (s *wireSwitchTx) EnqueueEvent(ev *types.Event) {
	s.mu.Lock()
	s.events = append(s.events, ev)
	in := s.inner
	s.mu.Unlock()
	if in != nil {
		in.EnqueueEvent(ev)
	}
}
func (s *wireSwitchTx) EnqueueSpan(sp *types.Span) { s.EnqueueEvent(sp.Event) }
func (s *wireSwitchTx) reset(inner transmit.Transmission) {
	s.mu.Lock()
	s.events = nil
	s.inner = inner
	s.mu.Unlock()
}
func (s *wireSwitchTx) take() []*types.Event {
	s.mu.Lock()
	defer s.mu.Unlock()
	out := s.events
	s.events = nil
	return out
}

// ---------------------------------------------------------------- fake Honeycomb

type wireHoneyEvent struct {
	Dataset    string
	APIKey     string
	Envelope   wv // the whole {time, samplerate, data} map as decoded by wvDecode
	Time       wv
	SampleRate wv
	Data       wv
	HasTime    bool
}

type wireHoney struct {
	srv     *httptest.Server
	mu      sync.Mutex
	events  []wireHoneyEvent
	faults  []string
	zstdDec *zstd.Decoder
}

func newWireHoney() *wireHoney {
	h := &wireHoney{}
	h.zstdDec, _ = zstd.NewReader(nil, zstd.WithDecoderConcurrency(1))
	h.srv = httptest.NewServer(http.HandlerFunc(h.handle))
	return h
}

func (h *wireHoney) fault(f string, args ...any) {
	h.mu.Lock()
	h.faults = append(h.faults, fmt.Sprintf(f, args...))
	h.mu.Unlock()
}

func (h *wireHoney) handle(w http.ResponseWriter, req *http.Request) {
	body, err := io.ReadAll(req.Body)
	if err != nil {
		h.fault("read body: %v", err)
		w.WriteHeader(500)
		return
	}
	if !strings.HasPrefix(req.URL.Path, "/1/batch/") {
		h.fault("unexpected path %s", req.URL.Path)
		w.WriteHeader(404)
		return
	}
	dataset := strings.TrimPrefix(req.URL.Path, "/1/batch/")
	switch req.Header.Get("Content-Encoding") {
	case "zstd":
		body, err = h.zstdDec.DecodeAll(body, nil)
	case "gzip":
		var zr *gzip.Reader
		zr, err = gzip.NewReader(bytes.NewReader(body))
		if err == nil {
			body, err = io.ReadAll(zr)
		}
	}
	if err != nil {
		h.fault("decompress: %v", err)
		w.WriteHeader(400)
		return
	}
	var arr wv
	switch req.Header.Get("Content-Type") {
	case "application/msgpack", "application/x-msgpack":
		var rest []byte
		arr, rest, err = wvDecode(body)
		if err == nil && len(rest) != 0 {
			err = fmt.Errorf("%d trailing bytes", len(rest))
		}
	default:
		dec := json.NewDecoder(bytes.NewReader(body))
		dec.UseNumber()
		var x any
		err = dec.Decode(&x)
		if err == nil {
			arr = wvFromStdJSON(x)
		}
	}
	if err != nil || arr.K != "arr" {
		h.fault("undecodable batch body (%d bytes, content-type %q): %v kind=%s hex=%x", len(body), req.Header.Get("Content-Type"), err, arr.K, body[:min(len(body), 200)])
		w.WriteHeader(400)
		return
	}
	h.mu.Lock()
	for _, e := range arr.A {
		he := wireHoneyEvent{Dataset: dataset, APIKey: req.Header.Get("X-Honeycomb-Team"), Envelope: e}
		if e.K == "map" {
			he.Time, he.HasTime = e.get("time")
			he.SampleRate, _ = e.get("samplerate")
			he.Data, _ = e.get("data")
		}
		h.events = append(h.events, he)
	}
	h.mu.Unlock()
	w.Header().Set("Content-Type", "application/json")
	var resp bytes.Buffer
	resp.WriteByte('[')
	for i := range arr.A {
		if i > 0 {
			resp.WriteByte(',')
		}
		resp.WriteString(`{"status":202}`)
	}
	resp.WriteByte(']')
	w.Write(resp.Bytes())
}

func (h *wireHoney) take() ([]wireHoneyEvent, []string) {
	h.mu.Lock()
	defer h.mu.Unlock()
	ev, f := h.events, h.faults
	h.events, h.faults = nil, nil
	return ev, f
}

// ---------------------------------------------------------------- rig

const wireAPIKey = "abcdef0123456789abcdef0123456789" // classic (legacy) key: no environment lookup

type wireRig struct {
	caseMu sync.Mutex // one case at a time
	cfg    *config.MockConfig
	router *route.Router
	base   string
	col    *wireCollector
	up     *wireSwitchTx
	peer   *wireSwitchTx
	log    *wireLogger
	honey  *wireHoney
	client *http.Client
	zenc   *zstd.Encoder
	shard  *sharder.MockSharder
	direct *transmit.DirectTransmission
	// retries counts batches the per-case DirectTransmission sent a second time (it retries
	// once after a client-side HTTP timeout, so the upstream can see such a batch twice): a
	// wall-clock effect that only shows on an overloaded machine
	retries *wireRetryCounter
}

// wireRetryCounter is a metrics sink that only counts the transmission's "..._send_retries".
type wireRetryCounter struct {
	metrics.NullMetrics
	n atomic.Int64
}

func (m *wireRetryCounter) Increment(name string) {
	if strings.HasSuffix(name, "_send_retries") {
		m.n.Add(1)
	}
}

// sendRetries: how many batches the current case's DirectTransmission has re-sent so far.
func (r *wireRig) sendRetries() int64 {
	if r.retries == nil {
		return 0
	}
	return r.retries.n.Load()
}

var (
	wireRigOnce sync.Once
	wireRigVal  *wireRig
	wireRigErr  error
)

func wireGetRig() (*wireRig, error) {
	wireRigOnce.Do(func() { wireRigVal, wireRigErr = newWireRig() })
	return wireRigVal, wireRigErr
}

func newWireRig() (*wireRig, error) {
	r := &wireRig{
		col:   &wireCollector{},
		up:    &wireSwitchTx{},
		peer:  &wireSwitchTx{},
		log:   &wireLogger{},
		honey: newWireHoney(),
	}
	r.zenc, _ = zstd.NewWriter(nil, zstd.WithEncoderConcurrency(1))
	r.client = &http.Client{Timeout: 30 * time.Second, Transport: &http.Transport{MaxIdleConnsPerHost: 16}}
	r.shard = &sharder.MockSharder{Self: &sharder.TestShard{Addr: "http://self.invalid"}}
	var lastErr error
	for attempt := 0; attempt < 20; attempt++ {
		l, err := net.Listen("tcp", "127.0.0.1:0")
		if err != nil {
			lastErr = err
			continue
		}
		addr := l.Addr().String()
		l.Close()
		token := fmt.Sprintf("verif-wire-%d-%d-%d", os.Getpid(), attempt, time.Now().UnixNano())
		cfg := &config.MockConfig{
			GetListenAddrVal:      addr,
			GetHoneycombAPIVal:    r.honey.srv.URL,
			GetHTTPIdleTimeoutVal: time.Minute,
			EnvironmentCacheTTL:   time.Hour,
			TraceIdFieldNames:     []string{"trace.trace_id", "traceId"},
			ParentIdFieldNames:    []string{"trace.parent_id", "parentId"},
		}
		rt := &route.Router{
			Config:               cfg,
			Logger:               r.log,
			HTTPTransport:        &http.Transport{},
			UpstreamTransmission: r.up,
			PeerTransmission:     r.peer,
			Sharder:              r.shard,
			Collector:            r.col,
			Metrics:              &metrics.NullMetrics{},
			Tracer:               noop.NewTracerProvider().Tracer("verif"),
		}
		rt.SetType(types.RouterTypeIncoming)
		rt.SetVersion(token)
		rt.LnS()
		ok := false
		deadline := time.Now().Add(5 * time.Second)
		for time.Now().Before(deadline) {
			resp, err := r.client.Get("http://" + addr + "/version")
			if err == nil {
				b, _ := io.ReadAll(resp.Body)
				resp.Body.Close()
				if strings.Contains(string(b), token) {
					ok = true
				}
				break // somebody answered: either us or a stranger
			}
			time.Sleep(5 * time.Millisecond)
		}
		if ok {
			r.cfg, r.router, r.base = cfg, rt, "http://"+addr
			return r, nil
		}
		lastErr = fmt.Errorf("router on %s did not answer with our token", addr)
		_ = rt.Stop()
	}
	return nil, fmt.Errorf("wire rig: cannot start router: %v", lastErr)
}

type wireCaseCfg struct {
	TraceNames  []string
	ParentNames []string
	Samplers    map[string]*config.V2SamplerChoice
	// Direct: forward through a real DirectTransmission to the fake Honeycomb.
	Direct      bool
	Compress    bool
	MaxBatch    int
	OnSpan      func(*types.Span)
	PeerTraces  []string // trace ids owned by "the other shard"
	PeerAddr    string
	Attributes  map[string]string
	UserAgentOn bool
}

// begin resets all recorders and installs the per-case configuration.
// The caller must hold caseMu (use withCase).
func (r *wireRig) begin(c wireCaseCfg) {
	r.cfg.Mux.Lock()
	r.cfg.TraceIdFieldNames = c.TraceNames
	r.cfg.ParentIdFieldNames = c.ParentNames
	r.cfg.Samplers = c.Samplers
	r.cfg.AdditionalAttributes = c.Attributes
	r.cfg.Mux.Unlock()
	r.log.take()
	r.honey.take()
	r.col.reset(c.OnSpan)
	if len(c.PeerTraces) > 0 {
		r.shard.Other = &sharder.TestShard{Addr: c.PeerAddr, TraceIDs: c.PeerTraces}
	} else {
		r.shard.Other = nil
	}
	r.direct = nil
	r.retries = nil
	if c.Direct {
		mb := c.MaxBatch
		if mb <= 0 {
			mb = 50
		}
		d := transmit.NewDirectTransmission(types.TransmitTypeUpstream, &http.Transport{MaxIdleConnsPerHost: 2}, mb, 50*time.Millisecond, 20*time.Second, c.Compress, nil)
		d.Config = r.cfg
		d.Logger = r.log
		r.retries = &wireRetryCounter{}
		d.Metrics = r.retries
		d.Version = "verif"
		_ = d.Start()
		r.direct = d
		r.up.reset(d)
		r.peer.reset(d)
	} else {
		r.up.reset(nil)
		r.peer.reset(nil)
	}
}

// flush stops the per-case DirectTransmission (which sends everything still
// queued and waits for the responses).
func (r *wireRig) flush() {
	if r.direct != nil {
		d := r.direct
		r.direct = nil
		_ = d.Stop()
		d.Transport.CloseIdleConnections()
		for _, sw := range []*wireSwitchTx{r.up, r.peer} {
			sw.mu.Lock()
			if sw.inner == transmit.Transmission(d) {
				sw.inner = nil
			}
			sw.mu.Unlock()
		}
	}
}

type wireResp struct {
	Status int
	Body   string
	Err    string
}

type wireReq struct {
	Path        string // e.g. /1/events/ds
	ContentType string
	Encoding    string // "", gzip, zstd
	Headers     map[string]string
	Body        []byte
}

func (r *wireRig) post(q wireReq) wireResp {
	body := q.Body
	switch q.Encoding {
	case "gzip":
		var buf bytes.Buffer
		zw := gzip.NewWriter(&buf)
		zw.Write(body)
		zw.Close()
		body = buf.Bytes()
	case "zstd":
		body = r.zenc.EncodeAll(body, nil)
	}
	req, err := http.NewRequest("POST", r.base+q.Path, bytes.NewReader(body))
	if err != nil {
		return wireResp{Err: err.Error()}
	}
	req.Header.Set("X-Honeycomb-Team", wireAPIKey)
	if q.ContentType != "" {
		req.Header.Set("Content-Type", q.ContentType)
	}
	if q.Encoding != "" {
		req.Header.Set("Content-Encoding", q.Encoding)
	}
	for k, v := range q.Headers {
		req.Header.Set(k, v)
	}
	resp, err := r.client.Do(req)
	if err != nil {
		return wireResp{Err: err.Error()}
	}
	defer resp.Body.Close()
	b, _ := io.ReadAll(resp.Body)
	return wireResp{Status: resp.StatusCode, Body: string(b)}
}

// ---------------------------------------------------------------- request bodies

// wireEnvelope is one element of a /1/batch body.
type wireEnvelope struct {
	Time       *wv   // msgpack: a time (or any) value; JSON: a str value; nil = absent
	SampleRate int64 // 0 = absent
	Data       wv    // map
	Order      int   // permutation selector for the envelope members
}

var wirePerm3 = [][3]int{{0, 1, 2}, {0, 2, 1}, {1, 0, 2}, {1, 2, 0}, {2, 0, 1}, {2, 1, 0}}

func (e wireEnvelope) members(json bool) []wkv {
	var ms []wkv
	for _, i := range wirePerm3[((e.Order%6)+6)%6] {
		switch i {
		case 0:
			if e.Time != nil {
				ms = append(ms, wkv{Key: "time", V: *e.Time})
			}
		case 1:
			if e.SampleRate != 0 {
				if json {
					ms = append(ms, wkv{Key: "samplerate", V: wvJNum(fmt.Sprint(e.SampleRate))})
				} else {
					ms = append(ms, wkv{Key: "samplerate", V: wvInt(e.SampleRate, "")})
				}
			}
		case 2:
			ms = append(ms, wkv{Key: "data", V: e.Data})
		}
	}
	return ms
}

func wireBatchMsgpack(evs []wireEnvelope) []byte {
	arr := wv{K: "arr"}
	for _, e := range evs {
		arr.A = append(arr.A, wv{K: "map", M: e.members(false)})
	}
	return wvEncode(nil, arr)
}

func wireBatchJSON(evs []wireEnvelope) []byte {
	arr := wv{K: "arr"}
	for _, e := range evs {
		arr.A = append(arr.A, wv{K: "map", M: e.members(true)})
	}
	return wvJSON(nil, arr)
}

// wireBatchStatuses parses the per-event status array of a /1/batch response.
func wireBatchStatuses(body string) []int {
	var rs []struct {
		Status int `json:"status"`
	}
	if err := json.Unmarshal([]byte(body), &rs); err != nil {
		return nil
	}
	out := make([]int, len(rs))
	for i, r := range rs {
		out[i] = r.Status
	}
	return out
}

// setPeer makes the given trace IDs belong to "the other shard" at addr (nil = none).
// Only call while no request is in flight.
func (r *wireRig) setPeer(traces []string, addr string) {
	if len(traces) == 0 {
		r.shard.Other = nil
		return
	}
	r.shard.Other = &sharder.TestShard{Addr: addr, TraceIDs: traces}
}

// startDirect installs a fresh real DirectTransmission behind both transmission
// switches (flush() stops it again and waits for everything to be posted).
func (r *wireRig) startDirect(compress bool, maxBatch int) {
	r.flush()
	if maxBatch <= 0 {
		maxBatch = 50
	}
	d := transmit.NewDirectTransmission(types.TransmitTypePeer, &http.Transport{MaxIdleConnsPerHost: 2}, maxBatch, 50*time.Millisecond, 20*time.Second, compress, nil)
	d.Config = r.cfg
	d.Logger = r.log
	d.Metrics = &metrics.NullMetrics{}
	d.Version = "verif"
	_ = d.Start()
	r.direct = d
	r.up.mu.Lock()
	r.up.inner = d
	r.up.mu.Unlock()
	r.peer.mu.Lock()
	r.peer.inner = d
	r.peer.mu.Unlock()
}

// runConcurrent releases g client goroutines per round through a barrier; goroutine i
// of round k posts mk(i, k). Returns the responses indexed [round][goroutine].
func (r *wireRig) runConcurrent(g, rounds int, mk func(gi, round int) wireReq) [][]wireResp {
	out := make([][]wireResp, rounds)
	for k := 0; k < rounds; k++ {
		out[k] = make([]wireResp, g)
		reqs := make([]wireReq, g)
		for i := range reqs {
			reqs[i] = mk(i, k)
		}
		start := make(chan struct{})
		var wg sync.WaitGroup
		for i := 0; i < g; i++ {
			wg.Add(1)
			go func(i int) {
				defer wg.Done()
				<-start
				out[k][i] = r.post(reqs[i])
			}(i)
		}
		close(start)
		wg.Wait()
	}
	return out
}
