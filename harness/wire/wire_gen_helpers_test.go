package wire

// rapid generators over the value algebra, shared by C20/C21/C22/C09.

import (
	"math"
	"strconv"
	"strings"

	"pgregory.net/rapid"
)

var wvIntBoundaries = []int64{
	0, 1, -1, 2, 7, 31, 32, -31, -32, -33, 100, 127, 128, -127, -128, -129, 200, 255, 256, 404, 500, 1000,
	32767, 32768, -32768, -32769, 65535, 65536, 1 << 24, 1<<24 + 1, math.MaxInt32, math.MaxInt32 + 1, math.MinInt32, math.MinInt32 - 1,
	math.MaxUint32, math.MaxUint32 + 1, 1 << 53, 1<<53 + 1, -(1 << 53), math.MaxInt64, math.MinInt64,
}

func wvGenIntValue(t *rapid.T) int64 {
	if rapid.IntRange(0, 3).Draw(t, "intsrc") == 0 {
		return rapid.Int64().Draw(t, "int")
	}
	return rapid.SampledFrom(wvIntBoundaries).Draw(t, "intb")
}

// wvGenIntWire picks a wire form (signed or unsigned family) for the integer i.
func wvGenIntWire(t *rapid.T, i int64) wv {
	var forms []string
	for _, f := range wvIntForms {
		if wvFitsInt(i, f) {
			forms = append(forms, f)
		}
	}
	if i >= 0 {
		for _, f := range wvUintForms {
			if wvFitsUint(uint64(i), f) {
				forms = append(forms, f)
			}
		}
	}
	f := rapid.SampledFrom(forms).Draw(t, "intwire")
	if strings.HasPrefix(f, "u") {
		return wvUint(uint64(i), f)
	}
	return wvInt(i, f)
}

func wvGenInt(t *rapid.T) wv {
	if rapid.IntRange(0, 9).Draw(t, "bigu") == 0 {
		u := rapid.SampledFrom([]uint64{math.MaxInt64 + 1, math.MaxUint64, math.MaxUint64 - 1, 1<<63 + 12345}).Draw(t, "u64")
		return wvUint(u, "u64")
	}
	return wvGenIntWire(t, wvGenIntValue(t))
}

var wvF64Pool = []float64{0, math.Copysign(0, -1), 1, -1, 0.5, 1.5, 0.1, -0.1, 3.14159, 200, 404.5, 1e10, 1e21, 1e-7, 1e300, -1e300,
	math.MaxFloat64, math.SmallestNonzeroFloat64, 1 << 53, 1<<53 + 2, 123456789.125, 16777217, 0.30000000000000004, 1.7976931348623157e308}

func wvGenF64(t *rapid.T) wv {
	switch rapid.IntRange(0, 9).Draw(t, "f64src") {
	case 0:
		return wvF64(rapid.Float64().Draw(t, "f64"))
	case 1:
		return wvF64(rapid.SampledFrom([]float64{math.Inf(1), math.Inf(-1), math.NaN()}).Draw(t, "f64special"))
	default:
		return wvF64(rapid.SampledFrom(wvF64Pool).Draw(t, "f64p"))
	}
}

var wvF32Pool = []float32{0, float32(math.Copysign(0, -1)), 1, -1, 0.5, 1.5, 0.1, 200, 3.4028235e38, 1e-45, 16777216, 0.3, 404.5}

func wvGenF32(t *rapid.T) wv {
	switch rapid.IntRange(0, 9).Draw(t, "f32src") {
	case 0:
		return wvF32(rapid.Float32().Draw(t, "f32"))
	case 1:
		return wvF32(float32(rapid.SampledFrom([]float64{math.Inf(1), math.Inf(-1), math.NaN()}).Draw(t, "f32special")))
	default:
		return wvF32(rapid.SampledFrom(wvF32Pool).Draw(t, "f32p"))
	}
}

var wvStrPool = []string{"", "a", "b", "abc", "200", "1.5", "true", "nil", "<nil>", "héllo", "日本語", "\u0000", "with \"quotes\" and \\ back\\slash", "line\nbreak\ttab", "😀",
	"0123456789abcdef0123456789abcde", "0123456789abcdef0123456789abcdef", "•", "/", "a,b"}

func wvGenStrValue(t *rapid.T) string {
	switch rapid.IntRange(0, 11).Draw(t, "strsrc") {
	case 0:
		return rapid.StringN(0, 40, 80).Draw(t, "str")
	case 1:
		n := rapid.SampledFrom([]int{31, 32, 33, 255, 256, 257}).Draw(t, "strlen")
		return strings.Repeat("x", n)
	default:
		return rapid.SampledFrom(wvStrPool).Draw(t, "strp")
	}
}

func wvStrForms(n int) []string {
	forms := []string{}
	if n <= 31 {
		forms = append(forms, "fix")
	}
	if n <= 255 {
		forms = append(forms, "s8")
	}
	if n <= 65535 {
		forms = append(forms, "s16")
	}
	return append(forms, "s32")
}

func wvGenStr(t *rapid.T) wv {
	s := wvGenStrValue(t)
	v := wvStr(s)
	if rapid.IntRange(0, 3).Draw(t, "strwide") == 0 {
		v.W = rapid.SampledFrom(wvStrForms(len(s))).Draw(t, "strwire")
		if v.W == "fix" {
			v.W = ""
		}
	}
	return v
}

func wvGenBin(t *rapid.T) wv {
	x := rapid.SliceOfN(rapid.Byte(), 0, 6).Draw(t, "bin")
	if x == nil {
		x = []byte{}
	}
	w := rapid.SampledFrom([]string{"b8", "b8", "b8", "b16", "b32"}).Draw(t, "binwire")
	return wv{K: "bin", W: w, X: x}
}

// instants between 2001-09-09T01:46:40Z (1e9) and 2286-11-20T17:46:39Z (1e10-1): 10-digit epoch seconds.
const (
	wireMinSec = int64(1_000_000_000)
	wireMaxSec = int64(9_999_999_999)
)

var wireSecPool = []int64{wireMinSec, wireMaxSec, 1_535_589_382, 1_700_000_000, 1_700_000_001, 4_294_967_295, 4_294_967_296, 2_147_483_647, 2_147_483_648, 1_234_567_890, 9_007_199_254}

func wvGenSec(t *rapid.T) int64 {
	if rapid.IntRange(0, 2).Draw(t, "secsrc") == 0 {
		return rapid.Int64Range(wireMinSec, wireMaxSec).Draw(t, "sec")
	}
	return rapid.SampledFrom(wireSecPool).Draw(t, "secp")
}

var wireNsecPool = []int64{0, 1, 999, 1000, 1001, 999_999, 1_000_000, 1_000_001, 123_456_789, 500_000_000, 641_000_000, 999_000_000, 999_999_000, 999_999_999, 100_000_000, 7_000_000, 10}

func wvGenNsec(t *rapid.T) int64 {
	if rapid.IntRange(0, 2).Draw(t, "nsecsrc") == 0 {
		return rapid.Int64Range(0, 999_999_999).Draw(t, "nsec")
	}
	return rapid.SampledFrom(wireNsecPool).Draw(t, "nsecp")
}

func wvTimeForms(sec, nsec int64) []string {
	forms := []string{"t96"}
	if sec >= 0 && sec < 1<<34 {
		forms = append(forms, "t64")
		if nsec == 0 && sec <= math.MaxUint32 {
			forms = append(forms, "t32")
		}
	}
	return forms
}

func wvGenTime(t *rapid.T) wv {
	sec := wvGenSec(t)
	nsec := wvGenNsec(t)
	if rapid.IntRange(0, 3).Draw(t, "whole") == 0 {
		nsec = 0
	}
	return wv{K: "time", W: rapid.SampledFrom(wvTimeForms(sec, nsec)).Draw(t, "timewire"), TS: sec, TN: nsec}
}

// wvGenScalar draws a msgpack scalar of any kind.
func wvGenScalar(t *rapid.T) wv {
	switch rapid.IntRange(0, 11).Draw(t, "scalarkind") {
	case 0, 1, 2:
		return wvGenInt(t)
	case 3:
		return wvGenF64(t)
	case 4:
		return wvGenF32(t)
	case 5, 6, 7:
		return wvGenStr(t)
	case 8:
		return wvGenBin(t)
	case 9:
		return wvBool(rapid.Bool().Draw(t, "bool"))
	case 10:
		return wvNil()
	default:
		return wvGenTime(t)
	}
}

var wvNestedKeys = []string{"a", "b", "k", "x.y", "", "meta.trace_id", "trace.trace_id", "0", "日本"}

func wvGenKeyWire(t *rapid.T, key string, allowBin bool) string {
	n := rapid.IntRange(0, 19).Draw(t, "keywire")
	switch {
	case n == 0 && allowBin:
		return "b8"
	case n == 1 && allowBin:
		return "b16"
	case n == 2:
		return "s8"
	case n == 3:
		return "s16"
	case n == 4:
		return "s32"
	}
	return ""
}

// wvGenValue draws a msgpack value with nesting up to depth.
func wvGenValue(t *rapid.T, depth int) wv {
	if depth <= 0 {
		return wvGenScalar(t)
	}
	switch rapid.IntRange(0, 9).Draw(t, "valkind") {
	case 0:
		n := rapid.IntRange(0, 4).Draw(t, "arrlen")
		if rapid.IntRange(0, 19).Draw(t, "arrbig") == 0 {
			n = rapid.SampledFrom([]int{15, 16, 17}).Draw(t, "arrn")
		}
		out := wv{K: "arr", A: []wv{}}
		for i := 0; i < n; i++ {
			out.A = append(out.A, wvGenValue(t, depth-1))
		}
		out.W = rapid.SampledFrom([]string{"", "", "", "a16", "a32"}).Draw(t, "arrwire")
		return out
	case 1:
		n := rapid.IntRange(0, 4).Draw(t, "maplen")
		keys := rapid.Permutation(wvNestedKeys).Draw(t, "mapkeys")[:n]
		out := wv{K: "map", M: []wkv{}}
		for _, k := range keys {
			out.M = append(out.M, wkv{Key: k, KW: wvGenKeyWire(t, k, false), V: wvGenValue(t, depth-1)})
		}
		out.W = rapid.SampledFrom([]string{"", "", "", "m16", "m32"}).Draw(t, "mapwire")
		return out
	default:
		return wvGenScalar(t)
	}
}

// ---- JSON side

var wvJNumPool = []string{"0", "-0", "1", "-1", "200", "200.0", "2e2", "2E+2", "1.5", "0.1", "-0.1", "1e21", "1e-7", "123456789.125", "9007199254740993",
	"18446744073709551615", "1.7976931348623157e308", "5e-324", "0.30000000000000004", "3.141592653589793", "404", "1535589382641", "0.000001", "1.0", "100000000000000000000",
	"4.35", "0.000123456789012345678", "123456789012345678901234567890", "2.2250738585072011e-308", "1.00000000000000011102230246251565404236316680908203125"}

func wvGenJNum(t *rapid.T) wv {
	switch rapid.IntRange(0, 5).Draw(t, "jnumsrc") {
	case 0:
		return wvJNum(strconv.FormatInt(rapid.Int64().Draw(t, "jint"), 10))
	case 1:
		return wvJNum(strconv.FormatFloat(rapid.Float64().Filter(func(f float64) bool { return !math.IsInf(f, 0) && !math.IsNaN(f) }).Draw(t, "jfloat"), 'g', -1, 64))
	default:
		return wvJNum(rapid.SampledFrom(wvJNumPool).Draw(t, "jnump"))
	}
}

func wvGenJSONValue(t *rapid.T, depth int) wv {
	k := rapid.IntRange(0, 11).Draw(t, "jkind")
	if depth <= 0 && k <= 1 {
		k = 2
	}
	switch k {
	case 0:
		n := rapid.IntRange(0, 4).Draw(t, "arrlen")
		out := wv{K: "arr", A: []wv{}}
		for i := 0; i < n; i++ {
			out.A = append(out.A, wvGenJSONValue(t, depth-1))
		}
		return out
	case 1:
		n := rapid.IntRange(0, 4).Draw(t, "maplen")
		keys := rapid.Permutation(wvNestedKeys).Draw(t, "mapkeys")[:n]
		out := wv{K: "map", M: []wkv{}}
		for _, key := range keys {
			out.M = append(out.M, wkv{Key: key, V: wvGenJSONValue(t, depth-1)})
		}
		return out
	case 2, 3, 4, 5:
		return wvGenJNum(t)
	case 6, 7, 8, 9:
		return wvStr(wvGenStrValue(t))
	case 10:
		return wvBool(rapid.Bool().Draw(t, "bool"))
	default:
		return wvNil()
	}
}
