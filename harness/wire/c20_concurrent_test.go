package wire

// C20, concurrent sub-mode: G client goroutines, released together by a barrier
// in each of R rounds, post batches of the SAME shape (same field names, same
// value lengths, same number of events) whose values differ per request and
// event, against the one router; events are matched by a unique id field.
// Oracle unchanged: every forwarded event carries exactly the fields its own
// request sent (typed comparison), reserved meta.* names excepted.

import (
	"fmt"
	"os"
	"sort"

	"github.com/honeycombio/refinery/types"
	"github.com/honeycombio/refinery/verifharness/vkit"
	"pgregory.net/rapid"
)

type c20Conc struct {
	G       int      `json:"g"`
	Rounds  int      `json:"rounds"`
	Events  int      `json:"events"`
	Kinds   []string `json:"kinds"` // per goroutine: json-batch | msgpack-batch | json-event | msgpack-event
	InTrace bool     `json:"in_trace,omitempty"`
	Sampler bool     `json:"sampler,omitempty"` // sampler key fields v, n configured (memoized at ingest)
}

func genC20Conc(t *rapid.T) *c20Conc {
	cc := &c20Conc{}
	cc.G = rapid.SampledFrom([]int{2, 4, 4, 8}).Draw(t, "g")
	cc.Events = rapid.SampledFrom([]int{1, 2, 10, 20, 30, 50}).Draw(t, "nevents")
	cc.Rounds = 40
	if vkit.Thorough() {
		cc.Rounds = 100
	}
	kinds := rapid.SampledFrom([][]string{
		{"json-batch"}, {"json-batch"}, {"msgpack-batch"}, {"json-batch", "msgpack-batch"},
		{"json-batch", "json-batch", "json-event"}, {"json-event", "msgpack-event"}, {"json-batch", "json-batch", "msgpack-event", "msgpack-batch"},
	}).Draw(t, "kindmix")
	for i := 0; i < cc.G; i++ {
		cc.Kinds = append(cc.Kinds, kinds[i%len(kinds)])
	}
	cc.InTrace = rapid.Bool().Draw(t, "intrace")
	cc.Sampler = rapid.Bool().Draw(t, "sampler")
	return cc
}

func c20ConcData(cc *c20Conc, g, k, j int, jsonEnc bool) wv {
	id := fmt.Sprintf("g%02d-r%04d-e%02d", g, k, j)
	num := int64(100000 + g*10000 + (k%100)*100 + j) // six digits, distinct per (g, k mod 100, j)
	m := wv{K: "map", M: []wkv{{Key: "id", V: wvStr(id)}, {Key: "v", V: wvStr("value-of-" + id)}}}
	if jsonEnc {
		m.M = append(m.M, wkv{Key: "n", V: wvJNum(fmt.Sprint(num))})
	} else {
		m.M = append(m.M, wkv{Key: "n", V: wvInt(num, "i32")})
	}
	m.M = append(m.M, wkv{Key: "nested", V: wv{K: "map", M: []wkv{{Key: "a", V: wvStr("n-" + id)}}}})
	if cc.InTrace {
		m.M = append(m.M, wkv{Key: "trace.trace_id", V: wvStr(fmt.Sprintf("t%02d%04d", g, k))})
	}
	return m
}

func execC20Conc(rig *wireRig, c c20Case, res *vkit.Result) {
	cc := c.Conc
	if cc.G < 1 || cc.G > 16 || cc.Rounds < 1 || cc.Rounds > 2000 || cc.Events < 1 || cc.Events > 200 || len(cc.Kinds) != cc.G {
		return
	}
	res.Class(fmt.Sprintf("concurrent/G=%d", cc.G))
	onSpan := func(sp *types.Span) {
		sp.Data.Set(types.MetaRefineryReason, "verif")
		rig.up.EnqueueSpan(sp)
	}
	var samplerFields []string
	if cc.Sampler {
		samplerFields = []string{"v", "n", "nested"}
	}
	rig.begin(wireCaseCfg{TraceNames: []string{"trace.trace_id", "traceId"}, ParentNames: []string{"trace.parent_id", "parentId"},
		Samplers: c20Samplers(samplerFields), Direct: true, Compress: c.Compress, MaxBatch: 50, OnSpan: onSpan})

	type sent struct {
		data wv
		kind string
		g, k int
	}
	want := map[string]sent{}
	mk := func(g, k int) wireReq {
		kind := cc.Kinds[g]
		jsonEnc := kind == "json-batch" || kind == "json-event"
		n := cc.Events
		if kind == "json-event" || kind == "msgpack-event" {
			n = 1
		}
		var envs []wireEnvelope
		for j := 0; j < n; j++ {
			d := c20ConcData(cc, g, k, j, jsonEnc)
			want[fmt.Sprintf("g%02d-r%04d-e%02d", g, k, j)] = sent{d, kind, g, k}
			envs = append(envs, wireEnvelope{SampleRate: 1, Data: d})
		}
		switch kind {
		case "json-event":
			return wireReq{Path: "/1/events/ds", ContentType: "application/json", Body: wvJSON(nil, envs[0].Data)}
		case "msgpack-event":
			return wireReq{Path: "/1/events/ds", ContentType: "application/msgpack", Body: wvEncode(nil, envs[0].Data)}
		case "msgpack-batch":
			return wireReq{Path: "/1/batch/ds", ContentType: "application/msgpack", Body: wireBatchMsgpack(envs)}
		}
		return wireReq{Path: "/1/batch/ds", ContentType: "application/json", Body: wireBatchJSON(envs)}
	}
	resps := rig.runConcurrent(cc.G, cc.Rounds, mk)
	rig.flush()
	retried := rig.sendRetries() > 0
	got, faults := rig.honey.take()
	_ = rig.log.take()
	for _, f := range faults {
		res.Violate("C20/concurrent-requests/forwarded-body-undecodable", "%s", f)
	}
	rejectedReq := map[[2]int]bool{}
	for k := range resps {
		if cc.G > 1 {
			res.Class("rounds-with-concurrency")
		}
		for g, r := range resps[k] {
			if r.Status != 200 {
				rejectedReq[[2]int{g, k}] = true
				res.Class("rejected/concurrent")
			}
		}
	}
	res.NonTrivial = true

	type bad struct{ sig, detail string }
	var bads []bad
	seen := map[string]int{}
	for _, he := range got {
		idv, ok := he.Data.get("id")
		if !ok || idv.K != "str" {
			bads = append(bads, bad{"C20/concurrent-requests/id-field-lost-or-altered/unknown", fmt.Sprintf("forwarded event without a usable id: %s", he.Data)})
			continue
		}
		s, ok := want[idv.S]
		if !ok {
			bads = append(bads, bad{"C20/concurrent-requests/id-field-lost-or-altered/unknown", fmt.Sprintf("forwarded event with an id nobody sent: %s", he.Data)})
			continue
		}
		seen[idv.S]++
		jsonEnc := s.kind == "json-batch" || s.kind == "json-event"
		outIdx := map[string]wv{}
		for _, kv := range he.Data.M {
			if _, dup := outIdx[kv.Key]; dup && !c20Reserved[kv.Key] {
				bads = append(bads, bad{"C20/concurrent-requests/field-duplicated/" + s.kind, fmt.Sprintf("event %s: field %q twice: %s", idv.S, kv.Key, he.Data)})
			}
			outIdx[kv.Key] = kv.V
		}
		inKeys := map[string]bool{}
		for _, kv := range s.data.M {
			inKeys[kv.Key] = true
			w := kv.V
			if jsonEnc {
				w = wvJSONExpect(kv.V)
			}
			g, ok := outIdx[kv.Key]
			if !ok {
				bads = append(bads, bad{"C20/concurrent-requests/field-lost/" + s.kind, fmt.Sprintf("event %s: field %q missing: %s", idv.S, kv.Key, he.Data)})
				continue
			}
			if what, path := wvDiff(w, g); what != "" {
				bads = append(bads, bad{"C20/concurrent-requests/" + what + "/" + s.kind, fmt.Sprintf("event %s: field %q%s sent as %s arrived as %s", idv.S, kv.Key, path, kv.V, g)})
			}
		}
		for _, kv := range he.Data.M {
			if !inKeys[kv.Key] && !c20Reserved[kv.Key] {
				bads = append(bads, bad{"C20/concurrent-requests/field-added/" + s.kind, fmt.Sprintf("event %s: field %q = %s was not sent", idv.S, kv.Key, kv.V)})
			}
		}
	}
	for id, s := range want {
		switch {
		case rejectedReq[[2]int{s.g, s.k}]:
		case seen[id] == 0:
			bads = append(bads, bad{"C20/concurrent-requests/accepted-event-not-forwarded/" + s.kind, "event " + id + " never reached Honeycomb"})
		case seen[id] > 1 && retried:
			// the transmission re-sent a batch after a client-side timeout: the upstream may
			// have processed both copies. A wall-clock effect of an overloaded machine.
			res.Class("inconclusive-timing/batch-resent-after-http-timeout")
		case seen[id] > 1:
			bads = append(bads, bad{"C20/concurrent-requests/event-forwarded-more-than-once/" + s.kind, "event " + id + " reached Honeycomb more than once"})
		}
	}
	sort.Slice(bads, func(i, j int) bool {
		if bads[i].sig != bads[j].sig {
			return bads[i].sig < bads[j].sig
		}
		return bads[i].detail < bads[j].detail
	})
	replay := os.Getenv("VERIF_REPLAY") != ""
	last := ""
	for _, b := range bads {
		if b.sig == last {
			continue
		}
		last = b.sig
		msg := fmt.Sprintf("%d goroutines x %d rounds of same-shaped requests %v with %d events each: a forwarded event does not carry exactly the fields its own request sent", cc.G, cc.Rounds, cc.Kinds, cc.Events)
		if replay {
			msg += "; e.g. " + b.detail
		}
		res.Violate(b.sig, "%s", msg)
	}
}
