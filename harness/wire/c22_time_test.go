package wire

// C22: Event timestamps are preserved exactly.
//
// Generated instants between 2001-09-09T01:46:40Z and 2286-11-20T17:46:39Z at
// s / ms / us / ns resolution are given to a real route.Router as RFC 3339
// (0-9 fractional digits, Z or numeric offset), as 10/13/16/19-digit integer
// epoch (event-time header of single JSON/msgpack events, "time" string of JSON
// batch elements) or as msgpack timestamp 32/64/96 ("time" of msgpack batch
// elements), travel through the router (directly upstream, or through the
// collector stand-in, optionally over a peer hop) and a real
// transmit.DirectTransmission, and are read from the "time" member of the batch
// received by the fake Honeycomb with the independent decoder.
// Oracle: the forwarded instant equals the supplied instant to the nanosecond.

import (
	"fmt"
	"strings"
	"testing"
	"time"

	"github.com/honeycombio/refinery/types"
	"github.com/honeycombio/refinery/verifharness/vkit"
	"pgregory.net/rapid"
)

type c22Event struct {
	Sec        int64  `json:"sec"`
	Nsec       int64  `json:"nsec"`
	Format     string `json:"format"`                // rfc3339 | epoch-s | epoch-ms | epoch-us | epoch-ns | msgpack-ts
	FracDigits int    `json:"frac_digits,omitempty"` // rfc3339: printed fractional digits (0 = none)
	OffsetMin  int    `json:"offset_min,omitempty"`  // rfc3339: zone offset in minutes
	NumericUTC bool   `json:"numeric_utc,omitempty"` // rfc3339 with offset 0 written +00:00 instead of Z
	TSWire     string `json:"ts_wire,omitempty"`     // msgpack-ts: t32 | t64 | t96
	InTrace    bool   `json:"in_trace,omitempty"`
	EnvOrder   int    `json:"env_order,omitempty"`
}

type c22Case struct {
	Encoding string     `json:"encoding"` // json-event | msgpack-event | json-batch | msgpack-batch
	PeerHop  bool       `json:"peer_hop,omitempty"`
	Compress bool       `json:"compress,omitempty"`
	MaxBatch int        `json:"max_batch,omitempty"`
	Events   []c22Event `json:"events"`
	Conc     *c22Conc   `json:"conc,omitempty"` // concurrent sub-mode (Events empty)
}

// one case in c22ConcEvery runs the concurrent sub-mode (see c22_concurrent_test.go)
const c22ConcEvery = 64

var c22Pow10 = []int64{1, 10, 100, 1000, 10000, 100000, 1000000, 10000000, 100000000, 1000000000}

// c22GenFrac draws a fraction with k decimal digits (0 <= value < 10^k), biased to boundaries.
func c22GenFrac(t *rapid.T, k int) int64 {
	if k == 0 {
		return 0
	}
	max := c22Pow10[k] - 1
	switch rapid.IntRange(0, 3).Draw(t, "fracsrc") {
	case 0:
		return rapid.SampledFrom([]int64{0, 1, max, max - 1, c22Pow10[k] / 2, c22Pow10[k-1], 641 % c22Pow10[k], 7 % c22Pow10[k]}).Draw(t, "fracb")
	default:
		return rapid.Int64Range(0, max).Draw(t, "frac")
	}
}

func genC22(t *rapid.T) c22Case {
	var c c22Case
	c.Encoding = rapid.SampledFrom(c21Encodings).Draw(t, "encoding")
	c.PeerHop = rapid.IntRange(0, 4).Draw(t, "peerhop") == 0
	c.Compress = rapid.Bool().Draw(t, "compress")
	c.MaxBatch = rapid.SampledFrom([]int{1, 2, 50}).Draw(t, "maxbatch")
	if rapid.Uint64().Draw(t, "concurrent")%c22ConcEvery == c22ConcEvery/2+1 {
		c.Encoding, c.PeerHop = "json-batch", false
		c.Conc = genC22Conc(t)
		return c
	}
	evGen := rapid.Custom(func(t *rapid.T) c22Event {
		var e c22Event
		e.Sec = wvGenSec(t)
		formats := []string{"rfc3339", "rfc3339", "epoch-s", "epoch-ms", "epoch-ms", "epoch-us", "epoch-us", "epoch-ns"}
		if c.Encoding == "msgpack-batch" {
			// string times in a msgpack batch make the router reject the whole batch: keep them rare
			formats = []string{"msgpack-ts", "msgpack-ts", "msgpack-ts", "msgpack-ts", "msgpack-ts", "msgpack-ts", "msgpack-ts", "msgpack-ts", "msgpack-ts",
				"msgpack-ts", "msgpack-ts", "msgpack-ts", "msgpack-ts", "msgpack-ts", "msgpack-ts", "msgpack-ts", "msgpack-ts", "msgpack-ts", "rfc3339", "epoch-ms"}
		}
		e.Format = rapid.SampledFrom(formats).Draw(t, "format")
		digits := 0
		switch e.Format {
		case "rfc3339":
			digits = rapid.SampledFrom([]int{0, 1, 3, 3, 6, 6, 9, 9, 2, 4, 5, 7, 8}).Draw(t, "fracdigits")
			e.FracDigits = digits
			if rapid.IntRange(0, 2).Draw(t, "zone") == 0 {
				e.OffsetMin = rapid.SampledFrom([]int{60, -60, 330, -480, 840, -720, 345, 1, -1, 0}).Draw(t, "offset")
				e.NumericUTC = e.OffsetMin == 0
			}
		case "epoch-ms":
			digits = 3
		case "epoch-us":
			digits = 6
		case "epoch-ns":
			digits = 9
		case "msgpack-ts":
			digits = rapid.SampledFrom([]int{0, 3, 6, 9, 9}).Draw(t, "tsdigits")
		}
		e.Nsec = c22GenFrac(t, digits) * c22Pow10[9-digits]
		if e.Format == "msgpack-ts" {
			e.TSWire = rapid.SampledFrom(wvTimeForms(e.Sec, e.Nsec)).Draw(t, "tswire")
		}
		e.InTrace = rapid.Bool().Draw(t, "intrace")
		e.EnvOrder = rapid.IntRange(0, 5).Draw(t, "envorder")
		return e
	})
	c.Events = rapid.SliceOfN(evGen, 1, 3).Draw(t, "events")
	return c
}

// c22Text renders the instant in the event's textual format.
func c22Text(e c22Event) string {
	switch e.Format {
	case "epoch-s":
		return fmt.Sprintf("%010d", e.Sec)
	case "epoch-ms":
		return fmt.Sprintf("%010d%03d", e.Sec, e.Nsec/1_000_000)
	case "epoch-us":
		return fmt.Sprintf("%010d%06d", e.Sec, e.Nsec/1_000)
	case "epoch-ns":
		return fmt.Sprintf("%010d%09d", e.Sec, e.Nsec)
	case "rfc3339":
		// written by hand (not with time.Format) so that the oracle does not depend on the library refinery parses with
		local := e.Sec + int64(e.OffsetMin)*60
		days := local / 86400
		rem := local % 86400
		y, m, d := c22CivilFromDays(days)
		s := fmt.Sprintf("%04d-%02d-%02dT%02d:%02d:%02d", y, m, d, rem/3600, rem%3600/60, rem%60)
		if e.FracDigits > 0 {
			s += "." + fmt.Sprintf("%09d", e.Nsec)[:e.FracDigits]
		}
		switch {
		case e.OffsetMin == 0 && !e.NumericUTC:
			s += "Z"
		default:
			sign, o := '+', e.OffsetMin
			if o < 0 {
				sign, o = '-', -o
			}
			s += fmt.Sprintf("%c%02d:%02d", sign, o/60, o%60)
		}
		return s
	}
	return ""
}

// c22CivilFromDays converts days since 1970-01-01 to a proleptic Gregorian date
// (Howard Hinnant's algorithm), independent of package time.
func c22CivilFromDays(z int64) (y int64, m int64, d int64) {
	z += 719468
	era := z / 146097
	if z < 0 {
		era = (z - 146096) / 146097
	}
	doe := z - era*146097
	yoe := (doe - doe/1460 + doe/36524 - doe/146096) / 365
	y = yoe + era*400
	doy := doe - (365*yoe + yoe/4 - yoe/100)
	mp := (5*doy + 2) / 153
	d = doy - (153*mp+2)/5 + 1
	if mp < 10 {
		m = mp + 3
	} else {
		m = mp - 9
	}
	if m <= 2 {
		y++
	}
	return
}

func c22Data(e c22Event, i int, jsonEnc bool) wv {
	m := wv{K: "map", M: []wkv{{Key: "name", V: wvStr("x")}}}
	if e.InTrace {
		m.M = append(m.M, wkv{Key: "trace.trace_id", V: wvStr(fmt.Sprintf("t%d", i))})
	}
	return m
}

func c22Send(rig *wireRig, c c22Case) (rejected map[int]string) {
	rejected = map[int]string{}
	jsonEnc := strings.HasPrefix(c.Encoding, "json")
	switch c.Encoding {
	case "json-event", "msgpack-event":
		for i, e := range c.Events {
			q := wireReq{Path: "/1/events/ds", Headers: map[string]string{"X-Honeycomb-Samplerate": fmt.Sprint(1000 + i), "X-Honeycomb-Event-Time": c22Text(e)}}
			if jsonEnc {
				q.ContentType = "application/json"
				q.Body = wvJSON(nil, c22Data(e, i, true))
			} else {
				q.ContentType = "application/msgpack"
				q.Body = wvEncode(nil, c22Data(e, i, false))
			}
			if resp := rig.post(q); resp.Status != 200 {
				rejected[i] = fmt.Sprintf("status %d %s %s", resp.Status, resp.Body, resp.Err)
			}
		}
	default:
		var envs []wireEnvelope
		for i, e := range c.Events {
			var tv wv
			if e.Format == "msgpack-ts" {
				tv = wv{K: "time", W: e.TSWire, TS: e.Sec, TN: e.Nsec}
			} else {
				tv = wvStr(c22Text(e))
			}
			envs = append(envs, wireEnvelope{Time: &tv, SampleRate: int64(1000 + i), Data: c22Data(e, i, jsonEnc), Order: e.EnvOrder})
		}
		q := wireReq{Path: "/1/batch/ds"}
		if jsonEnc {
			q.ContentType = "application/json"
			q.Body = wireBatchJSON(envs)
		} else {
			q.ContentType = "application/msgpack"
			q.Body = wireBatchMsgpack(envs)
		}
		resp := rig.post(q)
		st := wireBatchStatuses(resp.Body)
		for i := range c.Events {
			if resp.Status != 200 || len(st) != len(c.Events) {
				rejected[i] = fmt.Sprintf("status %d %s %s", resp.Status, resp.Body, resp.Err)
			} else if st[i] != 202 {
				rejected[i] = fmt.Sprintf("event status %d: %s", st[i], resp.Body)
			}
		}
	}
	return rejected
}

func execC22(c c22Case) vkit.Result {
	var res vkit.Result
	rig, err := wireGetRig()
	if err != nil {
		panic(err)
	}
	rig.caseMu.Lock()
	defer rig.caseMu.Unlock()

	if c.Conc != nil {
		execC22Conc(rig, c, &res)
		return res
	}
	carrier := map[string]string{"json-event": "header/json-event", "msgpack-event": "header/msgpack-event",
		"json-batch": "batch-time/json-batch", "msgpack-batch": "batch-time/msgpack-batch"}[c.Encoding]
	res.Class("enc=" + c.Encoding)

	onSpan := func(sp *types.Span) { rig.up.EnqueueSpan(sp) }
	cc := wireCaseCfg{TraceNames: []string{"trace.trace_id", "traceId"}, ParentNames: []string{"trace.parent_id", "parentId"},
		Direct: true, Compress: c.Compress, MaxBatch: c.MaxBatch, OnSpan: onSpan}
	var rejected map[int]string
	var final []wireHoneyEvent
	var faults []string
	hopped := map[int]bool{}
	if !c.PeerHop {
		rig.begin(cc)
		rejected = c22Send(rig, c)
		rig.flush()
		final, faults = rig.honey.take()
	} else {
		cc1 := cc
		cc1.PeerAddr = rig.honey.srv.URL
		for i := range c.Events {
			cc1.PeerTraces = append(cc1.PeerTraces, fmt.Sprintf("t%d", i))
		}
		rig.begin(cc1)
		rejected = c22Send(rig, c)
		peerRates := map[int64]bool{}
		for _, ev := range rig.peer.take() {
			peerRates[int64(ev.SampleRate)] = true
		}
		rig.flush()
		got, f1 := rig.honey.take()
		faults = append(faults, f1...)
		envs := wv{K: "arr"}
		for _, he := range got {
			if he.SampleRate.isInteger() && peerRates[he.SampleRate.I] {
				envs.A = append(envs.A, he.Envelope)
				hopped[int(he.SampleRate.I)-1000] = true
			} else {
				final = append(final, he)
			}
		}
		rig.begin(cc)
		if len(envs.A) > 0 {
			resp := rig.post(wireReq{Path: "/1/batch/ds", ContentType: "application/msgpack", Body: wvEncode(nil, envs)})
			if resp.Status != 200 {
				res.Violate("C22/peer-batch-rejected/"+carrier, "peer hop: the batch refinery forwarded to its peer is rejected by refinery: %d %s", resp.Status, resp.Body)
			}
		}
		rig.flush()
		got2, f2 := rig.honey.take()
		faults = append(faults, f2...)
		final = append(final, got2...)
	}
	_ = rig.log.take()
	for _, f := range faults {
		res.Violate("C22/forwarded-body-undecodable/"+carrier, "%s", f)
	}
	byRate := map[int][]wireHoneyEvent{}
	for _, he := range final {
		if he.SampleRate.isInteger() {
			byRate[int(he.SampleRate.I)-1000] = append(byRate[int(he.SampleRate.I)-1000], he)
		}
	}

	for i, e := range c.Events {
		format := e.Format
		switch {
		case e.Format == "msgpack-ts":
			format = "msgpack-timestamp" + e.TSWire[1:]
		case e.Format == "rfc3339" && e.FracDigits > 0:
			format = fmt.Sprintf("rfc3339-%d-fraction-digits", e.FracDigits)
		}
		if e.Format == "rfc3339" && (e.OffsetMin != 0 || e.NumericUTC) {
			format += "-with-offset"
		}
		res.Class("format=" + e.Format)
		if e.Nsec != 0 {
			res.NonTrivial = true
		}
		if _, ok := rejected[i]; ok {
			res.Class("rejected/" + e.Format + "/" + c.Encoding)
			continue
		}
		route := "direct"
		if e.InTrace {
			route = "collected"
		}
		if hopped[i] {
			route += "+peer-hop"
		}
		outs := byRate[i]
		if len(outs) == 0 {
			res.Class("accepted-but-not-forwarded")
			continue
		}
		supplied := c22Text(e)
		if e.Format == "msgpack-ts" {
			supplied = fmt.Sprintf("msgpack %s(%d.%09d)", e.TSWire, e.Sec, e.Nsec)
		}
		want := time.Unix(e.Sec, e.Nsec).UTC().Format(time.RFC3339Nano)
		o := outs[0]
		switch {
		case !o.HasTime:
			res.Violate(fmt.Sprintf("C22/time-missing/%s/%s/%s", format, carrier, route), "event %d: time %q supplied, forwarded event has no time member: %s", i, supplied, o.Envelope)
		case o.Time.K != "time":
			res.Violate(fmt.Sprintf("C22/time-not-a-timestamp/%s/%s/%s", format, carrier, route), "event %d: time %q supplied, forwarded time is %s", i, supplied, o.Time)
		case o.Time.TS != e.Sec || o.Time.TN != e.Nsec:
			diff := (o.Time.TS-e.Sec)*1_000_000_000 + (o.Time.TN - e.Nsec)
			if o.Time.TS-e.Sec > 9 || e.Sec-o.Time.TS > 9 {
				diff = (o.Time.TS - e.Sec) * 1_000_000_000 // avoid overflow, magnitude only
			}
			if diff < 0 {
				diff = -diff
			}
			mag := ">=1s"
			switch {
			case diff < 1_000:
				mag = "<1us"
			case diff < 1_000_000:
				mag = "<1ms"
			case diff < 1_000_000_000:
				mag = "<1s"
			}
			got := time.Unix(o.Time.TS, o.Time.TN).UTC().Format(time.RFC3339Nano)
			res.Violate(fmt.Sprintf("C22/instant-differs/%s/off-by-%s/%s/%s", format, mag, carrier, route),
				"event %d: supplied time %q = %s (%d.%09d), forwarded %s (%d.%09d)", i, supplied, want, e.Sec, e.Nsec, got, o.Time.TS, o.Time.TN)
		}
	}
	return res
}

func TestC22(t *testing.T) {
	if _, err := wireGetRig(); err != nil {
		t.Fatalf("cannot start the router rig: %v", err)
	}
	vkit.Run(t, vkit.Spec[c22Case]{
		ID: "C22",
		Rule: "rapid-generated instants (seconds 1e9..1e10-1 boundary-biased, fraction boundary-biased at s/ms/us/ns resolution) supplied as RFC 3339 with 0-9 fractional digits and Z / numeric offsets, as 10/13/16/19-digit integer epoch (X-Honeycomb-Event-Time header of single JSON and msgpack events, time string of JSON batch elements) or as msgpack timestamp 32/64/96 (time of msgpack batch elements; RFC 3339 / epoch strings there are judged only if accepted), 1-3 events per case, routed directly upstream or through the collector stand-in, optionally over a peer hop, forwarded by a real DirectTransmission (zstd or not, max batch 1/2/50); the time member of the batch received by the fake Honeycomb is decoded with the independent msgpack decoder. Oracle: (seconds, nanoseconds) equality. About 1 case in 85 runs the concurrent sub-mode instead: 2/4/8 client goroutines released by a barrier in each of 60 (thorough 120) rounds post same-shaped requests (JSON batches of 1-50 events with 30-character RFC 3339 times, msgpack batches and event-time-header events as controls; every event tagged with a unique id) and each forwarded time must be the one its own request supplied. Non-trivial: an event with sub-second part != 0. Distinct = distinct case JSON.",
		Assumptions: []string{
			"only the formats the statement lists are generated; float epochs (1535589382.641) and OTLP timestamps are outside the statement",
			"RFC 3339 text is produced by the harness's own civil-date routine, not by package time",
			"events the router rejects are counted, not judged",
			"concurrent sub-mode: verdicts come only from observed values (matched by a unique id); whether two requests really overlapped inside refinery is not observable, rounds with G>1 are counted as rounds-with-concurrency",
		},
		Gen:  genC22,
		Exec: execC22,
	})
}
