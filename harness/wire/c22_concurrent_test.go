package wire

// C22, concurrent sub-mode: G client goroutines, released together by a barrier
// in each of R rounds, post requests of the SAME shape (same field names and
// lengths, same number of events, time strings of identical length) but with
// different instants and a unique id per event, against the one router. This
// reaches state that requests share inside refinery (pooled parsers and
// buffers). Oracle unchanged: the time forwarded for an event is the instant
// its own request supplied (matched by the unique id). Verdicts come only from
// observed values.

import (
	"fmt"
	"os"
	"sort"

	"github.com/honeycombio/refinery/types"
	"github.com/honeycombio/refinery/verifharness/vkit"
	"pgregory.net/rapid"
)

type c22Conc struct {
	G       int      `json:"g"`      // client goroutines per round
	Rounds  int      `json:"rounds"` // rounds
	Events  int      `json:"events"` // events per batch request
	Kinds   []string `json:"kinds"`  // per goroutine: json-batch | msgpack-batch | json-event (event-time header)
	BaseSec int64    `json:"base_sec"`
	InTrace bool     `json:"in_trace,omitempty"`
}

func genC22Conc(t *rapid.T) *c22Conc {
	cc := &c22Conc{}
	cc.G = rapid.SampledFrom([]int{2, 4, 4, 8}).Draw(t, "g")
	cc.Events = rapid.SampledFrom([]int{1, 2, 10, 20, 30, 50}).Draw(t, "nevents")
	cc.Rounds = c22ConcRounds()
	kinds := rapid.SampledFrom([][]string{
		{"json-batch"}, {"json-batch"}, {"json-batch", "json-batch", "json-batch", "msgpack-batch"},
		{"json-batch", "json-batch", "json-event"}, {"msgpack-batch"}, {"json-event", "msgpack-batch"},
	}).Draw(t, "kindmix")
	for i := 0; i < cc.G; i++ {
		cc.Kinds = append(cc.Kinds, kinds[i%len(kinds)])
	}
	cc.BaseSec = rapid.SampledFrom([]int64{1_000_000_000, 1_535_589_382, 1_700_000_000, 4_294_967_000, 9_000_000_000}).Draw(t, "basesec")
	cc.InTrace = rapid.Bool().Draw(t, "intrace")
	return cc
}

func c22ConcRounds() int {
	if vkit.Thorough() {
		return 120
	}
	return 60
}

// instant and id of event j of goroutine g in round k: all distinct, identical textual length
func c22ConcInstant(cc *c22Conc, g, k, j int) (sec, nsec int64) {
	return cc.BaseSec + int64(k)*1000 + int64(g)*100 + int64(j), int64(g+1)*100_000_000 + int64(k)*1000 + int64(j)
}
func c22ConcID(g, k, j int) string { return fmt.Sprintf("g%02d-r%04d-e%02d", g, k, j) }

func execC22Conc(rig *wireRig, c c22Case, res *vkit.Result) {
	cc := c.Conc
	if cc.G < 1 || cc.G > 16 || cc.Rounds < 1 || cc.Rounds > 2000 || cc.Events < 1 || cc.Events > 200 || len(cc.Kinds) != cc.G {
		return
	}
	res.Class(fmt.Sprintf("concurrent/G=%d", cc.G))
	onSpan := func(sp *types.Span) { rig.up.EnqueueSpan(sp) }
	rig.begin(wireCaseCfg{TraceNames: []string{"trace.trace_id", "traceId"}, ParentNames: []string{"trace.parent_id", "parentId"},
		Direct: true, Compress: c.Compress, MaxBatch: 50, OnSpan: onSpan})

	data := func(g, k, j int) wv {
		m := wv{K: "map", M: []wkv{{Key: "id", V: wvStr(c22ConcID(g, k, j))}, {Key: "name", V: wvStr("x")}}}
		if cc.InTrace {
			m.M = append(m.M, wkv{Key: "trace.trace_id", V: wvStr(fmt.Sprintf("t%02d%04d", g, k))})
		}
		return m
	}
	text := func(sec, nsec int64) string {
		return c22Text(c22Event{Sec: sec, Nsec: nsec, Format: "rfc3339", FracDigits: 9})
	}
	type supplied struct {
		sec, nsec int64
		kind      string
		g, k      int
	}
	want := map[string]supplied{}
	mk := func(g, k int) wireReq {
		kind := cc.Kinds[g]
		switch kind {
		case "json-event":
			sec, nsec := c22ConcInstant(cc, g, k, 0)
			want[c22ConcID(g, k, 0)] = supplied{sec, nsec, kind, g, k}
			return wireReq{Path: "/1/events/ds", ContentType: "application/json", Body: wvJSON(nil, data(g, k, 0)),
				Headers: map[string]string{"X-Honeycomb-Event-Time": text(sec, nsec)}}
		default:
			var envs []wireEnvelope
			for j := 0; j < cc.Events; j++ {
				sec, nsec := c22ConcInstant(cc, g, k, j)
				want[c22ConcID(g, k, j)] = supplied{sec, nsec, kind, g, k}
				var tv wv
				if kind == "msgpack-batch" {
					tv = wv{K: "time", W: "t96", TS: sec, TN: nsec}
				} else {
					tv = wvStr(text(sec, nsec))
				}
				envs = append(envs, wireEnvelope{Time: &tv, SampleRate: 1, Data: data(g, k, j)})
			}
			if kind == "msgpack-batch" {
				return wireReq{Path: "/1/batch/ds", ContentType: "application/msgpack", Body: wireBatchMsgpack(envs)}
			}
			return wireReq{Path: "/1/batch/ds", ContentType: "application/json", Body: wireBatchJSON(envs)}
		}
	}
	resps := rig.runConcurrent(cc.G, cc.Rounds, mk) // mk is called on this goroutine, before the barrier
	rig.flush()
	got, faults := rig.honey.take()
	_ = rig.log.take()
	for _, f := range faults {
		res.Violate("C22/forwarded-body-undecodable/concurrent-requests", "%s", f)
	}
	rejectedReq := map[[2]int]bool{}
	for k := range resps {
		if cc.G > 1 {
			res.Class("rounds-with-concurrency")
		}
		for g, r := range resps[k] {
			if r.Status != 200 {
				rejectedReq[[2]int{g, k}] = true
				res.Class("rejected/concurrent")
			}
		}
	}
	res.NonTrivial = true

	// all instants supplied in one round, to tell whose time a wrong one is
	type owner struct{ id string }
	byInstant := map[[2]int64]string{}
	for id, s := range want {
		byInstant[[2]int64{s.sec, s.nsec}] = id
	}
	seen := map[string]int{}
	type bad struct{ sig, detail string }
	var bads []bad
	for _, he := range got {
		idv, ok := he.Data.get("id")
		if !ok || idv.K != "str" {
			continue
		}
		id := idv.S
		s, ok := want[id]
		if !ok {
			continue
		}
		seen[id]++
		carrier := map[string]string{"json-batch": "batch-time/json-batch", "msgpack-batch": "batch-time/msgpack-batch", "json-event": "header/json-event"}[s.kind]
		switch {
		case !he.HasTime || he.Time.K != "time":
			bads = append(bads, bad{"C22/concurrent-requests/time-missing-or-not-a-timestamp/" + carrier, fmt.Sprintf("event %s: forwarded time is %s", id, he.Time)})
		case he.Time.TS != s.sec || he.Time.TN != s.nsec:
			what := "garbled-or-foreign-instant"
			other := byInstant[[2]int64{he.Time.TS, he.Time.TN}]
			if other != "" {
				o := want[other]
				switch {
				case o.g == s.g && o.k == s.k:
					what = "time-of-another-event-of-the-same-request"
				case o.k == s.k:
					what = "time-of-a-concurrent-request"
				default:
					what = "time-of-an-earlier-or-later-request"
				}
			} else if he.Time.TS < 0 {
				what = "zero-time"
			}
			bads = append(bads, bad{"C22/concurrent-requests/" + what + "/" + carrier,
				fmt.Sprintf("event %s supplied %d.%09d, forwarded %d.%09d (that instant belongs to %q)", id, s.sec, s.nsec, he.Time.TS, he.Time.TN, other)})
		}
	}
	missing := 0
	for id, s := range want {
		if seen[id] == 0 && !rejectedReq[[2]int{s.g, s.k}] {
			missing++
		}
	}
	if missing > 0 {
		res.Class("accepted-but-not-forwarded/concurrent")
	}
	// one violation per signature; the message is a function of the case only (rapid compares
	// messages while shrinking) except in replay mode, where an example is shown
	sort.Slice(bads, func(i, j int) bool {
		if bads[i].sig != bads[j].sig {
			return bads[i].sig < bads[j].sig
		}
		return bads[i].detail < bads[j].detail
	})
	replay := os.Getenv("VERIF_REPLAY") != ""
	last := ""
	for _, b := range bads {
		if b.sig == last {
			continue
		}
		last = b.sig
		msg := fmt.Sprintf("%d goroutines x %d rounds of same-shaped requests %v with %d events each: an event was forwarded with a time other than the one its request supplied", cc.G, cc.Rounds, cc.Kinds, cc.Events)
		if replay {
			msg += "; e.g. " + b.detail
		}
		res.Violate(b.sig, "%s", msg)
	}
}
