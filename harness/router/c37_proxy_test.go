package router

import (
	"bytes"
	"compress/gzip"
	"fmt"
	"net"
	"net/http"
	"strings"
	"testing"
	"time"

	"pgregory.net/rapid"

	"github.com/honeycombio/refinery/config"
	"github.com/honeycombio/refinery/verifharness/vkit"
)

// C37: requests on paths Refinery does not handle itself are relayed to the
// Honeycomb API with the same method, path, query, body and header values (plus
// X-Forwarded-For), and the upstream status, headers and body are returned to the
// client unchanged.

type c37Hdr struct {
	N string `json:"n"`
	V string `json:"v"`
}

type c37Up struct {
	Status   int      `json:"status"`
	Headers  []c37Hdr `json:"headers,omitempty"`
	Body     []byte   `json:"body,omitempty"`
	Gzip     bool     `json:"gzip,omitempty"`     // only honoured when the client asked for gzip
	Location string   `json:"location,omitempty"` // for 3xx
}

type c37Req struct {
	Listener   string   `json:"listener"`
	Method     string   `json:"method"`
	Path       string   `json:"path"`            // raw (already percent-encoded) path
	Query      string   `json:"query,omitempty"` // raw query without '?'
	ForceQuery bool     `json:"force_query,omitempty"`
	Headers    []c37Hdr `json:"headers,omitempty"`
	XFF        []string `json:"xff,omitempty"` // X-Forwarded-For lines sent by the client
	Body       []byte   `json:"body,omitempty"`
	// BigBody > 0: the body is BigBody bytes of BigFill (kept out of the case JSON; aimed at the 5,000,000 byte limit of the ingest handlers)
	BigBody int  `json:"big_body,omitempty"`
	BigFill byte `json:"big_fill,omitempty"`
	// ContentEnc: "" | gzip | zstd (Body really compressed that way) | gzip-label | zstd-label | br-label | deflate-label (opaque Body merely labelled)
	ContentEnc string `json:"content_enc,omitempty"`
	Chunked    bool   `json:"chunked,omitempty"`
	AcceptGzip bool     `json:"accept_gzip,omitempty"`
	Up         c37Up    `json:"up"`
}

type c37Case struct {
	Reqs []c37Req `json:"reqs"`
}

type c37Tmpl struct {
	parts   []string // literal parts; a variable segment goes between consecutive parts
	methods []string
}

var (
	c37All     = []string{"GET", "POST", "PUT", "DELETE", "PATCH", "HEAD", "OPTIONS"}
	c37NotPost = []string{"GET", "PUT", "DELETE", "PATCH", "HEAD", "OPTIONS"}
	c37NotGet  = []string{"POST", "PUT", "DELETE", "PATCH", "HEAD", "OPTIONS"}
	// paths the router does not register a handler for (route.go LnS)
	c37Tmpls = []c37Tmpl{
		{[]string{"/1/markers/", ""}, c37All},
		{[]string{"/1/markers/", "/", ""}, c37All},
		{[]string{"/1/auth"}, c37All},
		{[]string{"/1/events"}, c37All},
		{[]string{"/1/events/", ""}, c37NotPost},
		{[]string{"/1/batch/", ""}, c37NotPost},
		{[]string{"/1/kinesis_events/", ""}, c37All},
		{[]string{"/1/columns/", "/", ""}, c37All},
		{[]string{"/2/teams/", "/environments"}, c37All},
		{[]string{"/v1/metrics"}, c37All},
		{[]string{"/v1/traces"}, c37NotPost},
		{[]string{"/v1/logs"}, c37NotPost},
		{[]string{"/api/", "/", "/"}, c37All},
		{[]string{"/"}, c37All},
		{[]string{"/favicon.ico"}, c37All},
		{[]string{"/aliveness"}, c37All},
		{[]string{"/alive/", ""}, c37All},
		{[]string{"/versions/", ""}, c37All},
		{[]string{"/query"}, c37All},
		{[]string{"/query/trace/", ""}, c37NotGet},
	}
	c37SegAtoms = []string{"a", "b", "Z", "0", "9", "-", "_", ".", "~", "%20", "%2F", "%41", "%C3%A9", "%2f", "%7E", "+", ":", "@", "=", ",", ";", "!", "*", "'", "(", ")", "$", "&", "%25", "%3F", "%23"}
	c37QAtoms   = []string{"a=1", "b=%20x", "c=a+b", "d", "e=", "=f", "g=1&g=2", "h=%26", "i=%C3%A9", "x=1;y=2", "q=a%3Db", "z=/path/?x", "k=%41", "trace_id=abc"}
	c37ReqNames = []string{"X-Honeycomb-Team", "X-Honeycomb-Dataset", "Authorization", "Accept", "Content-Type", "X-Custom-Thing", "x-lower-case", "Cookie", "User-Agent", "Accept-Language", "If-None-Match", "Cache-Control", "X-Honeycomb-Event-Time", "Range", "X-Request-Id"}
	c37Values   = []string{"abc", "application/json", "text/plain; charset=utf-8", "a, b", "\"quoted,comma\"", "Bearer xyz.123", "k1=v1; k2=v2", "", "*/*", "W/\"etag\"", "x y  z", "1700000000", "no-cache", "bytes=0-99", "café"}
	c37RespName = []string{"Content-Type", "Ratelimit", "Retry-After", "Vary", "Link", "Cache-Control", "Etag", "X-Custom", "Access-Control-Allow-Origin", "X-Honeycomb-Trace", "Warning", "Www-Authenticate"}
	c37Statuses = []int{200, 200, 200, 201, 202, 204, 400, 401, 403, 404, 409, 422, 429, 500, 502, 503}
	c37Redirs   = []int{301, 302, 303, 307, 308}
)

func genC37(t *rapid.T) c37Case {
	seg := rapid.Custom(func(t *rapid.T) string {
		// starts and ends with a plain letter so that no decoded "//", "." or ".." appears (mux would answer 301 itself)
		mid := rapid.SliceOfN(rapid.SampledFrom(c37SegAtoms), 0, 4).Draw(t, "mid")
		for i, a := range mid {
			if strings.EqualFold(a, "%2F") {
				mid[i] = a + "k" // an encoded slash is always followed by a letter
			}
		}
		return rapid.SampledFrom([]string{"a", "ds", "X"}).Draw(t, "h") + strings.Join(mid, "") + rapid.SampledFrom([]string{"b", "1", "Z"}).Draw(t, "t")
	})
	hdr := func(names []string) *rapid.Generator[c37Hdr] {
		return rapid.Custom(func(t *rapid.T) c37Hdr {
			return c37Hdr{N: rapid.SampledFrom(names).Draw(t, "n"), V: rapid.SampledFrom(c37Values).Draw(t, "v")}
		})
	}
	body := rapid.Custom(func(t *rapid.T) []byte {
		switch rapid.IntRange(0, 4).Draw(t, "bodykind") {
		case 0:
			return nil
		case 1:
			return []byte(`{"message":"deploy","type":"marker"}`)
		case 2:
			return rapid.SliceOfN(rapid.Byte(), 1, 64).Draw(t, "bin")
		case 3:
			n := rapid.SampledFrom([]int{1, 511, 512, 513, 4095, 4096, 4097, 70000}).Draw(t, "n")
			return bytes.Repeat([]byte{byte(rapid.IntRange(0, 255).Draw(t, "fill"))}, n)
		}
		return []byte("plain text body\r\n\r\nHTTP/1.1 200 OK\r\n\r\n")
	})
	reqGen := rapid.Custom(func(t *rapid.T) c37Req {
		var r c37Req
		r.Listener = rapid.SampledFrom([]string{"incoming", "incoming", "peer"}).Draw(t, "listener")
		tm := rapid.SampledFrom(c37Tmpls).Draw(t, "tmpl")
		r.Method = rapid.SampledFrom(tm.methods).Draw(t, "method")
		var p strings.Builder
		for i, part := range tm.parts {
			if i > 0 {
				p.WriteString(seg.Draw(t, "seg"))
			}
			p.WriteString(part)
		}
		r.Path = p.String()
		if r.Path != "/" && !strings.HasSuffix(r.Path, "/") && rapid.IntRange(0, 7).Draw(t, "slash") == 0 {
			r.Path += "/"
		}
		switch rapid.IntRange(0, 4).Draw(t, "qkind") {
		case 0, 1:
		case 2:
			r.ForceQuery = true
		default:
			r.Query = strings.Join(rapid.SliceOfN(rapid.SampledFrom(c37QAtoms), 1, 4).Draw(t, "q"), "&")
		}
		r.Headers = rapid.SliceOfN(hdr(c37ReqNames), 0, 6).Draw(t, "headers")
		r.XFF = rapid.SliceOfN(rapid.SampledFrom([]string{"10.1.2.3", "10.1.2.3, 172.16.0.9", "2001:db8::1", "203.0.113.7"}), 0, 2).Draw(t, "xff")
		r.Body = body.Draw(t, "body")
		if len(r.Body) > 0 && rapid.IntRange(0, 2).Draw(t, "hasenc") == 0 {
			r.ContentEnc = rapid.SampledFrom([]string{"gzip", "zstd", "gzip-label", "zstd-label", "br-label", "deflate-label"}).Draw(t, "content_enc")
		}
		if rapid.IntRange(0, 149).Draw(t, "big") == 77 {
			r.Body = nil
			r.BigBody = rapid.SampledFrom([]int{4_999_999, 5_000_000, 5_000_001, 5_000_001, 5_300_000}).Draw(t, "bigsize")
			r.BigFill = byte(rapid.IntRange(1, 255).Draw(t, "bigfill"))
		}
		r.Chunked = (len(r.Body) > 0 || r.BigBody > 0) && rapid.IntRange(0, 3).Draw(t, "chunked") == 0
		r.AcceptGzip = rapid.IntRange(0, 3).Draw(t, "acceptgzip") == 0
		if rapid.IntRange(0, 11).Draw(t, "redir") == 0 {
			r.Up.Status = rapid.SampledFrom(c37Redirs).Draw(t, "rstatus")
			r.Up.Location = "/1/elsewhere"
		} else {
			r.Up.Status = rapid.SampledFrom(c37Statuses).Draw(t, "status")
		}
		r.Up.Headers = rapid.SliceOfN(hdr(c37RespName), 0, 6).Draw(t, "upheaders")
		if r.Up.Status != 204 {
			r.Up.Body = body.Draw(t, "upbody")
		}
		r.Up.Gzip = r.AcceptGzip && len(r.Up.Body) > 0 && rapid.Bool().Draw(t, "upgzip")
		return r
	})
	return c37Case{Reqs: rapid.SliceOfN(reqGen, 1, 4).Draw(t, "reqs")}
}

// c37List: HTTP list semantics - several field lines and one comma-joined line are the same thing.
func c37List(vals []string) []string {
	var out []string
	for _, v := range vals {
		for _, p := range strings.Split(v, ",") {
			out = append(out, strings.Trim(p, " \t"))
		}
	}
	return out
}

func c37Group(hs []c37Hdr) (map[string][]string, []string) {
	m := map[string][]string{}
	var order []string
	for _, h := range hs {
		k := http.CanonicalHeaderKey(h.N)
		if _, ok := m[k]; !ok {
			order = append(order, k)
		}
		m[k] = append(m[k], h.V)
	}
	return m, order
}

func c37Eq(a, b []string) bool {
	if len(b) == 0 {
		// a header that carries only empty values says the same as no header
		for _, v := range a {
			if v != "" {
				return false
			}
		}
		return true
	}
	if len(a) != len(b) {
		return false
	}
	for i := range a {
		if a[i] != b[i] {
			return false
		}
	}
	return true
}

func c37Chunk(b []byte) []byte {
	var out bytes.Buffer
	sizes := []int{1, 7, 300, 4096}
	for i := 0; len(b) > 0; i++ {
		n := sizes[i%len(sizes)]
		if n > len(b) {
			n = len(b)
		}
		fmt.Fprintf(&out, "%x\r\n", n)
		out.Write(b[:n])
		out.WriteString("\r\n")
		b = b[n:]
	}
	out.WriteString("0\r\n\r\n")
	return out.Bytes()
}

var c37UpstreamExtrasOK = map[string]bool{"X-Forwarded-For": true, "Accept-Encoding": true, "User-Agent": true, "Content-Length": true, "Connection": true}
var c37ClientExtrasOK = map[string]bool{"Access-Control-Allow-Origin": true, "Content-Type": true, "Date": true, "Content-Length": true, "Connection": true, "Transfer-Encoding": true}

func execC37(c c37Case) vkit.Result {
	var res vkit.Result
	defer rtScrub(&res)
	fake := rtNewFake()
	fake.plainAuth = true
	defer fake.Close()
	rec := &rtRecorder{}
	cfg := &config.MockConfig{
		GetHoneycombAPIVal: fake.URL,
		TraceIdFieldNames:  []string{"trace.trace_id"},
		ParentIdFieldNames: []string{"trace.parent_id"},
	}
	node, err := rtStartNode(rtNodeOpts{
		Cfg: cfg, Upstream: &rtRecTransmission{"upstream", rec}, Peer: &rtRecTransmission{"peer", rec},
		Collector: &rtRecCollector{rec: rec},
		Sharder:   &rtSharder{self: &rtShard{"http://self:8081"}, other: &rtShard{"http://other:8081"}},
	})
	if err != nil {
		res.Class("inconclusive-timing")
		return res
	}
	defer node.Stop()

	for i, r := range c.Reqs {
		fake.resetProxied()
		up := rtUpstreamScript{Status: r.Up.Status, Body: r.Up.Body}
		upHeaders := append([]c37Hdr(nil), r.Up.Headers...)
		if r.Up.Gzip && r.AcceptGzip {
			var zb bytes.Buffer
			zw := gzip.NewWriter(&zb)
			zw.Write(r.Up.Body)
			zw.Close()
			up.Body = zb.Bytes()
			upHeaders = append(upHeaders, c37Hdr{"Content-Encoding", "gzip"})
		}
		if r.Up.Location != "" {
			upHeaders = append(upHeaders, c37Hdr{"Location", r.Up.Location})
		}
		for _, h := range upHeaders {
			up.Header = append(up.Header, [2]string{h.N, h.V})
		}
		fake.push(up, rtUpstreamScript{Status: 200, Body: []byte("followed-a-redirect")})

		target := r.Path
		if r.Query != "" || r.ForceQuery {
			target += "?" + r.Query
		}
		reqHeaders := append([]c37Hdr(nil), r.Headers...)
		if r.AcceptGzip {
			reqHeaders = append(reqHeaders, c37Hdr{"Accept-Encoding", "gzip"})
		}
		var hdr [][2]string
		for _, h := range reqHeaders {
			hdr = append(hdr, [2]string{h.N, h.V})
		}
		for _, x := range r.XFF {
			hdr = append(hdr, [2]string{"X-Forwarded-For", x})
		}
		// payload = the bytes of the message body as the client means them (after any
		// content coding it applied itself); a proxy relays exactly these
		payload := r.Body
		if r.BigBody > 0 {
			payload = bytes.Repeat([]byte{r.BigFill}, r.BigBody)
		}
		switch r.ContentEnc {
		case "gzip":
			payload = rtGzip(payload)
		case "zstd":
			payload = rtZstd(payload)
		}
		if r.ContentEnc != "" {
			reqHeaders = append(reqHeaders, c37Hdr{"Content-Encoding", strings.TrimSuffix(r.ContentEnc, "-label")})
			hdr = append(hdr, [2]string{"Content-Encoding", strings.TrimSuffix(r.ContentEnc, "-label")})
			res.Class("request-content-encoding=" + r.ContentEnc)
		}
		if r.BigBody > 0 {
			res.Class("request-body-around-5MB")
		}
		wire := payload
		if r.Chunked {
			hdr = append(hdr, [2]string{"Transfer-Encoding", "chunked"})
			wire = c37Chunk(payload)
		}
		addr := node.Addr(r.Listener)
		resp, err := rtRawRoundTrip(addr, rtBuildRequest(r.Method, target, addr, hdr, wire), r.Method, 8*time.Second)
		if err != nil {
			res.Class("inconclusive-timing")
			continue
		}
		seen := fake.seenProxied()
		where := fmt.Sprintf("req %d %s %s", i, r.Method, target)

		if len(resp.Trailing) > 0 {
			res.Violate("C37/second-response", "%s: bytes after the response: %q", where, rtClip(resp.Trailing, 200))
		}
		if len(seen) == 0 {
			res.Violate("C37/not-relayed", "%s: upstream saw nothing; client got %d %q", where, resp.Status, rtClip(resp.Body, 200))
			continue
		}
		redirect := r.Up.Location != ""
		if len(seen) > 1 {
			if redirect {
				res.Class("redirect-followed")
				res.Violate("C37/response/redirect-followed", "%s: upstream answered %d Location %s; refinery followed it itself (%d upstream requests, second: %s %s) and the client got %d %q instead of the %d",
					where, r.Up.Status, r.Up.Location, len(seen), seen[1].Method, seen[1].RequestURI, resp.Status, rtClip(resp.Body, 80), r.Up.Status)
			} else {
				res.Violate("C37/relayed-more-than-once", "%s: upstream saw %d requests", where, len(seen))
			}
		}
		u := seen[0]

		// ---- request as seen upstream
		if u.Method != r.Method {
			res.Violate("C37/request/method", "%s: upstream saw method %s", where, u.Method)
		}
		if u.RequestURI != target {
			res.Violate("C37/request/target", "%s: upstream saw request target %q", where, u.RequestURI)
		}
		if !bytes.Equal(u.Body, payload) {
			kind := "plain"
			if r.ContentEnc != "" {
				kind = "content-encoded"
			} else if len(payload) > 5_000_000 {
				kind = "over-5MB"
			}
			res.Violate("C37/request/body/"+kind, "%s (Content-Encoding %q): upstream saw a %d byte body %q, client sent %d bytes %q", where, r.ContentEnc, len(u.Body), rtClip(u.Body, 80), len(payload), rtClip(payload, 80))
		}
		want, order := c37Group(reqHeaders)
		multiReq := false
		for _, k := range order {
			if len(want[k]) > 1 {
				multiReq = true
			}
			if !c37Eq(c37List(want[k]), c37List(u.Header[k])) {
				kind := "single"
				if len(want[k]) > 1 {
					kind = "multi"
				}
				res.Violate("C37/request/header-changed/"+kind+"/"+k, "%s: client sent %s: %q, upstream saw %q", where, k, want[k], u.Header[k])
			}
		}
		for _, k := range rtSortedKeys(u.Header) {
			v := u.Header[k]
			if _, ok := want[k]; !ok && !c37UpstreamExtrasOK[k] {
				res.Violate("C37/request/header-added/"+k, "%s: upstream saw %s: %q which the client did not send", where, k, v)
			}
		}
		// X-Forwarded-For: the client's own entries, then the client itself
		clientIP, _, _ := net.SplitHostPort(resp.LocalAddr)
		got := c37List(u.Header["X-Forwarded-For"])
		sent := c37List(r.XFF)
		if len(r.XFF) == 0 {
			sent = nil
		}
		switch {
		case len(got) == 0:
			res.Violate("C37/request/xff-missing", "%s: no X-Forwarded-For upstream", where)
		default:
			last := got[len(got)-1]
			if h, _, err := net.SplitHostPort(last); err == nil {
				last = h
			}
			if last != clientIP {
				res.Violate("C37/request/xff-wrong-client", "%s: X-Forwarded-For %q does not end with the client address %s", where, u.Header["X-Forwarded-For"], clientIP)
			}
			if !c37Eq(got[:len(got)-1], sent) {
				kind := "single-line"
				if len(r.XFF) > 1 {
					kind = "multi-line"
				}
				res.Violate("C37/request/xff-client-entries-lost/"+kind, "%s: client sent X-Forwarded-For lines %q, upstream saw %q", where, r.XFF, u.Header["X-Forwarded-For"])
			}
		}

		// ---- response as seen by the client
		multiResp := false
		if !(redirect && len(seen) > 1) {
			if resp.Status != r.Up.Status {
				res.Violate("C37/response/status", "%s: upstream answered %d, client got %d", where, r.Up.Status, resp.Status)
			}
			if r.Method != "HEAD" && !bytes.Equal(resp.Body, up.Body) {
				res.Violate("C37/response/body", "%s: upstream body %d bytes %q, client got %d bytes %q", where, len(up.Body), rtClip(up.Body, 80), len(resp.Body), rtClip(resp.Body, 80))
			}
			wantR, orderR := c37Group(upHeaders)
			for _, k := range orderR {
				if len(wantR[k]) > 1 {
					multiResp = true
				}
				if !c37Eq(c37List(wantR[k]), c37List(resp.Header[k])) {
					kind := "single"
					if len(wantR[k]) > 1 {
						kind = "multi"
					}
					res.Violate("C37/response/header-changed/"+kind+"/"+k, "%s: upstream sent %s: %q, client got %q", where, k, wantR[k], resp.Header[k])
				}
			}
			for _, k := range rtSortedKeys(resp.Header) {
				v := resp.Header[k]
				if _, ok := wantR[k]; !ok && !c37ClientExtrasOK[k] {
					res.Violate("C37/response/header-added/"+k, "%s: client got %s: %q which upstream did not send", where, k, v)
				}
			}
		}
		res.Class("method=" + r.Method)
		res.Class(fmt.Sprintf("upstream-status=%dxx", r.Up.Status/100))
		if r.Chunked {
			res.Class("chunked-request")
		}
		if r.Up.Gzip {
			res.Class("gzip-response-passthrough")
		}
		if len(r.XFF) > 0 {
			res.Class(fmt.Sprintf("client-xff-lines=%d", len(r.XFF)))
		}
		if len(payload) > 0 && (multiReq || multiResp) {
			res.NonTrivial = true
		}
	}
	if n := len(rec.all()); n != 0 {
		res.Violate("C37/side-effect", "proxied requests caused %d events to be routed", n)
	}
	return res
}

func TestC37(t *testing.T) {
	vkit.Run(t, vkit.Spec[c37Case]{
		ID:   "C37",
		Rule: "fresh incoming+peer Router per case, proxy target = scripted fake Honeycomb; 1-4 raw HTTP/1.1 requests per case: 7 methods x 20 unhandled path templates with percent-encoded segments, raw query strings, 0-6 end-to-end headers (repeats give multi-valued headers), 0-2 client X-Forwarded-For lines, empty/JSON/binary/64KiB bodies (optionally chunked; a third with Content-Encoding gzip/zstd really applied or gzip/zstd/br/deflate as a label on opaque bytes; about 1 in 150 plus one replayed case with 4,999,999-5,300,000 bytes); upstream script: status (2xx/4xx/5xx, 3xx with Location), 0-6 headers, body, gzip body when the client asked for it. Oracle: upstream saw identical method, request target, body, every client header value (list semantics), X-Forwarded-For = client entries + client address, nothing else but transport artefacts; client saw identical status, body and every upstream header value. Non-trivial: a request with a body and a multi-valued request or response header.",
		Assumptions: []string{
			"several field lines of one header and their comma-joined form are equivalent (RFC 9110 5.3)",
			"hop-by-hop headers, Host, Set-Cookie, Expect and 1xx responses are outside the generator; paths are clean (no '//' or dot segments, which the mux answers itself with 301)",
			"headers added by the HTTP transport itself (User-Agent default, Accept-Encoding: gzip, Content-Length, Date, Access-Control-Allow-Origin, a default Content-Type when upstream sent none) are not counted as changes",
			"X-Forwarded-For may name the client as ip or ip:port",
		},
		Gen:  genC37,
		Exec: execC37,
	})
}
