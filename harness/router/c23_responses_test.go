package router

import (
	"bytes"
	"context"
	"encoding/hex"
	"encoding/json"
	"fmt"
	"sort"
	"strings"
	"sync"
	"testing"
	"time"

	"github.com/jonboulle/clockwork"
	"github.com/vmihailenco/msgpack/v5"
	collectorlogs "go.opentelemetry.io/proto/otlp/collector/logs/v1"
	collectortrace "go.opentelemetry.io/proto/otlp/collector/trace/v1"
	commonpb "go.opentelemetry.io/proto/otlp/common/v1"
	logspb "go.opentelemetry.io/proto/otlp/logs/v1"
	resourcepb "go.opentelemetry.io/proto/otlp/resource/v1"
	tracepb "go.opentelemetry.io/proto/otlp/trace/v1"
	"go.opentelemetry.io/otel/trace/noop"
	"google.golang.org/grpc"
	"google.golang.org/grpc/codes"
	"google.golang.org/grpc/credentials/insecure"
	"google.golang.org/grpc/metadata"
	"google.golang.org/grpc/status"
	"google.golang.org/protobuf/encoding/protojson"
	"google.golang.org/protobuf/proto"
	"pgregory.net/rapid"

	"github.com/honeycombio/refinery/collect"
	"github.com/honeycombio/refinery/config"
	"github.com/honeycombio/refinery/internal/peer"
	"github.com/honeycombio/refinery/logger"
	"github.com/honeycombio/refinery/metrics"
	"github.com/honeycombio/refinery/pubsub"
	"github.com/honeycombio/refinery/sample"
	"github.com/honeycombio/refinery/types"
	"github.com/honeycombio/refinery/verifharness/vkit"
)

// C23: an error status for the request as a whole => none of its events was
// forwarded or buffered; never success for a request whose events were discarded
// before processing; batch responses list 202 exactly for accepted, 429 exactly
// for queue-full, 400 for invalid events; each request receives exactly one status.

type c23Ev struct {
	Kind  string `json:"kind"`  // ok | empty-data | no-data | data-not-object | odd-meta
	Class string `json:"class"` // none | own | foreign
	N     int    `json:"n,omitempty"`
	Root  bool   `json:"root,omitempty"`
	// Time: shape of the event time ("" = RFC3339Nano string / msgpack timestamp);
	// batch "time" member or X-Honeycomb-Event-Time header, sent as a string unless noted
	Time string `json:"time,omitempty"`
}

// c23Times: every shape getEventTime documents plus the neighbours a client can
// produce by truncation or a wrong unit. Key = case label, value = wire text.
var c23Times = map[string]string{
	"none": "", "empty": "", "rfc3339": "2023-11-14T22:13:20Z", "rfc3339-offset": "2023-11-14T23:13:20.5+01:00",
	"sec10": "1535589382", "ms13": "1535589382641", "us16": "1535589382641123", "ns19": "1535589382641123456",
	"float": "1535589382.641", "short7": "1535589", "short9": "153558938", "zero": "0", "one": "1", "neg": "-5",
	"hex": "0x5b87", "hex-long": "0x5b87a9f1c2d3", "octal": "0755", "eleven": "15355893826", "exp": "1.5e9",
	"garbage": "yesterday", "spacey": " 1535589382", "huge": "99999999999999999999999", "json-number": "1535589382",
}

var c23TimeKinds = func() []string {
	ks := make([]string, 0, len(c23Times))
	for k := range c23Times {
		ks = append(ks, k)
	}
	sort.Strings(ks)
	return ks
}()

// c23OddTime: the documentation does not say whether an event with such a time is
// valid; only the consistency of its answer with what happened is judged.
func c23OddTime(e c23Ev) bool {
	switch e.Time {
	case "", "none", "rfc3339", "rfc3339-offset", "sec10", "ms13", "us16", "ns19", "float":
		return false
	}
	return true
}

type c23Req struct {
	Endpoint string  `json:"endpoint"` // event | batch | otlp-traces | otlp-logs | grpc-traces | grpc-logs
	Listener string  `json:"listener"` // incoming | peer
	Enc      string  `json:"enc"`      // json | msgpack (event, batch); proto | json (OTLP/HTTP)
	Comp     string  `json:"comp,omitempty"`
	Key      string  `json:"key"`             // legacy | envok | env401 | env500 | envbadjson | envhang | nokey
	Fault    string  `json:"fault,omitempty"` // body fault
	Events   []c23Ev `json:"events"`
}

type c23Case struct {
	Queue  int      `json:"queue"`   // collector queue size (one worker)
	GateAt int      `json:"gate_at"` // index of the batch sent while the collector worker is stalled; -1 = never
	Reqs   []c23Req `json:"reqs"`
}

var c23Keys = map[string]string{
	"legacy":     "c9945edf5d245834089a1bd6cc9ad01e",
	"envok":      "envokAAAAAAAAAAAAAAAAA1",
	"env401":     "env401AAAAAAAAAAAAAAAA1",
	"env500":     "env500AAAAAAAAAAAAAAAA1",
	"envbadjson": "envbadjsonAAAAAAAAAAAA1",
	"envhang":    "envhangAAAAAAAAAAAAAAA1",
	"nokey":      "",
}

func c23KeyFault(k string) bool {
	switch k {
	case "env401", "env500", "envbadjson", "envhang", "nokey":
		return true
	}
	return false
}

var c23BodyFaults = []string{"cut", "junk", "short-read", "bad-gzip", "cut-gzip", "bad-crc", "bad-zstd", "wrong-ctype", "not-array", "empty-body"}

func genC23(t *rapid.T) c23Case {
	c := c23Case{Queue: 1000, GateAt: -1}
	mode := rapid.SampledFrom([]string{"plain", "plain", "plain", "gate", "gate", "burst", "late-read-failure", "late-read-failure"}).Draw(t, "mode")
	if mode == "late-read-failure" {
		// a request whose body read fails only after every byte of a complete value was
		// delivered (client dies before the promised length / checksum trailer is wrong),
		// followed by healthy requests of the same encoding on the same listener
		enc := rapid.SampledFrom([]string{"msgpack", "msgpack", "json"}).Draw(t, "lenc")
		lst := rapid.SampledFrom([]string{"incoming", "incoming", "peer"}).Draw(t, "llistener")
		ev := func(label string, max int) []c23Ev {
			n := rapid.IntRange(1, max).Draw(t, label)
			out := make([]c23Ev, n)
			for i := range out {
				out[i] = c23Ev{Kind: "ok", Class: rapid.SampledFrom([]string{"none", "own", "foreign"}).Draw(t, label+"class"), N: i % 3, Root: i%2 == 0}
			}
			return out
		}
		a := c23Req{Endpoint: "batch", Listener: lst, Enc: enc, Key: "legacy", Fault: rapid.SampledFrom([]string{"short-read", "bad-crc"}).Draw(t, "lfault"), Events: ev("an", 4)}
		c.Reqs = append(c.Reqs, a)
		for k := rapid.IntRange(1, 3).Draw(t, "followers"); k > 0; k-- {
			c.Reqs = append(c.Reqs, c23Req{Endpoint: "batch", Listener: lst, Enc: enc, Key: "legacy", Events: ev("bn", 3)})
		}
		return c
	}
	if mode != "plain" {
		c.Queue = rapid.IntRange(1, 3).Draw(t, "queue")
	}
	evGen := func(endpoint string, max int) *rapid.Generator[[]c23Ev] {
		one := rapid.Custom(func(t *rapid.T) c23Ev {
			e := c23Ev{Kind: "ok"}
			switch endpoint {
			case "batch":
				e.Kind = rapid.SampledFrom([]string{"ok", "ok", "ok", "ok", "ok", "ok", "empty-data", "no-data", "data-not-object", "odd-meta"}).Draw(t, "kind")
			case "event":
				e.Kind = rapid.SampledFrom([]string{"ok", "ok", "ok", "ok", "empty-data"}).Draw(t, "kind")
			}
			e.Class = rapid.SampledFrom([]string{"none", "own", "own", "foreign"}).Draw(t, "class")
			if strings.HasSuffix(endpoint, "traces") && e.Class == "none" {
				e.Class = "own"
			}
			e.N = rapid.IntRange(0, 2).Draw(t, "n")
			e.Root = rapid.Bool().Draw(t, "root")
			if (endpoint == "batch" || endpoint == "event") && rapid.IntRange(0, 2).Draw(t, "oddtime") == 0 {
				e.Time = rapid.SampledFrom(c23TimeKinds).Draw(t, "time")
			}
			return e
		})
		return rapid.SliceOfN(one, 1, max)
	}
	reqGen := rapid.Custom(func(t *rapid.T) c23Req {
		r := c23Req{Listener: "incoming"}
		r.Endpoint = rapid.SampledFrom([]string{"batch", "batch", "batch", "batch", "event", "event", "otlp-traces", "otlp-traces", "otlp-logs", "grpc-traces", "grpc-logs"}).Draw(t, "endpoint")
		keys := []string{"legacy", "legacy", "legacy", "legacy", "envok", "envok", "envok", "env401", "env500", "envbadjson", "envhang"}
		switch r.Endpoint {
		case "batch", "event":
			r.Listener = rapid.SampledFrom([]string{"incoming", "incoming", "peer"}).Draw(t, "listener")
			r.Enc = rapid.SampledFrom([]string{"json", "msgpack"}).Draw(t, "enc")
			r.Comp = rapid.SampledFrom([]string{"", "", "gzip", "zstd"}).Draw(t, "comp")
		case "otlp-traces", "otlp-logs":
			r.Enc = rapid.SampledFrom([]string{"proto", "json"}).Draw(t, "enc")
			r.Comp = rapid.SampledFrom([]string{"", "", "gzip"}).Draw(t, "comp")
			keys = append(keys, "nokey")
		default:
			keys = append(keys, "nokey")
		}
		r.Key = rapid.SampledFrom(keys).Draw(t, "key")
		if !strings.HasPrefix(r.Endpoint, "grpc") && rapid.IntRange(0, 2).Draw(t, "hasfault") == 0 {
			r.Fault = rapid.SampledFrom(c23BodyFaults).Draw(t, "fault")
			if r.Fault == "not-array" && r.Endpoint != "batch" {
				r.Fault = "junk"
			}
			if vkit.Thorough() && rapid.IntRange(0, 9).Draw(t, "oversize") == 0 {
				r.Fault = "oversize"
			}
		}
		n := 6
		if r.Endpoint == "event" {
			n = 1
		}
		r.Events = evGen(r.Endpoint, n).Draw(t, "events")
		return r
	})
	c.Reqs = rapid.SliceOfN(reqGen, 1, 4).Draw(t, "reqs")
	switch mode {
	case "gate":
		// one extra batch, sent while the worker is stalled: queue admission is then exact
		g := c23Req{Endpoint: "batch", Listener: rapid.SampledFrom([]string{"incoming", "incoming", "peer"}).Draw(t, "glistener"),
			Enc: rapid.SampledFrom([]string{"json", "msgpack"}).Draw(t, "genc"), Key: rapid.SampledFrom([]string{"legacy", "envok"}).Draw(t, "gkey")}
		g.Events = evGen("batch", 8).Draw(t, "gevents")
		at := rapid.IntRange(0, len(c.Reqs)).Draw(t, "gate_at")
		c.Reqs = append(c.Reqs[:at:at], append([]c23Req{g}, c.Reqs[at:]...)...)
		c.GateAt = at
	case "burst":
		b := c23Req{Endpoint: "batch", Listener: "incoming", Enc: "json", Key: "legacy"}
		for i := 0; i < 40; i++ {
			b.Events = append(b.Events, c23Ev{Kind: "ok", Class: "own", N: i % 3, Root: i%2 == 0})
		}
		c.Reqs = append(c.Reqs, b)
	}
	return c
}

// ---------------------------------------------------------------------------

func c23TraceHex(class string, n int) string {
	p := "a"
	if class == "foreign" {
		p = "f"
	}
	return fmt.Sprintf("%s0%02x%s", p, n, strings.Repeat("0", 28))
}

func c23Foreign(id string) bool { return strings.HasPrefix(id, "f") }

func c23Vid(ri, i int) string { return fmt.Sprintf("r%de%d", ri, i) }

func c23Data(e c23Ev, vid string) map[string]any {
	d := map[string]any{"vid": vid, "name": "op", "duration_ms": int64(12)}
	if e.Class != "none" {
		d["trace.trace_id"] = c23TraceHex(e.Class, e.N)
		d["trace.span_id"] = vid
		if !e.Root {
			d["trace.parent_id"] = "p1"
		}
	}
	if e.Kind == "odd-meta" {
		d["meta.refinery.probe"] = "yes"
	}
	return d
}

func c23Marshal(enc string, doc any) []byte {
	if enc == "msgpack" {
		var b bytes.Buffer
		e := msgpack.NewEncoder(&b)
		e.SetSortMapKeys(true)
		if err := e.Encode(doc); err != nil {
			panic(err)
		}
		return b.Bytes()
	}
	b, err := json.Marshal(doc)
	if err != nil {
		panic(err)
	}
	return b
}

func c23BatchElem(e c23Ev, vid string, enc string) any {
	switch e.Kind {
	case "empty-data":
		return map[string]any{"data": map[string]any{}}
	case "no-data":
		return map[string]any{"samplerate": int64(2)}
	case "data-not-object":
		return map[string]any{"data": int64(5)}
	}
	m := map[string]any{"data": c23Data(e, vid), "samplerate": int64(2)}
	switch {
	case e.Time == "none":
	case e.Time == "json-number":
		m["time"] = int64(1535589382)
	case e.Time != "" && enc != "msgpack":
		m["time"] = c23Times[e.Time]
	case enc == "msgpack":
		m["time"] = time.Unix(1_700_000_000, 5000).UTC() // msgpack batches carry a timestamp value
	default:
		m["time"] = "2023-11-14T22:13:20.000005Z"
	}
	return m
}

// c23HTTPRequest renders the request bytes for the HTTP endpoints.
func c23HTTPRequest(r c23Req, ri int, host string) (raw []byte, halfClose bool) {
	var path, ct string
	var body []byte
	hdr := [][2]string{}
	key := c23Keys[r.Key]
	switch r.Endpoint {
	case "event", "batch":
		ct = "application/json"
		if r.Enc == "msgpack" {
			ct = "application/msgpack"
		}
		if r.Endpoint == "event" {
			path = fmt.Sprintf("/1/events/r%d", ri)
			e := r.Events[0]
			if e.Kind == "empty-data" {
				body = c23Marshal(r.Enc, map[string]any{})
			} else {
				body = c23Marshal(r.Enc, c23Data(e, c23Vid(ri, 0)))
			}
			hdr = append(hdr, [2]string{"X-Honeycomb-Samplerate", "2"})
			if e.Time != "" && e.Time != "none" {
				hdr = append(hdr, [2]string{"X-Honeycomb-Event-Time", c23Times[e.Time]})
			}
		} else {
			path = fmt.Sprintf("/1/batch/r%d", ri)
			var arr []any
			for i, e := range r.Events {
				arr = append(arr, c23BatchElem(e, c23Vid(ri, i), r.Enc))
			}
			if r.Fault == "not-array" {
				body = c23Marshal(r.Enc, arr[0])
			} else if r.Fault == "oversize" {
				arr = append(arr, map[string]any{"data": map[string]any{"vid": fmt.Sprintf("r%dpad", ri), "pad": strings.Repeat("x", 5_100_000)}})
				body = c23Marshal(r.Enc, arr)
			} else {
				body = c23Marshal(r.Enc, arr)
			}
		}
		if key != "" {
			hdr = append(hdr, [2]string{"X-Honeycomb-Team", key})
		}
	case "otlp-traces", "otlp-logs":
		ct = "application/protobuf"
		var msg proto.Message
		if r.Endpoint == "otlp-traces" {
			path = "/v1/traces"
			msg = c23OTLPTraces(r, ri)
		} else {
			path = "/v1/logs"
			msg = c23OTLPLogs(r, ri)
		}
		if r.Enc == "json" {
			ct = "application/json"
			body, _ = protojson.Marshal(msg)
		} else {
			body, _ = proto.Marshal(msg)
		}
		if r.Fault == "oversize" {
			body = append(body, bytes.Repeat([]byte{0}, 21*1024*1024)...)
		}
		if key != "" {
			hdr = append(hdr, [2]string{"X-Honeycomb-Team", key})
		}
		hdr = append(hdr, [2]string{"X-Honeycomb-Dataset", fmt.Sprintf("r%d", ri)})
	}
	switch r.Fault {
	case "cut":
		body = body[:len(body)/2]
	case "junk":
		body = []byte("\xc1\xc1\xc1 this is not a body {[")
	case "empty-body":
		body = nil
	case "wrong-ctype":
		switch ct {
		case "application/json":
			ct = "application/msgpack"
			if strings.HasPrefix(r.Endpoint, "otlp") {
				ct = "text/plain"
			}
		case "application/msgpack":
			ct = "application/json"
		default:
			ct = "text/plain"
		}
	}
	switch r.Comp {
	case "gzip":
		body = rtGzip(body)
		hdr = append(hdr, [2]string{"Content-Encoding", "gzip"})
	case "zstd":
		body = rtZstd(body)
		hdr = append(hdr, [2]string{"Content-Encoding", "zstd"})
	}
	switch r.Fault {
	case "bad-gzip":
		if r.Comp == "" {
			hdr = append(hdr, [2]string{"Content-Encoding", "gzip"})
		}
		body = []byte("definitely not gzip nor zstd")
	case "cut-gzip":
		if r.Comp == "" {
			body = rtGzip(body)
			hdr = append(hdr, [2]string{"Content-Encoding", "gzip"})
		}
		body = body[:len(body)*2/3]
	case "bad-crc":
		// intact compressed data, wrong checksum trailer: the reader hands out every byte and then reports the error
		if r.Comp == "" {
			body = rtGzip(body)
			hdr = append(hdr, [2]string{"Content-Encoding", "gzip"})
		}
		if r.Comp == "zstd" {
			body[len(body)-1] ^= 0x5a
		} else {
			body[len(body)-6] ^= 0x5a // inside the CRC32 of the gzip trailer
		}
	case "bad-zstd":
		if r.Comp == "" {
			hdr = append(hdr, [2]string{"Content-Encoding", "zstd"})
		}
		body = []byte("definitely not gzip nor zstd")
	case "short-read":
		hdr = append(hdr, [2]string{"Content-Length", fmt.Sprint(len(body) + 10)})
		halfClose = true
	}
	hdr = append(hdr, [2]string{"Content-Type", ct}, [2]string{"User-Agent", "verif/1"})
	return rtBuildRequest("POST", path, host, hdr, body), halfClose
}

func c23KV(k, v string) *commonpb.KeyValue {
	return &commonpb.KeyValue{Key: k, Value: &commonpb.AnyValue{Value: &commonpb.AnyValue_StringValue{StringValue: v}}}
}

func c23OTLPTraces(r c23Req, ri int) *collectortrace.ExportTraceServiceRequest {
	var spans []*tracepb.Span
	for i, e := range r.Events {
		tid, _ := hex.DecodeString(c23TraceHex(e.Class, e.N))
		sp := &tracepb.Span{TraceId: tid, SpanId: []byte{1, 2, 3, 4, 5, 6, byte(ri + 1), byte(i + 1)}, Name: "op",
			StartTimeUnixNano: 1_700_000_000_000_000_000, EndTimeUnixNano: 1_700_000_000_500_000_000,
			Attributes: []*commonpb.KeyValue{c23KV("vid", c23Vid(ri, i))}}
		if !e.Root {
			sp.ParentSpanId = []byte{9, 9, 9, 9, 9, 9, 9, 9}
		}
		spans = append(spans, sp)
	}
	return &collectortrace.ExportTraceServiceRequest{ResourceSpans: []*tracepb.ResourceSpans{{
		Resource:   &resourcepb.Resource{Attributes: []*commonpb.KeyValue{c23KV("service.name", fmt.Sprintf("r%d", ri))}},
		ScopeSpans: []*tracepb.ScopeSpans{{Spans: spans}},
	}}}
}

func c23OTLPLogs(r c23Req, ri int) *collectorlogs.ExportLogsServiceRequest {
	var recs []*logspb.LogRecord
	for i, e := range r.Events {
		lr := &logspb.LogRecord{TimeUnixNano: 1_700_000_000_000_000_000, SeverityText: "INFO",
			Body:       &commonpb.AnyValue{Value: &commonpb.AnyValue_StringValue{StringValue: "hello"}},
			Attributes: []*commonpb.KeyValue{c23KV("vid", c23Vid(ri, i))}}
		if e.Class != "none" {
			lr.TraceId, _ = hex.DecodeString(c23TraceHex(e.Class, e.N))
			lr.SpanId = []byte{1, 2, 3, 4, 5, 6, byte(ri + 1), byte(i + 1)}
		}
		recs = append(recs, lr)
	}
	return &collectorlogs.ExportLogsServiceRequest{ResourceLogs: []*logspb.ResourceLogs{{
		Resource:  &resourcepb.Resource{Attributes: []*commonpb.KeyValue{c23KV("service.name", fmt.Sprintf("r%d", ri))}},
		ScopeLogs: []*logspb.ScopeLogs{{LogRecords: recs}},
	}}}
}

// ---------------------------------------------------------------------------
// environment: real collector, recording transmissions with a gate

type c23GateTx struct {
	rtRecTransmission
	mu      sync.Mutex
	armed   bool
	entered chan struct{}
	release chan struct{}
}

func (g *c23GateTx) EnqueueSpan(sp *types.Span) {
	g.mu.Lock()
	armed := g.armed
	if armed && sp.Data.Get("blocker") == true {
		g.armed = false
		g.mu.Unlock()
		close(g.entered)
		<-g.release
	} else {
		g.mu.Unlock()
	}
	g.rec.add(g.name+"-span", sp.Event)
}

type c23HealthRec struct{}

func (c23HealthRec) Register(string, time.Duration) {}
func (c23HealthRec) Unregister(string)              {}
func (c23HealthRec) Ready(string, bool)             {}

type c23Env struct {
	fake     *rtFake
	rec      *rtRecorder
	up       *c23GateTx
	coll     *collect.InMemCollector
	node     *rtNode
	cleanups []func()
	grpcConn *grpc.ClientConn
	released bool
}

func (e *c23Env) stop() {
	e.openGate()
	if e.grpcConn != nil {
		e.grpcConn.Close()
	}
	if e.node != nil {
		e.node.Stop()
	}
	if e.coll != nil {
		done := make(chan struct{})
		go func() { defer close(done); defer func() { recover() }(); e.coll.Stop() }()
		select {
		case <-done:
		case <-time.After(20 * time.Second):
		}
	}
	for i := len(e.cleanups) - 1; i >= 0; i-- {
		e.cleanups[i]()
	}
}

func (e *c23Env) openGate() {
	if !e.released {
		e.released = true
		close(e.up.release)
	}
}

func c23Start(c c23Case, needGRPC bool) (*c23Env, error) {
	e := &c23Env{rec: &rtRecorder{}}
	e.fake = rtNewFake()
	e.cleanups = append(e.cleanups, e.fake.Close)
	e.fake.auth[c23Keys["envok"]] = rtAuthScript{Env: "prod", KeyID: "kid1"}
	e.fake.auth[c23Keys["env401"]] = rtAuthScript{Status: 401, Body: `{"error":"unknown API key"}`}
	e.fake.auth[c23Keys["env500"]] = rtAuthScript{Status: 500, Body: `{"error":"boom"}`}
	e.fake.auth[c23Keys["envbadjson"]] = rtAuthScript{Status: 200, Body: `not json {`}
	e.fake.auth[c23Keys["envhang"]] = rtAuthScript{Hang: true}

	cfg := &config.MockConfig{
		GetTracesConfigVal: config.TracesConfig{
			SendTicker: config.Duration(time.Millisecond), SendDelay: config.Duration(time.Millisecond), TraceTimeout: config.Duration(4 * time.Millisecond),
			MaxBatchSize: 500, SpanLimit: 10000, MaxExpiredTraces: 10000,
		},
		GetSamplerTypeVal:  &config.DeterministicSamplerConfig{SampleRate: 1},
		GetSamplerTypeName: "DeterministicSampler",
		GetCollectionConfigVal: config.CollectionConfig{
			WorkerCount: 1, IncomingQueueSize: c.Queue, PeerQueueSize: c.Queue, HealthCheckTimeout: config.Duration(time.Hour),
		},
		SampleCache:         config.SampleCacheConfig{KeptSize: 1000, DroppedSize: 1000, SizeCheckInterval: config.Duration(10 * time.Second)},
		TraceIdFieldNames:   []string{"trace.trace_id", "traceId"},
		ParentIdFieldNames:  []string{"trace.parent_id", "parentId"},
		GetHoneycombAPIVal:  e.fake.URL,
		EnvironmentCacheTTL: time.Hour,
	}
	met := &metrics.NullMetrics{}
	ps := &pubsub.LocalPubSub{Config: cfg, Metrics: met}
	ps.Start()
	e.cleanups = append(e.cleanups, func() { ps.Stop() })
	peers := peer.NewMockPeers([]string{c19SelfAddr, c19OtherAddr}, c19SelfAddr)
	sf := &sample.SamplerFactory{Config: cfg, Metrics: met, Logger: &logger.NullLogger{}, Peers: peers}
	if err := sf.Start(); err != nil {
		return nil, err
	}
	e.cleanups = append(e.cleanups, func() { sf.Stop() })
	shr := &rtSharder{self: &rtShard{c19SelfAddr}, other: &rtShard{c19OtherAddr}, foreign: c23Foreign}
	e.up = &c23GateTx{rtRecTransmission: rtRecTransmission{"upstream", e.rec}, entered: make(chan struct{}), release: make(chan struct{})}
	peerTx := &rtRecTransmission{"peer", e.rec}
	e.coll = &collect.InMemCollector{
		Config: cfg, Clock: clockwork.NewRealClock(), Logger: &logger.NullLogger{}, Tracer: noop.NewTracerProvider().Tracer("verif"),
		Health: c23HealthRec{}, Transmission: e.up, PeerTransmission: peerTx, PubSub: ps, Metrics: met,
		StressRelief: &collect.MockStressReliever{}, SamplerFactory: sf, Peers: peers, Sharder: shr,
	}
	if err := e.coll.Start(); err != nil {
		e.coll = nil
		return nil, err
	}
	node, err := rtStartNode(rtNodeOpts{Cfg: cfg, Upstream: e.up, Peer: peerTx, Collector: e.coll, Sharder: shr, GRPC: needGRPC, Metrics: met})
	if err != nil {
		return nil, err
	}
	e.node = node
	if needGRPC {
		conn, err := grpc.NewClient(node.GRPCAddr, grpc.WithTransportCredentials(insecure.NewCredentials()))
		if err != nil {
			return nil, fmt.Errorf("%w: grpc dial: %v", rtErrTiming, err)
		}
		e.grpcConn = conn
	}
	return e, nil
}

func (e *c23Env) seen(vid string) int {
	n := 0
	for _, s := range e.rec.all() {
		if s.Fields["vid"] == vid {
			n++
		}
	}
	return n
}

// helperBatch posts one own-trace span (legacy key, incoming listener) and
// retries while the queue refuses it; false = could not within the deadline.
func (e *c23Env) helperBatch(vid, traceID string, root bool, extra map[string]any, deadline time.Time) bool {
	d := map[string]any{"vid": vid, "trace.trace_id": traceID}
	if !root {
		d["trace.parent_id"] = "p"
	}
	for k, v := range extra {
		d[k] = v
	}
	body, _ := json.Marshal([]any{map[string]any{"data": d}})
	hdr := [][2]string{{"X-Honeycomb-Team", c23Keys["legacy"]}, {"Content-Type", "application/json"}}
	for {
		resp, err := rtRawRoundTrip(e.node.InAddr, rtBuildRequest("POST", "/1/batch/helper", e.node.InAddr, hdr, body), "POST", 5*time.Second)
		if err == nil && resp.Status == 200 && strings.Contains(string(resp.Body), "202") {
			return true
		}
		if time.Now().After(deadline) {
			return false
		}
		time.Sleep(200 * time.Microsecond)
	}
}

func (e *c23Env) waitSeen(vid string, deadline time.Time) bool {
	for e.seen(vid) == 0 {
		if time.Now().After(deadline) {
			return false
		}
		time.Sleep(200 * time.Microsecond)
	}
	return true
}

// closeGate stalls the single collector worker inside Transmission.EnqueueSpan
// (a late span of an already-decided trace is sent from the worker goroutine).
func (e *c23Env) closeGate() bool {
	deadline := time.Now().Add(5 * time.Second)
	const blk = "ab000000000000000000000000000b10"
	if !e.helperBatch("blocker-root", blk, true, nil, deadline) || !e.waitSeen("blocker-root", deadline) {
		return false
	}
	e.up.mu.Lock()
	e.up.armed = true
	e.up.mu.Unlock()
	if !e.helperBatch("blocker-late", blk, false, map[string]any{"blocker": true}, deadline) {
		return false
	}
	select {
	case <-e.up.entered:
		return true
	case <-time.After(time.Until(deadline)):
		return false
	}
}

// drain: two sentinel rounds through the incoming queue of the single worker.
// A sentinel is a non-root span of a fresh trace sent after every test request was
// answered: when it comes out of the collector, everything queued or buffered
// before it has come out as well (FIFO queue, expiry in SendBy order, one sender).
func (e *c23Env) drain() bool {
	deadline := time.Now().Add(6 * time.Second)
	for round := 1; round <= 2; round++ {
		vid := fmt.Sprintf("sentinel-%d", round)
		id := fmt.Sprintf("a5e%d00000000000000000000000000e%d", round, round)
		if !e.helperBatch(vid, id, false, nil, deadline) || !e.waitSeen(vid, deadline) {
			return false
		}
	}
	return true
}

type c23Out struct {
	status   int // HTTP status; gRPC: 200 for OK else 500+code
	grpcCode string
	body     []byte
	ctype    string
	trailing []byte
}

func (e *c23Env) do(ri int, r c23Req) (*c23Out, error) {
	if strings.HasPrefix(r.Endpoint, "grpc") {
		ctx, cancel := context.WithTimeout(context.Background(), 8*time.Second)
		defer cancel()
		md := metadata.Pairs("x-honeycomb-dataset", fmt.Sprintf("r%d", ri))
		if k := c23Keys[r.Key]; k != "" {
			md.Set("x-honeycomb-team", k)
		}
		ctx = metadata.NewOutgoingContext(ctx, md)
		var err error
		if r.Endpoint == "grpc-traces" {
			_, err = collectortrace.NewTraceServiceClient(e.grpcConn).Export(ctx, c23OTLPTraces(r, ri))
		} else {
			_, err = collectorlogs.NewLogsServiceClient(e.grpcConn).Export(ctx, c23OTLPLogs(r, ri))
		}
		code := status.Code(err)
		if code == codes.DeadlineExceeded || code == codes.Unavailable || code == codes.Canceled {
			return nil, fmt.Errorf("grpc transport: %v", err)
		}
		out := &c23Out{status: 200, grpcCode: code.String()}
		if code != codes.OK {
			out.status = 500
			out.body = []byte(status.Convert(err).Message())
		}
		return out, nil
	}
	addr := e.node.Addr(r.Listener)
	raw, half := c23HTTPRequest(r, ri, addr)
	resp, err := rtRawRoundTripOpt(addr, raw, "POST", 8*time.Second, half)
	if err != nil {
		return nil, err
	}
	return &c23Out{status: resp.Status, body: resp.Body, ctype: resp.Header.Get("Content-Type"), trailing: resp.Trailing}, nil
}

func execC23(c c23Case) vkit.Result {
	var res vkit.Result
	defer rtScrub(&res)
	needGRPC := false
	for _, r := range c.Reqs {
		if strings.HasPrefix(r.Endpoint, "grpc") {
			needGRPC = true
		}
	}
	env, err := c23Start(c, needGRPC)
	if env != nil {
		defer env.stop()
	}
	if err != nil {
		res.Class("inconclusive-timing")
		return res
	}
	outs := make([]*c23Out, len(c.Reqs))
	for ri, r := range c.Reqs {
		if ri == c.GateAt {
			if !env.closeGate() {
				res.Class("inconclusive-timing")
				return res
			}
		}
		out, err := env.do(ri, r)
		if ri == c.GateAt {
			env.openGate()
		}
		if err != nil {
			res.Class("inconclusive-timing")
			return res
		}
		outs[ri] = out
	}
	env.openGate()
	if !env.drain() {
		res.Class("inconclusive-timing")
		return res
	}

	// ---- judge
	count := map[string]int{}
	vias := map[string][]string{}
	for _, s := range env.rec.all() {
		vid, _ := s.Fields["vid"].(string)
		count[vid]++
		vias[vid] = append(vias[vid], s.Via)
	}
	known := map[string]bool{"blocker-root": true, "blocker-late": true, "sentinel-1": true, "sentinel-2": true}
	for ri, r := range c.Reqs {
		for i := range r.Events {
			known[c23Vid(ri, i)] = true
		}
		known[fmt.Sprintf("r%dpad", ri)] = true // the padding entry of an oversize batch
	}
	// events without any client field can only stem from batch entries without
	// data that were let through; the dataset (unique per request) says which request
	emptyBy := map[int]int{}
	for _, s := range env.rec.all() {
		if _, has := s.Fields["vid"]; has {
			continue
		}
		var ri int
		if n, _ := fmt.Sscanf(s.Dataset, "r%d", &ri); n == 1 && ri >= 0 && ri < len(c.Reqs) && len(c19ClientFields(s.Fields)) == 0 {
			emptyBy[ri]++
			continue
		}
		res.Violate("C23/phantom-event", "an event without id reached %s (dataset %q, fields %v); no request carried it", s.Via, s.Dataset, rtSortedKeys(s.Fields))
	}
	for _, vid := range rtSortedKeys(count) {
		if vid != "" && !known[vid] {
			res.Violate("C23/phantom-event", "an event with vid %q reached %v; no request carried it", vid, vias[vid])
		}
	}

	for ri, r := range c.Reqs {
		out := outs[ri]
		gated := ri == c.GateAt
		fault := "none"
		switch {
		case c23KeyFault(r.Key):
			fault = r.Key
		case r.Fault != "":
			fault = r.Fault
		default:
			for _, e := range r.Events {
				if c23OddTime(e) {
					fault = "odd-time"
				}
			}
		}
		tag := r.Endpoint + "/" + fault
		where := fmt.Sprintf("req %d %s (%s listener, enc=%s comp=%q key=%s fault=%q gated=%v queue=%d)", ri, r.Endpoint, r.Listener, r.Enc, r.Comp, r.Key, r.Fault, gated, c.Queue)
		isErr := out.status >= 400
		okEvents := 0
		for _, e := range r.Events {
			if e.Kind == "ok" {
				okEvents++
			}
		}
		if fault != "none" || gated || okEvents < len(r.Events) {
			if okEvents > 0 {
				res.NonTrivial = true
			}
		}
		res.Class("endpoint=" + r.Endpoint)
		res.Class("fault=" + fault)
		if ri > 0 && r.Fault == "" && (c.Reqs[ri-1].Fault == "short-read" || c.Reqs[ri-1].Fault == "bad-crc") && c.Reqs[ri-1].Enc == r.Enc {
			res.Class("healthy-" + r.Enc + "-request-right-after-late-read-failure")
		}
		if isErr {
			res.Class("answer=error")
		} else {
			res.Class("answer=success")
		}
		if fault == "none" && isErr && okEvents == len(r.Events) {
			res.Class("fault-free-request-rejected")
		}

		// exactly one response
		if len(out.trailing) > 0 {
			res.Violate("C23/double-response/"+tag+"/trailing-bytes", "%s: bytes after the response: %q", where, rtClip(out.trailing, 200))
		}
		jsonBody := r.Endpoint == "event" || r.Endpoint == "batch" || strings.HasPrefix(out.ctype, "application/json")
		if jsonBody && len(out.body) > 0 {
			if docs, ok := rtJSONDocs(out.body); ok && len(docs) > 1 {
				res.Violate("C23/double-response/"+tag, "%s: status %d and %d JSON documents in one body: %q", where, out.status, len(docs), rtClip(out.body, 300))
			} else if !ok && (r.Endpoint == "event" || r.Endpoint == "batch") {
				res.Class("non-json-error-body")
			}
		}

		forwarded := func(pred func(c23Ev) bool) []string {
			var l []string
			for i, e := range r.Events {
				if (e.Kind == "ok" || e.Kind == "odd-meta") && pred(e) && count[c23Vid(ri, i)] > 0 {
					l = append(l, fmt.Sprintf("%s->%v", c23Vid(ri, i), vias[c23Vid(ri, i)]))
				}
			}
			return l
		}
		if isErr {
			l := forwarded(func(c23Ev) bool { return true })
			if pv := fmt.Sprintf("r%dpad", ri); count[pv] > 0 {
				l = append(l, fmt.Sprintf("%s->%v", pv, vias[pv]))
			}
			if len(l) > 0 || emptyBy[ri] > 0 {
				res.Violate("C23/error-status-but-forwarded/"+tag, "%s: answered %d %q, yet %d of its events were forwarded: %v (plus %d field-less events from entries without data)", where, out.status, rtClip(out.body, 200), len(l), l, emptyBy[ri])
			}
			continue
		}

		// success
		if r.Fault != "" {
			// the body that was sent is not the listed events any more (cut, replaced,
			// mislabelled): nothing can be said about events that do not show up
			res.Class("body-fault-answered-success/" + r.Fault)
			for i := range r.Events {
				if count[c23Vid(ri, i)] > 1 {
					res.Violate("C23/accepted-event-forwarded-twice/"+r.Endpoint, "%s: %s", where, c23Vid(ri, i))
				}
			}
			continue
		}
		if r.Endpoint != "batch" {
			var missing, dup []string
			for i, e := range r.Events {
				if e.Kind != "ok" {
					continue
				}
				n := count[c23Vid(ri, i)]
				switch {
				case n == 0 && e.Class == "own" && c.Queue < 1000:
					res.Class("non-batch-queue-drop-possible")
				case n == 0:
					missing = append(missing, c23Vid(ri, i))
				case n > 1:
					dup = append(dup, c23Vid(ri, i))
				}
			}
			if len(missing) > 0 {
				kind := "some"
				if len(missing) == okEvents {
					kind = "all"
				}
				res.Violate("C23/success-but-discarded/"+tag+"/"+kind, "%s: answered success (%d %s %q) but %d of %d valid events were never processed: %v", where, out.status, out.grpcCode, rtClip(out.body, 100), len(missing), okEvents, missing)
			}
			if len(dup) > 0 {
				res.Violate("C23/accepted-event-forwarded-twice/"+r.Endpoint, "%s: %v", where, dup)
			}
			if emptyBy[ri] > 0 {
				res.Violate("C23/phantom-event", "%s: %d events without any field were forwarded for this request", where, emptyBy[ri])
			}
			if r.Endpoint == "event" && r.Events[0].Kind == "empty-data" {
				res.Violate("C23/event/empty-event-accepted", "%s: an event without fields was answered %d", where, out.status)
			}
			continue
		}
		var arr []struct {
			Status int    `json:"status"`
			Error  string `json:"error"`
		}
		docs, _ := rtJSONDocs(out.body)
		if len(docs) != 1 {
			continue // reported above
		}
		if err := json.Unmarshal(out.body, &arr); err != nil || len(arr) != len(r.Events) {
			res.Violate("C23/batch/response-shape/"+fault, "%s: %d events sent, answer %q", where, len(r.Events), rtClip(out.body, 300))
			continue
		}
		ownSeen, invalidAccepted := 0, 0
		for i, e := range r.Events {
			st := arr[i].Status
			vid := c23Vid(ri, i)
			n := count[vid]
			ev := fmt.Sprintf("%s event %d (%s, %s) answered %d %q", where, i, e.Kind, e.Class, st, arr[i].Error)
			switch e.Kind {
			case "empty-data", "no-data", "data-not-object":
				if st != 400 {
					invalidAccepted++
					res.Violate(fmt.Sprintf("C23/batch/invalid-event-%d/%s", st, e.Kind), "%s; %d events without any field were forwarded for this request", ev, emptyBy[ri])
				}
				continue
			}
			// queue admission while the worker is stalled: exactly the first Queue own spans fit
			if gated && e.Class == "own" && (st == 202 || st == 429) {
				want := 202
				if ownSeen >= c.Queue {
					want = 429
				}
				if st != want {
					res.Violate(fmt.Sprintf("C23/batch/queue-admission/expected-%d-got-%d", want, st), "%s; worker stalled, queue size %d, %d own spans of this batch were accepted before", ev, c.Queue, ownSeen)
				}
				if st == 202 {
					ownSeen++
				}
			}
			// consistency of the listed status with what happened
			switch st {
			case 202:
				if n == 0 {
					res.Violate("C23/batch/202-but-not-forwarded/"+e.Class, "%s; it never left the collector or the router", ev)
				} else if n > 1 {
					res.Violate("C23/batch/accepted-event-forwarded-twice", "%s; forwarded %d times via %v", ev, n, vias[vid])
				}
			case 429, 400:
				if n > 0 {
					res.Violate(fmt.Sprintf("C23/batch/%d-but-forwarded", st), "%s; forwarded via %v", ev, vias[vid])
				}
			default:
				res.Violate("C23/batch/unexpected-event-status", "%s", ev)
			}
			if e.Kind != "ok" || c23OddTime(e) {
				continue // odd-meta / odd time: validity is a don't-care
			}
			switch st {
			case 400:
				res.Violate("C23/batch/valid-event-400/"+e.Class, "%s", ev)
			case 429:
				if e.Class != "own" {
					res.Violate("C23/batch/429-for-unqueued-event/"+e.Class, "%s", ev)
				} else if c.Queue >= 1000 {
					res.Violate("C23/batch/429-without-full-queue", "%s", ev)
				}
				res.Class("event-429")
			}
		}
		if emptyBy[ri] > invalidAccepted {
			res.Violate("C23/phantom-event", "%s: %d events without any field were forwarded for this request, only %d entries without data were answered as accepted", where, emptyBy[ri], invalidAccepted)
		}
	}
	if c.GateAt >= 0 {
		res.Class("mode=gate")
	} else if c.Queue < 1000 {
		res.Class("mode=burst")
	} else {
		res.Class("mode=plain")
	}
	return res
}

func TestC23(t *testing.T) {
	vkit.Run(t, vkit.Spec[c23Case]{
		ID:   "C23",
		Rule: "fresh node per case: incoming+peer Router (+gRPC when needed) in front of the real InMemCollector (1 worker, keep-all sampler, 4 ms trace timeout) with recording transmissions and a fake Honeycomb /1/auth; 1-5 requests per case on /1/events, /1/batch, /v1/traces, /v1/logs (proto and JSON) and both gRPC services, with injected faults: environment lookup answering 401/500/garbage/hang-up, missing key, truncated/garbled/empty bodies, short reads, bad and truncated gzip, bad zstd, intact gzip/zstd data with a wrong checksum trailer, a late-failing body read followed by 1-3 healthy batches of the same encoding, wrong content type, batch that is not an array, invalid events inside a batch, queue admission (collector worker stalled deterministically behind a blocked late-span send, queue size 1-3; or a 40-span burst into a tiny queue). Every event carries a unique id; after the last answer two sentinel spans flush the single worker, then: one response per request (one JSON document), error status => none of its events in any sink, success => every valid event in a sink exactly once or individually reported, batch entries 202 <=> forwarded once, 429/400 => never forwarded, 429 only for queue-bound spans when the queue can be full (exact positions under the stall), 400 exactly for invalid events. Non-trivial: a request with a fault (or stalled queue, or an invalid event) that also carries at least one valid event.",
		Assumptions: []string{
			"observation point is the enqueue call of the upstream/peer transmissions and the real collector's output (DirectTransmission itself is C26's subject)",
			"sentinel argument: one worker, FIFO queues, expiry in SendBy order, single sender goroutine - a sentinel sent after all answers leaves the collector after everything accepted before it; a missing sentinel makes the case inconclusive",
			"OTLP queue-full drops (no per-event status exists) are not judged; span events/links are not generated",
			"an event whose meta.refinery.probe is a string is neither asserted valid nor invalid (only consistency of its listed status)",
			"dataset-decoding faults are unreachable through a real listener (DESIGN 5 iv)",
		},
		Gen:  genC23,
		Exec: execC23,
	})
}
