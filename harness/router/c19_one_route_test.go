package router

import (
	"bytes"
	"encoding/json"
	"fmt"
	"net"
	"net/http"
	"reflect"
	"sort"
	"strconv"
	"strings"
	"testing"
	"time"

	"github.com/vmihailenco/msgpack/v5"
	"pgregory.net/rapid"

	"github.com/honeycombio/refinery/config"
	"github.com/honeycombio/refinery/logger"
	"github.com/honeycombio/refinery/metrics"
	"github.com/honeycombio/refinery/transmit"
	"github.com/honeycombio/refinery/types"
	"github.com/honeycombio/refinery/verifharness/vkit"
)

// C19: each well-formed event a node receives is handled exactly once by exactly
// one path: no trace id -> straight to Honeycomb unsampled; own trace -> collector;
// foreign trace -> forwarded to the owner with key, dataset, sample rate,
// timestamp and fields unchanged; probe -> discarded.

type c19Field struct {
	K    string  `json:"k"`
	Kind string  `json:"kind"` // s i f b arr map
	S    string  `json:"s,omitempty"`
	I    int64   `json:"i,omitempty"`
	F    float64 `json:"f,omitempty"`
	B    bool    `json:"b,omitempty"`
}

type c19Ev struct {
	Class   string     `json:"class"`            // none | empty | own | foreign
	Stress  string     `json:"stress,omitempty"` // k kept | d dropped | u not processed (only matters when the node is stressed)
	N       int        `json:"n,omitempty"`
	Long    bool       `json:"long,omitempty"`     // 32 character trace id
	IDField string     `json:"id_field,omitempty"` // which field carries the trace id
	Probe   string     `json:"probe,omitempty"`    // "" | true | false
	Parent  bool       `json:"parent,omitempty"`
	Rate    int        `json:"rate,omitempty"`    // 0 = not given
	TimeNs  int64      `json:"time_ns,omitempty"` // 0 = not given; unix nanoseconds
	Extra   []c19Field `json:"extra,omitempty"`
}

type c19Req struct {
	Listener string  `json:"listener"` // incoming | peer
	Endpoint string  `json:"endpoint"` // event | batch
	Enc      string  `json:"enc"`      // json | msgpack
	Comp     string  `json:"comp,omitempty"`
	Key      string  `json:"key"`
	Dataset  string  `json:"dataset"` // raw path segment
	UA       string  `json:"ua,omitempty"`
	Events   []c19Ev `json:"events"` // event endpoint: only the first is used
}

type c19Case struct {
	Stressed bool `json:"stressed"`
	// Hop: foreign spans really travel: this node's peer transmission is a real
	// DirectTransmission aimed at the peer listener of a second node that owns them.
	Hop         bool     `json:"hop,omitempty"`
	HopCompress bool     `json:"hop_compress,omitempty"`
	Reqs        []c19Req `json:"reqs"`
}

// c19Datasets: raw path segments as a client may write them ('+' and sub-delims are
// legal literally; everything else percent-encoded). Dot segments are left out
// (known C26 finding C26/misaddressed/dot-segment-dataset).
var c19Datasets = []string{"ds", "Prod-1", "my%20data", "a%2Fb", "team+checkout", "a%2Bb", "a+b%20c", "x%25y", "100%25+1",
	"q%26a%3Db", "k=v&x", "w%3Fx%23y", "caf%C3%A9", "a.b", "v1.2+rc%201", "%2B", "+", "a%2520b", "semi;colon,comma", "at@colon:"}

// c19PathDecode: what a path segment means (RFC 3986): %XX is the byte XX, every
// other character stands for itself - in particular '+' is a plus sign.
func c19PathDecode(seg string) string {
	var b []byte
	for i := 0; i < len(seg); i++ {
		if seg[i] == '%' && i+2 < len(seg) {
			if v, err := strconv.ParseUint(seg[i+1:i+3], 16, 8); err == nil {
				b = append(b, byte(v))
				i += 2
				continue
			}
		}
		b = append(b, seg[i])
	}
	return string(b)
}

const (
	c19Legacy    = "c9945edf5d245834089a1bd6cc9ad01e"
	c19NonLegacy = "d245834089a1bd6cc9ad01e"
	c19OtherAddr = "http://owner-of-foreign-traces:8081"
	c19SelfAddr  = "http://this-node:8081"
)

func c19TraceID(e c19Ev) string {
	switch e.Class {
	case "own", "foreign":
		p := "a"
		if e.Class == "foreign" {
			p = "f"
		}
		st := e.Stress
		if st == "" {
			st = "u"
		}
		id := p + st + strconv.Itoa(e.N)
		if e.Long {
			id += strings.Repeat("0", 32-len(id))
		}
		return id
	}
	return ""
}

func c19Foreign(id string) bool { return strings.HasPrefix(id, "f") }
func c19Immediate(id string) (bool, bool) {
	if len(id) < 2 {
		return false, false
	}
	switch id[1] {
	case 'k':
		return true, true
	case 'd':
		return true, false
	}
	return false, false
}

func genC19(t *rapid.T) c19Case {
	field := rapid.Custom(func(t *rapid.T) c19Field {
		f := c19Field{K: rapid.SampledFrom([]string{"name", "duration_ms", "http.status", "error", "nested", "list", "service.name", "trace.span_id", "meta.annotation_type"}).Draw(t, "k")}
		switch f.K {
		case "meta.annotation_type":
			f.Kind, f.S = "s", rapid.SampledFrom([]string{"span_event", "link"}).Draw(t, "ann")
			return f
		}
		f.Kind = rapid.SampledFrom([]string{"s", "i", "f", "b", "arr", "map"}).Draw(t, "kind")
		switch f.Kind {
		case "s":
			f.S = rapid.SampledFrom([]string{"", "x", "GET /", "héllo", "0"}).Draw(t, "s")
		case "i":
			f.I = rapid.SampledFrom([]int64{0, 1, -1, 200, 255, 65536, 1 << 40}).Draw(t, "i")
		case "f":
			f.F = rapid.SampledFrom([]float64{0.5, -2.25, 1e9 + 0.5}).Draw(t, "f")
		case "b":
			f.B = rapid.Bool().Draw(t, "b")
		}
		return f
	})
	ev := rapid.Custom(func(t *rapid.T) c19Ev {
		e := c19Ev{Class: rapid.SampledFrom([]string{"none", "empty", "own", "own", "foreign", "foreign"}).Draw(t, "class")}
		if e.Class != "none" {
			e.IDField = rapid.SampledFrom([]string{"trace.trace_id", "trace.trace_id", "traceId", "meta.trace_id"}).Draw(t, "idfield")
		}
		if e.Class == "own" || e.Class == "foreign" {
			e.Stress = rapid.SampledFrom([]string{"k", "d", "u"}).Draw(t, "stress")
			e.N = rapid.IntRange(0, 2).Draw(t, "n")
			e.Long = rapid.Bool().Draw(t, "long")
			e.Parent = rapid.Bool().Draw(t, "parent")
		}
		e.Probe = rapid.SampledFrom([]string{"", "", "", "", "true", "false"}).Draw(t, "probe")
		e.Rate = rapid.SampledFrom([]int{0, 0, 1, 2, 10, 1000}).Draw(t, "rate")
		if rapid.Bool().Draw(t, "hastime") {
			e.TimeNs = rapid.SampledFrom([]int64{1_700_000_000_000_000_000, 1_700_000_000_123_456_789, 1_000_000_000_500_000_000, 4_000_000_000_000_000_001}).Draw(t, "time")
		}
		e.Extra = rapid.SliceOfN(field, 0, 4).Draw(t, "extra")
		return e
	})
	req := rapid.Custom(func(t *rapid.T) c19Req {
		r := c19Req{
			Listener: rapid.SampledFrom([]string{"incoming", "incoming", "peer"}).Draw(t, "listener"),
			Endpoint: rapid.SampledFrom([]string{"batch", "batch", "batch", "event"}).Draw(t, "endpoint"),
			Enc:      rapid.SampledFrom([]string{"json", "msgpack"}).Draw(t, "enc"),
			Comp:     rapid.SampledFrom([]string{"", "", "gzip", "zstd"}).Draw(t, "comp"),
			Key:      rapid.SampledFrom([]string{c19Legacy, c19NonLegacy}).Draw(t, "key"),
			Dataset:  rapid.SampledFrom(c19Datasets).Draw(t, "dataset"),
			UA:       rapid.SampledFrom([]string{"", "libhoney-go/1.2.3"}).Draw(t, "ua"),
		}
		r.Events = rapid.SliceOfN(ev, 1, 6).Draw(t, "events")
		return r
	})
	c := c19Case{Stressed: rapid.IntRange(0, 2).Draw(t, "stressed") == 0}
	c.Hop = rapid.IntRange(0, 2).Draw(t, "hop") == 0
	if c.Hop {
		c.HopCompress = rapid.Bool().Draw(t, "hop_compress")
	}
	c.Reqs = rapid.SliceOfN(req, 1, 3).Draw(t, "reqs")
	return c
}

func c19Data(e c19Ev, vid string) map[string]any {
	d := map[string]any{"vid": vid}
	for _, f := range e.Extra {
		switch f.Kind {
		case "s":
			d[f.K] = f.S
		case "i":
			d[f.K] = f.I
		case "f":
			d[f.K] = f.F
		case "b":
			d[f.K] = f.B
		case "arr":
			d[f.K] = []any{int64(1), "two", 3.5}
		case "map":
			d[f.K] = map[string]any{"a": int64(1), "b": map[string]any{"c": "d"}}
		}
	}
	switch e.Class {
	case "empty":
		d[e.IDField] = ""
	case "own", "foreign":
		d[e.IDField] = c19TraceID(e)
		if e.Parent {
			d["trace.parent_id"] = "p1"
		}
	}
	switch e.Probe {
	case "true":
		d["meta.refinery.probe"] = true
	case "false":
		d["meta.refinery.probe"] = false
	}
	return d
}

func c19Encode(r c19Req, reqIdx int) (body []byte, hdr [][2]string, vids []string, err error) {
	ct := "application/json"
	if r.Enc == "msgpack" {
		ct = "application/msgpack"
	}
	hdr = append(hdr, [2]string{"Content-Type", ct}, [2]string{"X-Honeycomb-Team", r.Key})
	if r.UA != "" {
		hdr = append(hdr, [2]string{"User-Agent", r.UA})
	}
	var doc any
	if r.Endpoint == "event" {
		e := r.Events[0]
		vid := fmt.Sprintf("r%de0", reqIdx)
		vids = []string{vid}
		doc = c19Data(e, vid)
		if e.Rate != 0 {
			hdr = append(hdr, [2]string{"X-Honeycomb-Samplerate", strconv.Itoa(e.Rate)})
		}
		if e.TimeNs != 0 {
			hdr = append(hdr, [2]string{"X-Honeycomb-Event-Time", time.Unix(0, e.TimeNs).UTC().Format(time.RFC3339Nano)})
		}
	} else {
		var arr []any
		for i, e := range r.Events {
			vid := fmt.Sprintf("r%de%d", reqIdx, i)
			vids = append(vids, vid)
			m := map[string]any{"data": c19Data(e, vid)}
			if e.Rate != 0 {
				m["samplerate"] = int64(e.Rate)
			}
			if e.TimeNs != 0 {
				if r.Enc == "msgpack" {
					m["time"] = time.Unix(0, e.TimeNs).UTC()
				} else {
					m["time"] = time.Unix(0, e.TimeNs).UTC().Format(time.RFC3339Nano)
				}
			}
			arr = append(arr, m)
		}
		doc = arr
	}
	if r.Enc == "msgpack" {
		var b bytes.Buffer
		enc := msgpack.NewEncoder(&b)
		enc.SetSortMapKeys(true)
		err = enc.Encode(doc)
		body = b.Bytes()
	} else {
		body, err = json.Marshal(doc)
	}
	if err != nil {
		return
	}
	switch r.Comp {
	case "gzip":
		body = rtGzip(body)
		hdr = append(hdr, [2]string{"Content-Encoding", "gzip"})
	case "zstd":
		body = rtZstd(body)
		hdr = append(hdr, [2]string{"Content-Encoding", "zstd"})
	}
	return
}

// c19Canon: numbers compared by value (JSON has only one number type).
func c19Canon(v any) any {
	switch x := v.(type) {
	case map[string]any:
		o := map[string]any{}
		for k, e := range x {
			o[k] = c19Canon(e)
		}
		return o
	case []any:
		o := make([]any, len(x))
		for i, e := range x {
			o[i] = c19Canon(e)
		}
		return o
	case int:
		return float64(x)
	case int8:
		return float64(x)
	case int16:
		return float64(x)
	case int32:
		return float64(x)
	case int64:
		return float64(x)
	case uint:
		return float64(x)
	case uint8:
		return float64(x)
	case uint16:
		return float64(x)
	case uint32:
		return float64(x)
	case uint64:
		return float64(x)
	case float32:
		return float64(x)
	}
	return v
}

func c19ClientFields(m map[string]any) map[string]any {
	o := map[string]any{}
	for k, v := range m {
		if strings.HasPrefix(k, "meta.") { // reserved for refinery's own metadata (C20 covers those)
			continue
		}
		o[k] = c19Canon(v)
	}
	return o
}

// c19HopTx records what the router hands to the peer transmission and then lets
// the real DirectTransmission carry it to the owning node.
type c19HopTx struct {
	rec  *rtRecorder
	real *transmit.DirectTransmission
}

func (t *c19HopTx) EnqueueEvent(ev *types.Event) {
	t.rec.add("peer-event", ev)
	t.real.EnqueueEvent(ev)
}
func (t *c19HopTx) EnqueueSpan(sp *types.Span) {
	t.rec.add("peer-span", sp.Event)
	t.real.EnqueueSpan(sp)
}

func execC19(c c19Case) vkit.Result {
	var res vkit.Result
	defer rtScrub(&res)
	fake := rtNewFake()
	defer fake.Close()
	rec := &rtRecorder{}
	cfg := &config.MockConfig{
		GetHoneycombAPIVal: fake.URL,
		TraceIdFieldNames:  []string{"trace.trace_id", "traceId"},
		ParentIdFieldNames: []string{"trace.parent_id"},
		GetSamplerTypeVal:  &config.DeterministicSamplerConfig{SampleRate: 1},
		GetSamplerTypeName: "DeterministicSampler",
		EnvironmentCacheTTL: time.Hour,
	}
	coll := &rtRecCollector{rec: rec, stressed: c.Stressed, immediate: c19Immediate}
	otherAddr := c19OtherAddr
	var peerTx transmit.Transmission = &rtRecTransmission{"peer", rec}
	recB := &rtRecorder{}
	var hopDT *transmit.DirectTransmission
	stopDT := func() {}
	if c.Hop {
		// node B owns everything it is sent
		cfgB := &config.MockConfig{
			GetHoneycombAPIVal: fake.URL, TraceIdFieldNames: cfg.TraceIdFieldNames, ParentIdFieldNames: cfg.ParentIdFieldNames,
			GetSamplerTypeVal: cfg.GetSamplerTypeVal, GetSamplerTypeName: cfg.GetSamplerTypeName, EnvironmentCacheTTL: time.Hour,
		}
		nodeB, err := rtStartNode(rtNodeOpts{
			Cfg: cfgB, Upstream: &rtRecTransmission{"upstream", recB}, Peer: &rtRecTransmission{"peer", recB},
			Collector: &rtRecCollector{rec: recB},
			Sharder:   &rtSharder{self: &rtShard{"http://node-b"}, other: &rtShard{"http://nobody"}},
		})
		if err != nil {
			res.Class("inconclusive-timing")
			return res
		}
		defer nodeB.Stop()
		otherAddr = "http://" + nodeB.PeerAddr
		hopTransport := &http.Transport{DialContext: (&net.Dialer{Timeout: 5 * time.Second}).DialContext, MaxIdleConnsPerHost: 4}
		defer hopTransport.CloseIdleConnections()
		hopDT = transmit.NewDirectTransmission(types.TransmitTypePeer, hopTransport, 50, 2*time.Millisecond, 15*time.Second, c.HopCompress, nil)
		hopDT.Logger, hopDT.Version, hopDT.Metrics, hopDT.Config = &logger.NullLogger{}, "verif", &metrics.NullMetrics{}, cfg
		if err := hopDT.Start(); err != nil {
			res.Class("inconclusive-timing")
			return res
		}
		stopped := false
		stopDT = func() {
			if !stopped {
				stopped = true
				hopDT.Stop() // flushes every pending batch and waits for the answers
			}
		}
		defer func() { stopDT() }()
		peerTx = &c19HopTx{rec: rec, real: hopDT}
		res.Class("real-peer-hop")
	}
	node, err := rtStartNode(rtNodeOpts{
		Cfg: cfg, Upstream: &rtRecTransmission{"upstream", rec}, Peer: peerTx,
		Collector: coll,
		Sharder:   &rtSharder{self: &rtShard{c19SelfAddr}, other: &rtShard{otherAddr}, foreign: c19Foreign},
	})
	if err != nil {
		res.Class("inconclusive-timing")
		return res
	}
	defer node.Stop()

	type sent struct {
		ev       c19Ev
		req      c19Req
		data     map[string]any
		dataset  string
		listener string
	}
	all := map[string]sent{}
	var order []string
	for ri, r := range c.Reqs {
		body, hdr, vids, err := c19Encode(r, ri)
		if err != nil {
			res.Violate("harness/encode", "%v", err)
			return res
		}
		seg := "batch"
		if r.Endpoint == "event" {
			seg = "events"
		}
		addr := node.Addr(r.Listener)
		resp, err := rtRawRoundTrip(addr, rtBuildRequest("POST", "/1/"+seg+"/"+r.Dataset, addr, hdr, body), "POST", 8*time.Second)
		if err != nil {
			res.Class("inconclusive-timing")
			return res // a request we cannot account for: no verdict for the case
		}
		ds := c19PathDecode(r.Dataset)
		n := len(r.Events)
		if r.Endpoint == "event" {
			n = 1
		}
		for i := 0; i < n; i++ {
			all[vids[i]] = sent{ev: r.Events[i], req: r, data: c19Data(r.Events[i], vids[i]), dataset: ds, listener: r.Listener}
			order = append(order, vids[i])
		}
		if resp.Status != 200 {
			res.Class("request-not-200")
		}
	}

	stopDT() // real hop: every forwarded batch has been answered by node B after this

	// An event belongs to the sink it was handed to: transmissions read the
	// destination, key and dataset when they send, not when they are given the
	// event, so what counts is the event as it is once the handlers have returned.
	later := rec.reread()
	for i, s := range rec.all() {
		l := later[i]
		if c.Hop && strings.HasPrefix(s.Via, "peer-") {
			continue // handed on to the real DirectTransmission, which owns it now
		}
		vid, _ := s.Fields["vid"].(string)
		diff := ""
		switch {
		case l.APIHost != s.APIHost:
			diff = "destination"
		case l.APIKey != s.APIKey:
			diff = "api-key"
		case l.Dataset != s.Dataset:
			diff = "dataset"
		case l.SampleRate != s.SampleRate:
			diff = "sample-rate"
		case !l.Timestamp.Equal(s.Timestamp):
			diff = "timestamp"
		case l.Probe != s.Probe:
			diff = "probe-mark"
		case !reflect.DeepEqual(c19ClientFields(l.Fields), c19ClientFields(s.Fields)):
			diff = "fields"
		}
		if diff != "" {
			hostThen := strings.NewReplacer(fake.URL, "<honeycomb-api>").Replace(s.APIHost)
			hostNow := strings.NewReplacer(fake.URL, "<honeycomb-api>").Replace(l.APIHost)
			res.Violate("C19/changed-after-handover/"+s.Via+"/"+diff, "event %s (trace %q) was handed to %s with destination %q key %q dataset %q rate %d probe=%v; after the request was answered the same event reads destination %q key %q dataset %q rate %d probe=%v (stressed=%v)",
				vid, s.TraceID, s.Via, hostThen, s.APIKey, s.Dataset, s.SampleRate, s.Probe, hostNow, l.APIKey, l.Dataset, l.SampleRate, l.Probe, c.Stressed)
		}
	}
	atOwner := map[string][]rtSnap{}
	for _, s := range recB.all() {
		vid, _ := s.Fields["vid"].(string)
		if _, ok := all[vid]; !ok {
			res.Violate("C19/foreign-hop/phantom-event", "owner node: %s received an event that matches no event sent (vid=%v dataset=%q)", s.Via, s.Fields["vid"], s.Dataset)
			continue
		}
		atOwner[vid] = append(atOwner[vid], s)
	}

	byVid := map[string][]rtSnap{}
	for _, s := range rec.all() {
		vid, _ := s.Fields["vid"].(string)
		if _, ok := all[vid]; !ok {
			res.Violate("C19/phantom-event", "%s received an event that matches no event sent (vid=%v trace=%q)", s.Via, s.Fields["vid"], s.TraceID)
			continue
		}
		byVid[vid] = append(byVid[vid], s)
	}

	classesInReq := map[int]map[string]bool{}
	for _, vid := range order {
		sn := all[vid]
		e := sn.ev
		snaps := byVid[vid]
		vias := make([]string, 0, len(snaps))
		for _, s := range snaps {
			vias = append(vias, s.Via)
		}
		id := c19TraceID(e)
		var route string
		switch {
		case e.Probe == "true":
			route = "probe"
		case id == "":
			route = "notrace"
		case c.Stressed && func() bool { p, _ := c19Immediate(id); return p }():
			route = "stress"
		case c19Foreign(id):
			route = "foreign"
		default:
			route = "own"
		}
		ri, _ := strconv.Atoi(strings.SplitN(vid[1:], "e", 2)[0])
		if classesInReq[ri] == nil {
			classesInReq[ri] = map[string]bool{}
		}
		classesInReq[ri][route] = true
		res.Class("route=" + route)
		where := fmt.Sprintf("event %s (%s listener, %s/%s, stressed=%v, trace=%q via %q, probe=%q)", vid, sn.listener, sn.req.Endpoint, sn.req.Enc, c.Stressed, id, e.IDField, e.Probe)

		expectOne := func(wantVia ...string) *rtSnap {
			if len(snaps) == 0 {
				res.Violate("C19/"+route+"/lost", "%s reached no path at all", where)
				return nil
			}
			if len(snaps) > 1 {
				res.Violate("C19/"+route+"/handled-more-than-once", "%s was handled by %v", where, vias)
				return nil
			}
			for _, w := range wantVia {
				if snaps[0].Via == w {
					return &snaps[0]
				}
			}
			res.Violate("C19/"+route+"/wrong-path/"+snaps[0].Via, "%s went to %s, expected %v", where, snaps[0].Via, wantVia)
			return nil
		}
		wantRate := uint(e.Rate)
		if wantRate == 0 {
			wantRate = 1
		}
		attrs := func(tag string, s *rtSnap, full bool) {
			if s.SampleRate != wantRate {
				res.Violate("C19/"+tag+"/sample-rate", "%s: sample rate %d became %d", where, wantRate, s.SampleRate)
			}
			if !full {
				return
			}
			if s.APIKey != sn.req.Key {
				res.Violate("C19/"+tag+"/api-key", "%s: API key %q became %q", where, sn.req.Key, s.APIKey)
			}
			if s.Dataset != sn.dataset {
				res.Violate("C19/"+tag+"/dataset", "%s: dataset %q became %q", where, sn.dataset, s.Dataset)
			}
			if e.TimeNs != 0 && !s.Timestamp.Equal(time.Unix(0, e.TimeNs)) {
				res.Violate("C19/"+tag+"/timestamp", "%s: timestamp %s became %s", where, time.Unix(0, e.TimeNs).UTC().Format(time.RFC3339Nano), s.Timestamp.UTC().Format(time.RFC3339Nano))
			}
			want, got := c19ClientFields(sn.data), c19ClientFields(s.Fields)
			if !reflect.DeepEqual(want, got) {
				res.Violate("C19/"+tag+"/fields", "%s: fields %v became %v", where, c19Show(want), c19Show(got))
			}
			if s.Probe {
				res.Violate("C19/"+tag+"/marked-probe", "%s was forwarded marked as a probe", where)
			}
		}

		switch route {
		case "probe":
			if len(snaps) != 0 {
				res.Violate("C19/probe/not-discarded", "%s was handled by %v", where, vias)
			}
		case "notrace":
			if s := expectOne("upstream-event", "upstream-span"); s != nil {
				attrs(route, s, true)
				if s.APIHost != fake.URL {
					res.Violate("C19/notrace/destination", "%s: sent to %q instead of the Honeycomb API", where, strings.Replace(s.APIHost, fake.URL, "<api>", 1))
				}
			}
		case "own":
			want := "collector-incoming"
			if sn.listener == "peer" {
				want = "collector-peer"
			}
			if s := expectOne(want); s != nil {
				attrs(route, s, true)
				if s.TraceID != id {
					res.Violate("C19/own/trace-id", "%s: collector got trace id %q", where, s.TraceID)
				}
			}
		case "foreign":
			if s := expectOne("peer-event", "peer-span"); s != nil {
				attrs(route, s, true)
				if s.APIHost != otherAddr {
					res.Violate("C19/foreign/destination", "%s: forwarded to %q, owner is %q", where, s.APIHost, otherAddr)
				}
			}
			if c.Hop {
				// the same span as the owning node's router took it in
				got := atOwner[vid]
				switch {
				case len(got) == 0:
					res.Class("hop-delivery-missing") // delivery itself is C26's subject
				case len(got) > 1:
					res.Violate("C19/foreign-hop/handled-more-than-once", "%s: the owner handled it %d times", where, len(got))
				case got[0].Via != "collector-peer":
					res.Violate("C19/foreign-hop/wrong-path/"+got[0].Via, "%s: at the owner it went to %s, expected collector-peer", where, got[0].Via)
				default:
					attrs("foreign-hop", &got[0], true)
					if got[0].TraceID != id {
						res.Violate("C19/foreign-hop/trace-id", "%s: the owner saw trace id %q", where, got[0].TraceID)
					}
				}
			}
		case "stress":
			// handled by the collector's immediate decision; a probe (and only a probe) may additionally go to the owning peer
			imm, others := 0, []string{}
			for _, s := range snaps {
				switch {
				case s.Via == "collector-immediate":
					imm++
					if _, kept := c19Immediate(id); kept {
						res.Class("stress-kept/" + e.Class)
						// the collector sends a kept span to Honeycomb itself: that is where it must still be addressed
						if l := later[s.Seq]; l.APIHost != fake.URL || l.Probe {
							res.Violate("C19/stress/kept-span-destination", "%s: the span the collector kept now reads destination %q probe=%v, expected the Honeycomb API and no probe mark", where, strings.NewReplacer(fake.URL, "<honeycomb-api>").Replace(l.APIHost), l.Probe)
						}
					}
				case strings.HasPrefix(s.Via, "peer-") && s.Probe && c19Foreign(id):
					res.Class("stress-probe-to-owner")
				default:
					others = append(others, s.Via)
				}
			}
			if imm != 1 {
				res.Violate("C19/stress/immediate-decisions", "%s: %d immediate decisions, paths %v", where, imm, vias)
			}
			if len(others) > 0 {
				sort.Strings(others)
				res.Violate("C19/stress/also-routed/"+others[0], "%s was decided immediately and also went to %v", where, others)
			}
		}
	}
	for _, vid := range order {
		e := all[vid].ev
		id := c19TraceID(e)
		isForeignRoute := e.Probe != "true" && id != "" && c19Foreign(id) && !(c.Stressed && func() bool { p, _ := c19Immediate(id); return p }())
		if !isForeignRoute && len(atOwner[vid]) > 0 {
			res.Violate("C19/foreign-hop/unexpected-at-owner", "event %s (trace %q, probe=%q, stressed=%v) is not a forwarded foreign span, yet the owner node handled it via %s", vid, id, e.Probe, c.Stressed, atOwner[vid][0].Via)
		}
	}
	for _, m := range classesInReq {
		if len(m) >= 3 {
			res.NonTrivial = true
		}
	}
	if c.Stressed {
		res.Class("node-stressed")
	}
	return res
}

func c19Show(m map[string]any) string {
	b, _ := json.Marshal(m)
	return string(b)
}

func TestC19(t *testing.T) {
	vkit.Run(t, vkit.Spec[c19Case]{
		ID:   "C19",
		Rule: "fresh incoming+peer Router per case with recording upstream/peer transmissions, recording collector (stress state and immediate decisions scripted by trace id) and a stub sharder (trace ids starting with f are foreign); 1-3 requests per case on /1/events and /1/batch, JSON or msgpack, plain/gzip/zstd, legacy and environment keys, 20 dataset path segments (literal '+', %2B, %20, %2F, %25, %26, %3D, %3F, %23, UTF-8, dots, sub-delims; no dot segments); in a third of the cases the peer transmission is a real DirectTransmission into the peer listener of a second node that owns the foreign traces; 1-6 events per batch drawn from {no trace field, empty trace id, own trace, foreign trace} x {probe true/false/absent} with three trace-id field names. Every event carries a unique id; oracle = partition: each event is found in exactly the one sink its class prescribes (probe: none), no sink holds an unknown event, every sink (upstream, collector, peer transmission, and the owning node's collector after the real hop) sees the key, dataset (RFC 3986 path-segment decoding of what the client addressed, written independently), sample rate, timestamp and client fields the client sent. Non-trivial: one request whose events take >= 3 different routes.",
		Assumptions: []string{
			"OTLP ingestion is not part of this check (field translation belongs to C20/C23); events arrive on /1/events and /1/batch",
			"client fields are compared by value with numbers as float64; names under meta. are refinery's own and excluded",
			"under stress a span the collector decided immediately may additionally produce a probe to the owning peer (C16's subject); anything else besides the immediate decision is a second route",
			"delivery across the real hop is flushed with DirectTransmission.Stop(); a span that does not arrive is counted (hop-delivery-missing), not judged (C26); dot-segment datasets are excluded (known C26/misaddressed/dot-segment-dataset)",
			"timestamps are sent as RFC3339Nano / msgpack timestamps only (epoch-number headers are C22's subject)",
		},
		Gen:  genC19,
		Exec: execC19,
	})
}
