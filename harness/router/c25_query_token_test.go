package router

import (
	"bytes"
	"encoding/json"
	"fmt"
	"net/url"
	"strings"
	"testing"
	"time"
	"unicode"

	"pgregory.net/rapid"

	"github.com/honeycombio/refinery/config"
	"github.com/honeycombio/refinery/verifharness/vkit"
)

// C25: every /query/ endpoint answers with data only when a non-empty
// QueryAuthToken is configured and the request carries exactly that token;
// otherwise it returns an error and reveals no configuration or trace placement.

type c25Req struct {
	Listener string `json:"listener"` // incoming | peer
	Method   string `json:"method"`
	Endpoint string `json:"endpoint"` // trace | rules | allrules | configmetadata | unknown
	TraceID  string `json:"trace_id,omitempty"`
	Format   string `json:"format,omitempty"`
	Dataset  string `json:"dataset,omitempty"`
	Tok      string `json:"tok"`    // how the presented token relates to Base
	Header   string `json:"header"` // spelling of the header name
}

type c25Case struct {
	Base       string   `json:"base"`       // never empty, no leading/trailing blanks
	Configured bool     `json:"configured"` // QueryAuthToken = Base, or ""
	Reqs       []c25Req `json:"reqs"`
}

const (
	c25MarkOwn   = "MARKOWN"
	c25MarkPeer  = "MARKPEER"
	c25MarkField = "MARKFIELD"
	c25MarkMeta  = "MARKMETA"
)

var c25Markers = []string{c25MarkOwn, c25MarkPeer, c25MarkField, c25MarkMeta}

var c25TokKinds = []string{"absent", "empty", "exact", "ows", "prefix", "extended", "prefixed", "case", "doubled", "other", "blank"}

func c25SwapCase(s string) string {
	return strings.Map(func(r rune) rune {
		switch {
		case unicode.IsUpper(r):
			return unicode.ToLower(r)
		case unicode.IsLower(r):
			return unicode.ToUpper(r)
		}
		return r
	}, s)
}

// c25Presented returns the header value put on the wire (ok=false: no header).
func c25Presented(base, kind string) (string, bool) {
	switch kind {
	case "absent":
		return "", false
	case "empty":
		return "", true
	case "blank":
		return " ", true
	case "exact":
		return base, true
	case "ows":
		return " " + base + " \t", true
	case "prefix":
		r := []rune(base)
		return string(r[:len(r)-1]), true
	case "extended":
		return base + "x", true
	case "prefixed":
		return "x" + base, true
	case "case":
		return c25SwapCase(base), true
	case "doubled":
		return base + base, true
	}
	return "totally-different", true
}

func genC25(t *rapid.T) c25Case {
	var c c25Case
	if rapid.IntRange(0, 3).Draw(t, "basekind") == 0 {
		s := rapid.StringOfN(rapid.SampledFrom([]rune("abcXYZ019-_.~!$&'()*+,;=:@ %\"\\/?é#<>")), 1, 10, -1).Draw(t, "base")
		s = strings.Trim(s, " ")
		if s == "" {
			s = "t"
		}
		c.Base = s
	} else {
		c.Base = rapid.SampledFrom([]string{"some-private-value", "s3cr3t-Tok", "A", "aB", "to ken", "tökén", "0", "Bearer abc.def"}).Draw(t, "base")
	}
	c.Configured = rapid.IntRange(0, 3).Draw(t, "configured") != 0
	reqGen := rapid.Custom(func(t *rapid.T) c25Req {
		r := c25Req{
			Listener: rapid.SampledFrom([]string{"incoming", "incoming", "peer"}).Draw(t, "listener"),
			Method:   rapid.SampledFrom([]string{"GET", "GET", "GET", "GET", "GET", "GET", "GET", "GET", "GET", "GET", "GET", "GET", "POST", "HEAD", "PUT"}).Draw(t, "method"),
			Endpoint: rapid.SampledFrom([]string{"trace", "trace", "trace", "rules", "rules", "allrules", "allrules", "configmetadata", "configmetadata", "unknown"}).Draw(t, "endpoint"),
			Tok:      rapid.SampledFrom(append([]string{"exact", "exact", "exact", "ows"}, c25TokKinds...)).Draw(t, "tok"),
			Header:   rapid.SampledFrom([]string{"X-Honeycomb-Refinery-Query", "x-honeycomb-refinery-query", "X-HONEYCOMB-REFINERY-QUERY"}).Draw(t, "header"),
		}
		switch r.Endpoint {
		case "trace":
			r.TraceID = rapid.SampledFrom([]string{"abc123", "f00d", "fffffffffffffffffffffffffffffff1", "a-b", "%41bc", "f%20x", "0"}).Draw(t, "trace")
		case "rules":
			r.Format = rapid.SampledFrom([]string{"json", "yaml", "toml", "JSON", "xml"}).Draw(t, "format")
			r.Dataset = rapid.SampledFrom([]string{"dataset1", "other", "__default__"}).Draw(t, "dataset")
		case "allrules":
			r.Format = rapid.SampledFrom([]string{"json", "yaml", "toml", "Yaml", "xml"}).Draw(t, "format")
		}
		return r
	})
	c.Reqs = rapid.SliceOfN(reqGen, 1, 8).Draw(t, "reqs")
	return c
}

func c25Path(r c25Req) string {
	switch r.Endpoint {
	case "trace":
		return "/query/trace/" + r.TraceID
	case "rules":
		return "/query/rules/" + r.Format + "/" + r.Dataset
	case "allrules":
		return "/query/allrules/" + r.Format
	case "configmetadata":
		return "/query/configmetadata"
	}
	return "/query/somethingelse"
}

func c25Foreign(traceID string) bool { return strings.HasPrefix(traceID, "f") }

func execC25(c c25Case) vkit.Result {
	var res vkit.Result
	defer rtScrub(&res)
	fake := rtNewFake()
	defer fake.Close()
	rec := &rtRecorder{}
	own := "http://" + c25MarkOwn + ".internal:8081"
	peer := "http://" + c25MarkPeer + ".internal:8081"
	cfg := &config.MockConfig{
		GetHoneycombAPIVal: fake.URL,
		GetSamplerTypeVal:  &config.DynamicSamplerConfig{SampleRate: 7, FieldList: []string{c25MarkField}},
		GetSamplerTypeName: "DynamicSampler",
		CfgMetadata:        []config.ConfigMetadata{{Type: "config", ID: c25MarkMeta, Hash: "h", LoadedAt: "2024-01-01T00:00:00Z"}},
		TraceIdFieldNames:  []string{"trace.trace_id"},
		ParentIdFieldNames: []string{"trace.parent_id"},
	}
	if c.Configured {
		cfg.QueryAuthToken = c.Base
	}
	node, err := rtStartNode(rtNodeOpts{
		Cfg: cfg, Upstream: &rtRecTransmission{"upstream", rec}, Peer: &rtRecTransmission{"peer", rec},
		Collector: &rtRecCollector{rec: rec},
		Sharder:   &rtSharder{self: &rtShard{own}, other: &rtShard{peer}, foreign: c25Foreign},
	})
	if err != nil {
		res.Class("inconclusive-timing")
		return res
	}
	defer node.Stop()

	sawData, sawNearMiss, sawEmptyCorner := false, false, false
	for i, r := range c.Reqs {
		presented, has := c25Presented(c.Base, r.Tok)
		var hdr [][2]string
		if has {
			hdr = append(hdr, [2]string{r.Header, presented})
		}
		addr := node.Addr(r.Listener)
		resp, err := rtRawRoundTrip(addr, rtBuildRequest(r.Method, c25Path(r), addr, hdr, nil), r.Method, 5*time.Second)
		if err != nil {
			res.Class("inconclusive-timing")
			continue
		}
		eff := strings.Trim(presented, " \t") // optional whitespace around a field value is not part of it (RFC 9110 5.5)
		authorized := c.Configured && has && eff == c.Base
		endpointKnown := r.Endpoint != "unknown" && r.Method == "GET"
		tag := fmt.Sprintf("%s/%s", r.Endpoint, r.Tok)

		leaks := func() []string {
			var out []string
			for _, m := range c25Markers {
				if bytes.Contains(resp.Raw, []byte(m)) {
					out = append(out, m)
				}
			}
			// the configured token itself, unless the client's own value (echoed in the error text) contains it
			if c.Configured && len(c.Base) >= 6 && !strings.Contains(presented, c.Base) && bytes.Contains(resp.Raw, []byte(c.Base)) {
				out = append(out, "configured-token")
			}
			return out
		}

		switch {
		case !endpointKnown:
			res.Class("outside-endpoints")
			for _, m := range leaks() {
				res.Violate("C25/leak-outside-endpoint/"+m+"/"+r.Method, "req %d %s %s tok=%s -> %d %q", i, r.Method, c25Path(r), r.Tok, resp.Status, rtClip(resp.Body, 300))
			}
		case authorized:
			validFormat := true
			if r.Endpoint == "rules" || r.Endpoint == "allrules" {
				switch strings.ToLower(r.Format) {
				case "json", "yaml", "toml":
				default:
					validFormat = false
				}
			}
			if !validFormat {
				res.Class("authorized-invalid-format")
				break
			}
			res.Class("authorized")
			if resp.Status != 200 {
				res.Violate("C25/authorized-denied/"+r.Endpoint, "req %d GET %s with the exact token (%s) -> %d %q", i, c25Path(r), r.Tok, resp.Status, rtClip(resp.Body, 300))
				break
			}
			ok := false
			switch r.Endpoint {
			case "trace":
				var doc struct {
					TraceID string `json:"traceID"`
					Node    string `json:"node"`
				}
				id, _ := url.PathUnescape(r.TraceID)
				want := own
				if c25Foreign(id) {
					want = peer
				}
				ok = json.Unmarshal(resp.Body, &doc) == nil && doc.Node == want && doc.TraceID == id
			case "rules", "allrules":
				ok = bytes.Contains(resp.Body, []byte(c25MarkField))
			case "configmetadata":
				ok = bytes.Contains(resp.Body, []byte(c25MarkMeta))
			}
			if !ok {
				res.Violate("C25/authorized-no-data/"+r.Endpoint, "req %d GET %s with the exact token -> 200 but body %q lacks the data", i, c25Path(r), rtClip(resp.Body, 300))
			} else {
				sawData = true
			}
		default:
			res.Class("denied-expected/" + r.Tok)
			if c.Configured {
				sawNearMiss = true
			} else if r.Tok == "empty" || r.Tok == "absent" || r.Tok == "blank" {
				sawEmptyCorner = true
			}
			if resp.Status < 400 {
				res.Violate("C25/unauthorized-not-error/"+tag, "req %d GET %s configured=%v base=%q presented=%q(has=%v) -> status %d body %q", i, c25Path(r), c.Configured, c.Base, presented, has, resp.Status, rtClip(resp.Body, 300))
			}
			for _, m := range leaks() {
				res.Violate("C25/unauthorized-leak/"+m+"/"+tag, "req %d GET %s configured=%v base=%q presented=%q(has=%v) -> status %d body %q", i, c25Path(r), c.Configured, c.Base, presented, has, resp.Status, rtClip(resp.Body, 300))
			}
		}
		if len(resp.Trailing) > 0 {
			res.Violate("C25/second-response", "req %d: bytes after the response: %q", i, rtClip(resp.Trailing, 200))
		}
	}
	if len(rec.all()) != 0 {
		res.Violate("C25/side-effect", "query requests caused %d events to be routed", len(rec.all()))
	}
	if c.Configured {
		res.Class("token-configured")
		res.NonTrivial = sawData && sawNearMiss
	} else {
		res.Class("token-unset")
		res.NonTrivial = sawEmptyCorner
	}
	return res
}

func TestC25(t *testing.T) {
	vkit.Run(t, vkit.Spec[c25Case]{
		ID:   "C25",
		Rule: "fresh incoming+peer Router per case on loopback with QueryAuthToken in {\"\", Base}; 1-8 raw HTTP requests per case over all /query/ endpoints, formats, both listeners, three spellings of the header name, and presented tokens derived from Base (absent, empty, blank, exact, exact with optional whitespace, prefix, extension, prefixed, case-swapped, doubled, unrelated). Oracle: 200 with the expected data iff configured != \"\" and the field value equals it; otherwise status >= 400 and no marker of sharder addresses, sampler rules, config metadata or the configured token in the raw response. Non-trivial: (token configured: one authorized data answer and one denial in the same case) or (token unset: a request with empty/absent/blank token).",
		Assumptions: []string{
			"optional whitespace around a header field value is not part of the value (RFC 9110 5.5), so ' tok \\t' carries exactly tok",
			"configuration/trace-placement leaks are detected through marker strings planted in the sharder addresses, sampler field list and config metadata",
			"non-GET methods and unknown /query/ sub-paths are not query endpoints (they fall through to the proxy); only the no-leak half is asserted there",
			"the error text may echo the token the client itself presented",
		},
		Gen:  genC25,
		Exec: execC25,
	})
}
