// Package router: engine for properties that need a live route.Router on real
// loopback sockets (C25, C37, C19, C23).
//
// Shared layer (prefix rt): process-unique loopback address, node start/stop,
// recording transmissions / collector, stub sharder, fake Honeycomb API, raw
// HTTP/1.1 client that shows exactly what came back on the wire.
package router

import (
	"bufio"
	"bytes"
	"compress/gzip"
	"encoding/json"
	"errors"
	"fmt"
	"io"
	"net"
	"net/http"
	"net/http/httptest"
	"os"
	"regexp"
	"sort"
	"strconv"
	"strings"
	"sync"
	"time"

	"github.com/klauspost/compress/zstd"
	"github.com/vmihailenco/msgpack/v5"
	"go.opentelemetry.io/otel/trace/noop"

	"github.com/honeycombio/refinery/collect"
	"github.com/honeycombio/refinery/config"
	"github.com/honeycombio/refinery/logger"
	"github.com/honeycombio/refinery/metrics"
	"github.com/honeycombio/refinery/route"
	"github.com/honeycombio/refinery/sharder"
	"github.com/honeycombio/refinery/transmit"
	"github.com/honeycombio/refinery/types"
	"github.com/honeycombio/refinery/verifharness/vkit"
)

// ---------------------------------------------------------------------------
// addresses: every test process listens on its own 127.a.b.c (derived from the
// PID, which is unique among live processes), so that "pick a free port, close
// it, let refinery bind it" cannot race with the other 15 copies of the check.

var (
	rtIPOnce sync.Once
	rtIPVal  string
)

func rtIP() string {
	rtIPOnce.Do(func() {
		pid := os.Getpid()
		cand := fmt.Sprintf("127.%d.%d.%d", 1+(pid>>16)%120, (pid>>8)&0xff, pid&0xff)
		if l, err := net.Listen("tcp", cand+":0"); err == nil {
			l.Close()
			rtIPVal = cand
		} else {
			rtIPVal = "127.0.0.1"
		}
	})
	return rtIPVal
}

func rtFreePort() (int, error) {
	l, err := net.Listen("tcp", rtIP()+":0")
	if err != nil {
		return 0, err
	}
	p := l.Addr().(*net.TCPAddr).Port
	l.Close()
	return p, nil
}

// rtErrTiming marks harness-side lateness / resource trouble: the case is
// inconclusive, never a violation.
var rtErrTiming = errors.New("inconclusive-timing")

// ---------------------------------------------------------------------------
// recording doubles

type rtSnap struct {
	Seq         int
	Via         string // upstream-event upstream-span peer-event peer-span collector-incoming collector-peer collector-immediate
	APIHost     string
	APIKey      string
	Dataset     string
	Environment string
	SampleRate  uint
	Timestamp   time.Time
	TraceID     string
	Probe       bool
	Fields      map[string]any
	ev          *types.Event
}

type rtRecorder struct {
	mu    sync.Mutex
	snaps []rtSnap
}

func (r *rtRecorder) add(via string, ev *types.Event) {
	fields := map[string]any{}
	for k, v := range ev.Data.All() {
		fields[k] = v
	}
	s := rtSnap{Via: via, APIHost: ev.APIHost, APIKey: ev.APIKey, Dataset: ev.Dataset, Environment: ev.Environment,
		SampleRate: ev.SampleRate, Timestamp: ev.Timestamp, TraceID: ev.Data.MetaTraceID,
		Probe: ev.Data.MetaRefineryProbe.HasValue && ev.Data.MetaRefineryProbe.Value, Fields: fields, ev: ev}
	r.mu.Lock()
	s.Seq = len(r.snaps)
	r.snaps = append(r.snaps, s)
	r.mu.Unlock()
}

// reread snapshots every recorded event again through the pointer the sink was
// given: what a transmission that reads its events at send time would see now.
func (r *rtRecorder) reread() []rtSnap {
	r.mu.Lock()
	defer r.mu.Unlock()
	out := make([]rtSnap, len(r.snaps))
	for i, s := range r.snaps {
		ev := s.ev
		fields := map[string]any{}
		for k, v := range ev.Data.All() {
			fields[k] = v
		}
		out[i] = rtSnap{Seq: s.Seq, Via: s.Via, APIHost: ev.APIHost, APIKey: ev.APIKey, Dataset: ev.Dataset, Environment: ev.Environment,
			SampleRate: ev.SampleRate, Timestamp: ev.Timestamp, TraceID: ev.Data.MetaTraceID,
			Probe: ev.Data.MetaRefineryProbe.HasValue && ev.Data.MetaRefineryProbe.Value, Fields: fields, ev: ev}
	}
	return out
}

func (r *rtRecorder) all() []rtSnap {
	r.mu.Lock()
	defer r.mu.Unlock()
	return append([]rtSnap(nil), r.snaps...)
}

type rtRecTransmission struct {
	name string // "upstream" | "peer"
	rec  *rtRecorder
}

var _ transmit.Transmission = (*rtRecTransmission)(nil)

func (t *rtRecTransmission) EnqueueEvent(ev *types.Event) { t.rec.add(t.name+"-event", ev) }
func (t *rtRecTransmission) EnqueueSpan(sp *types.Span)   { t.rec.add(t.name+"-span", sp.Event) }

// rtRecCollector records what the router hands to the collector. Behaviour is
// scripted by trace id so that it is a pure function of the case.
type rtRecCollector struct {
	rec      *rtRecorder
	stressed bool
	// immediate: under stress, what ProcessSpanImmediately answers for a trace id.
	immediate func(traceID string) (processed, kept bool)
	// full: AddSpan/AddSpanFromPeer refuse with ErrWouldBlock for these trace ids.
	full func(traceID string) bool
}

var _ collect.Collector = (*rtRecCollector)(nil)

func (c *rtRecCollector) AddSpan(sp *types.Span) error {
	if c.full != nil && c.full(sp.TraceID) {
		c.rec.add("collector-refused", sp.Event)
		return collect.ErrWouldBlock
	}
	c.rec.add("collector-incoming", sp.Event)
	return nil
}
func (c *rtRecCollector) AddSpanFromPeer(sp *types.Span) error {
	if c.full != nil && c.full(sp.TraceID) {
		c.rec.add("collector-refused", sp.Event)
		return collect.ErrWouldBlock
	}
	c.rec.add("collector-peer", sp.Event)
	return nil
}
func (c *rtRecCollector) Stressed() bool { return c.stressed }
func (c *rtRecCollector) GetStressedSampleRate(string) (uint, bool, string) {
	return 1, true, "stub"
}
func (c *rtRecCollector) ProcessSpanImmediately(sp *types.Span) (bool, bool) {
	processed, kept := false, false
	if c.immediate != nil {
		processed, kept = c.immediate(sp.TraceID)
	}
	if processed {
		c.rec.add("collector-immediate", sp.Event)
	}
	return processed, kept
}

// rtSharder: this node owns every trace except those the predicate calls foreign.
type rtShard struct{ addr string }

func (s *rtShard) Equals(o sharder.Shard) bool { return s.addr == o.GetAddress() }
func (s *rtShard) GetAddress() string          { return s.addr }

type rtSharder struct {
	self    *rtShard
	other   *rtShard
	foreign func(traceID string) bool
}

var _ sharder.Sharder = (*rtSharder)(nil)

func (s *rtSharder) MyShard() sharder.Shard { return s.self }
func (s *rtSharder) WhichShard(id string) sharder.Shard {
	if s.foreign != nil && s.foreign(id) {
		return s.other
	}
	return s.self
}

type rtHealth struct{}

func (rtHealth) IsAlive() bool { return true }
func (rtHealth) IsReady() bool { return true }

// ---------------------------------------------------------------------------
// fake Honeycomb API

type rtSeenReq struct {
	Method     string
	RequestURI string
	Proto      string
	Host       string
	Header     http.Header
	Body       []byte
	RemoteAddr string
}

type rtUpstreamScript struct {
	Status int
	Header [][2]string // added in order (multi-valued allowed)
	Body   []byte
}

type rtAuthScript struct {
	Status int    // 0 => 200
	Body   string // "" => a valid auth document for environment Env
	Env    string
	KeyID  string
	Hang   bool // close the connection without answering
}

type rtFakeEvent struct {
	APIKey     string
	Dataset    string
	SampleRate int64
	Time       any
	Data       map[string]any
}

type rtFake struct {
	srv *httptest.Server
	URL string

	mu        sync.Mutex
	auth      map[string]rtAuthScript // by API key; missing => 200 with env "env-of-<key>"
	authCalls []string
	proxied   []rtSeenReq
	script    rtUpstreamScript   // default answer for unhandled paths
	queue     []rtUpstreamScript // consumed first, one per request
	events    []rtFakeEvent
	badBatch  []string
	// plainAuth: treat /1/auth like any other path (record + scripted answer)
	plainAuth bool
}

func rtNewFake() *rtFake {
	f := &rtFake{auth: map[string]rtAuthScript{}, script: rtUpstreamScript{Status: 404, Body: []byte(`{"error":"upstream-says-no"}`)}}
	l, err := net.Listen("tcp", rtIP()+":0")
	if err != nil {
		panic(err)
	}
	f.srv = &httptest.Server{Listener: l, Config: &http.Server{Handler: http.HandlerFunc(f.serve)}}
	f.srv.Start()
	f.URL = f.srv.URL
	return f
}

func (f *rtFake) Close() {
	f.srv.CloseClientConnections()
	f.srv.Close()
}

func (f *rtFake) serve(w http.ResponseWriter, r *http.Request) {
	body, _ := io.ReadAll(r.Body)
	path := r.URL.Path
	switch {
	case path == "/1/auth" && r.Method == "GET" && !f.plainAuth:
		key := r.Header.Get("X-Honeycomb-Team")
		f.mu.Lock()
		f.authCalls = append(f.authCalls, key)
		sc, ok := f.auth[key]
		f.mu.Unlock()
		if !ok {
			sc = rtAuthScript{Env: "env-of-" + key, KeyID: "id-of-" + key}
		}
		if sc.Hang {
			if hj, ok := w.(http.Hijacker); ok {
				if c, _, err := hj.Hijack(); err == nil {
					c.Close()
					return
				}
			}
		}
		st := sc.Status
		if st == 0 {
			st = 200
		}
		b := sc.Body
		if b == "" {
			doc := map[string]any{"id": sc.KeyID, "api_key_access": map[string]bool{"events": true},
				"team": map[string]string{"slug": "team"}, "environment": map[string]string{"slug": sc.Env, "name": sc.Env}}
			jb, _ := json.Marshal(doc)
			b = string(jb)
		}
		w.Header().Set("Content-Type", "application/json")
		w.WriteHeader(st)
		io.WriteString(w, b)
		return
	case strings.HasPrefix(path, "/1/batch/") && r.Method == "POST":
		f.serveBatch(w, r, body)
		return
	}
	f.mu.Lock()
	f.proxied = append(f.proxied, rtSeenReq{Method: r.Method, RequestURI: r.RequestURI, Proto: r.Proto, Host: r.Host,
		Header: r.Header.Clone(), Body: body, RemoteAddr: r.RemoteAddr})
	sc := f.script
	if len(f.queue) > 0 {
		sc = f.queue[0]
		f.queue = f.queue[1:]
	}
	f.mu.Unlock()
	// nothing but the scripted headers (no sniffed Content-Type, no Date)
	w.Header()["Date"] = nil
	w.Header()["Content-Type"] = nil
	for _, kv := range sc.Header {
		w.Header()[http.CanonicalHeaderKey(kv[0])] = append(w.Header()[http.CanonicalHeaderKey(kv[0])], kv[1])
	}
	w.WriteHeader(sc.Status)
	w.Write(sc.Body)
}

func (f *rtFake) push(sc ...rtUpstreamScript) {
	f.mu.Lock()
	f.queue = append(f.queue, sc...)
	f.mu.Unlock()
}

func (f *rtFake) resetProxied() {
	f.mu.Lock()
	f.proxied = nil
	f.queue = nil
	f.mu.Unlock()
}

// serveBatch decodes what a real DirectTransmission sends, with decoders that
// are not refinery's (generic msgpack / encoding/json).
func (f *rtFake) serveBatch(w http.ResponseWriter, r *http.Request, body []byte) {
	raw := body
	var err error
	switch r.Header.Get("Content-Encoding") {
	case "gzip":
		var gr *gzip.Reader
		if gr, err = gzip.NewReader(bytes.NewReader(body)); err == nil {
			raw, err = io.ReadAll(gr)
		}
	case "zstd":
		var zr *zstd.Decoder
		if zr, err = zstd.NewReader(bytes.NewReader(body)); err == nil {
			raw, err = io.ReadAll(zr)
			zr.Close()
		}
	}
	var evs []map[string]any
	if err == nil {
		ct := r.Header.Get("Content-Type")
		if strings.Contains(ct, "msgpack") {
			dec := msgpack.NewDecoder(bytes.NewReader(raw))
			dec.UseLooseInterfaceDecoding(true)
			err = dec.Decode(&evs)
		} else {
			err = json.Unmarshal(raw, &evs)
		}
	}
	dataset := strings.TrimPrefix(r.URL.Path, "/1/batch/")
	key := r.Header.Get("X-Honeycomb-Team")
	f.mu.Lock()
	if err != nil {
		f.badBatch = append(f.badBatch, err.Error())
	}
	resp := make([]map[string]any, 0, len(evs))
	for _, e := range evs {
		fe := rtFakeEvent{APIKey: key, Dataset: dataset, Time: e["time"]}
		switch sr := e["samplerate"].(type) {
		case int64:
			fe.SampleRate = sr
		case uint64:
			fe.SampleRate = int64(sr)
		case float64:
			fe.SampleRate = int64(sr)
		case int8:
			fe.SampleRate = int64(sr)
		case uint8:
			fe.SampleRate = int64(sr)
		}
		if d, ok := e["data"].(map[string]any); ok {
			fe.Data = d
		}
		f.events = append(f.events, fe)
		resp = append(resp, map[string]any{"status": 202})
	}
	f.mu.Unlock()
	if err != nil {
		http.Error(w, err.Error(), 400)
		return
	}
	w.Header().Set("Content-Type", "application/json")
	jb, _ := json.Marshal(resp)
	w.Write(jb)
}

func (f *rtFake) seenProxied() []rtSeenReq {
	f.mu.Lock()
	defer f.mu.Unlock()
	return append([]rtSeenReq(nil), f.proxied...)
}

func (f *rtFake) seenEvents() []rtFakeEvent {
	f.mu.Lock()
	defer f.mu.Unlock()
	return append([]rtFakeEvent(nil), f.events...)
}

func (f *rtFake) seenAuthCalls() []string {
	f.mu.Lock()
	defer f.mu.Unlock()
	return append([]string(nil), f.authCalls...)
}

// ---------------------------------------------------------------------------
// node = incoming router + peer router, as app.App starts them

type rtNodeOpts struct {
	Cfg       *config.MockConfig // addresses are filled in here
	Upstream  transmit.Transmission
	Peer      transmit.Transmission
	Collector collect.Collector
	Sharder   sharder.Sharder
	GRPC      bool
	Logger    logger.Logger
	Metrics   metrics.Metrics
}

type rtNode struct {
	In, Peer  *route.Router
	InAddr    string
	PeerAddr  string
	GRPCAddr  string
	Nonce     string
	transport *http.Transport
}

var rtNodeCounter int

func rtStartNode(o rtNodeOpts) (*rtNode, error) {
	rtNodeCounter++
	n := &rtNode{Nonce: fmt.Sprintf("verif-%d-%d", os.Getpid(), rtNodeCounter)}
	// reserve three distinct ports at the same time (closing one before asking
	// for the next lets the kernel hand out the same port twice)
	var ports [3]int
	var held []net.Listener
	for i := range ports {
		l, err := net.Listen("tcp", rtIP()+":0")
		if err != nil {
			for _, h := range held {
				h.Close()
			}
			return nil, fmt.Errorf("%w: no free port: %v", rtErrTiming, err)
		}
		held = append(held, l)
		ports[i] = l.Addr().(*net.TCPAddr).Port
	}
	for _, h := range held {
		h.Close()
	}
	ip := rtIP()
	n.InAddr = net.JoinHostPort(ip, strconv.Itoa(ports[0]))
	n.PeerAddr = net.JoinHostPort(ip, strconv.Itoa(ports[1]))
	o.Cfg.GetListenAddrVal = n.InAddr
	o.Cfg.GetPeerListenAddrVal = n.PeerAddr
	if o.GRPC {
		n.GRPCAddr = net.JoinHostPort(ip, strconv.Itoa(ports[2]))
		dt := config.DefaultTrue(true)
		o.Cfg.GetGRPCEnabledVal = true
		o.Cfg.GetGRPCListenAddrVal = n.GRPCAddr
		o.Cfg.GetGRPCServerParameters = config.GRPCServerParameters{
			Enabled: &dt, ListenAddr: n.GRPCAddr,
			MaxConnectionIdle: config.Duration(time.Minute), MaxConnectionAge: config.Duration(3 * time.Minute),
			MaxConnectionAgeGrace: config.Duration(time.Minute), KeepAlive: config.Duration(time.Minute),
			KeepAliveTimeout: config.Duration(20 * time.Second),
			MaxSendMsgSize:   config.MemorySize(15 << 20), MaxRecvMsgSize: config.MemorySize(15 << 20),
		}
	}
	if o.Logger == nil {
		o.Logger = &logger.NullLogger{}
	}
	if o.Metrics == nil {
		o.Metrics = &metrics.NullMetrics{}
	}
	n.transport = &http.Transport{
		DialContext:         (&net.Dialer{Timeout: 3 * time.Second}).DialContext,
		MaxIdleConnsPerHost: 4,
		IdleConnTimeout:     5 * time.Second,
	}
	mk := func(t types.RouterType) *route.Router {
		r := &route.Router{
			Config: o.Cfg, Logger: o.Logger, Health: rtHealth{}, HTTPTransport: n.transport,
			UpstreamTransmission: o.Upstream, PeerTransmission: o.Peer, Sharder: o.Sharder,
			Collector: o.Collector, Metrics: o.Metrics, Tracer: noop.NewTracerProvider().Tracer("verif"),
		}
		r.SetVersion(n.Nonce)
		r.SetType(t)
		return r
	}
	n.In = mk(types.RouterTypeIncoming)
	n.Peer = mk(types.RouterTypePeer)
	n.In.LnS()
	n.Peer.LnS()
	deadline := time.Now().Add(5 * time.Second)
	for _, addr := range []string{n.InAddr, n.PeerAddr} {
		for {
			resp, err := rtRawRoundTrip(addr, rtBuildRequest("GET", "/version", addr, nil, nil), "GET", time.Second)
			if err == nil && resp.Status == 200 && strings.Contains(string(resp.Body), n.Nonce) {
				break
			}
			if err == nil && resp.Status == 200 {
				n.Stop()
				return nil, fmt.Errorf("%w: port %s is served by somebody else", rtErrTiming, addr)
			}
			if time.Now().After(deadline) {
				n.Stop()
				return nil, fmt.Errorf("%w: router did not start listening on %s: %v", rtErrTiming, addr, err)
			}
			time.Sleep(time.Millisecond)
		}
	}
	if o.GRPC {
		for {
			c, err := net.DialTimeout("tcp", n.GRPCAddr, time.Second)
			if err == nil {
				c.Close()
				break
			}
			if time.Now().After(deadline) {
				n.Stop()
				return nil, fmt.Errorf("%w: grpc listener did not come up: %v", rtErrTiming, err)
			}
			time.Sleep(time.Millisecond)
		}
	}
	return n, nil
}

func (n *rtNode) Stop() {
	done := make(chan struct{})
	go func() {
		defer close(done)
		defer func() { recover() }()
		n.In.Stop()
		n.Peer.Stop()
	}()
	select {
	case <-done:
	case <-time.After(20 * time.Second):
	}
	n.transport.CloseIdleConnections()
}

func (n *rtNode) Addr(listener string) string {
	if listener == "peer" {
		return n.PeerAddr
	}
	return n.InAddr
}

// ---------------------------------------------------------------------------
// raw HTTP/1.1 client

type rtRawResp struct {
	Status    int
	Proto     string
	Header    http.Header
	HeaderKV  [][2]string // as on the wire, in order
	Body      []byte      // decoded (de-chunked) body of the first response
	Trailing  []byte      // bytes that followed the first complete response
	Raw       []byte
	LocalAddr string
}

// rtBuildRequest renders an HTTP/1.1 request. Host, Content-Length and
// "Connection: close" are added unless present in hdr.
func rtBuildRequest(method, target, host string, hdr [][2]string, body []byte) []byte {
	var b bytes.Buffer
	fmt.Fprintf(&b, "%s %s HTTP/1.1\r\n", method, target)
	has := func(name string) bool {
		for _, kv := range hdr {
			if strings.EqualFold(kv[0], name) {
				return true
			}
		}
		return false
	}
	if !has("Host") {
		fmt.Fprintf(&b, "Host: %s\r\n", host)
	}
	for _, kv := range hdr {
		fmt.Fprintf(&b, "%s: %s\r\n", kv[0], kv[1])
	}
	if !has("Content-Length") && !has("Transfer-Encoding") && (len(body) > 0 || method == "POST" || method == "PUT" || method == "PATCH") {
		fmt.Fprintf(&b, "Content-Length: %d\r\n", len(body))
	}
	if !has("Connection") {
		b.WriteString("Connection: close\r\n")
	}
	b.WriteString("\r\n")
	b.Write(body)
	return b.Bytes()
}

func rtRawRoundTrip(addr string, req []byte, method string, timeout time.Duration) (*rtRawResp, error) {
	return rtRawRoundTripOpt(addr, req, method, timeout, false)
}

// rtRawRoundTripOpt: halfClose shuts the sending side down after the request
// bytes (a client that dies in the middle of a body whose Content-Length promised more).
func rtRawRoundTripOpt(addr string, req []byte, method string, timeout time.Duration, halfClose bool) (*rtRawResp, error) {
	c, err := net.DialTimeout("tcp", addr, timeout)
	if err != nil {
		return nil, err
	}
	defer c.Close()
	c.SetDeadline(time.Now().Add(timeout))
	local := c.LocalAddr().String()
	if _, err := c.Write(req); err != nil {
		return nil, err
	}
	if halfClose {
		if tc, ok := c.(*net.TCPConn); ok {
			tc.CloseWrite()
		}
	}
	raw, err := io.ReadAll(c)
	if err != nil && len(raw) == 0 {
		return nil, err
	}
	if err != nil {
		// a deadline in the middle of a response: not judgeable
		return nil, fmt.Errorf("read: %w", err)
	}
	r, perr := rtParseRaw(raw, method)
	if perr != nil {
		return nil, perr
	}
	r.LocalAddr = local
	return r, nil
}

func rtParseRaw(raw []byte, method string) (*rtRawResp, error) {
	br := bufio.NewReader(bytes.NewReader(raw))
	resp, err := http.ReadResponse(br, &http.Request{Method: method})
	if err != nil {
		return nil, fmt.Errorf("unparsable response %q: %w", rtClip(raw, 200), err)
	}
	body, berr := io.ReadAll(resp.Body)
	resp.Body.Close()
	if berr != nil {
		return nil, fmt.Errorf("unreadable response body (%q): %w", rtClip(raw, 200), berr)
	}
	rest, _ := io.ReadAll(br)
	out := &rtRawResp{Status: resp.StatusCode, Proto: resp.Proto, Header: resp.Header, Body: body, Trailing: rest, Raw: raw}
	if i := bytes.Index(raw, []byte("\r\n\r\n")); i >= 0 {
		lines := strings.Split(string(raw[:i]), "\r\n")
		for _, l := range lines[1:] {
			if j := strings.IndexByte(l, ':'); j > 0 {
				out.HeaderKV = append(out.HeaderKV, [2]string{l[:j], strings.Trim(l[j+1:], " \t")})
			}
		}
	}
	return out, nil
}

func rtClip(b []byte, n int) string {
	if len(b) > n {
		return string(b[:n]) + "..."
	}
	return string(b)
}

// rtJSONDocs splits a byte string into the top-level JSON values it holds;
// ok is false if something is not JSON.
func rtJSONDocs(b []byte) (docs []any, ok bool) {
	dec := json.NewDecoder(bytes.NewReader(b))
	for {
		var v any
		err := dec.Decode(&v)
		if err == io.EOF {
			return docs, true
		}
		if err != nil {
			return docs, false
		}
		docs = append(docs, v)
	}
}

var (
	rtZstdOnce sync.Once
	rtZstdEnc  *zstd.Encoder
)

// rtZstd compresses with one shared encoder (creating one per case is what costs).
func rtZstd(b []byte) []byte {
	rtZstdOnce.Do(func() {
		rtZstdEnc, _ = zstd.NewWriter(nil, zstd.WithEncoderConcurrency(1), zstd.WithLowerEncoderMem(true))
	})
	return rtZstdEnc.EncodeAll(b, nil)
}

func rtGzip(b []byte) []byte {
	var buf bytes.Buffer
	w := gzip.NewWriter(&buf)
	w.Write(b)
	w.Close()
	return buf.Bytes()
}

var rtAddrRe = regexp.MustCompile(`127\.\d+\.\d+\.\d+(:\d+)?`)

// rtScrub removes run-dependent addresses from violation details: rapid only
// shrinks a failure whose message is reproducible.
func rtScrub(res *vkit.Result) {
	for i := range res.Violations {
		res.Violations[i].Detail = rtAddrRe.ReplaceAllString(res.Violations[i].Detail, "<addr>")
	}
}

func rtSortedKeys[V any](m map[string]V) []string {
	ks := make([]string, 0, len(m))
	for k := range m {
		ks = append(ks, k)
	}
	sort.Strings(ks)
	return ks
}
