package convertx

// C38, rules half: v1 rules documents (default sampler + per-dataset samplers
// of the five v1 sampler types, rules with conditions and downstream samplers,
// durations in seconds) and the independent expectation of what they mean in v2.

import (
	"fmt"
	"reflect"
	"strings"
	"time"

	"github.com/honeycombio/refinery/config"
	"pgregory.net/rapid"
)

type c38Param struct {
	Name string `json:"name"` // v1 name as documented (CamelCase)
	Val  c38Val `json:"val"`
}

type c38V1Cond struct {
	Field    string `json:"field"`
	Op       string `json:"op"`
	Val      c38Val `json:"val"` // K "none" for exists / not-exists
	Datatype string `json:"datatype,omitempty"`
}

type c38Rule struct {
	Name       string      `json:"name,omitempty"`
	SampleRate int64       `json:"samplerate,omitempty"` // 0 = not written
	Drop       bool        `json:"drop,omitempty"`
	Scope      string      `json:"scope,omitempty"`
	Conds      []c38V1Cond `json:"conds,omitempty"`
	Down       *c38Sampler `json:"down,omitempty"`
}

type c38Sampler struct {
	Type   string     `json:"type"`
	Params []c38Param `json:"params,omitempty"`
	Rules  []c38Rule  `json:"rules,omitempty"`
}

type c38Dataset struct {
	Name    string     `json:"name"`
	Sampler c38Sampler `json:"sampler"`
}

type c38RuleDoc struct {
	KeyStyle string       `json:"keystyle"` // ref | lower | camel
	Default  c38Sampler   `json:"default"`
	Datasets []c38Dataset `json:"datasets,omitempty"`
}

// what a v1 sampler parameter means in v2 (written from rules_complete.1.x.toml
// and rules.md, not from the converter): same name and value unless listed.
type c38ParamSpec struct {
	V2      string // v2 field name ("" = removed in v2)
	Seconds bool   // v1 integer seconds -> v2 duration
	DurStr  bool   // v1 duration string -> v2 duration
}

var c38ParamSpecs = map[string]c38ParamSpec{
	"SampleRate":                   {V2: "SampleRate"},
	"GoalSampleRate":               {V2: "GoalSampleRate"},
	"GoalThroughputPerSec":         {V2: "GoalThroughputPerSec"},
	"FieldList":                    {V2: "FieldList"},
	"UseTraceLength":               {V2: "UseTraceLength"},
	"AddSampleRateKeyToTrace":      {},
	"AddSampleRateKeyToTraceField": {},
	"ClearFrequencySec":            {V2: "ClearFrequency", Seconds: true},
	"ClearFrequency":               {V2: "ClearFrequency", DurStr: true},
	"AdjustmentInterval":           {V2: "AdjustmentInterval", Seconds: true},
	"Weight":                       {V2: "Weight"},
	"MaxKeys":                      {V2: "MaxKeys"},
	"AgeOutValue":                  {V2: "AgeOutValue"},
	"BurstMultiple":                {V2: "BurstMultiple"},
	"BurstDetectionDelay":          {V2: "BurstDetectionDelay"},
	"CheckNestedFields":            {V2: "CheckNestedFields"},
}

var c38SamplerTypes = []string{"DeterministicSampler", "DynamicSampler", "EMADynamicSampler", "RulesBasedSampler", "TotalThroughputSampler"}

// drawn from: rules-based samplers (the only nested structure) are over-represented
var c38SamplerDraw = []string{"DeterministicSampler", "DynamicSampler", "EMADynamicSampler", "RulesBasedSampler", "RulesBasedSampler", "RulesBasedSampler", "TotalThroughputSampler"}
var c38DownTypes = []string{"DynamicSampler", "EMADynamicSampler", "TotalThroughputSampler"}
var c38DatasetNames = []string{"dataset1", "my-service", "my env", "Production", "env_2", "api", "checkout"}
var c38RuleFields = []string{"http.route", "status_code", "duration_ms", "service name", "error", "trace.parent_id", "app.tenant"}
var c38Ops = []string{"=", "!=", ">", ">=", "<", "<=", "starts-with", "contains", "does-not-contain", "exists", "not-exists"}

func c38GenFieldList(t *rapid.T, label string) c38Val {
	l := rapid.SliceOfNDistinct(rapid.SampledFrom(c38FieldNames), 1, 3, func(s string) string { return s }).Draw(t, label)
	return c38Val{K: "list", L: l}
}

func c38GenSampler(t *rapid.T, types []string, label string, depth int) c38Sampler {
	s := c38Sampler{Type: types[c38Roll(t, len(types), label+"-type")]}
	opt := func(name string) bool { return c38Roll(t, 3, label+"-has-"+name) > 0 }
	intOf := func(name string, vals ...int) c38Val {
		return c38Val{K: "int", I: int64(rapid.SampledFrom(vals).Draw(t, label+"-"+name))}
	}
	fl := func(name string, vals ...float64) c38Val {
		return c38Val{K: "float", F: rapid.SampledFrom(vals).Draw(t, label+"-"+name)}
	}
	add := func(name string, v c38Val) { s.Params = append(s.Params, c38Param{Name: name, Val: v}) }
	common := func() {
		add("FieldList", c38GenFieldList(t, label+"-fields"))
		if opt("UseTraceLength") {
			add("UseTraceLength", c38Val{K: "bool", B: rapid.Bool().Draw(t, label+"-utl")})
		}
		if c38Roll(t, 4, label+"-has-addkey") == 0 {
			add("AddSampleRateKeyToTrace", c38Val{K: "bool", B: true})
			add("AddSampleRateKeyToTraceField", c38Val{K: "str", S: "meta.refinery.dynsampler_key"})
		}
	}
	clearFreq := func() {
		switch c38Roll(t, 6, label+"-clearfreq") {
		case 0, 1, 2, 4:
			add("ClearFrequencySec", intOf("cfs", 1, 10, 30, 45, 60, 90, 300, 3600))
		case 3:
			// the spelling the v1 reference file of this tree documents
			add("ClearFrequency", c38Val{K: "str", S: rapid.SampledFrom([]string{"60s", "45s", "2m", "1m30s"}).Draw(t, label+"-cf")})
		}
	}
	switch s.Type {
	case "DeterministicSampler":
		add("SampleRate", intOf("rate", 1, 2, 10, 100, 1000, 12345))
	case "DynamicSampler":
		add("SampleRate", intOf("rate", 1, 2, 10, 100, 1000))
		common()
		clearFreq()
	case "EMADynamicSampler":
		add("GoalSampleRate", intOf("rate", 1, 2, 15, 100))
		common()
		if opt("AdjustmentInterval") {
			add("AdjustmentInterval", intOf("adj", 1, 5, 15, 30, 60, 120))
		}
		if opt("Weight") {
			add("Weight", fl("weight", 0.1, 0.25, 0.5, 0.75, 0.9))
		}
		if opt("MaxKeys") {
			add("MaxKeys", intOf("maxkeys", 0, 100, 500, 10000))
		}
		if opt("AgeOutValue") {
			add("AgeOutValue", fl("ageout", 0.1, 0.5, 0.75))
		}
		if opt("BurstMultiple") {
			add("BurstMultiple", fl("burst", 1.5, 2.0, 3.0, 2.25))
		}
		if opt("BurstDetectionDelay") {
			add("BurstDetectionDelay", intOf("bdd", 1, 3, 5))
		}
	case "TotalThroughputSampler":
		add("GoalThroughputPerSec", intOf("goal", 1, 10, 100, 5000))
		common()
		clearFreq()
	case "RulesBasedSampler":
		if opt("CheckNestedFields") {
			add("CheckNestedFields", c38Val{K: "bool", B: rapid.Bool().Draw(t, label+"-cnf")})
		}
		n := rapid.IntRange(1, 4).Draw(t, label+"-nrules")
		for i := 0; i < n; i++ {
			rl := fmt.Sprintf("%s-r%d", label, i)
			r := c38Rule{}
			if c38Roll(t, 5, rl+"-named") > 0 {
				r.Name = rapid.SampledFrom([]string{"drop healthchecks", "keep slow 500 errors", "errors", "rule-1", "sample: users", "200s"}).Draw(t, rl+"-name")
			}
			nc := c38Roll(t, 4, rl+"-nconds")
			for j := 0; j < nc; j++ {
				cl := fmt.Sprintf("%s-c%d", rl, j)
				c := c38V1Cond{Field: rapid.SampledFrom(c38RuleFields).Draw(t, cl+"-field"), Op: rapid.SampledFrom(c38Ops).Draw(t, cl+"-op")}
				switch {
				case c.Op == "exists" || c.Op == "not-exists":
					c.Val = c38Val{K: "none"}
				case c.Op == "starts-with" || c.Op == "contains" || c.Op == "does-not-contain":
					c.Val = c38Val{K: "str", S: rapid.SampledFrom([]string{"/health", "users", "5", "a b", "error: x"}).Draw(t, cl+"-sv")}
				default:
					switch c38Roll(t, 4, cl+"-vk") {
					case 0:
						c.Val = c38Val{K: "int", I: int64(rapid.SampledFrom([]int{0, 1, 200, 500, 1000, -1}).Draw(t, cl+"-iv"))}
					case 1:
						c.Val = c38Val{K: "float", F: rapid.SampledFrom([]float64{1000.789, 0.5, 99.9}).Draw(t, cl+"-fv")}
					case 2:
						c.Val = c38Val{K: "str", S: rapid.SampledFrom([]string{"/health-check", "users", "200", "true", "root"}).Draw(t, cl+"-sv")}
					default:
						c.Val = c38Val{K: "bool", B: rapid.Bool().Draw(t, cl+"-bv")}
					}
					if c38Roll(t, 4, cl+"-dt") == 0 {
						c.Datatype = rapid.SampledFrom([]string{"string", "int", "float", "bool"}).Draw(t, cl+"-dtv")
					}
				}
				r.Conds = append(r.Conds, c)
			}
			switch k := c38Roll(t, 10, rl+"-action"); {
			case k < 2:
				r.Drop = true
			case k < 5 || depth > 0:
				r.SampleRate = int64(rapid.SampledFrom([]int{1, 5, 10, 100}).Draw(t, rl+"-rate"))
			default:
				d := c38GenSampler(t, c38DownTypes, rl+"-down", depth+1)
				r.Down = &d
			}
			if c38Roll(t, 4, rl+"-scoped") == 0 {
				r.Scope = rapid.SampledFrom([]string{"span", "trace"}).Draw(t, rl+"-scope")
			}
			s.Rules = append(s.Rules, r)
		}
	}
	return s
}

func genC38Rules(t *rapid.T) *c38RuleDoc {
	d := &c38RuleDoc{KeyStyle: []string{"ref", "ref", "lower", "camel"}[c38Roll(t, 4, "keystyle")]}
	d.Default = c38GenSampler(t, c38SamplerDraw, "default", 0)
	names := rapid.SliceOfNDistinct(rapid.SampledFrom(c38DatasetNames), 0, 4, func(s string) string { return s }).Draw(t, "datasets")
	for i, n := range names {
		d.Datasets = append(d.Datasets, c38Dataset{Name: n, Sampler: c38GenSampler(t, c38SamplerDraw, fmt.Sprintf("ds%d", i), 0)})
	}
	return d
}

// ---------------------------------------------------------------- v1 document

func c38Key(style, refSpelling string) string {
	switch style {
	case "lower":
		return strings.ToLower(refSpelling)
	case "camel":
		return strings.ToUpper(refSpelling[:1]) + refSpelling[1:]
	}
	return refSpelling
}

func c38SamplerNode(style string, s *c38Sampler, into *c38Node) *c38Node {
	m := into
	if m == nil {
		m = c38Map()
	}
	m.Set(c38Key(style, "Sampler"), c38Str(s.Type))
	for _, p := range s.Params {
		m.Set(c38Key(style, p.Name), p.Val.node())
	}
	if len(s.Rules) > 0 {
		rules := c38List()
		for i := range s.Rules {
			r := &s.Rules[i]
			rn := c38Map()
			if r.Name != "" {
				rn.Set(c38Key(style, "name"), c38Str(r.Name))
			}
			if r.Drop {
				rn.Set(c38Key(style, "drop"), c38Bool(true))
			}
			if r.SampleRate != 0 {
				rn.Set(c38Key(style, "SampleRate"), c38Int(r.SampleRate))
			}
			if r.Scope != "" {
				rn.Set(c38Key(style, "Scope"), c38Str(r.Scope))
			}
			if len(r.Conds) > 0 {
				cl := c38List()
				for _, c := range r.Conds {
					cn := c38Map()
					cn.Set(c38Key(style, "field"), c38Str(c.Field))
					cn.Set(c38Key(style, "operator"), c38Str(c.Op))
					if n := c.Val.node(); n != nil {
						cn.Set(c38Key(style, "value"), n)
					}
					if c.Datatype != "" {
						cn.Set(c38Key(style, "datatype"), c38Str(c.Datatype))
					}
					cl.Items = append(cl.Items, cn)
				}
				rn.Set(c38Key(style, "condition"), cl)
			}
			if r.Down != nil {
				// [ds.rule.sampler.EMADynamicSampler] with the Sampler key repeated inside, as in the v1 reference
				inner := c38SamplerNode(style, r.Down, nil)
				rn.Set(c38Key(style, "sampler"), c38Map().Set(r.Down.Type, inner))
			}
			rules.Items = append(rules.Items, rn)
		}
		m.Set(c38Key(style, "rule"), rules)
	}
	return m
}

func c38RulesDocNode(d *c38RuleDoc) *c38Node {
	doc := c38Map()
	c38SamplerNode(d.KeyStyle, &d.Default, doc)
	for i := range d.Datasets {
		doc.Set(d.Datasets[i].Name, c38SamplerNode(d.KeyStyle, &d.Datasets[i].Sampler, nil))
	}
	return doc
}

// ---------------------------------------------------------------- expectation vs loaded v2 rules

type c38RuleDiff struct {
	Sampler string // sampler type ("downstream-X" for rule-level samplers)
	Item    string // parameter / rule field
	Verdict string // lost | changed | wrong-sampler-type | missing-dataset | ...
	Detail  string
}

func c38NumEq(a, b any) (bool, bool) {
	af, aok := c38AsFloat(a)
	bf, bok := c38AsFloat(b)
	if aok && bok {
		return af == bf, true
	}
	return false, false
}

func c38AsFloat(v any) (float64, bool) {
	rv := reflect.ValueOf(v)
	if !rv.IsValid() {
		return 0, false
	}
	switch rv.Kind() {
	case reflect.Int, reflect.Int8, reflect.Int16, reflect.Int32, reflect.Int64:
		return float64(rv.Int()), true
	case reflect.Uint, reflect.Uint8, reflect.Uint16, reflect.Uint32, reflect.Uint64:
		return float64(rv.Uint()), true
	case reflect.Float32, reflect.Float64:
		return rv.Float(), true
	}
	return 0, false
}

// c38FieldByYAML finds the struct field whose yaml tag names key.
func c38FieldByYAML(v reflect.Value, key string) (reflect.Value, bool) {
	for v.Kind() == reflect.Ptr {
		if v.IsNil() {
			return reflect.Value{}, false
		}
		v = v.Elem()
	}
	if v.Kind() != reflect.Struct {
		return reflect.Value{}, false
	}
	for i := 0; i < v.NumField(); i++ {
		tag := strings.Split(v.Type().Field(i).Tag.Get("yaml"), ",")[0]
		if tag == key {
			return v.Field(i), true
		}
	}
	return reflect.Value{}, false
}

func c38CompareParam(p c38Param, got reflect.Value) (ok bool, want string) {
	spec := c38ParamSpecs[p.Name]
	g := got.Interface()
	switch {
	case spec.Seconds:
		w := time.Duration(p.Val.I) * time.Second
		d, isDur := g.(config.Duration)
		return isDur && time.Duration(d) == w, w.String()
	case spec.DurStr:
		w, _ := time.ParseDuration(p.Val.S)
		d, isDur := g.(config.Duration)
		return isDur && time.Duration(d) == w, w.String()
	}
	switch p.Val.K {
	case "int":
		eq, num := c38NumEq(g, p.Val.I)
		return num && eq, fmt.Sprint(p.Val.I)
	case "float":
		eq, num := c38NumEq(g, p.Val.F)
		return num && eq, fmt.Sprint(p.Val.F)
	case "bool":
		b, isB := g.(bool)
		return isB && b == p.Val.B, fmt.Sprint(p.Val.B)
	case "str":
		s, isS := g.(string)
		return isS && s == p.Val.S, fmt.Sprintf("%q", p.Val.S)
	case "list":
		l, isL := g.([]string)
		return isL && reflect.DeepEqual(append([]string{}, l...), append([]string{}, p.Val.L...)), fmt.Sprintf("%q", p.Val.L)
	}
	return false, "?"
}

func c38CompareSampler(label string, want *c38Sampler, got reflect.Value, diffs *[]c38RuleDiff) {
	for _, p := range want.Params {
		spec, known := c38ParamSpecs[p.Name]
		if !known || spec.V2 == "" {
			continue // removed in v2: may disappear
		}
		f, ok := c38FieldByYAML(got, spec.V2)
		if !ok {
			*diffs = append(*diffs, c38RuleDiff{label, p.Name, "no-v2-field", fmt.Sprintf("v2 %s has no field %s", want.Type, spec.V2)})
			continue
		}
		if eq, w := c38CompareParam(p, f); !eq {
			verdict := "changed"
			if f.IsZero() {
				verdict = "lost"
			}
			*diffs = append(*diffs, c38RuleDiff{label, p.Name, verdict, fmt.Sprintf("v1 %s=%s should be v2 %s=%s, loaded v2 value is %v", p.Name, p.Val, spec.V2, w, f.Interface())})
		}
	}
	if want.Type != "RulesBasedSampler" {
		return
	}
	rb, _ := got.Interface().(*config.RulesBasedSamplerConfig)
	if rb == nil {
		return
	}
	if len(rb.Rules) != len(want.Rules) {
		*diffs = append(*diffs, c38RuleDiff{label, "rule", "rule-count", fmt.Sprintf("v1 has %d rules, v2 has %d", len(want.Rules), len(rb.Rules))})
		return
	}
	for i := range want.Rules {
		w, g := &want.Rules[i], rb.Rules[i]
		if g == nil {
			*diffs = append(*diffs, c38RuleDiff{label, "rule", "lost", fmt.Sprintf("rule %d is null in v2", i)})
			continue
		}
		chk := func(item string, ok bool, detail string) {
			if !ok {
				*diffs = append(*diffs, c38RuleDiff{label, item, "changed", fmt.Sprintf("rule %d (%q): %s", i, w.Name, detail)})
			}
		}
		chk("rule.name", g.Name == w.Name, fmt.Sprintf("name %q became %q", w.Name, g.Name))
		chk("rule.drop", g.Drop == w.Drop, fmt.Sprintf("drop %v became %v", w.Drop, g.Drop))
		chk("rule.SampleRate", int64(g.SampleRate) == w.SampleRate, fmt.Sprintf("SampleRate %d became %d", w.SampleRate, g.SampleRate))
		if w.Scope != "" {
			chk("rule.Scope", g.Scope == w.Scope, fmt.Sprintf("Scope %q became %q", w.Scope, g.Scope))
		}
		if len(g.Conditions) != len(w.Conds) {
			chk("rule.condition", false, fmt.Sprintf("%d conditions became %d", len(w.Conds), len(g.Conditions)))
		} else {
			for j, wc := range w.Conds {
				gc := g.Conditions[j]
				if gc == nil {
					chk("rule.condition", false, fmt.Sprintf("condition %d is null", j))
					continue
				}
				chk("condition.field", gc.Field == wc.Field, fmt.Sprintf("condition %d field %q became %q", j, wc.Field, gc.Field))
				chk("condition.operator", gc.Operator == wc.Op, fmt.Sprintf("condition %d operator %q became %q", j, wc.Op, gc.Operator))
				chk("condition.datatype", gc.Datatype == wc.Datatype, fmt.Sprintf("condition %d datatype %q became %q", j, wc.Datatype, gc.Datatype))
				same := false
				switch wc.Val.K {
				case "none":
					same = gc.Value == nil
				case "int":
					// a v1 integer must stay a number with the same value (not become a string)
					eq, num := c38NumEq(gc.Value, wc.Val.I)
					same = num && eq
				case "float":
					eq, num := c38NumEq(gc.Value, wc.Val.F)
					same = num && eq
				case "str":
					s, isS := gc.Value.(string)
					same = isS && s == wc.Val.S
				case "bool":
					b, isB := gc.Value.(bool)
					same = isB && b == wc.Val.B
				}
				chk("condition.value", same, fmt.Sprintf("condition %d value %s became %#v (%T)", j, wc.Val, gc.Value, gc.Value))
			}
		}
		if w.Down != nil {
			if g.Sampler == nil {
				*diffs = append(*diffs, c38RuleDiff{label, "rule.sampler", "lost", fmt.Sprintf("rule %d: downstream %s is gone", i, w.Down.Type)})
				continue
			}
			f := reflect.ValueOf(g.Sampler).Elem().FieldByName(w.Down.Type)
			if !f.IsValid() || f.IsNil() {
				*diffs = append(*diffs, c38RuleDiff{label, "rule.sampler", "wrong-sampler-type", fmt.Sprintf("rule %d: downstream %s not present in v2 rule", i, w.Down.Type)})
				continue
			}
			c38CompareSampler("downstream-"+w.Down.Type, w.Down, f, diffs)
		} else if g.Sampler != nil {
			chk("rule.sampler", false, "a downstream sampler appeared")
		}
	}
}

func c38CompareRules(d *c38RuleDoc, v2 *config.V2SamplerConfig) []c38RuleDiff {
	var diffs []c38RuleDiff
	if v2 == nil {
		return []c38RuleDiff{{"-", "-", "no-rules-loaded", "GetAllSamplerRules returned nil"}}
	}
	one := func(name string, want *c38Sampler) {
		ch := v2.Samplers[name]
		if ch == nil {
			diffs = append(diffs, c38RuleDiff{want.Type, "dataset", "missing-dataset", fmt.Sprintf("v2 rules have no sampler for %q", name)})
			return
		}
		f := reflect.ValueOf(ch).Elem().FieldByName(want.Type)
		if !f.IsValid() || f.IsNil() {
			diffs = append(diffs, c38RuleDiff{want.Type, "Sampler", "wrong-sampler-type", fmt.Sprintf("dataset %q: v1 sampler %s, v2 has %+v", name, want.Type, *ch)})
			return
		}
		c38CompareSampler(want.Type, want, f, &diffs)
	}
	one("__default__", &d.Default)
	for i := range d.Datasets {
		one(d.Datasets[i].Name, &d.Datasets[i].Sampler)
	}
	if len(v2.Samplers) != len(d.Datasets)+1 {
		diffs = append(diffs, c38RuleDiff{"-", "dataset", "extra-dataset", fmt.Sprintf("v1 has %d datasets + default, v2 has %d samplers", len(d.Datasets), len(v2.Samplers))})
	}
	return diffs
}
