package convertx

// C38 domain table: "the settings the converter knows", extracted mechanically
// from the tree under test:
//   - tools/convert/templates/configV2.tmpl   (helper calls under group headers, removed list)
//   - config/metadata/configMeta.yaml          (via config.LoadConfigMetadata: type, default,
//                                               validations, v1group/v1name, lastversion)
//   - tools/convert/configDataNames.txt        (cross-check of the "originally X" names)
//   - config_complete.1.x.toml                 (the v1 reference: which keys a v1 operator can have)
//
// A setting is in the generated domain only when its v1 path is documented in
// the v1 reference file (sound-first: a key v1 never had is not a v1 setting).

import (
	"fmt"
	"os"
	"path/filepath"
	"regexp"
	"sort"
	"strings"
	"sync"

	"github.com/honeycombio/refinery/config"
)

type c38Setting struct {
	V1Path    string // as generated, e.g. "InMemCollector.MaxAlloc", "SendDelay"
	V1Group   string
	V1Key     string
	V2Group   string
	V2Key     string
	Type      string // metadata type (duration, int, ...); "v1choice" for v1-only selector keys
	ValueType string // metadata valuetype
	Helper    string // helper the template calls for this v2 key ("" = no template line)
	TmplV1    string // v1 path the template reads
	Default   any
	Example   string
	Choices   []string
	Vals      []config.Validation
	Removed   bool // template/metadata mark it as removed in v2
	Renamed   bool
	Unit      bool // helper performs a unit/type conversion
	// conditionals that read this v1 key: derived v2 booleans
	Conds []c38Cond
	// all v1 group spellings the metadata/template accept for this setting ("A/B.Key"), in
	// their documented order; nil when there is only one
	Aliases []string
	// further v2 settings whose template line reads the same v1 path (maps only)
	Also [][2]string
}

type c38Cond struct {
	V2Group, V2Key string
	Op             string // eq | nostar | nonempty
	Arg            string // for eq
	InTemplate     bool
	Removed        bool
}

type c38TmplCall struct {
	Group, Key, Helper, V1, Rest string
	Line                         int
}

type c38Table struct {
	Repo       string
	Settings   []*c38Setting          // generated domain, deterministic order
	ByPath     map[string]*c38Setting // v1 path -> setting
	Calls      map[string]c38TmplCall // "Group.Key" -> template call
	RemovedTxt []string               // template's removed list
	V1Ref      map[string]bool
	V1Sections map[string]bool // [X] / [[X]] tables of the v1 reference
	Notes      []string        // cross-check observations (not violations)
	Unread     []string        // keys of the v1 reference that no template call / metadata v1 name covers
	Meta       *config.Metadata
}

var (
	c38TableOnce sync.Once
	c38Tab       *c38Table
	c38TabErr    error
)

func c38Root() string {
	if r := os.Getenv("VERIF_ROOT"); r != "" {
		return r
	}
	return "/verif"
}

// c38RepoDir is the refinery tree under test: VERIF_REPO (mutant runs) or the
// replace target of the harness go.mod.
func c38RepoDir() string {
	if r := os.Getenv("VERIF_REPO"); r != "" {
		if a, err := filepath.Abs(r); err == nil {
			return a
		}
		return r
	}
	b, err := os.ReadFile(filepath.Join(c38Root(), "harness", "go.mod"))
	if err == nil {
		m := regexp.MustCompile(`(?m)^replace\s+github\.com/honeycombio/refinery\s+=>\s+(\S+)`).FindSubmatch(b)
		if m != nil {
			return string(m[1])
		}
	}
	return "/repo"
}

var (
	c38ReGroup   = regexp.MustCompile(`^([A-Za-z][A-Za-z0-9]*):\s*$`)
	c38ReCall    = regexp.MustCompile(`^\s*\{\{\s*([A-Za-z]+)\s+\.Data\s+"([^"]*)"\s+"([^"]*)"\s*(.*?)\s*\}\}\s*$`)
	c38ReRemoved = regexp.MustCompile(`^\s*##\s+-\s+(\S+)\s*$`)
	c38ReV1Sec   = regexp.MustCompile(`^#?\s*\[\[?([A-Za-z]+)\]\]?\s*$`)
	c38ReV1Key   = regexp.MustCompile(`^#?\s*([A-Za-z][A-Za-z0-9]*)\s*=\s*\S`)
	c38ReNames   = regexp.MustCompile(`^\s+-\s+([A-Za-z0-9]+)(?:\s+\(originally ([^)]+)\))?`)
)

func c38LoadTable() (*c38Table, error) {
	c38TableOnce.Do(func() { c38Tab, c38TabErr = c38BuildTable() })
	return c38Tab, c38TabErr
}

func c38BuildTable() (*c38Table, error) {
	t := &c38Table{Repo: c38RepoDir(), ByPath: map[string]*c38Setting{}, Calls: map[string]c38TmplCall{}, V1Ref: map[string]bool{}, V1Sections: map[string]bool{}}

	// --- template
	tb, err := os.ReadFile(filepath.Join(t.Repo, "tools/convert/templates/configV2.tmpl"))
	if err != nil {
		return nil, err
	}
	group := ""
	inRemoved := false
	for i, line := range strings.Split(string(tb), "\n") {
		if strings.Contains(line, "Config values removed by the config converter") {
			inRemoved = true
			continue
		}
		if inRemoved {
			if m := c38ReRemoved.FindStringSubmatch(line); m != nil {
				t.RemovedTxt = append(t.RemovedTxt, m[1])
			}
			continue
		}
		if m := c38ReGroup.FindStringSubmatch(line); m != nil {
			group = m[1]
			continue
		}
		if m := c38ReCall.FindStringSubmatch(line); m != nil {
			c := c38TmplCall{Group: group, Key: m[2], Helper: m[1], V1: m[3], Rest: m[4], Line: i + 1}
			if c.Helper == "conditional" {
				c.V1 = ""
				c.Rest = m[3]
			}
			t.Calls[group+"."+c.Key] = c
		}
	}
	if len(t.Calls) < 20 {
		return nil, fmt.Errorf("template parse found only %d helper calls", len(t.Calls))
	}

	// --- v1 reference keys
	vb, err := os.ReadFile(filepath.Join(t.Repo, "config_complete.1.x.toml"))
	if err != nil {
		return nil, err
	}
	sec := ""
	for _, line := range strings.Split(string(vb), "\n") {
		if m := c38ReV1Sec.FindStringSubmatch(line); m != nil {
			sec = m[1]
			t.V1Sections[sec] = true
			continue
		}
		if m := c38ReV1Key.FindStringSubmatch(line); m != nil {
			k := m[1]
			if sec != "" {
				k = sec + "." + k
			}
			t.V1Ref[k] = true
		}
	}

	// --- names file ("originally X")
	names := map[string]string{} // Group.Key -> originally
	if nb, err := os.ReadFile(filepath.Join(t.Repo, "tools/convert/configDataNames.txt")); err == nil {
		g := ""
		for _, line := range strings.Split(string(nb), "\n") {
			if m := c38ReGroup.FindStringSubmatch(line); m != nil {
				g = m[1]
				continue
			}
			if m := c38ReNames.FindStringSubmatch(line); m != nil {
				names[g+"."+m[1]] = m[2]
			}
		}
	}

	// --- metadata
	meta, err := config.LoadConfigMetadata()
	if err != nil {
		return nil, err
	}
	t.Meta = meta
	removedListed := func(v1path, v2group, v2key string) bool {
		for _, r := range t.RemovedTxt {
			if r == v1path || r == v2group || r == v2group+"."+v2key {
				return true
			}
			// alias groups A/B.X
			if i := strings.Index(r, "."); i > 0 {
				for _, a := range strings.Split(r[:i], "/") {
					if a+r[i:] == v1path {
						return true
					}
				}
			}
		}
		return false
	}

	type condSrc struct {
		c   c38Cond
		key string
	}
	var conds []condSrc
	v1choices := map[string][]string{}

	for _, g := range meta.Groups {
		groupRemoved := g.LastVersion != ""
		for _, f := range g.Fields {
			if f.Unpublished {
				continue
			}
			removed := groupRemoved || f.LastVersion != ""
			call, inTmpl := t.Calls[g.Name+"."+f.Name]
			if f.ValueType == "conditional" {
				parts := strings.Fields(f.Extra)
				if len(parts) < 2 {
					continue
				}
				c := c38Cond{V2Group: g.Name, V2Key: f.Name, Op: parts[0], InTemplate: inTmpl, Removed: removed}
				if len(parts) > 2 {
					c.Arg = parts[2]
				}
				if inTmpl && call.Rest != f.Extra {
					t.Notes = append(t.Notes, fmt.Sprintf("template conditional for %s.%s reads %q, metadata says %q", g.Name, f.Name, call.Rest, f.Extra))
				}
				conds = append(conds, condSrc{c, parts[1]})
				if c.Op == "eq" {
					v1choices[parts[1]] = append(v1choices[parts[1]], c.Arg)
				}
				continue
			}
			switch f.ValueType {
			case "nondefault", "nonzero", "nonemptystring", "secondstoduration", "memorysize", "choice", "map", "stringarray":
			default:
				continue // showexample / assigndefault: not copied from v1
			}
			// v1 path per metadata (this is also what the template generator uses)
			v1g, v1k := f.V1Group, f.V1Name
			if v1k == "" {
				v1g, v1k = "", f.Name
			}
			// resolve alias groups against the v1 reference
			genPath := ""
			for _, a := range strings.Split(v1g, "/") {
				p := v1k
				if a != "" {
					p = a + "." + v1k
				}
				if t.V1Ref[p] || (f.Type == "map" && a == "" && t.V1Sections[p]) {
					genPath = p
					v1g = a
					break
				}
			}
			metaPath := v1k
			if f.V1Group != "" {
				metaPath = f.V1Group + "." + v1k
			}
			if inTmpl && call.V1 != metaPath {
				t.Notes = append(t.Notes, fmt.Sprintf("template reads %q for %s.%s, metadata v1 name is %q", call.V1, g.Name, f.Name, metaPath))
			}
			if o, ok := names[g.Name+"."+f.Name]; ok && o != "" && o != metaPath {
				t.Notes = append(t.Notes, fmt.Sprintf("configDataNames.txt says %s.%s was %q, metadata says %q", g.Name, f.Name, o, metaPath))
			}
			if !removed && !inTmpl {
				t.Notes = append(t.Notes, fmt.Sprintf("live setting %s.%s has no template line", g.Name, f.Name))
			}
			if removed && inTmpl {
				t.Notes = append(t.Notes, fmt.Sprintf("removed setting %s.%s still has a template line", g.Name, f.Name))
			}
			if removed && !removedListed(metaPath, g.Name, f.Name) {
				t.Notes = append(t.Notes, fmt.Sprintf("removed setting %s.%s (%s) is not in the template's removed list", g.Name, f.Name, metaPath))
			}
			if genPath == "" {
				if inTmpl && (f.V1Name != "" || f.V1Group != "") {
					t.Notes = append(t.Notes, fmt.Sprintf("v1 path %q (for %s.%s) is not documented in config_complete.1.x.toml: excluded from the domain", metaPath, g.Name, f.Name))
				}
				continue
			}
			if first, dup := t.ByPath[genPath]; dup {
				t.Notes = append(t.Notes, fmt.Sprintf("v1 path %q feeds more than one v2 setting (%s.%s and %s.%s)", genPath, first.V2Group, first.V2Key, g.Name, f.Name))
				if !removed && f.Type == first.Type {
					first.Also = append(first.Also, [2]string{g.Name, f.Name})
				}
				continue
			}
			s := &c38Setting{V1Path: genPath, V1Group: v1g, V1Key: v1k, V2Group: g.Name, V2Key: f.Name, Type: f.Type, ValueType: f.ValueType,
				Default: f.Default, Example: f.Example, Choices: f.Choices, Vals: f.Validations, Removed: removed}
			if inTmpl {
				s.Helper, s.TmplV1 = call.Helper, call.V1
			}
			if strings.Contains(f.V1Group, "/") {
				s.Aliases = strings.Split(f.V1Group, "/")
			}
			s.Renamed = v1k != f.Name || (f.V1Group != "" && v1g != g.Name)
			s.Unit = f.ValueType == "secondstoduration" || f.ValueType == "memorysize"
			t.ByPath[genPath] = s
			t.Settings = append(t.Settings, s)
		}
	}
	// conditionals: attach to the v1 key they read; selector keys that exist only
	// in v1 (e.g. Metrics) become settings of their own.
	for _, cs := range conds {
		if !t.V1Ref[cs.key] {
			continue
		}
		s := t.ByPath[cs.key]
		if s == nil {
			ch := append([]string(nil), v1choices[cs.key]...)
			sort.Strings(ch)
			s = &c38Setting{V1Path: cs.key, V1Key: cs.key, Type: "v1choice", ValueType: "conditional", Choices: ch, Unit: true, Renamed: true}
			t.ByPath[cs.key] = s
			t.Settings = append(t.Settings, s)
		}
		s.Conds = append(s.Conds, cs.c)
	}
	// a v1-only selector is "removed" only when every v2 setting it feeds is removed
	for _, s := range t.Settings {
		if s.Type == "v1choice" {
			all := true
			for _, c := range s.Conds {
				if !c.Removed {
					all = false
				}
			}
			s.Removed = all
		}
	}
	// v1 reference keys nothing in the converter reads (out of the property's domain; reported, not judged)
	for k := range t.V1Ref {
		if t.ByPath[k] != nil || strings.HasSuffix(k, ".Default") || k == "Default" {
			continue
		}
		t.Unread = append(t.Unread, k)
	}
	sort.Strings(t.Unread)
	sort.SliceStable(t.Settings, func(i, j int) bool { return t.Settings[i].V1Path < t.Settings[j].V1Path })
	if len(t.Settings) < 30 {
		return nil, fmt.Errorf("domain extraction found only %d settings", len(t.Settings))
	}
	return t, nil
}
