package convertx

import (
	"bytes"
	"encoding/json"
	"errors"
	"fmt"
	"hash/crc32"
	"os"
	"os/exec"
	"path/filepath"
	"reflect"
	"regexp"
	"sort"
	"strconv"
	"strings"
	"sync"
	"time"

	"github.com/honeycombio/refinery/config"
	"github.com/honeycombio/refinery/verifharness/vkit"
	toml "github.com/pelletier/go-toml/v2"
	"gopkg.in/yaml.v3"
)

// ---------------------------------------------------------------- the SUT binary

var (
	c38BinOnce sync.Once
	c38BinPath string
	c38BinErr  error
	c38WorkDir string
)

func c38GoBin() string {
	if g := os.Getenv("VERIF_GO"); g != "" {
		return g
	}
	return "/root/go/pkg/mod/golang.org/toolchain@v0.0.1-go1.25.0.linux-amd64/bin/go"
}

// c38Binary builds tools/convert once per process from the tree under test.
func c38Binary() (string, error) {
	c38BinOnce.Do(func() {
		dir, err := os.MkdirTemp("", "c38-")
		if err != nil {
			c38BinErr = err
			return
		}
		c38WorkDir = dir
		harness := filepath.Join(c38Root(), "harness")
		out := filepath.Join(dir, "convert")
		args := []string{"build"}
		if repo := os.Getenv("VERIF_REPO"); repo != "" {
			abs, _ := filepath.Abs(repo)
			// same name the driver's modfile_args() computes
			mf := filepath.Join(harness, fmt.Sprintf(".mut-%08x.mod", crc32.ChecksumIEEE([]byte(abs))))
			if _, err := os.Stat(mf); err != nil {
				// not started by the driver: make an equivalent modfile next to the binary
				src, rerr := os.ReadFile(filepath.Join(harness, "go.mod"))
				if rerr != nil {
					c38BinErr = rerr
					return
				}
				mf = filepath.Join(dir, "mut.mod")
				_ = os.WriteFile(mf, []byte(strings.Replace(string(src), "=> /repo", "=> "+abs, 1)), 0o644)
				sum, _ := os.ReadFile(filepath.Join(harness, "go.sum"))
				_ = os.WriteFile(filepath.Join(dir, "mut.sum"), sum, 0o644)
			}
			args = append(args, "-modfile="+mf)
		}
		// -s -w: smaller image, cheaper to exec once per case; behaviour unchanged
		args = append(args, "-ldflags=-s -w", "-o", out, "github.com/honeycombio/refinery/tools/convert")
		cmd := exec.Command(c38GoBin(), args...)
		cmd.Dir = harness
		env := []string{}
		for _, e := range os.Environ() {
			if strings.HasPrefix(e, "GOFLAGS=") || strings.HasPrefix(e, "GOPROXY=") || strings.HasPrefix(e, "GOSUMDB=") ||
				strings.HasPrefix(e, "GOTOOLCHAIN=") || strings.HasPrefix(e, "GOROOT=") || strings.HasPrefix(e, "TMPDIR=") {
				continue
			}
			env = append(env, e)
		}
		cmd.Env = append(env, "GOFLAGS=-mod=mod", "GOPROXY=off", "GOSUMDB=off", "GOTOOLCHAIN=local")
		if b, err := cmd.CombinedOutput(); err != nil {
			c38BinErr = fmt.Errorf("building tools/convert: %v\n%s", err, b)
			return
		}
		c38BinPath = out
	})
	return c38BinPath, c38BinErr
}

type c38Run struct {
	Exit   int
	Out    string // the written output file
	Stderr string
	Stdout string
}

var c38RunSeq int
var c38RunMu sync.Mutex

// cost accounting (reported in the evidence)
var c38Stat struct {
	Converts, Loads       int
	ConvertTime, LoadTime time.Duration
}

// c38Convert runs `convert <kind> --input f --output g` on the given text.
func c38Convert(kind, text, ext string) c38Run {
	bin, err := c38Binary()
	if err != nil {
		panic("C38: " + err.Error())
	}
	t0 := time.Now()
	defer func() {
		c38RunMu.Lock()
		c38Stat.Converts++
		c38Stat.ConvertTime += time.Since(t0)
		c38RunMu.Unlock()
	}()
	c38RunMu.Lock()
	c38RunSeq++
	dir := filepath.Join(c38WorkDir, "run"+strconv.Itoa(c38RunSeq))
	c38RunMu.Unlock()
	_ = os.MkdirAll(dir, 0o755)
	defer os.RemoveAll(dir)
	in := filepath.Join(dir, "v1"+ext)
	out := filepath.Join(dir, "v2.yaml")
	if err := os.WriteFile(in, []byte(text), 0o644); err != nil {
		panic(err)
	}
	cmd := exec.Command(bin, kind, "--input", in, "--output", out)
	cmd.Dir = dir
	// a short-lived single conversion: keep the Go runtime of the child small
	cmd.Env = append(os.Environ(), "GOMAXPROCS=2", "GOGC=off")
	var so, se bytes.Buffer
	cmd.Stdout, cmd.Stderr = &so, &se
	r := c38Run{}
	done := make(chan error, 1)
	if err := cmd.Start(); err != nil {
		panic(err)
	}
	go func() { done <- cmd.Wait() }()
	select {
	case err = <-done:
	case <-time.After(60 * time.Second):
		_ = cmd.Process.Kill()
		<-done
		r.Exit = -2
		r.Stderr = "timeout after 60s"
		return r
	}
	if err != nil {
		var ee *exec.ExitError
		if errors.As(err, &ee) {
			r.Exit = ee.ExitCode()
		} else {
			r.Exit = -1
		}
	}
	b, _ := os.ReadFile(out)
	r.Out, r.Stdout, r.Stderr = string(b), so.String(), se.String()
	return r
}

// ---------------------------------------------------------------- the v2 loader

const c38FixedRules = "RulesVersion: 2\nSamplers:\n  __default__:\n    DeterministicSampler:\n      SampleRate: 1\n"
const c38FixedConfig = "General:\n  ConfigurationVersion: 2\n"

type c38Loaded struct {
	Cfg       config.Config
	CfgErrs   []string // error-severity validation results for the config
	RulesErrs []string
	Fatal     string // load failed for another reason (yaml type error, panic, ...)
}

func (l *c38Loaded) ok() bool {
	return l.Cfg != nil && len(l.CfgErrs) == 0 && len(l.RulesErrs) == 0 && l.Fatal == ""
}

func c38LoadV2(cfgYAML, rulesYAML string) (res c38Loaded) {
	t0 := time.Now()
	defer func() {
		c38RunMu.Lock()
		c38Stat.Loads++
		c38Stat.LoadTime += time.Since(t0)
		c38RunMu.Unlock()
	}()
	c38RunMu.Lock()
	c38RunSeq++
	dir := filepath.Join(c38WorkDir, "load"+strconv.Itoa(c38RunSeq))
	c38RunMu.Unlock()
	_ = os.MkdirAll(dir, 0o755)
	defer os.RemoveAll(dir)
	cp, rp := filepath.Join(dir, "config.yaml"), filepath.Join(dir, "rules.yaml")
	_ = os.WriteFile(cp, []byte(cfgYAML), 0o644)
	_ = os.WriteFile(rp, []byte(rulesYAML), 0o644)
	defer func() {
		if p := recover(); p != nil {
			res = c38Loaded{Fatal: fmt.Sprintf("panic in config.NewConfig: %v", p)}
		}
	}()
	cfg, err := config.NewConfig(&config.CmdEnv{ConfigLocations: []string{cp}, RulesLocations: []string{rp}})
	if err != nil {
		var fe *config.FileConfigError
		if errors.As(err, &fe) {
			for _, r := range fe.ConfigResults {
				if r.IsError() && r.Message != "" {
					res.CfgErrs = append(res.CfgErrs, r.Message)
				}
			}
			for _, r := range fe.RulesResults {
				if r.IsError() && r.Message != "" {
					res.RulesErrs = append(res.RulesErrs, r.Message)
				}
			}
		} else {
			res.Fatal = strings.ReplaceAll(err.Error(), dir+"/", "")
		}
	}
	if cfg != nil && !reflect.ValueOf(cfg).IsNil() {
		res.Cfg = cfg
	} else if res.Fatal == "" && len(res.CfgErrs) == 0 && len(res.RulesErrs) == 0 {
		res.Fatal = "config.NewConfig returned no config and no error"
	}
	sort.Strings(res.CfgErrs)
	sort.Strings(res.RulesErrs)
	return res
}

// ---------------------------------------------------------------- effective v2 values

var c38Single = map[string]func(config.Config) any{
	"Network.ListenAddr":                       func(c config.Config) any { return c.GetListenAddr() },
	"Network.PeerListenAddr":                   func(c config.Config) any { return c.GetPeerListenAddr() },
	"Network.HoneycombAPI":                     func(c config.Config) any { return c.GetHoneycombAPI() },
	"Network.HTTPIdleTimeout":                  func(c config.Config) any { return c.GetHTTPIdleTimeout() },
	"Network.AdditionalHeaders":                func(c config.Config) any { return c.GetAdditionalHeaders() },
	"RefineryTelemetry.AddRuleReasonToTrace":   func(c config.Config) any { return c.GetAddRuleReasonToTrace() },
	"RefineryTelemetry.AddSpanCountToRoot":     func(c config.Config) any { return c.GetAddSpanCountToRoot() },
	"RefineryTelemetry.AddCountsToRoot":        func(c config.Config) any { return c.GetAddCountsToRoot() },
	"RefineryTelemetry.AddHostMetadataToTrace": func(c config.Config) any { return c.GetAddHostMetadataToTrace() },
	"Debugging.DebugServiceAddr":               func(c config.Config) any { return c.GetDebugServiceAddr() },
	"Debugging.QueryAuthToken":                 func(c config.Config) any { return c.GetQueryAuthToken() },
	"Debugging.AdditionalErrorFields":          func(c config.Config) any { return c.GetAdditionalErrorFields() },
	"Debugging.DryRun":                         func(c config.Config) any { return c.GetIsDryRun() },
	"Logger.Type":                              func(c config.Config) any { return c.GetLoggerType() },
	"Logger.Level":                             func(c config.Config) any { return c.GetLoggerLevel().String() },
	"PeerManagement.Type":                      func(c config.Config) any { return c.GetPeerManagementType() },
	"PeerManagement.Peers":                     func(c config.Config) any { return c.GetPeers() },
	"PeerManagement.Identifier":                func(c config.Config) any { return c.GetRedisIdentifier() },
	"PeerManagement.IdentifierInterfaceName":   func(c config.Config) any { return c.GetIdentifierInterfaceName() },
	"PeerManagement.UseIPV6Identifier": func(c config.Config) any {
		if g, ok := c.(interface{ GetUseIPV6Identifier() bool }); ok {
			return g.GetUseIPV6Identifier()
		}
		return nil
	},
	"Specialized.EnvironmentCacheTTL":       func(c config.Config) any { return c.GetEnvironmentCacheTTL() },
	"Specialized.CompressPeerCommunication": func(c config.Config) any { return c.GetCompressPeerCommunication() },
	"Specialized.AdditionalAttributes":      func(c config.Config) any { return c.GetAdditionalAttributes() },
	"IDFields.TraceNames":                   func(c config.Config) any { return c.GetTraceIdFieldNames() },
	"IDFields.ParentNames":                  func(c config.Config) any { return c.GetParentIdFieldNames() },
	"GRPCServerParameters.Enabled":          func(c config.Config) any { return c.GetGRPCEnabled() },
	"GRPCServerParameters.ListenAddr":       func(c config.Config) any { return c.GetGRPCListenAddr() },
}

var c38Structs = map[string]func(config.Config) any{
	"General":              func(c config.Config) any { return c.GetGeneralConfig() },
	"AccessKeys":           func(c config.Config) any { return c.GetAccessKeyConfig() },
	"Traces":               func(c config.Config) any { return c.GetTracesConfig() },
	"HoneycombLogger":      func(c config.Config) any { return c.GetHoneycombLoggerConfig() },
	"StdoutLogger":         func(c config.Config) any { return c.GetStdoutLoggerConfig() },
	"PrometheusMetrics":    func(c config.Config) any { return c.GetPrometheusMetricsConfig() },
	"OTelMetrics":          func(c config.Config) any { return c.GetOTelMetricsConfig() },
	"OTelTracing":          func(c config.Config) any { return c.GetOTelTracingConfig() },
	"RedisPeerManagement":  func(c config.Config) any { return c.GetRedisPeerManagement() },
	"Collection":           func(c config.Config) any { return c.GetCollectionConfig() },
	"GRPCServerParameters": func(c config.Config) any { return c.GetGRPCConfig() },
	"SampleCache":          func(c config.Config) any { return c.GetSampleCacheConfig() },
	"StressRelief":         func(c config.Config) any { return c.GetStressReliefConfig() },
}

// c38Norm maps a getter result onto int64 / float64 / string / bool / []string / map[string]string.
func c38Norm(v any) any {
	if v == nil {
		return nil
	}
	if dt, ok := v.(*config.DefaultTrue); ok {
		return dt.Get()
	}
	rv := reflect.ValueOf(v)
	switch rv.Kind() {
	case reflect.Int, reflect.Int8, reflect.Int16, reflect.Int32, reflect.Int64:
		return rv.Int()
	case reflect.Uint, reflect.Uint8, reflect.Uint16, reflect.Uint32, reflect.Uint64:
		return int64(rv.Uint())
	case reflect.Float32, reflect.Float64:
		return rv.Float()
	case reflect.String:
		return rv.String()
	case reflect.Bool:
		return rv.Bool()
	case reflect.Slice:
		out := []string{}
		for i := 0; i < rv.Len(); i++ {
			out = append(out, fmt.Sprint(rv.Index(i).Interface()))
		}
		return out
	case reflect.Map:
		out := map[string]string{}
		for _, k := range rv.MapKeys() {
			out[fmt.Sprint(k.Interface())] = fmt.Sprint(rv.MapIndex(k).Interface())
		}
		return out
	}
	return fmt.Sprint(v)
}

func c38Effective(cfg config.Config, group, key string) (any, bool) {
	if f, ok := c38Single[group+"."+key]; ok {
		return c38Norm(f(cfg)), true
	}
	if f, ok := c38Structs[group]; ok {
		fv, ok := c38FieldByYAML(reflect.ValueOf(f(cfg)), key)
		if !ok {
			return nil, false
		}
		return c38Norm(fv.Interface()), true
	}
	return nil, false
}

// c38Expected is the v2 meaning of a v1 value: identity, except for the
// documented unit changes (integer seconds -> duration, integer bytes -> memory size).
func c38Expected(s *c38Setting, v c38Val) any {
	switch {
	case s.ValueType == "secondstoduration":
		return int64(time.Duration(v.I) * time.Second)
	case s.ValueType == "memorysize":
		return v.I
	case s.Type == "duration":
		d, _ := time.ParseDuration(v.S)
		return int64(d)
	}
	switch v.K {
	case "int":
		return v.I
	case "float":
		return v.F
	case "str":
		return v.S
	case "bool":
		return v.B
	case "list":
		return append([]string{}, v.L...)
	case "map":
		m := map[string]string{}
		for _, kv := range v.M {
			m[kv[0]] = kv[1]
		}
		return m
	}
	return nil
}

func c38CondExpected(c c38Cond, v c38Val) (bool, bool) {
	switch c.Op {
	case "eq":
		return v.K == "str" && v.S == c.Arg, true
	case "nonempty":
		return v.K == "str" && v.S != "", true
	case "nostar":
		if v.K != "list" {
			return false, false
		}
		star := false
		for _, s := range v.L {
			if s == "*" {
				star = true
			}
		}
		return len(v.L) > 0 && !star, true
	}
	return false, false
}

// ---------------------------------------------------------------- value classes (oracle side)

var c38ReAlnum = regexp.MustCompile(`^[A-Za-z0-9]+$`)

// c38StrClass classifies a string by what YAML makes of it when written as a
// plain (unquoted) scalar: plain / punct round-trip; scalarlike is an
// alphanumeric string that reads back as a number, bool or null; needsquote-*
// says what an unquoted rendering turns into (a sequence, a map, null, another
// value, or a parse error).
func c38StrClass(s string) string {
	if s == "*" {
		return "star"
	}
	// quoting stress classes come first: they say what a YAML writer has to get right
	switch {
	case strings.ContainsAny(s, "\n\t"):
		c := "tab"
		if strings.Contains(s, "\n") {
			c = "newline"
		}
		sq, dq := strings.Contains(s, "'"), strings.Contains(s, `"`)
		switch {
		case sq && dq:
			c += "-bothquotes"
		case dq:
			c += "-dq"
		case sq:
			c += "-sq"
		}
		return c
	case strings.Contains(s, "'") && strings.Contains(s, `"`):
		return "bothquotes"
	case s != strings.TrimSpace(s):
		return "outerblank"
	}
	var back []any
	err := yaml.Unmarshal([]byte("- "+s+"\n"), &back)
	roundTrips := err == nil && len(back) == 1 && back[0] == any(s)
	switch {
	case c38ReAlnum.MatchString(s) && roundTrips:
		return "plain"
	case c38ReAlnum.MatchString(s):
		return "scalarlike" // 12345, true, null, 1e5: a plain scalar of another type
	case roundTrips:
		return "punct"
	case err != nil || len(back) != 1:
		return "needsquote-error"
	}
	switch back[0].(type) {
	case []any:
		return "needsquote-seq"
	case map[string]any:
		return "needsquote-map"
	case nil:
		return "needsquote-null"
	case string:
		return "needsquote-altered"
	}
	return "needsquote-retyped"
}

var c38ClassRank = map[string]int{"plain": 0, "punct": 1, "scalarlike": 2, "needsquote-altered": 3, "needsquote-retyped": 4, "needsquote-null": 5,
	"needsquote-map": 6, "needsquote-seq": 7, "needsquote-error": 8, "outerblank": 9, "bothquotes": 10,
	"tab": 11, "tab-sq": 11, "tab-dq": 11, "tab-bothquotes": 11, "newline": 12, "newline-sq": 12, "newline-dq": 12, "newline-bothquotes": 12, "star": 13}

func c38ValClass(s *c38Setting, v c38Val) string {
	switch v.K {
	case "int":
		if s != nil && s.ValueType == "memorysize" {
			return "bytes"
		}
		if s != nil && s.ValueType == "secondstoduration" {
			return "seconds"
		}
		return "int"
	case "bool":
		return "bool"
	case "str":
		if s != nil && s.Type == "duration" {
			return "duration"
		}
		return "string-" + c38StrClass(v.S)
	case "list":
		worst := "plain"
		for _, e := range v.L {
			if c := c38StrClass(e); c38ClassRank[c] > c38ClassRank[worst] {
				worst = c
			}
		}
		return "list-" + worst
	case "map":
		worst := "plain"
		for _, kv := range v.M {
			for _, e := range kv {
				if c := c38StrClass(e); c38ClassRank[c] > c38ClassRank[worst] {
					worst = c
				}
			}
		}
		return "map-" + worst
	}
	return v.K
}

func c38HelperName(s *c38Setting) string {
	switch {
	case s.Removed:
		return "removed"
	case s.Type == "v1choice":
		return "conditional"
	case s.Helper == "":
		return "no-template-line"
	}
	return s.Helper
}

// ---------------------------------------------------------------- config judge

type c38Problem struct {
	Verdict string
	Detail  string
}

// c38ConfigPipeline converts one v1 config document and pushes the result
// through YAML parsing and the v2 loader. It returns nil problems when the
// output is a loadable v2 configuration.
type c38PipeResult struct {
	Run      c38Run
	Parsed   map[string]any
	Loaded   c38Loaded
	Verdict  string // "" = fine
	Detail   string
	YAMLLine int
}

var c38ReYAMLLine = regexp.MustCompile(`line (\d+)`)
var c38ReDeprecated = regexp.MustCompile(`(?m)^# - (\S+) \(deprecated in`)
var c38ReTmplErr = regexp.MustCompile(`at <(\w+) \.Data "([^"]*)" "([^"]*)"`)

// c38SamePath compares a v1 path as the converter prints it (alias groups "A/B.X") with ours.
func c38SamePath(printed, ours string) bool {
	if printed == ours {
		return true
	}
	if i := strings.Index(printed, "."); i > 0 {
		for _, a := range strings.Split(printed[:i], "/") {
			if a+printed[i:] == ours {
				return true
			}
		}
	}
	return false
}

func c38ConfigPipeline(tab *c38Table, format string, sets []c38Set) c38PipeResult {
	doc := c38ConfigDoc(tab, sets)
	text, ext := c38Serialize(format, doc)
	var pr c38PipeResult
	pr.Run = c38Convert("config", text, ext)
	if pr.Run.Exit != 0 {
		pr.Verdict = "converter-failed"
		pr.Detail = fmt.Sprintf("convert config exited %d; stderr: %s", pr.Run.Exit, c38Clip(pr.Run.Stderr, 400))
		return pr
	}
	if err := yaml.Unmarshal([]byte(pr.Run.Out), &pr.Parsed); err != nil {
		pr.Verdict = "output-not-yaml"
		pr.Detail = "converter output is not parseable YAML: " + err.Error()
		if m := c38ReYAMLLine.FindStringSubmatch(err.Error()); m != nil {
			pr.YAMLLine, _ = strconv.Atoi(m[1])
			lines := strings.Split(pr.Run.Out, "\n")
			if pr.YAMLLine >= 1 && pr.YAMLLine <= len(lines) {
				pr.Detail += fmt.Sprintf(" | line %d: %q", pr.YAMLLine, lines[pr.YAMLLine-1])
			}
		}
		return pr
	}
	if _, ok := pr.Parsed["General"]; !ok {
		pr.Verdict = "template-not-rendered"
		pr.Detail = "converter output has no General group (not a v2 configuration); output starts: " + c38Clip(pr.Run.Out, 300)
		return pr
	}
	pr.Loaded = c38LoadV2(pr.Run.Out, c38FixedRules)
	if !pr.Loaded.ok() {
		pr.Verdict = "v2-load-error"
		pr.Detail = strings.Join(append(append([]string{}, pr.Loaded.CfgErrs...), pr.Loaded.RulesErrs...), "; ")
		if pr.Loaded.Fatal != "" {
			pr.Detail += " " + pr.Loaded.Fatal
		}
	}
	return pr
}

func c38Clip(s string, n int) string {
	s = strings.TrimSpace(s)
	if len(s) > n {
		return s[:n] + "..."
	}
	return s
}

// c38KeysNearLine returns the v2 "Group.Key" names of the uncommented key lines
// closest to the given 1-based line of the emitted YAML: the three above it
// and the one below.
func c38KeysNearLine(out string, line int) map[string]bool {
	lines := strings.Split(out, "\n")
	reKey := regexp.MustCompile(`^    ([A-Za-z][A-Za-z0-9]*):`)
	type kl struct {
		name string
		line int
	}
	var keys []kl
	group := ""
	for i, l := range lines {
		if m := c38ReGroup.FindStringSubmatch(l); m != nil {
			group = m[1]
			continue
		}
		if m := reKey.FindStringSubmatch(l); m != nil {
			keys = append(keys, kl{group + "." + m[1], i + 1})
		}
	}
	near := map[string]bool{}
	above := 0
	for i := len(keys) - 1; i >= 0; i-- {
		if keys[i].line <= line && above < 3 {
			near[keys[i].name] = true
			above++
		}
	}
	for _, k := range keys {
		if k.line > line {
			near[k.name] = true
			break
		}
	}
	return near
}

// c38SpellingOK: the group spellings of a (replayed) setting are ones the metadata documents.
func c38SpellingOK(s *c38Setting, st c38Set) bool {
	ok := func(g string) bool {
		if g == "" || g == s.V1Group {
			return true
		}
		for _, a := range s.Aliases {
			if a == g {
				return true
			}
		}
		return false
	}
	return ok(st.Group) && (st.Alt == nil || ok(st.Alt.Group))
}

// targets of a setting: the v2 "Group.Key" names it feeds
func c38Targets(s *c38Setting) []string {
	var t []string
	if s.V2Group != "" {
		t = append(t, s.V2Group+"."+s.V2Key)
	}
	for _, a := range s.Also {
		t = append(t, a[0]+"."+a[1])
	}
	for _, c := range s.Conds {
		t = append(t, c.V2Group+"."+c.V2Key)
	}
	return t
}

func execC38Config(c c38Case, res *vkit.Result) {
	tab, err := c38LoadTable()
	if err != nil {
		panic("C38: cannot build the domain table: " + err.Error())
	}
	res.Class("kind=config")
	res.Class("format=" + c.Format)

	// the settings of this case that exist in the tree's domain (replays may name others)
	var remaining []c38Set
	seen := map[string]bool{}
	for _, st := range c.Settings {
		s := tab.ByPath[st.Path]
		if s == nil || st.Val.node() == nil || seen[st.Path] || !c38SpellingOK(s, st) {
			res.Class("setting-not-in-domain")
			continue
		}
		if len(s.Aliases) > 1 {
			switch {
			case st.Alt != nil:
				res.Class("alias=both-spellings")
			case st.Group == "" || st.Group == s.Aliases[0]:
				res.Class("alias=first-spelling")
			default:
				res.Class("alias=other-spelling")
			}
		}
		seen[st.Path] = true
		remaining = append(remaining, st)
	}
	if len(remaining) == 0 {
		return
	}
	// serializer self-check: the document we hand over means what the case says
	if msg := c38SerializerCheck(c.Format, c38ConfigDoc(tab, remaining)); msg != "" {
		res.Violate("harness/serializer", "%s", msg)
		return
	}

	nonDefault, renamed, unit := 0, false, false
	for _, st := range remaining {
		s := tab.ByPath[st.Path]
		if s.Removed {
			res.Class("has-removed-setting")
			continue
		}
		if s.V2Group == "" {
			nonDefault++
		} else if b, ok := c38Effective(c38Baseline(), s.V2Group, s.V2Key); !ok || !reflect.DeepEqual(b, c38Expected(s, st.Val)) {
			nonDefault++
		} else {
			res.Class("value-equals-v2-default")
		}
		if s.Renamed {
			renamed = true
		}
		if s.Unit || len(s.Conds) > 0 {
			unit = true
		}
		res.Class("helper=" + c38HelperName(s))
		res.Class("value=" + c38ValClass(s, st.Val))
	}
	res.NonTrivial = nonDefault >= 5 && renamed && unit

	sig := func(s *c38Setting, st c38Set, verdict string) string {
		return fmt.Sprintf("C38/config/%s/%s/%s/%s/%s", c.Format, c38HelperName(s), c38ValClass(s, st.Val), verdict, c38SetName(s, st))
	}
	drop := func(paths map[string]bool) {
		var keep []c38Set
		for _, st := range remaining {
			if !paths[st.Path] {
				keep = append(keep, st)
			}
		}
		remaining = keep
	}
	// isolate: which of the candidates breaks the pipeline on its own?
	isolate := func(cands []c38Set) map[string]c38PipeResult {
		out := map[string]c38PipeResult{}
		for _, st := range cands {
			pr := c38ConfigPipeline(tab, c.Format, []c38Set{st})
			if pr.Verdict != "" {
				out[st.Path] = pr
			}
		}
		return out
	}

	compared := false
	lastHinted, lastVerdict := false, ""
	for iter := 0; iter < 10 && len(remaining) > 0; iter++ {
		pr := c38ConfigPipeline(tab, c.Format, remaining)
		if pr.Verdict == "" {
			c38CompareConfig(tab, c, remaining, pr.Loaded.Cfg, res)
			compared = true
			break
		}
		res.Class("pipeline-" + pr.Verdict)
		hintedNow := false
		culprits := map[string]bool{}
		byPath := map[string]c38Set{}
		for _, st := range remaining {
			byPath[st.Path] = st
		}
		blame := func(path, verdict, detail string) {
			if culprits[path] {
				return
			}
			culprits[path] = true
			st := byPath[path]
			s := tab.ByPath[path]
			res.Violate(sig(s, st, verdict), "v1 %s = %s (%s input, template helper %s -> %s.%s): %s", c38SetName(s, st), st.Val, c.Format, c38HelperName(s), s.V2Group, s.V2Key, detail)
		}
		blameAll := func(found map[string]c38PipeResult) {
			var paths []string
			for p := range found {
				paths = append(paths, p)
			}
			sort.Strings(paths)
			for _, p := range paths {
				blame(p, found[p].Verdict, found[p].Detail)
			}
		}
		// attribute a whole-document failure: a single remaining setting is the culprit by
		// construction; otherwise trust the hint taken from the converter's own output once,
		// and fall back to running every candidate alone when hints did not help last time.
		attribute := func(pr c38PipeResult, hinted []c38Set) {
			switch {
			case len(remaining) == 1:
				blame(remaining[0].Path, pr.Verdict, pr.Detail)
			case len(hinted) > 0 && !(lastHinted && lastVerdict == pr.Verdict):
				for _, st := range hinted {
					blame(st.Path, pr.Verdict, pr.Detail)
				}
				hintedNow = true
			default:
				var first, rest []c38Set
				for _, st := range remaining {
					s := tab.ByPath[st.Path]
					if s.Removed || s.Type == "map" {
						first = append(first, st)
					} else {
						rest = append(rest, st)
					}
				}
				found := isolate(first)
				if len(found) == 0 {
					found = isolate(rest)
				}
				blameAll(found)
			}
			if len(culprits) == 0 {
				res.Violate(fmt.Sprintf("C38/config/%s/unattributed/%s", c.Format, pr.Verdict), "%s (no single setting reproduces it)", pr.Detail)
			}
		}
		switch pr.Verdict {
		case "v2-load-error":
			// validation messages name the v2 field
			msgs := append(append([]string{}, pr.Loaded.CfgErrs...), pr.Loaded.RulesErrs...)
			if pr.Loaded.Fatal != "" {
				msgs = append(msgs, pr.Loaded.Fatal)
			}
			var unattributed []string
			for _, m := range msgs {
				hit := false
				for _, st := range remaining {
					s := tab.ByPath[st.Path]
					for _, tg := range c38Targets(s) {
						if regexp.MustCompile(`(^|[^A-Za-z0-9.])` + regexp.QuoteMeta(tg) + `($|[^A-Za-z0-9])`).MatchString(m) {
							blame(st.Path, "v2-load-error", "the v2 loader rejects the converted file: "+m)
							hit = true
						}
					}
				}
				if !hit {
					unattributed = append(unattributed, m)
				}
			}
			if len(culprits) == 0 && len(remaining) == 1 {
				blame(remaining[0].Path, pr.Verdict, pr.Detail)
			}
			if len(culprits) == 0 {
				blameAll(isolate(remaining))
			}
			if len(culprits) == 0 {
				res.Violate(fmt.Sprintf("C38/config/%s/unattributed/v2-load-error", c.Format), "the v2 loader rejects the converted file and no single setting reproduces it: %s", strings.Join(unattributed, "; "))
			}
		case "output-not-yaml":
			// YAML error positions are imprecise (an unterminated flow sequence is reported
			// lines later): take the keys around the reported line as suspects and confirm
			// each by running it alone; fall back to running every setting alone.
			near := c38KeysNearLine(pr.Run.Out, pr.YAMLLine)
			var hinted []c38Set
			for _, st := range remaining {
				for _, tg := range c38Targets(tab.ByPath[st.Path]) {
					if near[tg] {
						hinted = append(hinted, st)
						break
					}
				}
			}
			if len(remaining) == 1 {
				blame(remaining[0].Path, pr.Verdict, pr.Detail)
			} else {
				found := isolate(hinted)
				if len(found) == 0 {
					found = isolate(remaining)
				}
				blameAll(found)
			}
			if len(culprits) == 0 {
				res.Violate(fmt.Sprintf("C38/config/%s/unattributed/%s", c.Format, pr.Verdict), "%s (no single setting reproduces it)", pr.Detail)
			}
		case "template-not-rendered":
			// the output names what it threw away: "# - <v1 path> (deprecated in ...)"
			var hinted []c38Set
			for _, m := range c38ReDeprecated.FindAllStringSubmatch(pr.Run.Out, -1) {
				for _, st := range remaining {
					if c38SamePath(m[1], st.Path) {
						hinted = append(hinted, st)
					}
				}
			}
			attribute(pr, hinted)
		default: // converter-failed: the template error names the helper call
			var hinted []c38Set
			if m := c38ReTmplErr.FindStringSubmatch(pr.Run.Stderr); m != nil {
				for _, st := range remaining {
					s := tab.ByPath[st.Path]
					if s.TmplV1 == m[3] && s.Helper == m[1] {
						hinted = append(hinted, st)
					}
				}
			}
			attribute(pr, hinted)
		}
		if len(culprits) == 0 {
			break
		}
		lastHinted, lastVerdict = hintedNow, pr.Verdict
		drop(culprits)
	}
	if compared {
		res.Class("values-compared")
	} else {
		res.Class("values-not-compared")
	}
}

var (
	c38BaseOnce sync.Once
	c38BaseCfg  config.Config
)

// baseline: the v2 configuration with nothing set (what "lost" looks like)
func c38Baseline() config.Config {
	c38BaseOnce.Do(func() {
		if _, err := c38Binary(); err != nil {
			panic("C38: " + err.Error())
		}
		l := c38LoadV2(c38FixedConfig, c38FixedRules)
		if !l.ok() {
			panic(fmt.Sprintf("C38 harness: the fixed minimal v2 config/rules do not load: %+v", l))
		}
		c38BaseCfg = l.Cfg
	})
	return c38BaseCfg
}

func c38CompareConfig(tab *c38Table, c c38Case, sets []c38Set, cfg config.Config, res *vkit.Result) {
	base := c38Baseline()
	for _, st := range sets {
		s := tab.ByPath[st.Path]
		if s.Removed {
			res.Class("removed-setting-tolerated")
			continue
		}
		if s.V2Group != "" {
			jv, judged := c38Judged(tab, sets, st)
			if !judged {
				res.Class("alias-section-shadowed-not-judged")
				continue
			}
			want := c38Expected(s, jv)
			targets := append([][2]string{{s.V2Group, s.V2Key}}, s.Also...)
			okAny := false
			var gots []string
			lost := true
			for _, tg := range targets {
				got, found := c38Effective(cfg, tg[0], tg[1])
				if !found {
					res.Violate("harness/no-getter/"+tg[0]+"."+tg[1], "no getter known for v2 setting %s.%s", tg[0], tg[1])
					continue
				}
				gots = append(gots, fmt.Sprintf("%s.%s=%#v", tg[0], tg[1], got))
				if reflect.DeepEqual(got, want) {
					okAny = true
				}
				if b, _ := c38Effective(base, tg[0], tg[1]); !reflect.DeepEqual(b, got) {
					lost = false
				}
			}
			if !okAny && len(gots) > 0 {
				verdict := "changed"
				if lost {
					verdict = "lost"
				}
				written := fmt.Sprint(st.Val)
				if st.Alt != nil {
					written = fmt.Sprintf("%s under [%s] and %s under [%s] (documented order %v)", st.Val, c38Placements(s, st)[0].Group, st.Alt.Val, st.Alt.Group, s.Aliases)
				}
				res.Violate(fmt.Sprintf("C38/config/%s/%s/%s/%s/%s", c.Format, c38HelperName(s), c38ValClass(s, jv), verdict, c38SetName(s, st)),
					"v1 %s = %s (%s input, template helper %s): expected effective v2 value %#v, loaded v2 config has %s", c38SetName(s, st), written, c.Format, c38HelperName(s), want, strings.Join(gots, ", "))
			}
			res.Class("compared-setting")
		}
		for _, cd := range s.Conds {
			if cd.Removed {
				continue
			}
			want, ok := c38CondExpected(cd, st.Val)
			if !ok {
				continue
			}
			if !want && cd.Op != "nostar" {
				// the v1 key selects something else: the v2 flag merely keeps its default, nothing to assert
				continue
			}
			got, found := c38Effective(cfg, cd.V2Group, cd.V2Key)
			if !found {
				res.Violate("harness/no-getter/"+cd.V2Group+"."+cd.V2Key, "no getter known for v2 setting %s.%s", cd.V2Group, cd.V2Key)
				continue
			}
			if got != any(want) {
				res.Violate(fmt.Sprintf("C38/config/%s/conditional-%s/%s/changed/%s->%s.%s", c.Format, cd.Op, c38ValClass(s, st.Val), s.V1Path, cd.V2Group, cd.V2Key),
					"v1 %s = %s (%s input) should make v2 %s.%s = %v (template: conditional %s), loaded v2 config has %#v", s.V1Path, st.Val, c.Format, cd.V2Group, cd.V2Key, want, cd.Op, got)
			}
			res.Class("compared-conditional")
		}
	}
}

// c38SerializerCheck parses the emitted v1 text with the library the converter
// uses for that format and compares it with the document tree.
func c38SerializerCheck(format string, doc *c38Node) string {
	text, _ := c38Serialize(format, doc)
	var got map[string]any
	var err error
	switch format {
	case "toml":
		err = toml.Unmarshal([]byte(text), &got)
	case "yaml":
		err = yaml.Unmarshal([]byte(text), &got)
	default:
		err = json.Unmarshal([]byte(text), &got)
	}
	if err != nil {
		return fmt.Sprintf("generated %s does not parse: %v\n%s", format, err, text)
	}
	if d := c38TreeDiff(doc, got, ""); d != "" {
		return fmt.Sprintf("generated %s means something else than the case (%s):\n%s", format, d, text)
	}
	return ""
}

func c38TreeDiff(n *c38Node, v any, path string) string {
	switch n.Kind {
	case 'm':
		m, ok := v.(map[string]any)
		if !ok {
			return fmt.Sprintf("%s: want map, got %T", path, v)
		}
		if len(m) != len(n.Keys) {
			return fmt.Sprintf("%s: want %d keys, got %d", path, len(n.Keys), len(m))
		}
		for i, k := range n.Keys {
			sub, ok := m[k]
			if !ok {
				return fmt.Sprintf("%s: key %q missing", path, k)
			}
			if d := c38TreeDiff(n.Vals[i], sub, path+"."+k); d != "" {
				return d
			}
		}
	case 'l':
		l, ok := v.([]any)
		if !ok {
			return fmt.Sprintf("%s: want list, got %T", path, v)
		}
		if len(l) != len(n.Items) {
			return fmt.Sprintf("%s: want %d items, got %d", path, len(n.Items), len(l))
		}
		for i := range l {
			if d := c38TreeDiff(n.Items[i], l[i], fmt.Sprintf("%s[%d]", path, i)); d != "" {
				return d
			}
		}
	case 's':
		if s, ok := v.(string); !ok || s != n.S {
			return fmt.Sprintf("%s: want %q, got %#v", path, n.S, v)
		}
	case 'b':
		if b, ok := v.(bool); !ok || b != n.B {
			return fmt.Sprintf("%s: want %v, got %#v", path, n.B, v)
		}
	case 'i':
		if f, ok := c38AsFloat(v); !ok || f != float64(n.I) {
			return fmt.Sprintf("%s: want %d, got %#v", path, n.I, v)
		}
	case 'f':
		if f, ok := c38AsFloat(v); !ok || f != n.F {
			return fmt.Sprintf("%s: want %v, got %#v", path, n.F, v)
		}
	}
	return ""
}
