package convertx

import (
	"encoding/json"
	"fmt"
	"os"
	"sort"
	"strings"
	"testing"

	"github.com/honeycombio/refinery/verifharness/vkit"
	"gopkg.in/yaml.v3"
)

// C38: the config converter preserves valid v1 settings.

// ---------------------------------------------------------------- rules judge

var c38RequiredParams = map[string]bool{"SampleRate": true, "GoalSampleRate": true, "GoalThroughputPerSec": true, "FieldList": true}

func c38CopyDoc(d *c38RuleDoc) *c38RuleDoc {
	b, _ := json.Marshal(d)
	var out c38RuleDoc
	_ = json.Unmarshal(b, &out)
	return &out
}

func c38Skeleton(s c38Sampler) c38Sampler {
	out := c38Sampler{Type: s.Type}
	for _, p := range s.Params {
		if c38RequiredParams[p.Name] {
			out.Params = append(out.Params, p)
		}
	}
	return out
}

func c38StripRule(r c38Rule) c38Rule {
	out := c38Rule{Name: r.Name, SampleRate: r.SampleRate, Drop: r.Drop, Scope: r.Scope}
	if r.Down != nil {
		d := c38Skeleton(*r.Down)
		out.Down = &d
	}
	return out
}

func c38RulesPipeline(format string, d *c38RuleDoc) c38PipeResult {
	text, ext := c38Serialize(format, c38RulesDocNode(d))
	var pr c38PipeResult
	pr.Run = c38Convert("rules", text, ext)
	if pr.Run.Exit != 0 {
		pr.Verdict = "converter-failed"
		se := pr.Run.Stderr
		if i := strings.Index(se, "\ngoroutine "); i > 0 {
			se = se[:i]
		}
		pr.Detail = fmt.Sprintf("convert rules exited %d; stderr: %s", pr.Run.Exit, c38Clip(se, 400))
		return pr
	}
	if err := yaml.Unmarshal([]byte(pr.Run.Out), &pr.Parsed); err != nil {
		pr.Verdict = "output-not-yaml"
		pr.Detail = "converter output is not parseable YAML: " + err.Error()
		return pr
	}
	pr.Loaded = c38LoadV2(c38FixedConfig, pr.Run.Out)
	if !pr.Loaded.ok() {
		pr.Verdict = "v2-load-error"
		pr.Detail = strings.Join(append(append([]string{}, pr.Loaded.RulesErrs...), pr.Loaded.CfgErrs...), "; ")
		if pr.Loaded.Fatal != "" {
			pr.Detail += " " + pr.Loaded.Fatal
		}
	}
	return pr
}

// what to peel off a unit (default sampler or one dataset) before re-running
type c38Peel struct {
	Params    map[string]bool
	Rules     map[int]bool            // drop whole rule
	Conds     map[int]map[int]bool    // rule -> condition indices
	DownParam map[int]map[string]bool // rule -> downstream params
	Whole     bool                    // replace the whole unit by a trivial sampler
}

func c38NewPeel() *c38Peel {
	return &c38Peel{Params: map[string]bool{}, Rules: map[int]bool{}, Conds: map[int]map[int]bool{}, DownParam: map[int]map[string]bool{}}
}

func (p *c38Peel) empty() bool {
	return !p.Whole && len(p.Params) == 0 && len(p.Rules) == 0 && len(p.Conds) == 0 && len(p.DownParam) == 0
}

func c38ApplyPeel(s c38Sampler, p *c38Peel) c38Sampler {
	if p.Whole {
		return c38Sampler{Type: "DeterministicSampler", Params: []c38Param{{Name: "SampleRate", Val: c38Val{K: "int", I: 1}}}}
	}
	out := c38Sampler{Type: s.Type}
	for _, pa := range s.Params {
		if !p.Params[pa.Name] {
			out.Params = append(out.Params, pa)
		}
	}
	for i, r := range s.Rules {
		if p.Rules[i] {
			continue
		}
		nr := r
		nr.Conds = nil
		for j, c := range r.Conds {
			if !p.Conds[i][j] {
				nr.Conds = append(nr.Conds, c)
			}
		}
		if r.Down != nil {
			d := c38Sampler{Type: r.Down.Type}
			for _, pa := range r.Down.Params {
				if !p.DownParam[i][pa.Name] {
					d.Params = append(d.Params, pa)
				}
			}
			nr.Down = &d
		}
		out.Rules = append(out.Rules, nr)
	}
	return out
}

// c38BlameUnit finds, by adding one piece at a time onto the unit's skeleton
// (required parameters only), which pieces of a failing sampler definition break
// the pipeline. Pieces the failure message points at are tried first; when the
// unit without the blamed pieces passes, the other pieces are not tried.
func c38BlameUnit(format, style string, s c38Sampler, res *vkit.Result, peel *c38Peel, unitVerdict, unitDetail string) {
	run := func(x c38Sampler) c38PipeResult {
		return c38RulesPipeline(format, &c38RuleDoc{KeyStyle: style, Default: x})
	}
	sig := func(label, item, verdict string) string {
		return fmt.Sprintf("C38/rules/%s/%s/%s/%s", format, label, item, verdict)
	}
	skel := c38Skeleton(s)
	low := strings.ToLower(unitDetail)
	type atom struct {
		hinted bool
		try    func() bool // true = this piece fails on its own (and has been blamed)
	}
	var atoms []atom
	for _, p := range s.Params {
		if c38RequiredParams[p.Name] {
			continue
		}
		p := p
		hint := strings.Contains(low, strings.ToLower(p.Name)) || (c38ParamSpecs[p.Name].V2 != "" && strings.Contains(low, strings.ToLower(c38ParamSpecs[p.Name].V2)))
		atoms = append(atoms, atom{hint, func() bool {
			x := skel
			x.Params = append(append([]c38Param{}, skel.Params...), p)
			pr := run(x)
			if pr.Verdict == "" {
				return false
			}
			res.Violate(sig(s.Type, p.Name, pr.Verdict), "v1 %s with %s = %s (%s keys, %s input): %s", s.Type, p.Name, p.Val, style, format, pr.Detail)
			peel.Params[p.Name] = true
			return true
		}})
	}
	ruleBroken := map[int]bool{}
	for i, r := range s.Rules {
		i, r := i, r
		st := c38StripRule(r)
		atoms = append(atoms, atom{false, func() bool {
			x := skel
			x.Rules = []c38Rule{st}
			pr := run(x)
			if pr.Verdict == "" {
				return false
			}
			res.Violate(sig(s.Type, "rule", pr.Verdict), "v1 rule %+v without conditions (%s keys, %s input): %s", st, style, format, pr.Detail)
			peel.Rules[i] = true
			ruleBroken[i] = true
			return true
		}})
		for j, c := range r.Conds {
			j, c := j, c
			hint := strings.Contains(low, "conditions") && ((c.Val.K == "none") == strings.Contains(low, "nil"))
			atoms = append(atoms, atom{hint, func() bool {
				if ruleBroken[i] {
					return false
				}
				x := skel
				y := st
				y.Conds = []c38V1Cond{c}
				x.Rules = []c38Rule{y}
				pr := run(x)
				if pr.Verdict == "" {
					return false
				}
				res.Violate(sig(s.Type, "condition-"+c.Val.K, pr.Verdict), "v1 condition %+v (%s keys, %s input): %s", c, style, format, pr.Detail)
				if peel.Conds[i] == nil {
					peel.Conds[i] = map[int]bool{}
				}
				peel.Conds[i][j] = true
				return true
			}})
		}
		if r.Down != nil {
			for _, p := range r.Down.Params {
				if c38RequiredParams[p.Name] {
					continue
				}
				p := p
				hint := strings.Contains(low, strings.ToLower(p.Name)) || (c38ParamSpecs[p.Name].V2 != "" && strings.Contains(low, strings.ToLower(c38ParamSpecs[p.Name].V2)))
				atoms = append(atoms, atom{hint, func() bool {
					if ruleBroken[i] {
						return false
					}
					x := skel
					y := st
					d := *st.Down
					d.Params = append(append([]c38Param{}, st.Down.Params...), p)
					y.Down = &d
					x.Rules = []c38Rule{y}
					pr := run(x)
					if pr.Verdict == "" {
						return false
					}
					res.Violate(sig("downstream-"+r.Down.Type, p.Name, pr.Verdict), "v1 rule-level %s with %s = %s (%s keys, %s input): %s", r.Down.Type, p.Name, p.Val, style, format, pr.Detail)
					if peel.DownParam[i] == nil {
						peel.DownParam[i] = map[string]bool{}
					}
					peel.DownParam[i][p.Name] = true
					return true
				}})
			}
		}
	}
	blamed := false
	for _, a := range atoms {
		if a.hinted && a.try() {
			blamed = true
		}
	}
	if blamed && run(c38ApplyPeel(s, peel)).Verdict == "" {
		return
	}
	for _, a := range atoms {
		if !a.hinted && a.try() {
			blamed = true
		}
	}
	if blamed {
		return
	}
	if pr := run(skel); pr.Verdict != "" {
		res.Violate(sig(s.Type, "required-parameters", pr.Verdict), "v1 %s with only its required parameters %v (%s keys, %s input): %s", s.Type, skel.Params, style, format, pr.Detail)
	} else {
		res.Violate(sig(s.Type, "unattributed", unitVerdict), "v1 %s definition %+v (%s keys, %s input) fails as a whole but none of its parts does alone: %s", s.Type, s, style, format, unitDetail)
	}
	peel.Whole = true
}

func c38SamplerNT(s *c38Sampler) (seconds bool) {
	for _, p := range s.Params {
		if c38ParamSpecs[p.Name].Seconds {
			seconds = true
		}
	}
	for i := range s.Rules {
		if s.Rules[i].Down != nil && c38SamplerNT(s.Rules[i].Down) {
			seconds = true
		}
	}
	return
}

func execC38Rules(c c38Case, res *vkit.Result) {
	res.Class("kind=rules")
	res.Class("format=" + c.Format)
	if c.Rules == nil {
		return
	}
	d := c38CopyDoc(c.Rules)
	res.Class("keystyle=" + d.KeyStyle)
	if msg := c38SerializerCheck(c.Format, c38RulesDocNode(d)); msg != "" {
		res.Violate("harness/serializer", "%s", msg)
		return
	}
	seconds := c38SamplerNT(&d.Default)
	types := map[string]bool{d.Default.Type: true}
	for i := range d.Datasets {
		if c38SamplerNT(&d.Datasets[i].Sampler) {
			seconds = true
		}
		types[d.Datasets[i].Sampler.Type] = true
	}
	for _, t := range c38SamplerTypes {
		if types[t] {
			res.Class("sampler=" + t)
		}
	}
	if seconds {
		res.Class("has-seconds-parameter")
	}
	// non-trivial: a per-dataset sampler besides the default and a parameter in seconds
	res.NonTrivial = len(d.Datasets) >= 1 && seconds

	compared := false
	for iter := 0; iter < 6; iter++ {
		pr := c38RulesPipeline(c.Format, d)
		if pr.Verdict == "" {
			diffs := c38CompareRules(d, pr.Loaded.Cfg.GetAllSamplerRules())
			for _, df := range diffs {
				res.Violate(fmt.Sprintf("C38/rules/%s/%s/%s/%s", c.Format, df.Sampler, df.Item, df.Verdict), "%s keys, %s input: %s", d.KeyStyle, c.Format, df.Detail)
			}
			compared = true
			break
		}
		res.Class("pipeline-" + pr.Verdict)
		// which units (default sampler, each dataset) fail on their own?
		progressed := false
		units := []*c38Sampler{&d.Default}
		for i := range d.Datasets {
			units = append(units, &d.Datasets[i].Sampler)
		}
		for _, u := range units {
			upr := pr // a single unit is the document
			if len(units) > 1 {
				upr = c38RulesPipeline(c.Format, &c38RuleDoc{KeyStyle: d.KeyStyle, Default: *u})
			}
			if upr.Verdict == "" {
				continue
			}
			peel := c38NewPeel()
			c38BlameUnit(c.Format, d.KeyStyle, *u, res, peel, upr.Verdict, upr.Detail)
			if !peel.empty() {
				*u = c38ApplyPeel(*u, peel)
				progressed = true
			}
		}
		if !progressed {
			res.Violate(fmt.Sprintf("C38/rules/%s/document/unattributed/%s", c.Format, pr.Verdict), "the whole v1 rules file fails (%s) but no sampler definition does on its own", pr.Detail)
			break
		}
	}
	if compared {
		res.Class("values-compared")
	} else {
		res.Class("values-not-compared")
	}
}

// ---------------------------------------------------------------- entry

func execC38(c c38Case) vkit.Result {
	var res vkit.Result
	switch c.Kind {
	case "rules":
		execC38Rules(c, &res)
	default:
		execC38Config(c, &res)
	}
	// violations in a deterministic order
	sort.SliceStable(res.Violations, func(i, j int) bool { return res.Violations[i].Signature < res.Violations[j].Signature })
	return res
}

func TestC38(t *testing.T) {
	tab, err := c38LoadTable()
	if err != nil {
		t.Fatalf("C38: cannot build the domain table: %v", err)
	}
	if _, err := c38Binary(); err != nil {
		t.Fatalf("C38: %v", err)
	}
	c38Baseline()
	t.Cleanup(func() {
		if c38WorkDir != "" {
			_ = os.RemoveAll(c38WorkDir)
		}
	})
	vkit.Run(t, vkit.Spec[c38Case]{
		ID:   "C38",
		Rule: "rapid-generated v1 documents in TOML, YAML or JSON: config cases hold 1-40 settings drawn from the converter's domain (template helper calls x metadata v1 names x keys documented in config_complete.1.x.toml) with values valid for the v2 type; rules cases hold a default sampler and 0-4 dataset samplers of the five v1 types with rules, conditions, downstream samplers and second-valued parameters, in three key spellings. Each is converted by the built tools/convert binary, loaded through config.NewConfig, and every generated setting is compared with the effective v2 value under the documented unit change; failing settings are attributed by isolation, peeled off and the rest is still judged. Non-trivial: config case with >=5 live settings including one renamed and one unit/type-converted (seconds, bytes, conditional); rules case with >=1 dataset sampler and >=1 parameter given in seconds. Distinct = distinct case JSON.",
		Assumptions: []string{
			"a v1 setting is in the domain only if its v1 path is documented in config_complete.1.x.toml (v2-only template keys read by bare name are not v1 settings)",
			"the meaning of a v1 value in v2 is identity except integer seconds -> duration and integer bytes -> memory size; selector keys (Metrics, APIKeys, GRPCListenAddr) turn on the v2 flag the template documents",
			"zero values are not generated (the v2 loader cannot tell an explicit zero from an absent key); strings contain no '$' (v2 expands ${VAR})",
			"settings the template/metadata mark as removed may disappear but must not break the conversion of the others",
			"v1 keys are case-insensitive (viper), so lower-case and Capitalised spellings of rules keys are valid v1",
		},
		Gen:  genC38,
		Exec: execC38,
		Extra: func() map[string]any {
			return map[string]any{
				"domain_settings":                         fmt.Sprint(len(tab.Settings)),
				"template_calls":                          fmt.Sprint(len(tab.Calls)),
				"crosscheck_notes":                        c38SortedNotes(tab),
				"template_removed":                        tab.RemovedTxt,
				"v1_reference_keys_not_read_by_converter": tab.Unread,
				"tree_under_test":                         tab.Repo,
				"converter_runs":                          c38Stat.Converts,
				"converter_time_s":                        c38Stat.ConvertTime.Seconds(),
				"v2_loads":                                c38Stat.Loads,
				"v2_load_time_s":                          c38Stat.LoadTime.Seconds(),
			}
		},
	})
}
